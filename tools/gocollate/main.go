// gocollate: a purely syntactic translator of the dispatch TABLES of v4/agent/collator.go to Coq data
// (coq/GenCollate.v, pure data that always compiles; the lemmas about it are in the late file coq/GenC07.v):
//
//	gocollate <repo root> <output .v file>
//
//  1. getType: the ordered chain of rewrites of the type name (TrimPrefix, "if HasPrefix(result, p) { result = n }",
//     the cut at "[", the "interface {}" test); any other statement becomes GUnknown "<text>".
//  2. rankIntrinsics: per case of the switch on first.Kind(): the kinds, and for EACH operand the Go conversion and
//     the reflect getter applied (int64(first.Int())), and the ranking function called.
//  3. compareIntrinsics: the same for its inner switch; the fall-through comparison.
//  4. rankValues / compareValues: the statements before the switch on the kind (their text without string literals)
//     and per case the kinds and the functions called on the two operands (nested switches flattened, in order).
package main

import (
	"bytes"
	"fmt"
	"go/ast"
	"go/parser"
	"go/printer"
	"go/token"
	"os"
	"path/filepath"
	"strings"
)

var fset = token.NewFileSet()

func text(n ast.Node) string {
	var b bytes.Buffer
	printer.Fprint(&b, fset, n)
	return strings.Join(strings.Fields(b.String()), " ")
}
func q(s string) string { return "\"" + strings.ReplaceAll(s, "\"", "\"\"") + "\"" }
func unq(l *ast.BasicLit) string {
	s := l.Value
	return strings.Trim(s, "\"`")
}
func qs(ss []string) string {
	var r []string
	for _, s := range ss {
		r = append(r, q(s))
	}
	return "[" + strings.Join(r, "; ") + "]"
}

// sts.F(result, "lit")
func stsCall(e ast.Expr, fn string) (string, bool) {
	c, ok := e.(*ast.CallExpr)
	if !ok || len(c.Args) != 2 {
		return "", false
	}
	s, ok := c.Fun.(*ast.SelectorExpr)
	if !ok || s.Sel.Name != fn {
		return "", false
	}
	if id, ok := c.Args[0].(*ast.Ident); !ok || id.Name != "result" {
		return "", false
	}
	l, ok := c.Args[1].(*ast.BasicLit)
	if !ok || l.Kind != token.STRING {
		return "", false
	}
	return unq(l), true
}

func assignResultLit(s ast.Stmt) (string, bool) {
	a, ok := s.(*ast.AssignStmt)
	if !ok || len(a.Lhs) != 1 || len(a.Rhs) != 1 || a.Tok != token.ASSIGN {
		return "", false
	}
	if id, ok := a.Lhs[0].(*ast.Ident); !ok || id.Name != "result" {
		return "", false
	}
	l, ok := a.Rhs[0].(*ast.BasicLit)
	if !ok || l.Kind != token.STRING {
		return "", false
	}
	return unq(l), true
}

func getTypeChain(fd *ast.FuncDecl) []string {
	var r []string
	ss := fd.Body.List
	for i := 0; i < len(ss); i++ {
		s := ss[i]
		switch x := s.(type) {
		case *ast.DeclStmt:
			if text(x) == "var result = type_.String()" {
				r = append(r, "GStart")
				continue
			}
			// var index = sts.Index(result, "[") ; if index > -1 { result = result[:index] }
			if strings.HasPrefix(text(x), "var index = sts.Index(result, ") && i+1 < len(ss) {
				g := x.Decl.(*ast.GenDecl).Specs[0].(*ast.ValueSpec)
				if p, ok := stsCall(g.Values[0], "Index"); ok && text(ss[i+1]) == "if index > -1 { result = result[:index] }" {
					r = append(r, "GCutAt "+q(p))
					i++
					continue
				}
			}
		case *ast.AssignStmt:
			if len(x.Lhs) == 1 && len(x.Rhs) == 1 && text(x.Lhs[0]) == "result" {
				if p, ok := stsCall(x.Rhs[0], "TrimPrefix"); ok {
					r = append(r, "GTrimPrefix "+q(p))
					continue
				}
			}
		case *ast.IfStmt:
			if x.Init == nil && x.Else == nil && len(x.Body.List) == 1 {
				if n, ok := assignResultLit(x.Body.List[0]); ok {
					if p, ok := stsCall(x.Cond, "HasPrefix"); ok {
						r = append(r, fmt.Sprintf("GIfPrefix %s %s", q(p), q(n)))
						continue
					}
					if b, ok := x.Cond.(*ast.BinaryExpr); ok && b.Op == token.EQL && text(b.X) == "result" {
						if l, ok := b.Y.(*ast.BasicLit); ok && l.Kind == token.STRING {
							r = append(r, fmt.Sprintf("GIfEq %s %s", q(unq(l)), q(n)))
							continue
						}
					}
				}
			}
		case *ast.ReturnStmt:
			if text(x) == "return result" {
				r = append(r, "GReturn")
				continue
			}
		}
		r = append(r, "GUnknown "+q(text(s)))
	}
	return r
}

func kindsOf(cc *ast.CaseClause) []string {
	var ks []string
	for _, e := range cc.List {
		if s, ok := e.(*ast.SelectorExpr); ok {
			ks = append(ks, s.Sel.Name)
		} else {
			ks = append(ks, "?"+text(e))
		}
	}
	return ks
}

// T(first.M())  ->  (operand, T, M)
func conversion(e ast.Expr) (string, string, string, bool) {
	c, ok := e.(*ast.CallExpr)
	if !ok || len(c.Args) != 1 {
		return "", "", "", false
	}
	t, ok := c.Fun.(*ast.Ident)
	if !ok {
		return "", "", "", false
	}
	in, ok := c.Args[0].(*ast.CallExpr)
	if !ok || len(in.Args) != 0 {
		return "", "", "", false
	}
	s, ok := in.Fun.(*ast.SelectorExpr)
	if !ok {
		return "", "", "", false
	}
	op, ok := s.X.(*ast.Ident)
	if !ok {
		return "", "", "", false
	}
	return op.Name, t.Name, s.Sel.Name, true
}

// calls v.f(...) inside a node, in source order
func callees(n ast.Node, recv string) []string {
	var r []string
	ast.Inspect(n, func(m ast.Node) bool {
		if c, ok := m.(*ast.CallExpr); ok {
			if s, ok := c.Fun.(*ast.SelectorExpr); ok {
				if id, ok := s.X.(*ast.Ident); ok && id.Name == recv {
					r = append(r, s.Sel.Name)
				}
			}
		}
		return true
	})
	return r
}

func kindSwitch(fd *ast.FuncDecl) (*ast.SwitchStmt, []ast.Stmt) {
	var pre []ast.Stmt
	var find func(ss []ast.Stmt) *ast.SwitchStmt
	find = func(ss []ast.Stmt) *ast.SwitchStmt {
		for _, s := range ss {
			if sw, ok := s.(*ast.SwitchStmt); ok && sw.Tag != nil && strings.HasSuffix(text(sw.Tag), ".Kind()") {
				return sw
			}
			if is, ok := s.(*ast.IfStmt); ok {
				if sw := find(is.Body.List); sw != nil {
					return sw
				}
			}
		}
		return nil
	}
	for _, s := range fd.Body.List {
		if sw, ok := s.(*ast.SwitchStmt); ok && sw.Tag != nil && strings.HasSuffix(text(sw.Tag), ".Kind()") {
			return sw, pre
		}
		pre = append(pre, s)
	}
	return find(fd.Body.List), nil
}

func noLiterals(n ast.Node) string {
	t := text(n)
	// drop the contents of string literals
	var b strings.Builder
	in := false
	for _, r := range t {
		if r == '"' {
			in = !in
			b.WriteRune(r)
			continue
		}
		if !in {
			b.WriteRune(r)
		}
	}
	return b.String()
}

func main() {
	if len(os.Args) != 3 {
		fmt.Fprintln(os.Stderr, "usage: gocollate <repo root> <output .v>")
		os.Exit(2)
	}
	src := filepath.Join(os.Args[1], "v4", "agent", "collator.go")
	file, err := parser.ParseFile(fset, src, nil, 0)
	if err != nil {
		fmt.Fprintln(os.Stderr, "gocollate:", err)
		os.Exit(2)
	}
	funcs := map[string]*ast.FuncDecl{}
	recv := map[string]string{}
	for _, d := range file.Decls {
		if fd, ok := d.(*ast.FuncDecl); ok && fd.Recv != nil && len(fd.Recv.List) == 1 && len(fd.Recv.List[0].Names) == 1 {
			funcs[fd.Name.Name] = fd
			recv[fd.Name.Name] = fd.Recv.List[0].Names[0].Name
		}
	}
	var b strings.Builder
	b.WriteString("(* GENERATED by tools/gocollate from v4/agent/collator.go on every run of ./check — do not edit. *)\n")
	b.WriteString("From Coq Require Import List String.\nImport ListNotations.\nOpen Scope string_scope.\n\n")
	b.WriteString("Inductive gtstep := GStart | GTrimPrefix (p : string) | GIfPrefix (p n : string) | GIfEq (s n : string) | GCutAt (p : string) | GReturn | GUnknown (text : string).\n")
	b.WriteString("(* one case of a switch on the kind: kinds, (conversion, getter) of the first and of the second operand, function called *)\n")
	b.WriteString("Record gconv := { gc_kinds : list string; gc_first : string * string; gc_second : string * string; gc_callee : list string }.\n")
	b.WriteString("Record gdisp := { gd_kinds : list string; gd_calls : list string }.\n\n")
	where := func(n string) string {
		if fd, ok := funcs[n]; ok {
			return fmt.Sprintf("(* %s, collator.go:%d *)", n, fset.Position(fd.Pos()).Line)
		}
		return "(* " + n + ", missing *)"
	}
	// 1. getType
	chain := []string{"GUnknown \"function not found\""}
	if fd, ok := funcs["getType"]; ok {
		chain = getTypeChain(fd)
	}
	fmt.Fprintf(&b, "Definition gen_getType : list gtstep := %s\n  [%s].\n\n", where("getType"), strings.Join(chain, ";\n   "))
	// 2./3. conversions
	convTable := func(name string) {
		var rows []string
		var dflt []string
		if fd, ok := funcs[name]; ok {
			sw, _ := kindSwitch(fd)
			if sw != nil {
				for _, cl := range sw.Body.List {
					cc := cl.(*ast.CaseClause)
					if cc.List == nil {
						dflt = callees(cc, recv[name])
						continue
					}
					first, second := [2]string{"", ""}, [2]string{"", ""}
					ast.Inspect(cc, func(m ast.Node) bool {
						if e, ok := m.(ast.Expr); ok {
							if op, t, g, ok := conversion(e); ok {
								if op == "first" && first[0] == "" {
									first = [2]string{t, g}
								}
								if op == "second" && second[0] == "" {
									second = [2]string{t, g}
								}
								return false
							}
							// a getter without conversion: first.Float()
							if c, ok := e.(*ast.CallExpr); ok && len(c.Args) == 0 {
								if s, ok := c.Fun.(*ast.SelectorExpr); ok {
									if id, ok := s.X.(*ast.Ident); ok {
										if id.Name == "first" && first[1] == "" {
											first = [2]string{"", s.Sel.Name}
										}
										if id.Name == "second" && second[1] == "" {
											second = [2]string{"", s.Sel.Name}
										}
									}
								}
							}
						}
						return true
					})
					rows = append(rows, fmt.Sprintf("{| gc_kinds := %s; gc_first := (%s, %s); gc_second := (%s, %s); gc_callee := %s |}",
						qs(kindsOf(cc)), q(first[0]), q(first[1]), q(second[0]), q(second[1]), qs(callees(cc, recv[name]))))
				}
			}
		}
		fmt.Fprintf(&b, "Definition gen_%s : list gconv := %s\n  [%s].\nDefinition gen_%s_default : list string := %s.\n\n", name, where(name), strings.Join(rows, ";\n   "), name, qs(dflt))
	}
	convTable("rankIntrinsics")
	convTable("compareIntrinsics")
	// 4. dispatch on the kind
	dispTable := func(name string) {
		var rows, pre []string
		if fd, ok := funcs[name]; ok {
			sw, ps := kindSwitch(fd)
			for _, s := range ps {
				pre = append(pre, noLiterals(s))
			}
			if sw != nil {
				for _, cl := range sw.Body.List {
					cc := cl.(*ast.CaseClause)
					ks := kindsOf(cc)
					if cc.List == nil {
						ks = []string{"default"}
					}
					var calls []string
					for _, s := range cc.Body {
						calls = append(calls, callees(s, recv[name])...)
						if is, ok := s.(*ast.ExprStmt); ok && strings.HasPrefix(text(is), "panic(") {
							calls = append(calls, "panic")
						}
					}
					rows = append(rows, fmt.Sprintf("{| gd_kinds := %s; gd_calls := %s |}", qs(ks), qs(calls)))
				}
			}
		}
		fmt.Fprintf(&b, "Definition gen_%s_prelude : list string := %s\n  %s.\nDefinition gen_%s : list gdisp :=\n  [%s].\n\n", name, where(name), qs(pre), name, strings.Join(rows, ";\n   "))
	}
	dispTable("rankValues")
	dispTable("compareValues")
	if old, err := os.ReadFile(os.Args[2]); err == nil && string(old) == b.String() {
		// unchanged: leave the file (and its time stamp) alone, so that nothing that depends on it is compiled again
	} else if err := os.WriteFile(os.Args[2], []byte(b.String()), 0o644); err != nil {
		fmt.Fprintln(os.Stderr, "gocollate:", err)
		os.Exit(2)
	}
	fmt.Printf("gocollate: getType chain of %d steps, tables of rankIntrinsics, compareIntrinsics, rankValues, compareValues -> %s\n", len(chain), os.Args[2])
}
