module gocollate

go 1.23
