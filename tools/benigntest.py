#!/usr/bin/env python3
"""benigntest.py [Hnn ...]: apply seeded/benign/Hnn/patch.diff (a change that keeps every property true) to /repo,
run the quick check of every property the change touches (meta.json 'touches_properties'; all 20 with --all), undo it.
Any exit 1 / VIOLATION line is a false alarm of the machinery (or a proof obligation broken by a harmless rewrite,
which must then end in no-failing-input-found).  Not a registered check."""
import glob, json, os, subprocess, sys, time
ROOT = os.path.join(os.path.dirname(os.path.abspath(__file__)), '..')
ALL = ['C%02d' % i for i in range(1, 21)]
args = [a for a in sys.argv[1:] if not a.startswith('--')]
ids = args or sorted(os.path.basename(d) for d in glob.glob(os.path.join(ROOT, 'seeded', 'benign', 'H*')))
def sh(cmd, cwd=None, timeout=3000):
    p = subprocess.run(cmd, shell=True, cwd=cwd, stdout=subprocess.PIPE, stderr=subprocess.STDOUT, text=True, timeout=timeout)
    return p.returncode, p.stdout
for hid in ids:
    d = os.path.join(ROOT, 'seeded', 'benign', hid)
    meta = json.load(open(os.path.join(d, 'meta.json')))
    props = ALL if '--all' in sys.argv else (meta.get('touches_properties') or ALL)
    rc, out = sh('git -C /repo status --porcelain')
    assert not out.strip(), '/repo not clean'
    rc, out = sh('git -C /repo apply %s/patch.diff' % d)
    assert rc == 0, out
    res = {}
    try:
        for p in props:
            t0 = time.time()
            rc, out = sh('./check %s --tier quick' % p, cwd=ROOT)
            res[p] = dict(exit=rc, lines=[l for l in out.split('\n') if l.startswith('VIOLATION') or l.startswith('KNOWN-FINDING')][:4], wall_s=round(time.time() - t0, 1),
                          tail=out[-400:] if rc not in (0, 1) else '')
            print(hid, p, rc, res[p]['lines'][:2], flush=True)
    finally:
        sh('git -C /repo checkout -- .')
    json.dump(res, open(os.path.join(d, 'result.json'), 'w'), indent=1)
