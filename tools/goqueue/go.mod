module goqueue

go 1.23
