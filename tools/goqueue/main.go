// goqueue: a purely syntactic translator from the method bodies of queue_ in
// v4/collection/queue.go to terms of the micro-language of coq/QueueLang.v.
//
//	goqueue <repo root> <output .v file>
//
// One Go statement becomes one constructor; nothing is simplified or interpreted.  A statement
// outside the subset becomes SUnknown "<its text>", so that the generated file always compiles and
// the proof obligations about it (coq/GenC04.v) are what fails.  Also emitted: every assignment
// to a field of the receiver inside a method (there must be none: the fields of a queue are
// written by its constructor only) and the methods found.
package main

import (
	"bytes"
	"fmt"
	"go/ast"
	"go/parser"
	"go/printer"
	"go/token"
	"os"
	"path/filepath"
	"sort"
	"strings"
)

var fset = token.NewFileSet()

func text(n ast.Node) string {
	var b bytes.Buffer
	printer.Fprint(&b, fset, n)
	return strings.Join(strings.Fields(b.String()), " ")
}

func coqString(s string) string {
	return "\"" + strings.ReplaceAll(s, "\"", "\"\"") + "\""
}

// recvField(e, recv, f): is e the expression recv.f ?
func isRecvField(e ast.Expr, recv, f string) bool {
	s, ok := e.(*ast.SelectorExpr)
	if !ok || s.Sel.Name != f {
		return false
	}
	id, ok := s.X.(*ast.Ident)
	return ok && id.Name == recv
}

// method call recv.field.Method(args)
func fieldCall(e ast.Expr, recv, field, method string) (*ast.CallExpr, bool) {
	c, ok := e.(*ast.CallExpr)
	if !ok {
		return nil, false
	}
	s, ok := c.Fun.(*ast.SelectorExpr)
	if !ok || s.Sel.Name != method || !isRecvField(s.X, recv, field) {
		return nil, false
	}
	return c, true
}

func isIdent(e ast.Expr, name string) bool {
	id, ok := e.(*ast.Ident)
	return ok && id.Name == name
}

func isIntLit(e ast.Expr, v string) bool {
	b, ok := e.(*ast.BasicLit)
	return ok && b.Kind == token.INT && b.Value == v
}

// <-recv.available_
func isRecvFromChan(e ast.Expr, recv string) bool {
	u, ok := e.(*ast.UnaryExpr)
	return ok && u.Op == token.ARROW && isRecvField(u.X, recv, role["chan"])
}

// len(recv.available_)
func isLenChan(e ast.Expr, recv string) bool {
	c, ok := e.(*ast.CallExpr)
	return ok && isIdent(c.Fun, "len") && len(c.Args) == 1 && isRecvField(c.Args[0], recv, role["chan"])
}

type tr struct {
	recv   string
	writes []string          // fields of the receiver assigned in this method
	canon  map[string]string // local name -> canonical name ("ok": the flag of the receive, "head": the popped value, "value": the parameter)
}

// the fields of queue_ by ROLE (found by their types in the struct declaration, so that renaming a
// private field is not a change of the program): chan -> the token channel, mutex, list, capacity
var role = map[string]string{}

func (t *tr) cn(name string) string {
	if c, ok := t.canon[name]; ok {
		return c
	}
	return name
}

func (t *tr) isCanon(e ast.Expr, want string) bool {
	id, ok := e.(*ast.Ident)
	return ok && t.cn(id.Name) == want
}

func roleOf(field string) string {
	for r, f := range role {
		if f == field {
			return r
		}
	}
	return field
}

// canonical names of the locals of one method, found by what they are used for
func canonLocals(fd *ast.FuncDecl, recv string) map[string]string {
	m := map[string]string{}
	if fd.Type.Params != nil && len(fd.Type.Params.List) == 1 && len(fd.Type.Params.List[0].Names) == 1 {
		m[fd.Type.Params.List[0].Names[0].Name] = "value"
	}
	ast.Inspect(fd.Body, func(n ast.Node) bool {
		a, ok := n.(*ast.AssignStmt)
		if !ok {
			return true
		}
		if len(a.Lhs) == 2 && len(a.Rhs) == 1 && isIdent(a.Lhs[0], "_") && isRecvFromChan(a.Rhs[0], recv) {
			if id, ok := a.Lhs[1].(*ast.Ident); ok {
				m[id.Name] = "ok"
			}
		}
		if len(a.Lhs) == 1 && len(a.Rhs) == 1 {
			if cc, ok := fieldCall(a.Rhs[0], recv, role["list"], "RemoveValue"); ok && len(cc.Args) == 1 && isIntLit(cc.Args[0], "1") {
				if id, ok := a.Lhs[0].(*ast.Ident); ok {
					m[id.Name] = "head"
				}
			}
		}
		return true
	})
	return m
}

func (t *tr) unknown(n ast.Node) string { return "SUnknown " + coqString(text(n)) }

func (t *tr) block(stmts []ast.Stmt) string {
	var parts []string
	for _, s := range stmts {
		parts = append(parts, t.stmt(s))
	}
	return "[" + strings.Join(parts, "; ") + "]"
}

func (t *tr) noteWrites(lhs []ast.Expr) {
	for _, l := range lhs {
		if s, ok := l.(*ast.SelectorExpr); ok {
			if id, ok := s.X.(*ast.Ident); ok && id.Name == t.recv {
				t.writes = append(t.writes, s.Sel.Name)
			}
		}
	}
}

// the receive forms:  _, ok = <-v.available_   /  _, ok := <-v.available_
func (t *tr) isRecvAssign(a *ast.AssignStmt) bool {
	return len(a.Lhs) == 2 && len(a.Rhs) == 1 && isIdent(a.Lhs[0], "_") && t.isCanon(a.Lhs[1], "ok") && isRecvFromChan(a.Rhs[0], t.recv)
}

func (t *tr) stmt(s ast.Stmt) string {
	switch x := s.(type) {
	case *ast.ExprStmt:
		if c, ok := x.X.(*ast.CallExpr); ok {
			if isIdent(c.Fun, "verifYield") && len(c.Args) == 2 {
				if b, ok := c.Args[0].(*ast.BasicLit); ok && b.Kind == token.INT && (isIdent(c.Args[1], t.recv) || isIdent(c.Args[1], "nil")) {
					return "SYield " + b.Value
				}
			}
			if isIdent(c.Fun, "close") && len(c.Args) == 1 && isRecvField(c.Args[0], t.recv, role["chan"]) {
				return "SClose"
			}
			if cc, ok := fieldCall(x.X, t.recv, role["mutex"], "Lock"); ok && len(cc.Args) == 0 {
				return "SLock"
			}
			if cc, ok := fieldCall(x.X, t.recv, role["mutex"], "Unlock"); ok && len(cc.Args) == 0 {
				return "SUnlock"
			}
			if cc, ok := fieldCall(x.X, t.recv, role["list"], "AppendValue"); ok && len(cc.Args) == 1 && t.isCanon(cc.Args[0], "value") {
				return "SAppend"
			}
			if cc, ok := fieldCall(x.X, t.recv, role["list"], "RemoveValue"); ok && len(cc.Args) == 1 && isIntLit(cc.Args[0], "1") {
				return "SPopHead false"
			}
		}
		return t.unknown(s)
	case *ast.SendStmt:
		if isRecvField(x.Chan, t.recv, role["chan"]) && isIdent(x.Value, "true") {
			return "SSend"
		}
		return t.unknown(s)
	case *ast.AssignStmt:
		t.noteWrites(x.Lhs)
		if t.isRecvAssign(x) && x.Tok == token.ASSIGN {
			return "SRecv"
		}
		if len(x.Lhs) == 1 && len(x.Rhs) == 1 && x.Tok == token.ASSIGN && t.isCanon(x.Lhs[0], "head") {
			if cc, ok := fieldCall(x.Rhs[0], t.recv, role["list"], "RemoveValue"); ok && len(cc.Args) == 1 && isIntLit(cc.Args[0], "1") {
				return "SPopHead true"
			}
		}
		return t.unknown(s)
	case *ast.DeclStmt:
		g, ok := x.Decl.(*ast.GenDecl)
		if !ok || g.Tok != token.VAR || len(g.Specs) != 1 {
			return t.unknown(s)
		}
		vs := g.Specs[0].(*ast.ValueSpec)
		if len(vs.Names) != 1 {
			return t.unknown(s)
		}
		name := vs.Names[0].Name
		if len(vs.Values) == 0 {
			// var head V / var ok bool: zero-valued locals
			if t.cn(name) == "head" || t.cn(name) == "ok" {
				return "SDecl " + coqString(t.cn(name))
			}
			return t.unknown(s)
		}
		if len(vs.Values) != 1 {
			return t.unknown(s)
		}
		v := vs.Values[0]
		if isLenChan(v, t.recv) {
			return "SLenChan " + coqString(name)
		}
		if b, ok := v.(*ast.BinaryExpr); ok && b.Op == token.EQL && isLenChan(b.X, t.recv) && isIntLit(b.Y, "0") {
			return "SLenChanIsZero " + coqString(name)
		}
		if cc, ok := fieldCall(v, t.recv, role["list"], "AsArray"); ok && len(cc.Args) == 0 {
			return "SSnapArray " + coqString(name)
		}
		if cc, ok := fieldCall(v, t.recv, role["list"], "GetIterator"); ok && len(cc.Args) == 0 {
			return "SSnapIter " + coqString(name)
		}
		return t.unknown(s)
	case *ast.IfStmt:
		if x.Init != nil {
			return t.unknown(s)
		}
		cond := ""
		if t.isCanon(x.Cond, "ok") {
			cond = "COk"
		} else if u, ok := x.Cond.(*ast.UnaryExpr); ok && u.Op == token.NOT && t.isCanon(u.X, "ok") {
			cond = "CNotOk"
		} else {
			return t.unknown(s)
		}
		els := "[]"
		if x.Else != nil {
			b, ok := x.Else.(*ast.BlockStmt)
			if !ok {
				return t.unknown(s)
			}
			els = t.block(b.List)
		}
		return "SIf " + cond + " " + t.block(x.Body.List) + " " + els
	case *ast.ForStmt:
		if x.Init == nil && x.Cond == nil && x.Post == nil {
			return "SForever " + t.block(x.Body.List)
		}
		return t.unknown(s)
	case *ast.SelectStmt:
		// select { case _, ok := <-v.available_: A   default: B }
		if len(x.Body.List) != 2 {
			return t.unknown(s)
		}
		var onRecv, onDefault *ast.CommClause
		for _, c := range x.Body.List {
			cc := c.(*ast.CommClause)
			if cc.Comm == nil {
				onDefault = cc
			} else if a, ok := cc.Comm.(*ast.AssignStmt); ok && a.Tok == token.DEFINE && t.isRecvAssign(a) {
				onRecv = cc
			}
		}
		if onRecv == nil || onDefault == nil {
			return t.unknown(s)
		}
		return "SSelectRecv " + t.block(onRecv.Body) + " " + t.block(onDefault.Body)
	case *ast.ReturnStmt:
		var names []string
		for _, r := range x.Results {
			switch y := r.(type) {
			case *ast.Ident:
				names = append(names, t.cn(y.Name))
			case *ast.SelectorExpr:
				if id, ok := y.X.(*ast.Ident); ok && id.Name == t.recv {
					names = append(names, "."+roleOf(y.Sel.Name))
				} else {
					return t.unknown(s)
				}
			default:
				return t.unknown(s)
			}
		}
		var q []string
		for _, n := range names {
			q = append(q, coqString(n))
		}
		return "SReturn [" + strings.Join(q, "; ") + "]"
	case *ast.BlockStmt:
		return t.unknown(s)
	}
	return t.unknown(s)
}

func main() {
	if len(os.Args) != 3 {
		fmt.Fprintln(os.Stderr, "usage: goqueue <repo root> <out.v>")
		os.Exit(2)
	}
	src := filepath.Join(os.Args[1], "v4", "collection", "queue.go")
	f, err := parser.ParseFile(fset, src, nil, 0)
	if err != nil {
		fmt.Fprintln(os.Stderr, "goqueue:", err)
		os.Exit(3)
	}
	// the roles of the fields of queue_, by type
	for _, d := range f.Decls {
		g, ok := d.(*ast.GenDecl)
		if !ok || g.Tok != token.TYPE {
			continue
		}
		for _, sp := range g.Specs {
			ts := sp.(*ast.TypeSpec)
			st, ok := ts.Type.(*ast.StructType)
			if !ok || ts.Name.Name != "queue_" {
				continue
			}
			for _, fl := range st.Fields.List {
				ty := text(fl.Type)
				for _, n := range fl.Names {
					switch {
					case strings.HasPrefix(ty, "chan "):
						role["chan"] = n.Name
					case strings.HasSuffix(ty, ".Mutex"):
						role["mutex"] = n.Name
					case strings.HasPrefix(ty, "ListLike["):
						role["list"] = n.Name
					case ty == "uint":
						role["capacity"] = n.Name
					case strings.HasPrefix(ty, "QueueClassLike["):
						role["class"] = n.Name
					}
				}
			}
		}
	}
	for _, r := range []string{"chan", "mutex", "list", "capacity"} {
		if role[r] == "" {
			role[r] = "?no " + r + " field in queue_"
		}
	}
	type method struct {
		name, body, line string
		writes           []string
	}
	var methods []method
	for _, d := range f.Decls {
		fd, ok := d.(*ast.FuncDecl)
		if !ok || fd.Recv == nil || len(fd.Recv.List) != 1 || fd.Body == nil {
			continue
		}
		// receiver (v *queue_[V])
		star, ok := fd.Recv.List[0].Type.(*ast.StarExpr)
		if !ok {
			continue
		}
		base := star.X
		if ix, ok := base.(*ast.IndexExpr); ok {
			base = ix.X
		}
		if !isIdent(base, "queue_") || len(fd.Recv.List[0].Names) != 1 {
			continue
		}
		t := &tr{recv: fd.Recv.List[0].Names[0].Name}
		t.canon = canonLocals(fd, t.recv)
		body := t.block(fd.Body.List)
		// assignments to receiver fields anywhere in the body (nested too)
		ast.Inspect(fd.Body, func(n ast.Node) bool {
			switch y := n.(type) {
			case *ast.AssignStmt:
				t2 := &tr{recv: t.recv}
				t2.noteWrites(y.Lhs)
				t.writes = append(t.writes, t2.writes...)
			case *ast.IncDecStmt:
				t2 := &tr{recv: t.recv}
				t2.noteWrites([]ast.Expr{y.X})
				t.writes = append(t.writes, t2.writes...)
			}
			return true
		})
		seen := map[string]bool{}
		var w []string
		for _, x := range t.writes {
			if !seen[x] {
				seen[x] = true
				w = append(w, x)
			}
		}
		sort.Strings(w)
		methods = append(methods, method{fd.Name.Name, body, fmt.Sprintf("%d", fset.Position(fd.Pos()).Line), w})
	}
	// the methods the model speaks about always get a definition (a missing one is a body the proofs reject)
	for _, want := range []string{"AddValue", "RemoveAll", "RemoveHead", "CloseQueue", "IsEmpty", "GetSize", "AsArray", "GetIterator", "GetCapacity"} {
		found := false
		for _, m := range methods {
			if m.name == want {
				found = true
			}
		}
		if !found {
			methods = append(methods, method{want, "[SUnknown \"method not found\"]", "0", nil})
		}
	}
	sort.Slice(methods, func(i, j int) bool { return methods[i].name < methods[j].name })
	var out bytes.Buffer
	out.WriteString("(* GENERATED by tools/goqueue from v4/collection/queue.go — do not edit. *)\n")
	out.WriteString("From Coq Require Import ZArith List String.\nFrom Verif Require Import QueueLang.\nImport ListNotations.\nOpen Scope Z_scope.\nOpen Scope string_scope.\n")
	var names, writes []string
	for _, m := range methods {
		fmt.Fprintf(&out, "Definition gen_%s : list qstmt := (* queue.go:%s *)\n  %s.\n", m.name, m.line, m.body)
		names = append(names, coqString(m.name))
		for _, w := range m.writes {
			writes = append(writes, "("+coqString(m.name)+", "+coqString(w)+")")
		}
	}
	fmt.Fprintf(&out, "Definition gen_methods : list (string * list qstmt) := [%s].\n", func() string {
		var p []string
		for _, m := range methods {
			p = append(p, "("+coqString(m.name)+", gen_"+m.name+")")
		}
		return strings.Join(p, "; ")
	}())
	fmt.Fprintf(&out, "Definition gen_field_writes : list (string * string) := [%s].\n", strings.Join(writes, "; "))
	_ = names
	old, _ := os.ReadFile(os.Args[2])
	if !bytes.Equal(old, out.Bytes()) {
		if err := os.WriteFile(os.Args[2], out.Bytes(), 0o644); err != nil {
			fmt.Fprintln(os.Stderr, "goqueue:", err)
			os.Exit(3)
		}
		fmt.Println("goqueue: wrote", os.Args[2])
	} else {
		fmt.Println("goqueue: unchanged")
	}
}
