#!/bin/sh
# Fails when the Coq tree contains anything that would weaken the kernel's guarantee.
# usage: hygiene.sh <coq-dir>
dir="$1"
bad=$(grep -nE '\b(Admitted|admit|Axiom|Axioms|Parameter|Parameters|Conjecture|Conjectures|Admit Obligations)\b|Unset Guard Checking|Unset Positivity Checking|Unset Universe Checking|bypass_check|type-in-type|impredicative-set' "$dir"/*.v "$dir"/_CoqProject 2>/dev/null | grep -vE '^\S*Params(Foot)?\.v:' | grep -vE ':[0-9]+:\s*\(\*.*\*\)\s*$')
# Variable / Hypothesis outside a section are axioms too: checked by a small scan
sec=$(python3 - "$dir" <<'PY'
import re, sys, glob, os
bad = []
for f in sorted(glob.glob(os.path.join(sys.argv[1], '*.v'))):
    depth = 0
    txt = open(f, encoding='utf-8').read()
    txt = re.sub(r'\(\*.*?\*\)', '', txt, flags=re.S)
    for n, line in enumerate(txt.split('\n'), 1):
        if re.match(r'\s*Section\s+\w+', line): depth += 1
        elif re.match(r'\s*End\s+\w+\s*\.', line) and depth > 0: depth -= 1
        elif re.match(r'\s*(Variable|Variables|Hypothesis|Hypotheses|Context)\b', line) and depth == 0:
            bad.append('%s:%d: %s' % (f, n, line.strip()))
print('\n'.join(bad))
PY
)
if [ -n "$bad" ] || [ -n "$sec" ]; then
  echo "hygiene: forbidden constructs found:"
  echo "$bad"
  echo "$sec"
  exit 1
fi
echo "hygiene: ok"
