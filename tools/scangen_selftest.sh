#!/bin/sh
# Self-test of the regenerated scanner bookkeeping (tools/gopipes -> coq/GenPipes.v -> coq/GenC12.v):
# applies each seeded change to the library worktree ($VERIF_REPO), runs ./check on the property it was seeded for, records which
# lemma of GenC12.v breaks and what the replay says, reverts.  The harmless changes (seeded/benign/H06, H13) must raise nothing.
# usage: VERIF_REPO=<library worktree> tools/scangen_selftest.sh [out.md]
set -u
ROOT=$(cd "$(dirname "$0")/.." && pwd)
: "${VERIF_REPO:?set VERIF_REPO to a scratch worktree of the library}"
export GOFLAGS=-mod=mod GOPROXY=off GOSUMDB=off GOTOOLCHAIN=local VERIF_REPO
OUT=${1:-$ROOT/build/scangen_selftest.md}
mkdir -p "$ROOT/build"
echo "| change | check | exit | s | lemma of GenC12.v that no longer checks | what the replay says |" > "$OUT"
echo "|---|---|---|---|---|---|" >> "$OUT"
run() { # <seed dir> <property>
  seed=$1; prop=$2
  (cd "$VERIF_REPO" && git apply "$ROOT/seeded/$seed/patch.diff") || { echo "| $seed | $prop | patch does not apply | | | |" >> "$OUT"; return; }
  t0=$(date +%s)
  (cd "$ROOT" && timeout 1200 ./check "$prop" > "$ROOT/build/selftest-$prop.log" 2>&1); rc=$?
  t1=$(date +%s)
  (cd "$VERIF_REPO" && git checkout -- . && git clean -fdq)
  python3 - "$ROOT" "$prop" "$seed" "$rc" "$((t1-t0))" >> "$OUT" <<'PY'
import sys, json, glob, os, re
root, prop, seed, rc, secs = sys.argv[1:6]
log = open(os.path.join(root, 'build', 'selftest-%s.log' % prop)).read()
viol = re.findall(r'VIOLATION property=\S+ replay=(\S+)( no-failing-input-found)?', log)
lemmas, says = [], []
for path, nf in viol:
    try:
        r = json.load(open(path))
    except Exception:
        continue
    g = r.get('generated_code_explanation') or r
    if g.get('lemma_that_no_longer_checks'):
        lemmas.append('%s (%s)' % (g['lemma_that_no_longer_checks'], g.get('at')))
    if r.get('case') in ('pipesgen', 'queuegen', 'scangen'):
        for k in ('failing_sources_as_text', 'failing_source_on_the_regenerated_scanner', 'statements_outside_the_subset'):
            v = g.get(k)
            if v and v != []:
                says.append('%s: %s' % (k, (v if isinstance(v, str) else json.dumps(v))[:230]))
        if nf:
            says.append('no-failing-input-found')
    else:
        says.append('%s: %s' % (r.get('case'), str(r.get('what') or r.get('theorem_or_correspondence') or r.get('kind') or '')[:120]))
lem = '; '.join(sorted(set(lemmas))) or '-'
say = '<br>'.join(dict.fromkeys(says)) or ('nothing raised' if rc == '0' else log[-300:].replace('\n', ' '))
print('| %s | ./check %s | %s | %s | %s | %s |' % (seed, prop, rc, secs, lem, say.replace('|', '\\|')))
PY
}
for s in C12-A C12-D C12-E benign/H06 benign/H13; do run $s C12; done
(cd "$ROOT" && timeout 1200 ./check setup > /dev/null 2>&1)
cat "$OUT"
