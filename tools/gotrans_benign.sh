#!/bin/sh
# Harmless-change test of the generated-code layer (not a registered check): applies each benign patch of
# seeded/benign/<H>/patch.diff to the scratch library worktree $VERIF_REPO, runs ./check for C01, C13 and C17, and
# prints exit codes and what the generated-code layer reported.  usage: tools/gotrans_benign.sh [H01 H04 ...]
set -u
ROOT=$(cd "$(dirname "$0")/.." && pwd)
REPO=${VERIF_REPO:?set VERIF_REPO to a scratch worktree of the library}
export GOFLAGS=-mod=mod GOPROXY=off GOSUMDB=off GOTOOLCHAIN=local
OUT=$ROOT/build/gotrans_benign.txt
: > "$OUT"
[ $# -gt 0 ] || set -- H01 H04 H07 H09 H12
if [ -n "$(cd "$REPO" && git status --porcelain)" ]; then echo "worktree $REPO is not clean" >&2; exit 2; fi
for h in "$@"; do
  (cd "$REPO" && git apply "$ROOT/seeded/benign/$h/patch.diff") || { echo "$h: patch does not apply" | tee -a "$OUT"; continue; }
  for pid in C01 C13 C17; do
    t0=$(date +%s)
    (cd "$ROOT" && timeout 1800 ./check "$pid") > "$ROOT/build/benign_$pid.log" 2>&1; rc=$?
    t1=$(date +%s)
    echo "$h $pid exit=$rc seconds=$((t1 - t0))" | tee -a "$OUT"
    grep -E '^VIOLATION|^\(a proof about' "$ROOT/build/benign_$pid.log" | sed 's/^/     /' | tee -a "$OUT"
    python3 - "$ROOT" "$pid" <<'PY' | tee -a "$OUT"
import glob, json, sys
root, pid = sys.argv[1], sys.argv[2]
for f in sorted(glob.glob('%s/build/replay/%s-*.json' % (root, pid))):
    e = json.load(open(f))
    print('     replay %s: kind=%s lemma=%s at=%s' % (f.split('/')[-1], e.get('kind'), e.get('lemma_that_no_longer_checks'), e.get('at')))
    for k in ('sweep_result', 'theorem_or_correspondence', 'failing_input'):
        if e.get(k): print('       %s: %s' % (k, str(e[k])[:400]))
PY
  done
  (cd "$REPO" && git checkout -- .)
done
(cd "$ROOT" && build/gotrans "$REPO" coq/GenSrc.v build/gotrans.json >/dev/null 2>&1)
echo "written: $OUT"
