"""Static footprint obligations of C19: compile the late file(s), and when an obligation fails say in words how the
regenerated tables (coq/ParamsFoot.v, build/footprint.json) differ from the expected ones (coq/IndepFacts.v).
Used by tools/props.py (key "late_files" of a property); self-contained."""
import json, os, re


def _tokens(body):
    for m in re.finditer(r'"((?:[^"]|"")*)"(?:%string)?|(true|false)|([\[\]();,])', body):
        if m.group(1) is not None:
            yield ('s', m.group(1).replace('""', '"'))
        elif m.group(2):
            yield ('b', m.group(2) == 'true')
        else:
            yield ('p', m.group(3))


def _parse(tokens):
    """tokens of a Coq list / tuple literal of strings and booleans -> python lists / tuples"""
    toks = list(tokens)
    pos = [0]

    def value():
        k, v = toks[pos[0]]
        if k in 'sb':
            pos[0] += 1
            return v
        if v == '[':
            pos[0] += 1
            items = []
            while toks[pos[0]] != ('p', ']'):
                items.append(value())
                if toks[pos[0]] == ('p', ';'):
                    pos[0] += 1
            pos[0] += 1
            return items
        if v == '(':
            pos[0] += 1
            items = []
            while toks[pos[0]] != ('p', ')'):
                items.append(value())
                if toks[pos[0]] == ('p', ','):
                    pos[0] += 1
            pos[0] += 1
            return tuple(items)
        raise ValueError('unexpected token %r' % (toks[pos[0]],))

    return value()


def coq_tables(path, names=None):
    """every `Definition name : list ... := [ ... ].` of a Coq file whose body is a literal of strings/booleans"""
    src = open(path, encoding='utf-8').read()
    res = {}
    for m in re.finditer(r'^Definition (\w+)\s*:\s*list[^\n]*?:=\s*(\[.*?\])(?:%string)?\.\s*$', src, re.M | re.S):
        name, body = m.group(1), m.group(2)
        if names is not None and name not in names:
            continue
        try:
            res[name] = _parse(_tokens(body))
        except (ValueError, IndexError):
            pass
    return res


LEMMA_OF = [
    ('foot_tool_ok', 'static_tool_ran'),
    ('static_no_class_mutable', 'static_no_class_mutable_current'),
    ('static_no_foreign_writes', 'static_no_foreign_writes_current'),
    ('static_shared_edges_expected', 'static_shared_edges_expected_current'),
    ('static_pkgvars_guarded', 'static_pkgvars_guarded_current'),
    ('static_accessors_disciplined', 'static_accessors_disciplined_current'),
    ('static_methods_write_own', 'static_methods_write_own_current'),
    ('static_facts_agree', 'static_facts_agree_current'),
    ('static_ok', 'static_ok_current'),
]


ALIAS_LEMMA_OF = [
    ('foot_tool_ok', 'alias_tool_ran'),
    ('alias_results_fresh', 'alias_results_fresh_current'),
    ('alias_params_not_retained', 'alias_params_not_retained_current'),
    ('alias_in_place_discipline', 'alias_in_place_discipline_current'),
    ('alias_no_shared_elements', 'alias_no_shared_elements_current'),
    ('alias_iterators_over_copies', 'alias_iterators_over_copies_current'),
    ('alias_ok', 'alias_ok_current'),
]


def component_values(drv, outdir, lemma_of=None, imports='Params ParamsFoot Indep IndepFacts', with_facts=True):
    """ask Coq for the value of every component of static_ok / alias_ok (so that ALL failing lemmas can be named, not only the first)"""
    lemma_of = lemma_of or LEMMA_OF
    p = os.path.join(outdir, 'StaticReport.v')
    with open(p, 'w') as f:
        f.write('From Verif Require Import %s.\n' % imports)
        for name, _ in lemma_of:
            f.write('Definition R_%s := Eval vm_compute in %s.\nPrint R_%s.\n' % (name, name, name))
        if with_facts:
            f.write('Definition R_static_facts := Eval vm_compute in static_facts.\nPrint R_static_facts.\n')
            f.write('Definition R_current_facts := Eval vm_compute in current_facts.\nPrint R_current_facts.\n')
        f.write('Definition R_error := Eval vm_compute in foot_tool_error.\nPrint R_error.\n')
    rc, out = drv.run(['timeout', '600', 'coqc', '-R', drv.COQ, 'Verif', '-o', os.path.join(outdir, 'StaticReport.vo'), p], cwd=outdir)
    vals = {}
    for name, _ in lemma_of:
        m = re.search(r'R_%s\s*=\s*(true|false)' % name, out)
        vals[name] = (m.group(1) == 'true') if m else None
    facts = {}
    for which in ('static_facts', 'current_facts'):
        m = re.search(r'R_%s\s*=\s*(\{\|.*?\|\})' % which, out, re.S)
        facts[which] = ' '.join(m.group(1).split()) if m else None
    m = re.search(r'R_error\s*=\s*"(.*?)"\s*:', out, re.S)
    return vals, facts, (m.group(1) if m else ''), (out[-1500:] if rc != 0 else '')


def _details(drv):
    """the findings of build/footprint.json by kind; each carries its words with the real names ('words') and with the
    canonical identifiers of ParamsFoot.v ('canonical_words'), which is what the tables are compared on"""
    details = {}
    fj = os.path.join(drv.BUILD, 'footprint.json')
    if os.path.exists(fj):
        try:
            rep = json.load(open(fj))
            for tag in ('untagged', 'verif'):
                for d in ((rep.get(tag) or {}).get('details') or []):
                    d = dict(d, match=d.get('canonical_words') or d['words'])
                    details.setdefault(d['what'], []).append(d)
        except ValueError:
            pass
    return details


def _names(drv):
    """canonical identifier of ParamsFoot.v -> the real names it stands for (from build/footprint.json)"""
    fj = os.path.join(drv.BUILD, 'footprint.json')
    try:
        rep = json.load(open(fj))
        return (rep.get('untagged') or {}).get('canonical_names') or {}
    except (OSError, ValueError):
        return {}


def realise(names, text):
    """append the real names to the canonical identifiers occurring in a sentence: agent.iterator_.slice0 (= values_)"""
    for c in sorted(names, key=len, reverse=True):
        if c not in text:
            continue
        reals = names[c]
        if c.endswith('<private>'):
            short = [r.rsplit('.', 1)[-1] for r in reals]
            shown = ', '.join(short[:5]) + (' ...' if len(short) > 5 else '')
        else:
            shown = ', '.join(r.rsplit('.', 1)[-1] for r in reals)
        marker = '\x00%d\x00' % len(shown)   # protect against a second replacement inside the inserted text
        out, i = [], 0
        while True:
            j = text.find(c, i)
            if j < 0:
                out.append(text[i:])
                break
            end = j + len(c)
            before_ok = j == 0 or not (text[j - 1].isalnum() or text[j - 1] in '_.')
            after_ok = end == len(text) or not (text[end].isalnum() or text[end] == '_')
            out.append(text[i:end])
            if before_ok and after_ok and not text[end:end + 4] == ' (= ':
                out.append(' (= %s)' % shown)
            i = end
        text = ''.join(out)
    return text


def alias_differences(drv):
    """the regenerated aliasing tables (C18/C17) against the expected ones of coq/AliasFacts.v, in words"""
    regen = coq_tables(os.path.join(drv.COQ, 'ParamsFoot.v'))
    expect = coq_tables(os.path.join(drv.COQ, 'AliasFacts.v'))
    details = _details(drv)

    def at(what, *needles):
        for d in details.get(what, []):
            if all(n in d['match'] for n in needles):
                return ' (%s: %s)' % (d['at'], d['where'])
        return ''

    diffs = []

    def add(lemma, words):
        diffs.append(dict(lemma=lemma, words=words))

    clean = ('fresh', 'not-retained')
    written_only = []
    got = [tuple(x) for x in regen.get('foot_api', []) if x[2] not in clean]
    want = [tuple(x) for x in expect.get('expected_api_exceptions', [])]
    named_suffixes = ('.AsArray', '.GetValues', '.GetKeys', '.RemoveValues', '.GetIterator')
    for row in got:
        if row in want:
            continue
        fn, what, verdict = row
        named = (fn.startswith('collection.') or fn.startswith('module.')) and (fn.endswith(named_suffixes) or 'Class_).' in fn or fn.startswith('module.'))
        if what.startswith('result'):
            lemma = 'alias_results_fresh_current' if named else 'alias_params_not_retained_current'
            if 'contains the objects of' in verdict:
                lemma = 'alias_no_shared_elements_current'
            add(lemma, '%s of %s is not memory of its own: it %s%s' % (what, fn, verdict, at('api', what + ' of ' + fn)))
            if fn.endswith('.GetIterator'):
                add('alias_iterators_over_copies_current', 'the iterator returned by %s is not built over a fresh copy: it %s' % (fn, verdict))
        elif verdict == 'written' or verdict.endswith('; written'):
            written_only.append('%s of %s' % (what.split(' [')[0], fn))
        else:
            add('alias_params_not_retained_current', '%s of %s does not stay with the caller: %s%s' % (what, fn, verdict, at('api', what.split(' [')[0] + ' [', fn)))
    if written_only:
        cause = sorted(set(d['words'].split(' writes through ')[1].split(': ', 1)[1] for d in details.get('escape', []) if ' writes through parameter' in d['words'] and ': ' in d['words'].split(' writes through ')[1]))
        add('alias_params_not_retained_current', '%d functions now WRITE through an argument (a method they call on it mutates its receiver): %s%s; how: %s'
            % (len(written_only), '; '.join(written_only[:8]), ' ...' if len(written_only) > 8 else '', '; '.join(cause[:6])))
    for row in want:
        if row not in got and not any(g[0] == row[0] and g[1] == row[1] for g in got):
            add('alias_params_not_retained_current', 'expected (reviewed) row no longer found: %s %s: %s' % row)
    got_sw = [tuple(x) for x in regen.get('foot_storage_writes', [])]
    want_sw = [tuple(x) for x in expect.get('expected_storage_writes', [])]
    for e in got_sw:
        if e not in want_sw:
            add('alias_in_place_discipline_current', 'NEW in-place write: %s writes into storage that was reachable before the call through %s%s' % (e[0], e[1], at('storage-write', e[0], e[1])))
    for e in want_sw:
        if e not in got_sw:
            add('alias_in_place_discipline_current', 'expected in-place write no longer found: %s through %s' % e)
    for (fn, fld, frm) in regen.get('foot_field_sets', []):
        add('alias_in_place_discipline_current', '%s sets %s to memory that is not freshly allocated: it %s%s' % (fn, fld, frm, at('field-set', fn, fld)))
    if regen.get('foot_publish_once', []) != expect.get('expected_publish_once', []):
        add('alias_in_place_discipline_current', 'publish-once fields (only ever set to fresh memory, never written in place): found %s, expected %s' % (regen.get('foot_publish_once'), expect.get('expected_publish_once')))
    for e in regen.get('foot_shared_edges', []):
        if e[0].startswith('arg 1 of agent.(*iteratorClass_).MakeFromArray'):
            add('alias_iterators_over_copies_current', 'Iterator.MakeFromArray (which keeps its argument) is handed something that is not a fresh copy: %s%s' % (e[1], at('shared-edge', e[0], e[1])))
    regenerated = dict(foot_api_not_clean=got, foot_storage_writes=got_sw, foot_field_sets=regen.get('foot_field_sets'), foot_publish_once=regen.get('foot_publish_once'))
    expected = dict(foot_api_not_clean=want, foot_storage_writes=want_sw, foot_field_sets=[], foot_publish_once=expect.get('expected_publish_once'))
    names = _names(drv)
    for d in diffs:
        d['words'] = realise(names, d['words'])
    return diffs, regenerated, expected


def _field_words(name):
    parts = name.rsplit('.', 1)
    return 'field %s of %s' % (parts[1], parts[0]) if len(parts) == 2 else name


def differences(drv):
    """the regenerated tables against the expected ones, in words; returns (list of {lemma, words}, regenerated, expected)"""
    regen = coq_tables(os.path.join(drv.COQ, 'ParamsFoot.v'))
    expect = coq_tables(os.path.join(drv.COQ, 'IndepFacts.v'))
    params = coq_tables(os.path.join(drv.COQ, 'Params.v'), {'registry_locked', 'package_vars'})
    details = _details(drv)

    def at(what, *needles):
        for d in details.get(what, []):
            if all(n in d['match'] for n in needles):
                return ' (%s)' % d['at']
        return ''

    diffs = []

    def add(lemma, words):
        diffs.append(dict(lemma=lemma, words=words))

    for (fld, how, fn) in regen.get('foot_class_mutable', []):
        add('static_no_class_mutable_current', '%s is written [%s] in %s%s: a class object is shared by all instances of its element type, so this is state reachable from two instances' % (_field_words(fld), how, fn, at('class-mutable', fn, how)))
    for (fld, how, fn) in regen.get('foot_foreign_writes', []):
        add('static_no_foreign_writes_current', '%s is written [%s] in %s%s, which is not a method of that struct and did not create the instance with a literal' % (_field_words(fld), how, fn, at('foreign-write', fn)))
    got, want = [tuple(x) for x in regen.get('foot_shared_edges', [])], [tuple(x) for x in expect.get('expected_shared_edges', [])]
    for e in got:
        if e not in want:
            add('static_shared_edges_expected_current', 'NEW reference kept across calls: %s is initialised from %s%s' % (e[0], e[1], at('shared-edge', e[0], e[1])))
    for e in want:
        if e not in got:
            add('static_shared_edges_expected_current', 'expected reference no longer found: %s from %s' % e)
    if got != want and sorted(got) == sorted(want):
        add('static_shared_edges_expected_current', 'the shared edges are the expected ones in a different order')
    for tbl in ('foot_pkgvar_unguarded', 'foot_verif_pkgvar_unguarded'):
        for (var, acc, fn) in regen.get(tbl, []):
            add('static_pkgvars_guarded_current', 'package-level variable %s: %s in %s outside a critical section of a package-level mutex%s%s' % (var, acc, fn, at('pkgvar-unguarded', fn, var.split(':')[-1]), ' [build with tag verif]' if 'verif' in tbl else ''))
    for tbl, exp in (('foot_exported_vars', 'expected_exported_vars'), ('foot_verif_exported_vars', 'expected_verif_exported_vars')):
        if regen.get(tbl, []) != expect.get(exp, []):
            add('static_pkgvars_guarded_current', 'exported package-level variables %s: found %s, expected %s' % ('(tag verif)' if 'verif' in tbl else '', regen.get(tbl), expect.get(exp)))
    inv_got = [x[0] for x in regen.get('foot_verif_pkgvars', [])]
    inv_want = [x[0] for x in params.get('package_vars', [])]
    if inv_got != inv_want:
        add('static_pkgvars_guarded_current', 'the inventory of package-level variables differs from the one of genparams.py: only here %s, only there %s' % (sorted(set(inv_got) - set(inv_want)), sorted(set(inv_want) - set(inv_got))))
    acc_details = {d['where']: d['words'] for d in details.get('accessor', [])}
    for row in regen.get('foot_accessors', []):
        reg, acc, flags = row
        if not all(flags):
            names = ['exactly one critical section', 'it covers every use of the registry', 'no other function uses the registry', 'the class returned is the registered one']
            bad = [n for n, f in zip(names, flags) if not f]
            add('static_accessors_disciplined_current', 'accessor %s of registry %s violates: %s. %s' % (acc, reg, '; '.join(bad), acc_details.get(acc, '')))
    got_acc = [(r[0], r[1]) for r in regen.get('foot_accessors', [])]
    want_acc = [tuple(x) for x in expect.get('expected_accessors', [])]
    if got_acc != want_acc:
        add('static_accessors_disciplined_current', 'the accessors/registries differ from the expected ones: only found %s, only expected %s' % (sorted(set(got_acc) - set(want_acc)), sorted(set(want_acc) - set(got_acc))))
    if [r[0] for r in regen.get('foot_accessors', [])] != [x[0] for x in params.get('registry_locked', [])]:
        add('static_accessors_disciplined_current', 'the registries found differ from Params.registry_locked')
    for row in regen.get('foot_methods', []):
        name, struct, role, (writes, reads, creates, takes) = row
        if role == 'class' and writes:
            add('static_methods_write_own_current', 'class method %s writes %s' % (name, ', '.join(_field_words(w) for w in writes)))
        elif role != 'class':
            alien = [w for w in writes if not w.startswith(struct + '.')]
            if alien:
                add('static_methods_write_own_current', 'method %s writes outside its own receiver: %s' % (name, ', '.join(alien)))
    got, want = [tuple(x) for x in regen.get('foot_escapes', [])], [tuple(x) for x in expect.get('expected_escapes', [])]
    new_esc = [e for e in got if e not in want]
    for e in new_esc[:6]:
        add('static_methods_write_own_current', 'NEW write through memory that is neither the receiver\'s nor allocated in the call: %s writes through %s%s' % (e[0], e[1], at('escape', e[0], e[1])))
    if len(new_esc) > 6:
        add('static_methods_write_own_current', '... and %d further functions that now write through a parameter: %s' % (len(new_esc) - 6, '; '.join('%s (%s)' % e for e in new_esc[6:])))
    for e in want:
        if e not in got:
            add('static_methods_write_own_current', 'expected in-place write no longer found: %s through %s' % e)
    regenerated = {k: regen.get(k) for k in ('foot_class_mutable', 'foot_foreign_writes', 'foot_shared_edges', 'foot_pkgvar_unguarded', 'foot_verif_pkgvar_unguarded',
                                            'foot_exported_vars', 'foot_verif_exported_vars', 'foot_accessors', 'foot_escapes', 'foot_pkgvar_writers')}
    expected = dict(foot_class_mutable=[], foot_foreign_writes=[], foot_shared_edges=expect.get('expected_shared_edges'), foot_pkgvar_unguarded=[],
                    foot_verif_pkgvar_unguarded=[], foot_exported_vars=expect.get('expected_exported_vars'), foot_verif_exported_vars=expect.get('expected_verif_exported_vars'),
                    foot_accessors='%s, every flag true' % (expect.get('expected_accessors'),), foot_escapes=expect.get('expected_escapes'))
    names = _names(drv)
    for d in diffs:
        d['words'] = realise(names, d['words'])
    return diffs, regenerated, expected


def run_late(drv, pid, late_files):
    """compile the late files of a property; returns a dict(ok, seconds, ...) describing the static part"""
    import time
    t0 = time.time()
    outdir = os.path.join(drv.BUILD, 'late')
    os.makedirs(outdir, exist_ok=True)
    failures = []
    outputs = []
    for f in late_files:
        src = os.path.join(drv.COQ, f)
        rc, out = drv.run(['timeout', '900', 'coqc', '-R', drv.COQ, 'Verif', '-o', os.path.join(outdir, f + 'o'), src], cwd=drv.COQ)
        if rc == 0:
            names = re.findall(r'Print Assumptions\s+(\w+)', open(src, encoding='utf-8').read())
            outputs.append('Print Assumptions of %s (late file; in order %s): %s' % (f, ', '.join(names), ' | '.join(l.strip() for l in out.split('\n') if l.strip())))
        if rc != 0:
            lemma = None
            m = re.search(r'line (\d+), characters', out)
            if m:
                line = int(m.group(1))
                for i, l in enumerate(open(src, encoding='utf-8').read().split('\n')[:line][::-1]):
                    mm = re.match(r'\s*(Lemma|Theorem|Example|Corollary|Fact)\s+(\w+)', l)
                    if mm:
                        lemma = mm.group(2)
                        break
            failures.append(dict(file=f, first_failing_lemma=lemma, output=out[-1200:]))
    res = dict(ok=not failures, files=late_files, seconds=None, assumptions=outputs)
    if failures:
        alias = failures[0]['file'] == 'AliasStatic.v'
        if alias:
            vals, facts, err, broken = component_values(drv, outdir, ALIAS_LEMMA_OF, 'ParamsFoot AliasFacts', False)
            diffs, regenerated, expected = alias_differences(drv)
            failing = [lem for (name, lem) in ALIAS_LEMMA_OF if vals.get(name) is False]
        else:
            vals, facts, err, broken = component_values(drv, outdir)
            diffs, regenerated, expected = differences(drv)
            failing = [lem for (name, lem) in LEMMA_OF if vals.get(name) is False]
        if vals.get('static_facts_agree') is False:
            diffs.append(dict(lemma='static_facts_agree_current', words='the structural facts derived from the typed syntax trees are %s; those of genparams.py are %s; they must be equal and those of the repaired tree (registries locked, no shared formatter/parser/collator, collator calls write nothing)' % (facts.get('static_facts'), facts.get('current_facts'))))
        if vals.get('foot_tool_ok') is False:
            diffs.append(dict(lemma='alias_tool_ran' if alias else 'static_tool_ran', words='tools/gofootprint could not analyse the sources: ' + err))
        res.update(failures=failures, failing_lemmas=failing, difference_in_words=[d['words'] + '  [lemma ' + d['lemma'] + ']' for d in diffs],
                   regenerated=regenerated, expected=expected, static_facts=facts, report_error=broken or None)
    res['seconds'] = round(time.time() - t0, 1)
    return res
