#!/usr/bin/env python3
"""seedbatch.py <id> [<id> ...]: for $SEEDOUT/<id>/{A,B,C,D} ($SEEDOUT default /tmp/seedout2): confirm, copy to /verif/seeded/<id>-<X>/, run ./check <id>, write result.json"""
import json, os, shutil, sys, subprocess
sys.path.insert(0, os.path.dirname(os.path.abspath(__file__)))
import seedtest
ROOT = seedtest.ROOT
for pid in sys.argv[1:]:
    for x in ('A', 'B', 'C', 'D', 'E', 'F', 'G', 'H'):
        src = '%s/%s/%s' % (os.environ.get('SEEDOUT', '/tmp/seedout2'), pid, x)
        if not os.path.exists(os.path.join(src, 'patch.diff')):
            continue
        sid = '%s-%s' % (pid, x)
        dst = os.path.join(ROOT, 'seeded', sid)
        if os.path.exists(os.path.join(dst, 'result.json')):
            continue
        print('=====', sid, flush=True)
        c = seedtest.confirm(src)
        if not c['confirmed']:
            print('NOT CONFIRMED', sid)
            continue
        os.makedirs(dst, exist_ok=True)
        for f in os.listdir(src):
            s = os.path.join(src, f)
            if os.path.isdir(s):
                shutil.copytree(s, os.path.join(dst, f), dirs_exist_ok=True)
            else:
                shutil.copy(s, dst)
        meta = json.load(open(os.path.join(dst, 'meta.json')))
        meta['confirmed_by_me'] = {k: v for k, v in c.items() if not k.startswith('demo_output')}
        meta['what_i_ran'] = 'tools/seedtest.py confirm (scratch worktree: git apply; go test -vet=off -count=1 ./...; demo with and without the change); tools/seedtest.py run (git -C /repo apply; ./check %s --tier quick; git -C /repo checkout -- .)' % pid
        json.dump(meta, open(os.path.join(dst, 'meta.json'), 'w'), indent=1)
        r = seedtest.run(sid, [pid])
        json.dump(r, open(os.path.join(dst, 'result.json'), 'w'), indent=1)
