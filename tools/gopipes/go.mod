module gopipes

go 1.23
