// gopipes: a purely syntactic translator from the CLASS FUNCTIONS of queueClass_ in
// v4/collection/queue.go (the constructors MakeWithCapacity, MakeFromArray, MakeFromSequence and
// Fork, Split, Join with their helper goroutines) to terms of the micro-language of
// coq/PipeLang.v.
//
//	gopipes <repo root> <output .v file>
//
// One Go statement becomes one constructor; nothing is simplified or interpreted.  A statement
// outside the subset becomes PUnknown "<its text>", so that the generated file always compiles and
// the proof obligations about it (coq/GenC06.v) are what fails.
//
// Names: the fields of queue_ / queueClass_ are found by their TYPES; parameters get a canonical
// name from their type and locals from what they are initialised with (kind + running number per
// function, in order of declaration), so that renaming is not a change of the output.
package main

import (
	"bytes"
	"fmt"
	"go/ast"
	"go/parser"
	"go/printer"
	"go/token"
	"os"
	"path/filepath"
	"sort"
	"strings"
)

var fset = token.NewFileSet()

func text(n ast.Node) string {
	var b bytes.Buffer
	printer.Fprint(&b, fset, n)
	return strings.Join(strings.Fields(b.String()), " ")
}

func coqString(s string) string {
	return "\"" + strings.ReplaceAll(s, "\"", "\"\"") + "\""
}

func isIdent(e ast.Expr, name string) bool {
	id, ok := e.(*ast.Ident)
	return ok && id.Name == name
}

// roles of the fields of queue_ (chan, mutex, list, capacity, class) and of queueClass_ (default, notation), by type
var qrole = map[string]string{}
var crole = map[string]string{}

type tr struct {
	recv   string              // the receiver (c)
	scopes []map[string]string // Go name -> canonical name
	count  map[string]int
	kinds  map[string]string // canonical name -> kind
}

func (t *tr) push() { t.scopes = append(t.scopes, map[string]string{}) }
func (t *tr) pop()  { t.scopes = t.scopes[:len(t.scopes)-1] }

func (t *tr) declare(name, kind string) string {
	t.count[kind]++
	c := fmt.Sprintf("%s%d", kind, t.count[kind])
	if name != "_" {
		t.scopes[len(t.scopes)-1][name] = c
	}
	t.kinds[c] = kind
	return c
}

func (t *tr) lookup(name string) (string, bool) {
	for i := len(t.scopes) - 1; i >= 0; i-- {
		if c, ok := t.scopes[i][name]; ok {
			return c, true
		}
	}
	return "", false
}

// a variable of the given kind (any kind if kind == "")
func (t *tr) variable(e ast.Expr, kind string) (string, bool) {
	id, ok := e.(*ast.Ident)
	if !ok {
		return "", false
	}
	c, ok := t.lookup(id.Name)
	if !ok || (kind != "" && t.kinds[c] != kind) {
		return "", false
	}
	return c, true
}

func paramKind(ty string) string {
	switch {
	case ty == "uint":
		return "num"
	case ty == "Synchronized":
		return "group"
	case strings.HasPrefix(ty, "QueueLike["):
		return "queue"
	case strings.HasPrefix(ty, "Sequential[QueueLike["):
		return "queues"
	case strings.HasPrefix(ty, "Sequential["):
		return "values"
	case strings.HasPrefix(ty, "[]"):
		return "array"
	}
	return "arg"
}

// x.M(args) with x an identifier: returns (x, args)
func methodCall(e ast.Expr, method string, nargs int) (ast.Expr, []ast.Expr, bool) {
	c, ok := e.(*ast.CallExpr)
	if !ok || len(c.Args) != nargs {
		return nil, nil, false
	}
	s, ok := c.Fun.(*ast.SelectorExpr)
	if !ok || s.Sel.Name != method {
		return nil, nil, false
	}
	return s.X, c.Args, true
}

// c.<field> of the receiver
func (t *tr) isClassField(e ast.Expr, role string) bool {
	s, ok := e.(*ast.SelectorExpr)
	return ok && isIdent(s.X, t.recv) && crole[role] != "" && s.Sel.Name == crole[role]
}

// Ctor[T](c.notation_).Method(args...): generic class access such as List[V](c.notation_).Make()
func (t *tr) classCall(e ast.Expr, class, typeArgPrefix, method string, nargs int) ([]ast.Expr, bool) {
	x, args, ok := methodCall(e, method, nargs)
	if !ok {
		return nil, false
	}
	c, ok := x.(*ast.CallExpr)
	if !ok || len(c.Args) != 1 || !t.isClassField(c.Args[0], "notation") {
		return nil, false
	}
	ix, ok := c.Fun.(*ast.IndexExpr)
	if !ok || !isIdent(ix.X, class) || !strings.HasPrefix(text(ix.Index), typeArgPrefix) {
		return nil, false
	}
	return args, true
}

var binops = map[token.Token]string{token.ADD: "OAdd", token.SUB: "OSub", token.MUL: "OMul", token.QUO: "ODiv", token.OR: "OOr", token.AND: "OAnd"}
var asgops = map[token.Token]string{token.ADD_ASSIGN: "OAdd", token.SUB_ASSIGN: "OSub", token.MUL_ASSIGN: "OMul", token.QUO_ASSIGN: "ODiv", token.OR_ASSIGN: "OOr", token.AND_ASSIGN: "OAnd"}
var cmpops = map[token.Token]string{token.LSS: "OLt", token.GTR: "OGt", token.LEQ: "OLe", token.GEQ: "OGe", token.EQL: "OEq", token.NEQ: "ONe"}

// expressions of type uint
func (t *tr) exp(e ast.Expr) (string, bool) {
	switch x := e.(type) {
	case *ast.ParenExpr:
		return t.exp(x.X)
	case *ast.BasicLit:
		if x.Kind == token.INT && len(x.Value) <= 4 && !strings.HasPrefix(x.Value, "0x") && (x.Value == "0" || !strings.HasPrefix(x.Value, "0")) {
			return "(ELit " + x.Value + "%nat)", true
		}
	case *ast.Ident:
		if c, ok := t.variable(x, "num"); ok {
			return "(EVar " + coqString(c) + ")", true
		}
	case *ast.SelectorExpr:
		if t.isClassField(x, "default") {
			return "EDefault", true
		}
	case *ast.CallExpr:
		// uint(e)
		if isIdent(x.Fun, "uint") && len(x.Args) == 1 {
			if y, _, ok := methodCall(x.Args[0], "GetSize", 0); ok {
				if c, ok := t.variable(y, ""); ok {
					return "(ESize " + coqString(c) + ")", true
				}
				return "", false
			}
			return t.exp(x.Args[0])
		}
		if y, _, ok := methodCall(x, "GetCapacity", 0); ok {
			if c, ok := t.variable(y, "queue"); ok {
				return "(ECap " + coqString(c) + ")", true
			}
		}
	case *ast.BinaryExpr:
		if op, ok := binops[x.Op]; ok {
			a, ok1 := t.exp(x.X)
			b, ok2 := t.exp(x.Y)
			if ok1 && ok2 {
				return "(EBin " + op + " " + a + " " + b + ")", true
			}
		}
	}
	return "", false
}

func (t *tr) cond(e ast.Expr) (string, bool) {
	switch x := e.(type) {
	case *ast.ParenExpr:
		return t.cond(x.X)
	case *ast.Ident:
		if c, ok := t.variable(x, "ok"); ok {
			return "(CVar " + coqString(c) + ")", true
		}
	case *ast.UnaryExpr:
		if x.Op == token.NOT {
			if a, ok := t.cond(x.X); ok {
				return "(CNot " + a + ")", true
			}
		}
	case *ast.BinaryExpr:
		if x.Op == token.LOR || x.Op == token.LAND {
			a, ok1 := t.cond(x.X)
			b, ok2 := t.cond(x.Y)
			if ok1 && ok2 {
				if x.Op == token.LOR {
					return "(COr " + a + " " + b + ")", true
				}
				return "(CAnd " + a + " " + b + ")", true
			}
			return "", false
		}
		if op, ok := cmpops[x.Op]; ok {
			a, ok1 := t.exp(x.X)
			b, ok2 := t.exp(x.Y)
			if ok1 && ok2 {
				return "(CCmp " + op + " " + a + " " + b + ")", true
			}
		}
	case *ast.CallExpr:
		if y, _, ok := methodCall(x, "HasNext", 0); ok {
			if c, ok := t.variable(y, "iter"); ok {
				return "(CHasNext " + coqString(c) + ")", true
			}
		}
		if y, _, ok := methodCall(x, "IsEmpty", 0); ok {
			if c, ok := t.variable(y, ""); ok {
				return "(CIsEmpty " + coqString(c) + ")", true
			}
		}
		if y, args, ok := methodCall(x, "IsDefined", 1); ok {
			if _, ok := t.variable(y, "inspector"); ok {
				if c, ok := t.variable(args[0], ""); ok {
					return "(CIsDefined " + coqString(c) + ")", true
				}
			}
		}
	}
	return "", false
}

func (t *tr) unknown(n ast.Node) string { return "PUnknown " + coqString(text(n)) }

func (t *tr) block(stmts []ast.Stmt) string {
	t.push()
	defer t.pop()
	var parts []string
	for _, s := range stmts {
		parts = append(parts, t.stmt(s))
	}
	return "[" + strings.Join(parts, "; ") + "]"
}

// var x = <init>  /  x := <init>   (one name, one value)
func (t *tr) define1(name string, v ast.Expr, whole ast.Node) string {
	// make(chan bool, e)
	if c, ok := v.(*ast.CallExpr); ok && isIdent(c.Fun, "make") && len(c.Args) == 2 {
		if ch, ok := c.Args[0].(*ast.ChanType); ok && text(ch.Value) == "bool" {
			if e, ok := t.exp(c.Args[1]); ok {
				return "PMakeChan " + coqString(t.declare(name, "chan")) + " " + e
			}
		}
		return t.unknown(whole)
	}
	if _, ok := t.classCall(v, "List", "QueueLike[", "Make", 0); ok {
		return "PMakeQueues " + coqString(t.declare(name, "queues"))
	}
	if _, ok := t.classCall(v, "List", "", "Make", 0); ok {
		return "PMakeList " + coqString(t.declare(name, "list"))
	}
	if args, ok := t.classCall(v, "Array", "", "MakeFromArray", 1); ok {
		if a, ok := t.variable(args[0], "array"); ok {
			return "PWrapArray " + coqString(t.declare(name, "values")) + " " + coqString(a)
		}
		return t.unknown(whole)
	}
	// c.MakeWithCapacity(e)
	if y, args, ok := methodCall(v, "MakeWithCapacity", 1); ok && isIdent(y, t.recv) {
		if e, ok := t.exp(args[0]); ok {
			return "PMakeQueue " + coqString(t.declare(name, "queue")) + " " + e
		}
		return t.unknown(whole)
	}
	// age.Inspector().Make()
	if y, _, ok := methodCall(v, "Make", 0); ok {
		if c, ok := y.(*ast.CallExpr); ok && len(c.Args) == 0 {
			if s, ok := c.Fun.(*ast.SelectorExpr); ok && s.Sel.Name == "Inspector" {
				return "PInspector " + coqString(t.declare(name, "inspector"))
			}
		}
	}
	if y, _, ok := methodCall(v, "GetIterator", 0); ok {
		if c, ok := t.variable(y, ""); ok {
			return "PGetIterator " + coqString(t.declare(name, "iter")) + " " + coqString(c)
		}
		return t.unknown(whole)
	}
	if y, _, ok := methodCall(v, "GetNext", 0); ok {
		if c, ok := t.variable(y, "iter"); ok {
			return "PGetNext " + coqString(t.declare(name, "next")) + " " + coqString(c)
		}
		return t.unknown(whole)
	}
	// it.GetNext().GetCapacity()
	if y, _, ok := methodCall(v, "GetCapacity", 0); ok {
		if z, _, ok := methodCall(y, "GetNext", 0); ok {
			if c, ok := t.variable(z, "iter"); ok {
				return "PVarCapNext " + coqString(t.declare(name, "num")) + " " + coqString(c)
			}
			return t.unknown(whole)
		}
	}
	if e, ok := t.exp(v); ok {
		return "PVar " + coqString(t.declare(name, "num")) + " " + e
	}
	return t.unknown(whole)
}

// a queue-valued variable: a parameter / a local made by MakeWithCapacity / the result of GetNext
func (t *tr) queueVar(e ast.Expr) (string, bool) {
	if c, ok := t.variable(e, "queue"); ok {
		return c, true
	}
	return t.variable(e, "next")
}

func (t *tr) stmt(s ast.Stmt) string {
	switch x := s.(type) {
	case *ast.ExprStmt:
		c, ok := x.X.(*ast.CallExpr)
		if !ok {
			return t.unknown(s)
		}
		if isIdent(c.Fun, "verifYield") && len(c.Args) == 2 && isIdent(c.Args[1], "nil") {
			if b, ok := c.Args[0].(*ast.BasicLit); ok && b.Kind == token.INT {
				return "PYield " + b.Value
			}
		}
		if isIdent(c.Fun, "panic") && len(c.Args) == 1 {
			if b, ok := c.Args[0].(*ast.BasicLit); ok && b.Kind == token.STRING {
				return "PPanic"
			}
		}
		if y, args, ok := methodCall(c, "Add", 1); ok {
			if _, ok := t.variable(y, "group"); ok {
				if b, ok := args[0].(*ast.BasicLit); ok && b.Kind == token.INT && len(b.Value) <= 3 {
					return "PGroupAdd " + b.Value + "%nat"
				}
			}
		}
		if y, _, ok := methodCall(c, "ToStart", 0); ok {
			if it, ok := t.variable(y, "iter"); ok {
				return "PToStart " + coqString(it)
			}
		}
		if y, args, ok := methodCall(c, "AddValue", 1); ok {
			if q, ok := t.queueVar(y); ok {
				if v, ok := t.variable(args[0], ""); ok {
					return "PAddValue " + coqString(q) + " " + coqString(v)
				}
			}
		}
		if y, _, ok := methodCall(c, "CloseQueue", 0); ok {
			if q, ok := t.queueVar(y); ok {
				return "PCloseQueue " + coqString(q)
			}
		}
		if y, args, ok := methodCall(c, "AppendValue", 1); ok {
			if l, ok := t.variable(y, "queues"); ok {
				if z, a2, ok := methodCall(args[0], "MakeWithCapacity", 1); ok && isIdent(z, t.recv) {
					if e, ok := t.exp(a2[0]); ok {
						return "PAppendMakeQueue " + coqString(l) + " " + e
					}
				}
				if q, ok := t.variable(args[0], "queue"); ok {
					return "PAppend " + coqString(l) + " " + coqString(q)
				}
			}
		}
		return t.unknown(s)
	case *ast.IncDecStmt:
		if x.Tok == token.INC {
			if c, ok := t.variable(x.X, "num"); ok {
				return "PInc " + coqString(c)
			}
		}
		return t.unknown(s)
	case *ast.BranchStmt:
		if x.Tok == token.BREAK && x.Label == nil {
			return "PBreak"
		}
		return t.unknown(s)
	case *ast.DeferStmt:
		if y, _, ok := methodCall(x.Call, "Done", 0); ok {
			if _, ok := t.variable(y, "group"); ok {
				return "PDeferDone"
			}
		}
		return t.unknown(s)
	case *ast.GoStmt:
		if fl, ok := x.Call.Fun.(*ast.FuncLit); ok && len(x.Call.Args) == 0 && (fl.Type.Params == nil || len(fl.Type.Params.List) == 0) && fl.Type.Results == nil {
			return "PGo " + t.block(fl.Body.List)
		}
		return t.unknown(s)
	case *ast.AssignStmt:
		if x.Tok == token.DEFINE {
			if len(x.Lhs) == 1 && len(x.Rhs) == 1 {
				if id, ok := x.Lhs[0].(*ast.Ident); ok {
					return t.define1(id.Name, x.Rhs[0], s)
				}
			}
			return t.unknown(s)
		}
		if len(x.Lhs) != 1 || len(x.Rhs) != 1 {
			return t.unknown(s)
		}
		c, ok := t.variable(x.Lhs[0], "num")
		if !ok {
			return t.unknown(s)
		}
		e, ok := t.exp(x.Rhs[0])
		if !ok {
			return t.unknown(s)
		}
		if x.Tok == token.ASSIGN {
			return "PAssign " + coqString(c) + " " + e
		}
		if op, ok := asgops[x.Tok]; ok {
			return "PAssign " + coqString(c) + " (EBin " + op + " (EVar " + coqString(c) + ") " + e + ")"
		}
		return t.unknown(s)
	case *ast.DeclStmt:
		g, ok := x.Decl.(*ast.GenDecl)
		if !ok || g.Tok != token.VAR || len(g.Specs) != 1 {
			return t.unknown(s)
		}
		vs := g.Specs[0].(*ast.ValueSpec)
		if len(vs.Names) == 1 && len(vs.Values) == 0 && vs.Type != nil && text(vs.Type) == "uint" {
			return "PVar " + coqString(t.declare(vs.Names[0].Name, "num")) + " (ELit 0%nat)"
		}
		if len(vs.Names) == 1 && len(vs.Values) == 1 && vs.Type == nil {
			return t.define1(vs.Names[0].Name, vs.Values[0], s)
		}
		// var value, ok = q.RemoveHead()
		if len(vs.Names) == 2 && len(vs.Values) == 1 && vs.Type == nil {
			if y, _, ok := methodCall(vs.Values[0], "RemoveHead", 0); ok {
				if q, ok := t.queueVar(y); ok {
					v := t.declare(vs.Names[0].Name, "head")
					o := t.declare(vs.Names[1].Name, "ok")
					return "PRemoveHead " + coqString(v) + " " + coqString(o) + " " + coqString(q)
				}
			}
		}
		return t.unknown(s)
	case *ast.IfStmt:
		if x.Init != nil {
			return t.unknown(s)
		}
		c, ok := t.cond(x.Cond)
		if !ok {
			return t.unknown(s)
		}
		els := "[]"
		if x.Else != nil {
			b, ok := x.Else.(*ast.BlockStmt)
			if !ok {
				return t.unknown(s)
			}
			els = t.block(b.List)
		}
		return "PIf " + c + " " + t.block(x.Body.List) + " " + els
	case *ast.ForStmt:
		if x.Init == nil && x.Cond == nil && x.Post == nil {
			return "PForever " + t.block(x.Body.List)
		}
		if x.Cond == nil {
			return t.unknown(s)
		}
		t.push() // the scope of the init statement
		defer t.pop()
		init, post := "[]", "[]"
		if x.Init != nil {
			init = "[" + t.stmt(x.Init) + "]"
		}
		c, ok := t.cond(x.Cond)
		if !ok {
			return t.unknown(s)
		}
		if x.Post != nil {
			post = "[" + t.stmt(x.Post) + "]"
		}
		if x.Init == nil && x.Post == nil {
			return "PWhile " + c + " " + t.block(x.Body.List)
		}
		return "PFor " + init + " " + c + " " + post + " " + t.block(x.Body.List)
	case *ast.ReturnStmt:
		if len(x.Results) != 1 {
			return t.unknown(s)
		}
		r := x.Results[0]
		if c, ok := t.variable(r, ""); ok {
			return "PReturn " + coqString(c)
		}
		// c.MakeFromSequence(x)
		if y, args, ok := methodCall(r, "MakeFromSequence", 1); ok && isIdent(y, t.recv) {
			if v, ok := t.variable(args[0], "values"); ok {
				return "PReturnFromSequence " + coqString(v)
			}
			return t.unknown(s)
		}
		// &queue_[V]{class_: c, available_: ch, capacity_: cap, values_: ls}
		if u, ok := r.(*ast.UnaryExpr); ok && u.Op == token.AND {
			if cl, ok := u.X.(*ast.CompositeLit); ok {
				ty := cl.Type
				if ix, ok := ty.(*ast.IndexExpr); ok {
					ty = ix.X
				}
				if !isIdent(ty, "queue_") {
					return t.unknown(s)
				}
				got := map[string]string{}
				for _, el := range cl.Elts {
					kv, ok := el.(*ast.KeyValueExpr)
					if !ok {
						return t.unknown(s)
					}
					k, ok := kv.Key.(*ast.Ident)
					if !ok {
						return t.unknown(s)
					}
					role := ""
					for r, f := range qrole {
						if f == k.Name {
							role = r
						}
					}
					if role == "" || got[role] != "" {
						return t.unknown(s)
					}
					if role == "class" {
						if !isIdent(kv.Value, t.recv) {
							return t.unknown(s)
						}
						got[role] = "c"
						continue
					}
					want := map[string]string{"chan": "chan", "capacity": "num", "list": "list"}[role]
					v, ok := t.variable(kv.Value, want)
					if !ok {
						return t.unknown(s)
					}
					got[role] = v
				}
				if len(got) != 4 || got["class"] == "" || got["chan"] == "" || got["capacity"] == "" || got["list"] == "" {
					return t.unknown(s)
				}
				return "PReturnQueue " + coqString(got["chan"]) + " " + coqString(got["capacity"]) + " " + coqString(got["list"])
			}
		}
		return t.unknown(s)
	}
	return t.unknown(s)
}

func structFields(f *ast.File, name string) []*ast.Field {
	for _, d := range f.Decls {
		g, ok := d.(*ast.GenDecl)
		if !ok || g.Tok != token.TYPE {
			continue
		}
		for _, sp := range g.Specs {
			ts := sp.(*ast.TypeSpec)
			st, ok := ts.Type.(*ast.StructType)
			if ok && ts.Name.Name == name {
				return st.Fields.List
			}
		}
	}
	return nil
}

func main() {
	if len(os.Args) != 3 {
		fmt.Fprintln(os.Stderr, "usage: gopipes <repo root> <out.v>")
		os.Exit(2)
	}
	src := filepath.Join(os.Args[1], "v4", "collection", "queue.go")
	f, err := parser.ParseFile(fset, src, nil, 0)
	if err != nil {
		fmt.Fprintln(os.Stderr, "gopipes:", err)
		os.Exit(3)
	}
	for _, fl := range structFields(f, "queue_") {
		ty := text(fl.Type)
		for _, n := range fl.Names {
			switch {
			case strings.HasPrefix(ty, "chan "):
				qrole["chan"] = n.Name
			case strings.HasSuffix(ty, ".Mutex"):
				qrole["mutex"] = n.Name
			case strings.HasPrefix(ty, "ListLike["):
				qrole["list"] = n.Name
			case ty == "uint":
				qrole["capacity"] = n.Name
			case strings.HasPrefix(ty, "QueueClassLike["):
				qrole["class"] = n.Name
			}
		}
	}
	for _, fl := range structFields(f, "queueClass_") {
		ty := text(fl.Type)
		for _, n := range fl.Names {
			switch {
			case ty == "uint":
				crole["default"] = n.Name
			case ty == "NotationLike":
				crole["notation"] = n.Name
			}
		}
	}
	type fn struct{ name, body, line, params string }
	var fns []fn
	wanted := []string{"MakeWithCapacity", "MakeFromArray", "MakeFromSequence", "Fork", "Split", "Join"}
	for _, d := range f.Decls {
		fd, ok := d.(*ast.FuncDecl)
		if !ok || fd.Recv == nil || len(fd.Recv.List) != 1 || fd.Body == nil {
			continue
		}
		star, ok := fd.Recv.List[0].Type.(*ast.StarExpr)
		if !ok {
			continue
		}
		base := star.X
		if ix, ok := base.(*ast.IndexExpr); ok {
			base = ix.X
		}
		if !isIdent(base, "queueClass_") || len(fd.Recv.List[0].Names) != 1 {
			continue
		}
		isWanted := false
		for _, w := range wanted {
			if w == fd.Name.Name {
				isWanted = true
			}
		}
		if !isWanted {
			continue
		}
		t := &tr{recv: fd.Recv.List[0].Names[0].Name, count: map[string]int{}, kinds: map[string]string{}}
		t.push()
		var params []string
		if fd.Type.Params != nil {
			for _, p := range fd.Type.Params.List {
				for _, n := range p.Names {
					params = append(params, t.declare(n.Name, paramKind(text(p.Type))))
				}
			}
		}
		sort.Strings(params) // the ORDER of the parameters is not part of the meaning of the body
		var q []string
		for _, p := range params {
			q = append(q, coqString(p))
		}
		body := t.block(fd.Body.List)
		fns = append(fns, fn{fd.Name.Name, body, fmt.Sprintf("%d", fset.Position(fd.Pos()).Line), "[" + strings.Join(q, "; ") + "]"})
	}
	for _, want := range wanted {
		found := false
		for _, m := range fns {
			if m.name == want {
				found = true
			}
		}
		if !found {
			fns = append(fns, fn{want, "[PUnknown \"function not found\"]", "0", "[]"})
		}
	}
	sort.Slice(fns, func(i, j int) bool { return fns[i].name < fns[j].name })
	var out bytes.Buffer
	out.WriteString("(* GENERATED by tools/gopipes from v4/collection/queue.go — do not edit. *)\n")
	out.WriteString("From Coq Require Import ZArith List String.\nFrom Verif Require Import PipeLang.\nImport ListNotations.\nOpen Scope Z_scope.\nOpen Scope string_scope.\n")
	for _, m := range fns {
		fmt.Fprintf(&out, "Definition gen_%s_params : list string := %s.\n", m.name, m.params)
		fmt.Fprintf(&out, "Definition gen_%s : list pstmt := (* queue.go:%s *)\n  %s.\n", m.name, m.line, m.body)
	}
	old, _ := os.ReadFile(os.Args[2])
	if !bytes.Equal(old, out.Bytes()) {
		if err := os.WriteFile(os.Args[2], out.Bytes(), 0o644); err != nil {
			fmt.Fprintln(os.Stderr, "gopipes:", err)
			os.Exit(3)
		}
		fmt.Println("gopipes: wrote", os.Args[2])
	} else {
		fmt.Println("gopipes: unchanged")
	}
}
