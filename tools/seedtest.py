#!/usr/bin/env python3
"""Confirm a seeded change delivered by a sub-agent and run our check against it.

  seedtest.py confirm <dir-with patch.diff,demo,meta.json>   -> scratch worktree: tests pass with change, demo fails with / passes without
  seedtest.py run <seeded-id> [prop ...]                     -> git -C /repo apply seeded/<id>/patch.diff ; ./check prop ; git -C /repo checkout -- .
Not part of the registered checks.
"""
import json, os, re, shutil, subprocess, sys, time, glob
ROOT = os.path.join(os.path.dirname(os.path.abspath(__file__)), '..')
ENV = dict(os.environ, GOFLAGS='-mod=mod', GOPROXY='off', GOSUMDB='off', GOTOOLCHAIN='local')


def sh(cmd, cwd=None, timeout=1800):
    p = subprocess.run(cmd, shell=True, cwd=cwd, env=ENV, stdout=subprocess.PIPE, stderr=subprocess.STDOUT, text=True, timeout=timeout)
    return p.returncode, p.stdout


def demo_cmd(d, wt):
    """copy the demo into the worktree and return (command, cleanup list)"""
    files = []
    t = os.path.join(d, 'demo_test.go')
    if os.path.exists(t):
        src = open(t).read()
        m = re.search(r'^package\s+(\w+)', src, re.M)
        pkg = m.group(1)
        sub = {'collection': 'collection', 'collection_test': 'collection', 'agent': 'agent', 'agent_test': 'agent', 'cdcn': 'cdcn', 'cdcn_test': 'cdcn',
               'module': '.', 'module_test': '.'}.get(pkg, 'collection')
        dst = os.path.join(wt, 'v4', sub, 'zz_demo_test.go')
        shutil.copy(t, dst)
        files.append(dst)
        names = re.findall(r'^func (Test\w+)\(', src, re.M)
        race = ''
        mp = os.path.join(d, 'meta.json')
        if os.path.exists(mp) and re.search(r'go test[^()\n;&|]*?\s-race\b[^()\n;&|]*\./', json.load(open(mp)).get('demo', '')):
            race = '-race '   # the demonstration itself asks for the race detector
        return 'cd %s/v4 && go test %s-tags verif -vet=off -count=1 -run "^(%s)$" ./%s/' % (wt, race, '|'.join(names), sub), files
    t = os.path.join(d, 'demo')
    if os.path.isdir(t):
        dst = os.path.join(wt, 'v4', 'zzdemo')
        shutil.copytree(t, dst)
        files.append(dst)
        return 'cd %s/v4 && go run -tags verif ./zzdemo' % wt, files
    raise SystemExit('no demo in ' + d)


def confirm(d):
    d = os.path.abspath(d)
    wt = '/tmp/seedconfirm_%d' % os.getpid()
    sh('git -C /repo worktree add -f %s HEAD' % wt)
    res = {}
    try:
        rc, out = sh('git apply %s/patch.diff' % d, cwd=wt)
        res['applies'] = rc == 0
        rc, out = sh('cd %s/v4 && go build ./... && go test -vet=off -count=1 ./...' % wt)
        res['tests_pass_with_change'] = rc == 0
        cmd, files = demo_cmd(d, wt)
        rc, out = sh('timeout 300 sh -c \'%s\'' % cmd)
        res['demo_fails_with_change'] = rc != 0
        res['demo_output_with_change'] = out[-600:]
        sh('git apply -R %s/patch.diff' % d, cwd=wt)
        rc, out = sh('timeout 300 sh -c \'%s\'' % cmd)
        res['demo_passes_without_change'] = rc == 0
        if rc != 0:
            res['demo_output_without_change'] = out[-600:]
    finally:
        sh('git -C /repo worktree remove --force %s' % wt)
    res['confirmed'] = all(res.get(k) for k in ('applies', 'tests_pass_with_change', 'demo_fails_with_change', 'demo_passes_without_change'))
    print(json.dumps(res, indent=1))
    return res


def run(sid, props):
    d = os.path.join(ROOT, 'seeded', sid)
    meta = json.load(open(os.path.join(d, 'meta.json')))
    props = props or [meta['property']]
    rc, out = sh('git -C /repo status --porcelain')
    if out.strip():
        raise SystemExit('/repo is not clean:\n' + out)
    rc, out = sh('git -C /repo apply %s/patch.diff' % d)
    if rc != 0:
        raise SystemExit('patch does not apply: ' + out)
    results = {}
    try:
        for p in props:
            t0 = time.time()
            rc, out = sh('./check %s --tier quick' % p, cwd=ROOT, timeout=3000)
            lines = [l for l in out.split('\n') if l.startswith('VIOLATION') or l.startswith('KNOWN-FINDING')]
            results[p] = dict(exit=rc, violation_lines=lines[:4], wall_s=round(time.time() - t0, 1), tail=out[-300:] if rc not in (0, 1) else '')
    finally:
        sh('git -C /repo checkout -- .')
        rc, out = sh('git -C /repo status --porcelain')
        assert not out.strip(), out
    print(json.dumps(results, indent=1))
    return results


if __name__ == '__main__':
    if sys.argv[1] == 'confirm':
        confirm(sys.argv[2])
    elif sys.argv[1] == 'run':
        run(sys.argv[2], sys.argv[3:])
