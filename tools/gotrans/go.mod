module gotrans

go 1.21
