// gotrans — translates selected functions of the Go library into terms of the MiniGo language
// (coq/MiniGo.v).  Purely syntactic: one AST node -> one constructor, no simplification, no
// knowledge of what a function means.  Anything outside the supported subset inside a SELECTED
// function is an error naming file:line; unselected functions are ignored.
//
//	usage: gotrans <repo-root> <out GenSrc.v> <out report.json>
//
// Exit 0: every selected function was translated.
// Exit 1: at least one selected function is missing or outside the subset.  GenSrc.v is still
// written (without those functions) and report.json lists the errors with the properties that
// select the function, so that the driver can report them for exactly those properties.
// Exit 2: the translator could not run at all (sources unreadable, output unwritable).
package main

import (
	"bytes"
	"crypto/sha256"
	"encoding/json"
	"fmt"
	"go/ast"
	"go/parser"
	"go/token"
	"os"
	"path/filepath"
	"sort"
	"strings"
)

// ---------------------------------------------------------------- selection

type sel struct {
	File   string   // relative to <repo-root>/v4
	Recv   string   // receiver type name
	Method string   // method name
	Props  []string // properties whose GenCxx.v files use the function (directly or through calls)
}

func sels(file, recv string, props []string, methods ...string) []sel {
	var r []sel
	for _, m := range methods {
		r = append(r, sel{file, recv, m, props})
	}
	return r
}

var (
	pIter  = []string{"C17", "C01", "C13", "C02"} // the list loops (C01), the stack (C13) and the set (C02) run on the iterator
	pIter1 = []string{"C17"}
	pSeq   = []string{"C01", "C13", "C02"}
	pSet   = []string{"C02"}
	pSort  = []string{"C09"}
	pSeq1  = []string{"C01"}
	pStk   = []string{"C13"}
)

var selection = concat(
	// (a) agent/iterator.go
	sels("agent/iterator.go", "iterator_", pIter, "GetNext", "HasNext"),
	sels("agent/iterator.go", "iterator_", pIter1, "GetPrevious", "HasPrevious", "ToStart", "ToEnd", "ToSlot", "GetSlot", "GetSize", "IsEmpty"),
	sels("agent/iterator.go", "iteratorClass_", pIter, "MakeFromArray"),
	// (b) collection/array.go, and the index helpers of list.go
	sels("collection/array.go", "array_", pSeq, "toZeroBased", "GetValue", "SetValue", "GetSize", "IsEmpty", "AsArray", "GetIterator"),
	sels("collection/array.go", "array_", pSeq1, "GetValues", "SetValues"),
	sels("collection/array.go", "arrayClass_", pSeq, "Make"),
	sels("collection/list.go", "list_", pSeq, "toNormalized", "validateSlot", "GetSize", "IsEmpty", "AsArray", "GetIterator", "GetClass", "GetValue"),
	sels("collection/list.go", "listClass_", pSeq, "Notation"),
	// (c) collection/stack.go and the two list methods it calls (part of (d))
	sels("collection/stack.go", "stack_", pStk, "AddValue", "RemoveTop", "GetCapacity", "RemoveAll", "GetSize", "IsEmpty", "AsArray"),
	sels("collection/list.go", "list_", pSeq, "InsertValue", "RemoveValue", "RemoveAll"),
	// (e) collection/set.go: the binary search and what rests on it (the collator's RankValues is external)
	sels("collection/set.go", "set_", pSet, "findIndex", "AddValue", "RemoveValue", "ContainsValue", "GetIndex", "GetSize", "GetValue", "IsEmpty", "AsArray",
		"AddValues", "RemoveValues", "RemoveAll"),
	// (f) agent/sorter.go: the bottom-up merge sort and the reversal, in place in the caller's slice (written-back
	// slice parameters); the Sort/Reverse methods of array_ and list_ that delegate to it
	sels("agent/sorter.go", "sorter_", pSort, "SortValues", "sortValues", "mergeArrays", "ReverseValues"),
	sels("agent/sorter.go", "sorterClass_", pSort, "Make", "MakeWithRanker", "DefaultRanker"),
	sels("collection/array.go", "array_", pSort, "SortValues", "SortValuesWithRanker", "ReverseValues"),
	sels("collection/list.go", "list_", pSort, "SortValues", "SortValuesWithRanker", "ReverseValues"),
	// (d) the remaining rebuild loops of list.go
	sels("collection/list.go", "list_", pSeq1, "GetValues", "SetValue", "SetValues", "AppendValue", "AppendValues", "InsertValues", "RemoveValues",
		"GetIndex", "ContainsValue", "ContainsAny", "ContainsAll"),
)

// methods of types that are not translated: calls go to the oracle [ext] of the semantics; their names are
// always emitted so that coq/GenRep.v can name them
var externals = [][2]string{{"collator_", "RankValues"}, {"collator_", "CompareValues"}, {"collatorClass_", "Make"}}

func concat(ls ...[]sel) []sel {
	var r []sel
	for _, l := range ls {
		r = append(r, l...)
	}
	return r
}

// ---------------------------------------------------------------- errors

type terr struct {
	pos token.Pos
	msg string
}

func fail(pos token.Pos, format string, a ...any) {
	panic(terr{pos, fmt.Sprintf(format, a...)})
}

// ---------------------------------------------------------------- package facts

type structDecl struct {
	name   string
	fields []string
	zk     []string
	tparam []string
}

type pkgFacts struct {
	structs   map[string]*structDecl // struct types
	sliceTys  map[string]bool        // named slice types:  type array_[V any] []V
	accessors map[string]string      // class accessor function -> class struct type it instantiates
	fieldName map[string]bool        // every field name of every struct
	funcs     map[string]*ast.FuncDecl
	consts    map[string]int       // integer constants declared as  Name T = iota  followed by bare names
	files     map[string]*ast.File // by relative file name
	fileOf    map[*ast.FuncDecl]string
}

func typeParams(tp *ast.FieldList) []string {
	var r []string
	if tp == nil {
		return r
	}
	for _, f := range tp.List {
		for _, n := range f.Names {
			r = append(r, n.Name)
		}
	}
	return r
}

func contains(l []string, s string) bool {
	for _, x := range l {
		if x == s {
			return true
		}
	}
	return false
}

// zero value kind of a type expression; "" when the type is outside the subset
func zkindOf(t ast.Expr, tparams []string) string {
	switch x := t.(type) {
	case *ast.Ident:
		switch {
		case x.Name == "int" || x.Name == "uint":
			return "ZInt"
		case x.Name == "bool":
			return "ZBool"
		case contains(tparams, x.Name):
			return "ZElem"
		}
		return ""
	case *ast.ArrayType:
		if x.Len == nil {
			return "ZSlice"
		}
		return ""
	}
	return ""
}

// is the type certainly not a reference to shared mutable storage (int, uint, bool, string, a type parameter)?
func scalarType(t ast.Expr, tparams []string) bool {
	if id, ok := t.(*ast.Ident); ok {
		return id.Name == "int" || id.Name == "uint" || id.Name == "bool" || id.Name == "string" || contains(tparams, id.Name)
	}
	return false
}

func baseTypeName(t ast.Expr) (name string, ptr bool) {
	if s, ok := t.(*ast.StarExpr); ok {
		n, _ := baseTypeName(s.X)
		return n, true
	}
	switch x := t.(type) {
	case *ast.Ident:
		return x.Name, false
	case *ast.IndexExpr:
		return baseTypeName(x.X)
	case *ast.IndexListExpr:
		return baseTypeName(x.X)
	}
	return "", false
}

func (pf *pkgFacts) scan(rel string, f *ast.File) {
	pf.files[rel] = f
	for _, d := range f.Decls {
		switch x := d.(type) {
		case *ast.GenDecl:
			if x.Tok == token.CONST {
				// const ( A T = iota; B; C ): the only form of constant the subset knows
				iota := false
				for i, sp := range x.Specs {
					vs := sp.(*ast.ValueSpec)
					if i == 0 {
						if len(vs.Values) == 1 {
							if id, ok := vs.Values[0].(*ast.Ident); ok && id.Name == "iota" {
								iota = true
							}
						}
					} else if len(vs.Values) != 0 {
						iota = false
					}
					if iota && len(vs.Names) == 1 {
						pf.consts[vs.Names[0].Name] = i
					}
				}
			}
			if x.Tok != token.TYPE {
				continue
			}
			for _, s := range x.Specs {
				ts := s.(*ast.TypeSpec)
				tps := typeParams(ts.TypeParams)
				switch ty := ts.Type.(type) {
				case *ast.StructType:
					sd := &structDecl{name: ts.Name.Name, tparam: tps}
					for _, fl := range ty.Fields.List {
						for _, n := range fl.Names {
							zk := zkindOf(fl.Type, tps)
							if zk == "" {
								zk = "ZNil" // interfaces, pointers, other named types: nil / opaque
							}
							sd.fields = append(sd.fields, n.Name)
							sd.zk = append(sd.zk, zk)
							pf.fieldName[n.Name] = true
						}
					}
					pf.structs[ts.Name.Name] = sd
				case *ast.ArrayType:
					if ty.Len == nil {
						pf.sliceTys[ts.Name.Name] = true
					}
				}
			}
		case *ast.FuncDecl:
			if x.Recv == nil {
				if x.Type.TypeParams != nil && x.Body != nil {
					// a class accessor: a generic function whose body instantiates a ...Class_ struct
					ast.Inspect(x.Body, func(n ast.Node) bool {
						if cl, ok := n.(*ast.CompositeLit); ok && cl.Type != nil {
							if nm, _ := baseTypeName(cl.Type); strings.HasSuffix(nm, "Class_") {
								if _, seen := pf.accessors[x.Name.Name]; !seen {
									pf.accessors[x.Name.Name] = nm
								}
							}
						}
						return true
					})
				}
				continue
			}
			nm, _ := baseTypeName(x.Recv.List[0].Type)
			pf.funcs[nm+"."+x.Name.Name] = x
			pf.fileOf[x] = rel
		}
	}
}

// ---------------------------------------------------------------- per-function translation

type varInfo struct {
	scalar bool // certainly not a reference to shared mutable storage
	num    int  // alpha-normal name: the n-th declaration site of the function (receiver = 1, then the parameters)
	name   string
}

type scope struct {
	vars   map[string]*varInfo
	parent *scope
	loop   bool // the scope is a loop body (or contains one level of it)
}

type aliasEdge struct {
	a, b string // root variables
	pos  token.Pos
	loop *ast.Node
}

type callRef struct {
	onSelf bool // the receiver expression is the function's own receiver variable
	method string
}

type argPass struct {
	param  string // the root variable of the argument
	method string // the callee
	pos    int    // the callee's parameter position
	at     token.Pos
}

type argEdge struct {
	edge   aliasEdge
	method string
	pos    int
}

type write struct {
	root string
	pos  token.Pos
	// method call on a receiver rooted at root (a write unless the method is read-only)
	method string
}

type ftrans struct {
	pf           *pkgFacts
	fset         *token.FileSet
	imports      map[string]bool // import aliases of the file
	tparams      []string
	recvVar      string
	recvType     string
	recvPtr      bool
	params       []string
	sc           *scope
	ids          map[string]bool // method and type names used (for the table)
	nextVar      int
	namedResults bool
	locals       []string // real names of the numbered variables, in order (for the report only)
	// alias analysis
	edges     []aliasEdge
	writes    []write
	loopStack []ast.Node
	stmtLoops map[token.Pos][]ast.Node
	// purity: writes rooted at the receiver / calls on receiver-rooted paths
	recvWrites  []token.Pos
	recvCalls   []string
	paramWrites []write
	sliceParams map[string]int // parameters of slice type []T -> position (1, 2, ..)
	argPasses   []argPass      // slice-typed parameter (or a segment of it) passed on to a method
	argEdges    []argEdge      // alias edges that exist only if the callee keeps its parameter
	swapped     map[string]bool
	calls       []callRef // method calls of the body (for the automatic selection of callees)
}

// a method or type name: kept (a renamed method or type is an API change)
func (t *ftrans) id(name string) string {
	t.ids[name] = true
	return "id_" + name
}

// a local variable, parameter or receiver: numbered by declaration site, so that renaming changes nothing
func (t *ftrans) local(pos token.Pos, name string) string {
	v := t.lookupVar(name)
	if v == nil {
		fail(pos, "identifier %q is not a local variable, parameter or receiver", name)
	}
	return fmt.Sprintf("%d%%positive", v.num)
}

var kindCode = map[string]int{"ZInt": 0, "ZBool": 1, "ZElem": 2, "ZSlice": 3, "ZNil": 4}
var kindName = map[string]string{"ZInt": "int", "ZBool": "bool", "ZElem": "elem", "ZSlice": "slice", "ZNil": "nil"}

// the canonical identifier of a struct field: the kind of its type (int, bool, type parameter, slice, anything
// else) and its ordinal among the fields of that kind in the struct.  Renaming a field, and reordering fields of
// different kinds, change nothing; the notations f_int0 .. f_nil3 are defined in coq/MiniGo.v.
func (sd *structDecl) fieldID(pos token.Pos, field string) string {
	count := map[string]int{}
	for i, f := range sd.fields {
		k := sd.zk[i]
		if f == field {
			if count[k] > 3 {
				fail(pos, "struct %s has more than four fields of kind %s", sd.name, k)
			}
			return fmt.Sprintf("f_%s%d", kindName[k], count[k])
		}
		count[k]++
	}
	fail(pos, "%q is not a field of struct %s", field, sd.name)
	return ""
}

func (sd *structDecl) fieldNum(i int) int {
	n := 0
	for j := 0; j < i; j++ {
		if sd.zk[j] == sd.zk[i] {
			n++
		}
	}
	return 1 + kindCode[sd.zk[i]] + 5*n
}

func (t *ftrans) push() { t.sc = &scope{vars: map[string]*varInfo{}, parent: t.sc} }
func (t *ftrans) pop()  { t.sc = t.sc.parent }

func (t *ftrans) lookupVar(name string) *varInfo {
	for s := t.sc; s != nil; s = s.parent {
		if v, ok := s.vars[name]; ok {
			return v
		}
	}
	return nil
}

func (t *ftrans) declare(id *ast.Ident, scalar bool) {
	for s := t.sc.parent; s != nil; s = s.parent {
		if _, ok := s.vars[id.Name]; ok {
			fail(id.Pos(), "declaration of %q shadows a visible variable (MiniGo declarations are function-scoped)", id.Name)
		}
	}
	t.nextVar++
	t.sc.vars[id.Name] = &varInfo{scalar: scalar, num: t.nextVar, name: id.Name}
	t.locals = append(t.locals, id.Name)
}

// the root variable of a place expression (variable, field path, element, sub-slice, conversion of one); "" if none
func (t *ftrans) rootOf(e ast.Expr) string {
	switch x := e.(type) {
	case *ast.Ident:
		if t.lookupVar(x.Name) != nil {
			return x.Name
		}
	case *ast.ParenExpr:
		return t.rootOf(x.X)
	case *ast.SelectorExpr:
		if t.pf.fieldName[x.Sel.Name] {
			return t.rootOf(x.X)
		}
	case *ast.IndexExpr:
		return t.rootOf(x.X)
	case *ast.SliceExpr:
		return t.rootOf(x.X)
	case *ast.CallExpr:
		// a conversion T[V](place) keeps the storage
		if ix, ok := x.Fun.(*ast.IndexExpr); ok && len(x.Args) == 1 {
			if nm, _ := baseTypeName(ix); t.pf.sliceTys[nm] {
				return t.rootOf(x.Args[0])
			}
		}
	}
	return ""
}

// may the value of e be a reference to storage that something else still names?
// (true only for place expressions that are not known to be scalar)
func (t *ftrans) refSource(e ast.Expr) (root string, isRef bool) {
	switch x := e.(type) {
	case *ast.ParenExpr:
		return t.refSource(x.X)
	case *ast.Ident:
		if v := t.lookupVar(x.Name); v != nil && !v.scalar {
			return x.Name, true
		}
		return "", false
	case *ast.IndexExpr:
		// an element: of the type parameter in every selected function (never mutated through)
		return "", false
	case *ast.SelectorExpr:
		if t.pf.fieldName[x.Sel.Name] {
			if r := t.rootOf(x.X); r != "" {
				// a field: scalar when every struct declaring it gives it a scalar type
				sc := true
				for _, sd := range t.pf.structs {
					for i, f := range sd.fields {
						if f == x.Sel.Name && !(sd.zk[i] == "ZInt" || sd.zk[i] == "ZBool" || sd.zk[i] == "ZElem") {
							sc = false
						}
					}
				}
				return r, !sc
			}
		}
		return "", false
	case *ast.SliceExpr:
		if r := t.rootOf(x.X); r != "" {
			return r, true
		}
	case *ast.CallExpr:
		if r := t.rootOf(x); r != "" {
			return r, true
		}
	}
	return "", false
}

// is the expression certainly a scalar (for the inferred kind of  var x = e)?
func (t *ftrans) scalarExpr(e ast.Expr) bool {
	switch x := e.(type) {
	case *ast.BasicLit:
		return true
	case *ast.ParenExpr:
		return t.scalarExpr(x.X)
	case *ast.BinaryExpr, *ast.IndexExpr:
		return true
	case *ast.UnaryExpr:
		return x.Op != token.AND
	case *ast.Ident:
		if x.Name == "true" || x.Name == "false" {
			return true
		}
		if v := t.lookupVar(x.Name); v != nil {
			return v.scalar
		}
	case *ast.SelectorExpr:
		_, isRef := t.refSource(x)
		return t.pf.fieldName[x.Sel.Name] && !isRef
	case *ast.CallExpr:
		if id, ok := x.Fun.(*ast.Ident); ok && (id.Name == "len" || id.Name == "int" || id.Name == "uint" || id.Name == "copy") {
			return true
		}
	}
	return false
}

// is the assignment  x1, .., xn = y1, .., yn  with plain variables on both sides, the ys a permutation of the xs?
func (t *ftrans) isPermutation(x *ast.AssignStmt) bool {
	if len(x.Lhs) != len(x.Rhs) || len(x.Lhs) < 2 {
		return false
	}
	count := map[string]int{}
	for i := range x.Lhs {
		l, ok1 := x.Lhs[i].(*ast.Ident)
		r, ok2 := x.Rhs[i].(*ast.Ident)
		if !ok1 || !ok2 || t.lookupVar(l.Name) == nil || t.lookupVar(r.Name) == nil {
			return false
		}
		count[l.Name]++
		count[r.Name]--
	}
	for _, c := range count {
		if c != 0 {
			return false
		}
	}
	return true
}

func (t *ftrans) curLoops() []ast.Node { return append([]ast.Node(nil), t.loopStack...) }

func (t *ftrans) noteAlias(dst string, src ast.Expr, pos token.Pos) {
	if r, isRef := t.refSource(src); isRef {
		var lp *ast.Node
		if n := len(t.loopStack); n > 0 {
			lp = &t.loopStack[0] // the outermost enclosing loop: everything in it counts as "later"
		}
		t.edges = append(t.edges, aliasEdge{a: dst, b: r, pos: pos, loop: lp})
	}
}

func (t *ftrans) noteWrite(target ast.Expr, pos token.Pos) {
	// a write into storage: x[i] = .., x.f = .., copy(x[..], ..); a plain  x = ..  only rebinds x
	if _, plain := target.(*ast.Ident); plain {
		return
	}
	r := t.rootOf(target)
	if r == "" {
		return
	}
	t.writes = append(t.writes, write{root: r, pos: pos})
	if r == t.recvVar {
		t.recvWrites = append(t.recvWrites, pos)
	} else if contains(t.params, r) {
		t.paramWrites = append(t.paramWrites, write{root: r, pos: pos})
	}
}

// ---- expressions

var binops = map[token.Token]string{
	token.ADD: "BAdd", token.SUB: "BSub", token.MUL: "BMul", token.QUO: "BQuo", token.REM: "BRem",
	token.EQL: "BEq", token.NEQ: "BNe", token.LSS: "BLt", token.LEQ: "BLe", token.GTR: "BGt", token.GEQ: "BGe",
	token.LAND: "BAnd", token.LOR: "BOr",
}
var opassign = map[token.Token]string{
	token.ADD_ASSIGN: "BAdd", token.SUB_ASSIGN: "BSub", token.MUL_ASSIGN: "BMul", token.QUO_ASSIGN: "BQuo", token.REM_ASSIGN: "BRem",
}

func list(items []string) string { return "[" + strings.Join(items, "; ") + "]" }

func (t *ftrans) exprs(es []ast.Expr) string {
	var r []string
	for _, e := range es {
		r = append(r, t.expr(e))
	}
	return list(r)
}

func (t *ftrans) optExpr(e ast.Expr) string {
	if e == nil {
		return "None"
	}
	return "(Some " + t.expr(e) + ")"
}

func (t *ftrans) isPkg(e ast.Expr) bool {
	id, ok := e.(*ast.Ident)
	return ok && t.lookupVar(id.Name) == nil && t.imports[id.Name]
}

// the name N in  N[V]  /  pkg.N[V]  when it is not a local variable
func (t *ftrans) genericName(fun ast.Expr) string {
	var x ast.Expr
	switch ix := fun.(type) {
	case *ast.IndexExpr:
		x = ix.X
	case *ast.IndexListExpr:
		x = ix.X
	default:
		return ""
	}
	switch n := x.(type) {
	case *ast.Ident:
		if t.lookupVar(n.Name) == nil {
			return n.Name
		}
	case *ast.SelectorExpr:
		if t.isPkg(n.X) {
			return n.Sel.Name
		}
	}
	return ""
}

func (t *ftrans) expr(e ast.Expr) string {
	switch x := e.(type) {
	case *ast.BasicLit:
		if x.Kind == token.INT {
			return "(EInt " + x.Value + "%Z)"
		}
		fail(x.Pos(), "literal %s is outside the subset (only integer literals)", x.Value)
	case *ast.ParenExpr:
		return t.expr(x.X)
	case *ast.Ident:
		switch {
		case t.lookupVar(x.Name) != nil:
			return "(EVar " + t.local(x.Pos(), x.Name) + ")"
		case x.Name == "true":
			return "(EBool true)"
		case x.Name == "false":
			return "(EBool false)"
		case x.Name == "nil":
			return "ENil"
		}
		if k, ok := t.pf.consts[x.Name]; ok {
			return fmt.Sprintf("(EInt %d%%Z)", k) // an enumeration constant (const .. = iota) of this package
		}
		fail(x.Pos(), "identifier %q is not a local variable, parameter or receiver", x.Name)
	case *ast.SelectorExpr:
		if t.isPkg(x.X) {
			if k, ok := allConsts[x.Sel.Name]; ok {
				return fmt.Sprintf("(EInt %d%%Z)", k) // an enumeration constant (const .. = iota) of the library
			}
			fail(x.Pos(), "package-qualified name %s.%s outside a call", x.X.(*ast.Ident).Name, x.Sel.Name)
		}
		if t.pf.fieldName[x.Sel.Name] {
			// fields are identified canonically within their struct: the struct must be known, i.e. the receiver's
			if rid, ok := x.X.(*ast.Ident); !ok || rid.Name != t.recvVar || t.pf.structs[t.recvType] == nil {
				fail(x.Pos(), "field access %s on something other than the receiver", x.Sel.Name)
			}
			return "(EField " + t.expr(x.X) + " " + t.pf.structs[t.recvType].fieldID(x.Sel.Pos(), x.Sel.Name) + ")"
		}
		return "(EMethVal " + t.expr(x.X) + " " + t.id(x.Sel.Name) + ")"
	case *ast.BinaryExpr:
		op, ok := binops[x.Op]
		if !ok {
			fail(x.OpPos, "operator %s is outside the subset", x.Op)
		}
		return "(EBin " + op + " " + t.expr(x.X) + " " + t.expr(x.Y) + ")"
	case *ast.UnaryExpr:
		switch x.Op {
		case token.SUB:
			return "(EUn UNeg " + t.expr(x.X) + ")"
		case token.NOT:
			return "(EUn UNot " + t.expr(x.X) + ")"
		case token.AND:
			if cl, ok := x.X.(*ast.CompositeLit); ok {
				return t.composite(cl)
			}
		}
		fail(x.OpPos, "unary operator %s is outside the subset", x.Op)
	case *ast.IndexExpr:
		if t.genericName(x) != "" {
			fail(x.Pos(), "generic instantiation outside a call")
		}
		return "(EIndex " + t.expr(x.X) + " " + t.expr(x.Index) + ")"
	case *ast.SliceExpr:
		if x.Slice3 {
			fail(x.Pos(), "3-index slice expression is outside the subset")
		}
		return "(ESlice " + t.expr(x.X) + " " + t.optExpr(x.Low) + " " + t.optExpr(x.High) + ")"
	case *ast.CallExpr:
		return t.call(x)
	}
	fail(e.Pos(), "expression of kind %T is outside the subset", e)
	return ""
}

func (t *ftrans) composite(cl *ast.CompositeLit) string {
	nm, _ := baseTypeName(cl.Type)
	sd := t.pf.structs[nm]
	if sd == nil {
		fail(cl.Pos(), "composite literal of a type that is not a struct of this package")
	}
	var fs []string
	for _, el := range cl.Elts {
		kv, ok := el.(*ast.KeyValueExpr)
		if !ok {
			fail(el.Pos(), "composite literal without field names")
		}
		k := kv.Key.(*ast.Ident)
		t.noteAlias("(new "+nm+")", kv.Value, kv.Pos())
		fs = append(fs, "("+sd.fieldID(k.Pos(), k.Name)+", "+t.expr(kv.Value)+")")
	}
	return "(ENew " + t.id(nm) + " " + list(fs) + ")"
}

func (t *ftrans) call(c *ast.CallExpr) string {
	if c.Ellipsis.IsValid() {
		fail(c.Ellipsis, "variadic call f(xs...) is outside the subset")
	}
	nargs := func(n int) {
		if len(c.Args) != n {
			fail(c.Pos(), "builtin called with %d arguments (supported: %d)", len(c.Args), n)
		}
	}
	switch f := c.Fun.(type) {
	case *ast.Ident:
		if t.lookupVar(f.Name) != nil {
			return "(ECallVal (EVar " + t.local(f.Pos(), f.Name) + ") " + t.exprs(c.Args) + ")"
		}
		switch f.Name {
		case "len":
			nargs(1)
			return "(ELen " + t.expr(c.Args[0]) + ")"
		case "int":
			nargs(1)
			return "(EToInt " + t.expr(c.Args[0]) + ")"
		case "uint":
			nargs(1)
			return "(EToUint " + t.expr(c.Args[0]) + ")"
		case "make":
			nargs(2)
			at, ok := c.Args[0].(*ast.ArrayType)
			if !ok || at.Len != nil {
				fail(c.Pos(), "make of a non-slice type is outside the subset")
			}
			zk := zkindOf(at.Elt, t.tparams)
			if zk == "" {
				fail(at.Elt.Pos(), "element type of make is outside the subset")
			}
			return "(EMake " + zk + " " + t.expr(c.Args[1]) + ")"
		case "copy":
			nargs(2)
			t.noteWrite(c.Args[0], c.Pos())
			if t.rootOf(c.Args[0]) == "" {
				fail(c.Args[0].Pos(), "destination of copy is not a variable, field, or sub-slice of one")
			}
			return "(ECopy " + t.expr(c.Args[0]) + " " + t.expr(c.Args[1]) + ")"
		case "append":
			if len(c.Args) < 1 {
				fail(c.Pos(), "append without arguments")
			}
			return "(EAppend " + t.expr(c.Args[0]) + " " + t.exprs(c.Args[1:]) + ")"
		case "panic":
			fail(c.Pos(), "panic(..) used as an expression")
		}
		fail(c.Pos(), "call of function %q is outside the subset", f.Name)
	case *ast.IndexExpr, *ast.IndexListExpr:
		nm := t.genericName(f)
		switch {
		case nm != "" && t.pf.sliceTys[nm]:
			nargs(1)
			return "(EConv " + t.id(nm) + " " + t.expr(c.Args[0]) + ")"
		case nm != "" && allAccessors[nm] != "":
			return "(EClass " + t.id(allAccessors[nm]) + " " + t.exprs(c.Args) + ")"
		}
		fail(c.Pos(), "call of a generic function or conversion that is neither a named slice type nor a class accessor")
	case *ast.SelectorExpr:
		if t.isPkg(f.X) {
			fail(c.Pos(), "call of %s.%s is outside the subset", f.X.(*ast.Ident).Name, f.Sel.Name)
		}
		if !t.pf.fieldName[f.Sel.Name] {
			id, isID := f.X.(*ast.Ident)
			t.calls = append(t.calls, callRef{isID && id.Name == t.recvVar, f.Sel.Name})
		}
		if t.pf.fieldName[f.Sel.Name] {
			// v.ranker_(a, b): the field holds a function value (a method value in the semantics)
			return "(ECallVal " + t.expr(f) + " " + t.exprs(c.Args) + ")"
		}
		if r := t.rootOf(f.X); r != "" {
			t.writes = append(t.writes, write{root: r, pos: c.Pos(), method: f.Sel.Name})
			if r == t.recvVar {
				t.recvCalls = append(t.recvCalls, f.Sel.Name)
			} else if contains(t.params, r) {
				t.paramWrites = append(t.paramWrites, write{root: r, pos: c.Pos(), method: f.Sel.Name})
			}
		}
		for i, a := range c.Args {
			// an argument aliases the callee's parameter only for the duration of the call, unless the callee keeps it
			// (decided later, by method name: see aliasErrors)
			if r, isRef := t.refSource(a); isRef {
				var lp *ast.Node
				if n := len(t.loopStack); n > 0 {
					lp = &t.loopStack[0]
				}
				t.argEdges = append(t.argEdges, argEdge{aliasEdge{a: "(argument of " + f.Sel.Name + ")", b: r, pos: a.Pos(), loop: lp}, f.Sel.Name, i + 1})
			}
			if r := t.rootOf(a); r != "" {
				t.argPasses = append(t.argPasses, argPass{r, f.Sel.Name, i + 1, a.Pos()})
			}
		}
		return "(ECall " + t.expr(f.X) + " " + t.id(f.Sel.Name) + " " + t.exprs(c.Args) + ")"
	}
	fail(c.Pos(), "call through an expression of kind %T is outside the subset", c.Fun)
	return ""
}

// the argument of panic is not translated; it must not be able to do anything but build a message
func (t *ftrans) checkPanicArg(e ast.Expr) {
	switch x := e.(type) {
	case *ast.BasicLit:
		return
	case *ast.Ident:
		return
	case *ast.ParenExpr:
		t.checkPanicArg(x.X)
		return
	case *ast.SelectorExpr:
		if t.pf.fieldName[x.Sel.Name] {
			t.checkPanicArg(x.X)
			return
		}
	case *ast.CallExpr:
		if s, ok := x.Fun.(*ast.SelectorExpr); ok && t.isPkg(s.X) && s.X.(*ast.Ident).Name == "fmt" && s.Sel.Name == "Sprintf" {
			for _, a := range x.Args {
				t.checkPanicArg(a)
			}
			return
		}
	}
	fail(e.Pos(), "argument of panic is more than a message (literals, variables, fields, fmt.Sprintf)")
}

// ---- statements

func (t *ftrans) block(b *ast.BlockStmt) string {
	t.push()
	defer t.pop()
	return t.stmts(b.List)
}

func (t *ftrans) stmts(l []ast.Stmt) string {
	var r []string
	for _, s := range l {
		r = append(r, t.stmt(s))
	}
	return list(r)
}

func (t *ftrans) optStmt(s ast.Stmt) string {
	if s == nil {
		return "None"
	}
	return "(Some " + t.stmt(s) + ")"
}

func (t *ftrans) assignTarget(e ast.Expr) string {
	ast.Inspect(e, func(n ast.Node) bool {
		if c, ok := n.(*ast.CallExpr); ok {
			fail(c.Pos(), "call inside an assignment target is outside the subset")
		}
		return true
	})
	if id, ok := e.(*ast.Ident); ok && id.Name == t.recvVar && !t.recvPtr {
		fail(e.Pos(), "assignment to the value receiver %q itself", id.Name)
	}
	if t.rootOf(e) == "" {
		fail(e.Pos(), "assignment target is not a variable, field or element")
	}
	t.noteWrite(e, e.Pos())
	return t.expr(e)
}

func (t *ftrans) stmt(s ast.Stmt) string {
	t.stmtLoops[s.Pos()] = t.curLoops()
	switch x := s.(type) {
	case *ast.DeclStmt:
		gd := x.Decl.(*ast.GenDecl)
		if gd.Tok != token.VAR || len(gd.Specs) != 1 {
			fail(x.Pos(), "declaration other than a single var specification")
		}
		vs := gd.Specs[0].(*ast.ValueSpec)
		var names []string
		if len(vs.Values) == 0 {
			zk := zkindOf(vs.Type, t.tparams)
			if zk == "" {
				fail(vs.Type.Pos(), "zero value of this type is outside the subset")
			}
			for _, n := range vs.Names {
				t.declare(n, scalarType(vs.Type, t.tparams))
				names = append(names, t.local(n.Pos(), n.Name))
			}
			return "(SVar " + list(names) + " (Some " + zk + ") [])"
		}
		init := t.exprs(vs.Values)
		for i, n := range vs.Names {
			sc := vs.Type != nil && scalarType(vs.Type, t.tparams)
			if len(vs.Values) == len(vs.Names) {
				sc = sc || t.scalarExpr(vs.Values[i])
				t.noteAlias(n.Name, vs.Values[i], n.Pos())
			}
			t.declare(n, sc)
			names = append(names, t.local(n.Pos(), n.Name))
		}
		return "(SVar " + list(names) + " None " + init + ")"
	case *ast.AssignStmt:
		switch {
		case x.Tok == token.DEFINE:
			init := t.exprs(x.Rhs)
			var names []string
			for i, l := range x.Lhs {
				n, ok := l.(*ast.Ident)
				if !ok {
					fail(l.Pos(), "left side of := is not an identifier")
				}
				sc := false
				if len(x.Rhs) == len(x.Lhs) {
					sc = t.scalarExpr(x.Rhs[i])
					t.noteAlias(n.Name, x.Rhs[i], n.Pos())
				}
				if _, here := t.sc.vars[n.Name]; !here {
					t.declare(n, sc)
				}
				names = append(names, t.local(n.Pos(), n.Name))
			}
			return "(SVar " + list(names) + " None " + init + ")"
		case x.Tok == token.ASSIGN:
			rhs := t.exprs(x.Rhs)
			var ls []string
			perm := t.isPermutation(x)
			for i, l := range x.Lhs {
				ls = append(ls, t.assignTarget(l))
				if perm {
					// a, b = b, a: the variables exchange what they refer to; no storage becomes shared
					t.swapped[l.(*ast.Ident).Name] = true
					continue
				}
				if len(x.Rhs) == len(x.Lhs) {
					t.noteAlias(t.rootOf(l), x.Rhs[i], l.Pos())
					if id, ok := l.(*ast.Ident); ok {
						if v := t.lookupVar(id.Name); v != nil && !t.scalarExpr(x.Rhs[i]) {
							v.scalar = false
						}
					}
				}
			}
			return "(SAssign " + list(ls) + " " + rhs + ")"
		default:
			op, ok := opassign[x.Tok]
			if !ok || len(x.Lhs) != 1 || len(x.Rhs) != 1 {
				fail(x.TokPos, "assignment operator %s is outside the subset", x.Tok)
			}
			return "(SOpAssign " + op + " " + t.assignTarget(x.Lhs[0]) + " " + t.expr(x.Rhs[0]) + ")"
		}
	case *ast.IncDecStmt:
		inc := "false"
		if x.Tok == token.INC {
			inc = "true"
		}
		return "(SIncDec " + inc + " " + t.assignTarget(x.X) + ")"
	case *ast.ExprStmt:
		if c, ok := x.X.(*ast.CallExpr); ok {
			if id, ok := c.Fun.(*ast.Ident); ok && id.Name == "panic" && t.lookupVar("panic") == nil {
				if len(c.Args) != 1 {
					fail(c.Pos(), "panic with %d arguments", len(c.Args))
				}
				t.checkPanicArg(c.Args[0])
				return "SPanic"
			}
		}
		return "(SExpr " + t.expr(x.X) + ")"
	case *ast.IfStmt:
		if x.Init != nil {
			fail(x.Init.Pos(), "if with an init statement is outside the subset")
		}
		c := t.expr(x.Cond)
		th := t.block(x.Body)
		el := "[]"
		switch e := x.Else.(type) {
		case nil:
		case *ast.BlockStmt:
			el = t.block(e)
		case *ast.IfStmt:
			el = "[" + t.stmt(e) + "]"
		default:
			fail(x.Else.Pos(), "unexpected else branch")
		}
		return "(SIf " + c + " " + th + " " + el + ")"
	case *ast.SwitchStmt:
		if x.Init != nil {
			fail(x.Init.Pos(), "switch with an init statement is outside the subset")
		}
		tag := t.optExpr(x.Tag)
		var cases []string
		for _, cs := range x.Body.List {
			cc := cs.(*ast.CaseClause)
			t.push()
			for _, b := range cc.Body {
				if br, ok := b.(*ast.BranchStmt); ok && br.Tok == token.FALLTHROUGH {
					fail(br.Pos(), "fallthrough is outside the subset")
				}
			}
			guard := "None"
			if cc.List != nil {
				guard = "(Some " + t.exprs(cc.List) + ")"
			}
			cases = append(cases, "("+guard+", "+t.stmts(cc.Body)+")")
			t.pop()
		}
		return "(SSwitch " + tag + " " + list(cases) + ")"
	case *ast.ForStmt:
		t.push()
		defer t.pop()
		t.loopStack = append(t.loopStack, x)
		defer func() { t.loopStack = t.loopStack[:len(t.loopStack)-1] }()
		init := t.optStmt(x.Init)
		return "(SFor " + init + " " + t.optExpr(x.Cond) + " " + t.optStmt(x.Post) + " " + t.block(x.Body) + ")"
	case *ast.RangeStmt:
		if x.Tok != token.DEFINE {
			fail(x.Pos(), "range without := is outside the subset")
		}
		e := t.expr(x.X)
		t.push()
		defer t.pop()
		t.loopStack = append(t.loopStack, x)
		defer func() { t.loopStack = t.loopStack[:len(t.loopStack)-1] }()
		kv := func(n ast.Expr, scalar bool) string {
			if n == nil {
				return "None"
			}
			id, ok := n.(*ast.Ident)
			if !ok {
				fail(n.Pos(), "range variable is not an identifier")
			}
			if id.Name == "_" {
				return "None"
			}
			t.declare(id, scalar)
			return "(Some " + t.local(id.Pos(), id.Name) + ")"
		}
		k := kv(x.Key, true)
		v := kv(x.Value, true)
		return "(SRange " + k + " " + v + " " + e + " " + t.block(x.Body) + ")"
	case *ast.ReturnStmt:
		if t.namedResults && len(x.Results) == 0 {
			fail(x.Pos(), "bare return in a function with named results is outside the subset")
		}
		for _, r := range x.Results {
			t.noteAlias("(result)", r, r.Pos())
		}
		return "(SReturn " + t.exprs(x.Results) + ")"
	case *ast.BranchStmt:
		if x.Label != nil {
			fail(x.Pos(), "labelled %s is outside the subset", x.Tok)
		}
		switch x.Tok {
		case token.BREAK:
			return "SBreak"
		case token.CONTINUE:
			return "SContinue"
		}
		fail(x.Pos(), "%s is outside the subset", x.Tok)
	case *ast.BlockStmt:
		return "(SBlock " + t.block(x) + ")"
	}
	fail(s.Pos(), "statement of kind %T is outside the subset", s)
	return ""
}

// ---------------------------------------------------------------- one function

type fnOut struct {
	Type    string   `json:"type"`
	Method  string   `json:"method"`
	Coq     string   `json:"coq"`
	File    string   `json:"file"`
	Start   int      `json:"start_line"`
	End     int      `json:"end_line"`
	Sha256  string   `json:"sha256"`
	Props   []string `json:"props"`
	Source  string   `json:"source"`
	Locals  []string `json:"locals"` // real names of the variables 1, 2, ..
	term    string
	auto    bool
	trans   *ftrans
	aliasOK []string
}

type errOut struct {
	Type   string   `json:"type"`
	Method string   `json:"method"`
	Pos    string   `json:"pos"`
	Msg    string   `json:"msg"`
	Props  []string `json:"props"`
}

var allAccessors = map[string]string{}
var allConsts = map[string]int{}

func translate(pf *pkgFacts, fset *token.FileSet, fd *ast.FuncDecl, file *ast.File, ids map[string]bool) (fo *fnOut, terrv *terr) {
	defer func() {
		if r := recover(); r != nil {
			if te, ok := r.(terr); ok {
				terrv = &te
				return
			}
			panic(r)
		}
	}()
	t := &ftrans{pf: pf, fset: fset, imports: map[string]bool{}, ids: ids, stmtLoops: map[token.Pos][]ast.Node{}, sliceParams: map[string]int{}, swapped: map[string]bool{}}
	for _, im := range file.Imports {
		if im.Name != nil {
			t.imports[im.Name.Name] = true
		} else {
			p := strings.Trim(im.Path.Value, "\"")
			t.imports[p[strings.LastIndex(p, "/")+1:]] = true
		}
	}
	rf := fd.Recv.List[0]
	t.recvType, t.recvPtr = baseTypeName(rf.Type)
	rt := rf.Type
	if s, ok := rt.(*ast.StarExpr); ok {
		rt = s.X
	}
	switch ix := rt.(type) {
	case *ast.IndexExpr:
		t.tparams = []string{ix.Index.(*ast.Ident).Name}
	case *ast.IndexListExpr:
		for _, i := range ix.Indices {
			t.tparams = append(t.tparams, i.(*ast.Ident).Name)
		}
	}
	_, isStruct := pf.structs[t.recvType]
	switch {
	case isStruct && !t.recvPtr:
		fail(rf.Pos(), "value receiver of a struct type is outside the subset (its writes would be lost)")
	case !isStruct && !pf.sliceTys[t.recvType]:
		fail(rf.Pos(), "receiver type %s is neither a struct nor a named slice type of the package", t.recvType)
	}
	if len(rf.Names) != 1 {
		fail(rf.Pos(), "receiver without a name")
	}
	if fd.Type.TypeParams != nil {
		fail(fd.Pos(), "method with its own type parameters")
	}
	t.push()
	t.recvVar = rf.Names[0].Name
	t.declare(rf.Names[0], false)
	var params []string
	for _, p := range fd.Type.Params.List {
		if _, ok := p.Type.(*ast.Ellipsis); ok {
			fail(p.Pos(), "variadic parameter is outside the subset")
		}
		if len(p.Names) == 0 {
			fail(p.Pos(), "parameter without a name")
		}
		for _, n := range p.Names {
			t.declare(n, scalarType(p.Type, t.tparams))
			if at, ok := p.Type.(*ast.ArrayType); ok && at.Len == nil {
				t.sliceParams[n.Name] = len(t.params) + 1
			}
			t.params = append(t.params, n.Name)
			params = append(params, t.local(n.Pos(), n.Name))
		}
	}
	// named results are local variables holding zero values; a bare return (which would return them) is refused
	var resultDecls []string
	if fd.Type.Results != nil {
		for _, r := range fd.Type.Results.List {
			for _, n := range r.Names {
				zk := zkindOf(r.Type, t.tparams)
				if zk == "" {
					fail(r.Type.Pos(), "zero value of the type of the named result is outside the subset")
				}
				t.declare(n, scalarType(r.Type, t.tparams))
				t.namedResults = true
				resultDecls = append(resultDecls, "(SVar ["+t.local(n.Pos(), n.Name)+"] (Some "+zk+") [])")
			}
		}
	}
	body := t.block(fd.Body)
	if len(resultDecls) > 0 {
		body = "(" + list(resultDecls) + " ++ " + body + ")"
	}
	t.id(t.recvType)
	t.id(fd.Name.Name)
	term := fmt.Sprintf("{| fn_recv := %s; fn_params := %s; fn_wb := @WB@;\n     fn_body := %s |}", t.local(rf.Pos(), t.recvVar), list(params), body)
	var src bytes.Buffer
	start, end := fset.Position(fd.Pos()), fset.Position(fd.End())
	data, _ := os.ReadFile(start.Filename)
	src.Write(data[start.Offset:end.Offset])
	sum := sha256.Sum256(src.Bytes())
	return &fnOut{Type: t.recvType, Method: fd.Name.Name, Coq: "fn_" + t.recvType + "_" + fd.Name.Name,
		Start: start.Line, End: end.Line, Sha256: fmt.Sprintf("%x", sum), term: term, Source: src.String(), Locals: t.locals, trans: t}, nil
}

// ---------------------------------------------------------------- aliasing

// A method name is read-only when every translated method of that name writes nothing through its
// receiver and calls only read-only methods on receiver-rooted paths.
func readOnlyNames(fns []*fnOut) map[string]bool {
	ro := map[string]bool{}
	for _, f := range fns {
		ro[f.Method] = true
	}
	for changed := true; changed; {
		changed = false
		for _, f := range fns {
			if !ro[f.Method] {
				continue
			}
			bad := len(f.trans.recvWrites) > 0
			for _, m := range f.trans.recvCalls {
				if !ro[m] {
					bad = true
				}
			}
			if bad {
				ro[f.Method] = false
				changed = true
			}
		}
	}
	return ro
}

// Value semantics agree with Go unless two live names share storage while one of them is written.
// Conservative check per function: after (or in the same loop as) a statement that copies a reference
// out of a place (an "alias edge" a <- b), nothing may be written through a or b; a function may not
// write through a parameter (the caller would not see it).
// Which slice parameters does a function write through (directly, by exchanging them with another variable, or by
// passing them or a segment of them on to such a parameter of a callee)?  By method name, as a fixpoint.
func writtenParams(fns []*fnOut) map[string]map[int]bool {
	wb := map[string]map[int]bool{}
	set := func(m string, p int) bool {
		if wb[m] == nil {
			wb[m] = map[int]bool{}
		}
		if wb[m][p] {
			return false
		}
		wb[m][p] = true
		return true
	}
	for changed := true; changed; {
		changed = false
		for _, f := range fns {
			t := f.trans
			for name, pos := range t.sliceParams {
				hit := t.swapped[name]
				for _, w := range t.paramWrites {
					if w.root == name && w.method == "" {
						hit = true
					}
				}
				for _, ap := range t.argPasses {
					if ap.param == name && wb[ap.method][ap.pos] {
						hit = true
					}
				}
				if hit && set(f.Method, pos) {
					changed = true
				}
			}
		}
	}
	return wb
}

// Does a method keep a parameter beyond the call (store it, return it, copy it into another variable)?
func keptParams(fns []*fnOut) map[string]map[int]bool {
	kept := map[string]map[int]bool{}
	for _, f := range fns {
		t := f.trans
		for i, name := range t.params {
			for _, e := range t.edges {
				if e.b == name {
					if kept[f.Method] == nil {
						kept[f.Method] = map[int]bool{}
					}
					kept[f.Method][i+1] = true
				}
			}
		}
	}
	return kept
}

// Value semantics agree with Go unless two live names share storage while one of them is written.
// Conservative check per function: after (or in the same loop as) a statement that copies a reference
// out of a place (an "alias edge" a <- b), nothing may be written through a or b.  Writes through a parameter are
// allowed only for parameters of slice type (element writes, copy): those are handed back to the caller (fn_wb).
func aliasErrors(f *fnOut, ro map[string]bool, wb, kept map[string]map[int]bool, known map[string]bool) []terr {
	t := f.trans
	var errs []terr
	isWrite := func(w write) bool { return w.method == "" || !ro[w.method] }
	for _, w := range t.paramWrites {
		if _, slice := t.sliceParams[w.root]; slice && w.method == "" {
			continue
		}
		if isWrite(w) {
			errs = append(errs, terr{w.pos, fmt.Sprintf("writes through the parameter %q, which is not of a slice type (a caller-visible effect that value semantics would lose)", w.root)})
		}
	}
	edges := append([]aliasEdge(nil), t.edges...)
	for _, ae := range t.argEdges {
		if !known[ae.method] || kept[ae.method][ae.pos] {
			edges = append(edges, ae.edge)
		}
	}
	writes := append([]write(nil), t.writes...)
	for _, ap := range t.argPasses {
		if wb[ap.method][ap.pos] {
			writes = append(writes, write{root: ap.param, pos: ap.at})
		}
	}
	for _, e := range edges {
		for _, w := range writes {
			if !isWrite(w) || (w.root != e.a && w.root != e.b) {
				continue
			}
			later := w.pos > e.pos
			if e.loop != nil && w.pos >= (*e.loop).Pos() && w.pos <= (*e.loop).End() {
				later = true
			}
			if later {
				errs = append(errs, terr{w.pos, fmt.Sprintf("%q and %q may share storage (since %s) and one of them is written here: outside value semantics",
					e.a, e.b, t.fset.Position(e.pos))})
			}
		}
	}
	return errs
}

// ---------------------------------------------------------------- main

func coqComment(s string) string {
	s = strings.ReplaceAll(s, "(*", "( *")
	s = strings.ReplaceAll(s, "*)", "* )")
	return s
}

func main() {
	if len(os.Args) != 4 {
		fmt.Fprintln(os.Stderr, "usage: gotrans <repo-root> <out GenSrc.v> <out report.json>")
		os.Exit(2)
	}
	root, outV, outJ := os.Args[1], os.Args[2], os.Args[3]
	fset := token.NewFileSet()
	pkgs := map[string]*pkgFacts{} // by directory
	var errs []errOut
	var fns []*fnOut
	ids := map[string]bool{}
	needFiles := map[string]bool{}
	for _, s := range selection {
		needFiles[s.File] = true
	}
	parseErr := map[string]string{}
	for _, dir := range []string{"agent", "collection"} {
		pf := &pkgFacts{structs: map[string]*structDecl{}, sliceTys: map[string]bool{}, accessors: map[string]string{},
			fieldName: map[string]bool{}, consts: map[string]int{}, funcs: map[string]*ast.FuncDecl{}, files: map[string]*ast.File{}, fileOf: map[*ast.FuncDecl]string{}}
		pkgs[dir] = pf
		matches, err := filepath.Glob(filepath.Join(root, "v4", dir, "*.go"))
		if err != nil || len(matches) == 0 {
			fmt.Fprintf(os.Stderr, "gotrans: no Go sources in %s\n", filepath.Join(root, "v4", dir))
			os.Exit(2)
		}
		sort.Strings(matches)
		for _, m := range matches {
			if strings.HasSuffix(m, "_test.go") {
				continue
			}
			rel := dir + "/" + filepath.Base(m)
			f, err := parser.ParseFile(fset, m, nil, parser.SkipObjectResolution)
			if err != nil {
				parseErr[rel] = err.Error()
				continue
			}
			pf.scan(rel, f)
		}
		for k, v := range pf.accessors {
			allAccessors[k] = v
		}
		for k, v := range pf.consts {
			allConsts[k] = v
		}
	}
	for _, s := range selection {
		pf := pkgs[filepath.Dir(s.File)]
		if pe, bad := parseErr[s.File]; bad {
			errs = append(errs, errOut{s.Recv, s.Method, s.File, "the file does not parse: " + pe, s.Props})
			continue
		}
		fd := pf.funcs[s.Recv+"."+s.Method]
		if fd == nil || pf.fileOf[fd] != s.File {
			errs = append(errs, errOut{s.Recv, s.Method, "v4/" + s.File, fmt.Sprintf("selected method %s.%s no longer exists in v4/%s", s.Recv, s.Method, s.File), s.Props})
			continue
		}
		fo, te := translate(pf, fset, fd, pf.files[s.File], ids)
		if te != nil {
			p := fset.Position(te.pos)
			errs = append(errs, errOut{s.Recv, s.Method, fmt.Sprintf("v4/%s:%d", s.File, p.Line), te.msg, s.Props})
			continue
		}
		fo.File = "v4/" + s.File
		fo.Props = s.Props
		fns = append(fns, fo)
	}
	// Callees are selected automatically: a method that a translated function calls on its own receiver, and every
	// method of that name of a translated receiver type when the receiver of the call is something else (the dynamic
	// type is not known syntactically), transitively.  A callee outside the subset is an error for the properties of
	// its callers.
	have := map[string]bool{}
	recvTypes := map[string]string{} // translated receiver type -> package directory
	for _, s := range selection {
		have[s.Recv+"."+s.Method] = true
		recvTypes[s.Recv] = filepath.Dir(s.File)
	}
	for i := 0; i < len(fns); i++ {
		f := fns[i]
		for _, c := range f.trans.calls {
			var cands []string
			if c.onSelf {
				cands = []string{f.Type}
			} else {
				for ty := range recvTypes {
					cands = append(cands, ty)
				}
				sort.Strings(cands)
			}
			for _, ty := range cands {
				key := ty + "." + c.method
				pf := pkgs[recvTypes[ty]]
				fd := pf.funcs[key]
				if fd == nil {
					continue
				}
				if have[key] {
					// a callee reached from a further property: its theorems rest on it as well
					for _, g := range fns {
						if g.Type == ty && g.Method == c.method {
							for _, pr := range f.Props {
								if !contains(g.Props, pr) && g.auto {
									g.Props = append(g.Props, pr)
								}
							}
						}
					}
					continue
				}
				have[key] = true
				rel := pf.fileOf[fd]
				fo, te := translate(pf, fset, fd, pf.files[rel], ids)
				if te != nil {
					p := fset.Position(te.pos)
					errs = append(errs, errOut{ty, c.method, fmt.Sprintf("v4/%s:%d", rel, p.Line),
						"(callee of " + f.Type + "." + f.Method + ", selected automatically) " + te.msg, f.Props})
					continue
				}
				fo.File = "v4/" + rel
				fo.Props = append([]string(nil), f.Props...)
				fo.auto = true
				fns = append(fns, fo)
			}
		}
	}
	sort.SliceStable(fns, func(a, b int) bool { // the automatically selected ones after the table, in a stable order
		if fns[a].auto != fns[b].auto {
			return !fns[a].auto
		}
		if !fns[a].auto {
			return false
		}
		return fns[a].Type+"."+fns[a].Method < fns[b].Type+"."+fns[b].Method
	})
	ro := readOnlyNames(fns)
	wbs := writtenParams(fns)
	keptP := keptParams(fns)
	known := map[string]bool{}
	for _, f := range fns {
		known[f.Method] = true
	}
	for _, f := range fns {
		var ps []string
		for p := 1; p <= len(f.trans.params); p++ {
			if wbs[f.Method][p] {
				if _, ok := f.trans.sliceParams[f.trans.params[p-1]]; ok {
					ps = append(ps, fmt.Sprint(p))
				}
			}
		}
		f.term = strings.Replace(f.term, "@WB@", list(ps), 1)
	}
	var kept []*fnOut
	for _, f := range fns {
		aes := aliasErrors(f, ro, wbs, keptP, known)
		if len(aes) > 0 {
			p := fset.Position(aes[0].pos)
			errs = append(errs, errOut{f.Type, f.Method, fmt.Sprintf("%s:%d", f.File, p.Line), aes[0].msg, f.Props})
			continue
		}
		kept = append(kept, f)
	}
	fns = kept

	// identifiers: every name of the selection table too, so that proofs and sweeps can always name them
	for _, s := range selection {
		ids[s.Recv] = true
		ids[s.Method] = true
	}
	for _, e := range externals {
		ids[e[0]] = true
		ids[e[1]] = true
	}
	// structs: those that are named by the selection or by a translated composite literal
	var structNames []string
	structOf := map[string]*structDecl{}
	for _, pf := range pkgs {
		for n, sd := range pf.structs {
			if ids[n] {
				structNames = append(structNames, n)
				structOf[n] = sd
			}
		}
	}
	sort.Strings(structNames)
	var names []string
	for n := range ids {
		names = append(names, n)
	}
	sort.Strings(names)

	// GenSrc.v is pure data and does not mention anything that an alpha-renaming, a reordering of declarations, a
	// comment or a moved line would change: the Go text, the real names of variables and fields and the
	// file:line spans are in the report only.
	var b bytes.Buffer
	b.WriteString("(* GenSrc.v — GENERATED by tools/gotrans from the Go sources on every run; do not edit.\n")
	b.WriteString("   One MiniGo term (coq/MiniGo.v) per selected method, in the order of the selection table.\n")
	b.WriteString("   Alpha-normal: variables are numbered by declaration site (receiver = 1, parameters, locals), struct\n")
	b.WriteString("   fields are f_<kind><ordinal among the fields of that kind>; method and type names are kept.\n")
	b.WriteString("   The Go text, the real names and the source positions are in build/gotrans.json. *)\n")
	b.WriteString("From Verif Require Import Base MiniGo.\nFrom Coq Require Import PArith.\n\n")
	b.WriteString("(* method and type names (numbered from 101; 1..20 are the canonical field identifiers of MiniGo.v) *)\n")
	for i, n := range names {
		fmt.Fprintf(&b, "Notation id_%s := %d%%positive (only parsing).\n", n, i+101)
	}
	b.WriteString("\n")
	for _, f := range fns {
		fmt.Fprintf(&b, "(* %s.%s *)\nDefinition %s : fndef :=\n  %s.\n\n", f.Type, f.Method, f.Coq, f.term)
	}
	b.WriteString("Definition prog : program := {|\n  p_fns := [\n")
	for i, f := range fns {
		sep := ";"
		if i == len(fns)-1 {
			sep = ""
		}
		fmt.Fprintf(&b, "    ((id_%s, id_%s), %s)%s\n", f.Type, f.Method, f.Coq, sep)
	}
	b.WriteString("  ];\n  p_structs := [\n")
	fieldNames := map[string]map[string]string{}
	for i, n := range structNames {
		sd := structOf[n]
		type fl struct {
			num  int
			text string
		}
		var fls []fl
		fieldNames[n] = map[string]string{}
		for j, f := range sd.fields {
			id := sd.fieldID(token.NoPos, f)
			fls = append(fls, fl{sd.fieldNum(j), fmt.Sprintf("(%s, %s)", id, sd.zk[j])})
			fieldNames[n][id] = f
		}
		sort.Slice(fls, func(a, b int) bool { return fls[a].num < fls[b].num }) // canonical order: by identifier
		var fs []string
		for _, f := range fls {
			fs = append(fs, f.text)
		}
		sep := ";"
		if i == len(structNames)-1 {
			sep = ""
		}
		fmt.Fprintf(&b, "    (id_%s, %s)%s\n", n, list(fs), sep)
	}
	b.WriteString("  ] |}.\n")

	old, _ := os.ReadFile(outV)
	if !bytes.Equal(old, b.Bytes()) {
		if err := os.WriteFile(outV, b.Bytes(), 0o644); err != nil {
			fmt.Fprintln(os.Stderr, "gotrans:", err)
			os.Exit(2)
		}
	}
	rep := map[string]any{"functions": fns, "errors": errs, "fields": fieldNames}
	if errs == nil {
		rep["errors"] = []errOut{}
	}
	js, _ := json.MarshalIndent(rep, "", " ")
	if err := os.WriteFile(outJ, js, 0o644); err != nil {
		fmt.Fprintln(os.Stderr, "gotrans:", err)
		os.Exit(2)
	}
	for _, e := range errs {
		fmt.Fprintf(os.Stderr, "gotrans: %s: %s.%s: %s\n", e.Pos, e.Type, e.Method, e.Msg)
	}
	fmt.Printf("gotrans: %d functions translated, %d errors -> %s\n", len(fns), len(errs), outV)
	if len(errs) > 0 {
		os.Exit(1)
	}
}
