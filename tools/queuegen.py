"""The proofs about the REGENERATED queue methods (coq/GenQueue.v, written by tools/goqueue from
v4/collection/queue.go on every run): coq/GenC04.v shows that the interleaving machine over these bodies is, step
for step, the hand-written machine of coq/Conc.v that the theorems of C04/C05/C06 are about.  It is compiled here,
after the correspondence run of the property, not in the common build.  Used by props.check for the properties
configured with "queue_proofs"."""
import os, re, time


def enclosing_lemma(path, line):
    name = None
    for i, l in enumerate(open(path).read().split('\n'), 1):
        m = re.match(r'\s*(Theorem|Lemma|Corollary|Example|Fact|Proposition)\s+(\w+)', l)
        if m:
            name = m.group(2)
        if i >= line:
            break
    return name


def queue_check(drv, violation, pid, cfg, info, seed, tier, viol_so_far):
    """returns (number of violations, evidence)"""
    coq = drv.COQ
    ev = dict(translator=info.get('goqueue'), queue_proofs=cfg['queue_proofs'],
              generated=re.findall(r'Definition (gen_\w+) : list qstmt := \(\* (queue\.go:\d+) \*\)', open(os.path.join(coq, 'GenQueue.v')).read()))
    t0 = time.time()
    failed, out = None, ''
    with drv.Lock():
        for f in cfg['queue_proofs']:
            rc, out = drv.run(['timeout', '900', 'coqc', '-R', coq, 'Verif', os.path.join(coq, f)], cwd=coq)
            if rc != 0:
                failed = f
                vo = os.path.join(coq, f[:-2] + '.vo')
                if os.path.exists(vo):
                    os.remove(vo)
                break
    ev['queue_proofs_s'] = round(time.time() - t0, 1)
    if failed is None:
        names = re.findall(r'Print Assumptions\s+(\w+)', open(os.path.join(coq, cfg['queue_proofs'][-1])).read())
        txt = ' | '.join(l.rstrip() for l in out.split('\n') if l.strip())
        ev['print_assumptions'] = 'Print Assumptions of %s (in order %s): %s' % (cfg['queue_proofs'][-1], ', '.join(names), txt)
        bad = [l for l in out.split('\n') if l.strip() and 'Closed under the global context' not in l]
        if bad or not names:
            violation(drv, pid, dict(property=pid, seed=seed, tier=tier, case='queueproof', kind='proof-obligation',
                                     theorem_or_correspondence='%s compiles but its theorems are not closed under the global context' % cfg['queue_proofs'][-1],
                                     output=out[-3000:]), 'no-failing-input-found')
            return 1, ev
        return 0, ev
    # a lemma about the regenerated methods no longer checks: which one, and is there a schedule on which the machine
    # over the regenerated bodies departs from the model (bounded exhaustive search over small programs, QueueSweep.v)?
    m = re.search(r'File "[^"]*?([\w.]+\.v)", line (\d+), characters', out)
    lemma = enclosing_lemma(os.path.join(coq, m.group(1)), int(m.group(2))) if m else None
    where = '%s:%s' % (m.group(1), m.group(2)) if m else failed
    ev['failed'] = dict(file=failed, lemma=lemma, at=where)
    outdir = os.path.join(drv.BUILD, pid)
    os.makedirs(outdir, exist_ok=True)
    sw = os.path.join(outdir, 'queuesweep.v')
    open(sw, 'w').write('From Coq Require Import String List.\nFrom Verif Require Import QueueLang GenQueue QueueSweep.\nOpen Scope string_scope.\n'
                        'Definition B := Eval vm_compute in queue_sweep_behaviour.\nPrint B.\n'
                        'Definition D := Eval vm_compute in queue_sweep_discipline.\nPrint D.\n'
                        'Definition U := Eval vm_compute in filter (fun m => match snd m with SUnknown _ :: _ => true | _ => false end) '
                        '(flat_map (fun m => map (fun s => (fst m, s)) (snd m)) gen_methods).\nPrint U.\n')
    ts = time.time()
    rc, sout = drv.run(['timeout', '900', 'coqc', '-R', coq, 'Verif', sw], cwd=outdir)
    ev['sweep_s'] = round(time.time() - ts, 1)

    def grab(name):
        mm = re.search(r'%s =\s*(.*?)\n\s*: list' % name, sout, re.S)
        return re.sub(r'\s+', ' ', mm.group(1)).strip() if mm else None
    beh, dis, unk = grab('B'), grab('D'), grab('U')
    ev['sweep'] = dict(behaviour=beh, discipline=dis, outside_subset=unk)
    bodies = open(os.path.join(coq, 'GenQueue.v')).read()
    common = dict(property=pid, seed=seed, tier=tier, kind='generated-code', lemma_that_no_longer_checks=lemma, at=where,
                  coqc_output=out[-2500:], regenerated_methods=bodies[-6000:], rerun='./check %s' % pid,
                  statements_outside_the_subset=unk,
                  schedules_leaving_the_segment_discipline=dis,
                  explanation='coq/GenC04.v proves that the machine over the queue methods regenerated from v4/collection/queue.go (coq/GenQueue.v) is step for step the model of coq/Conc.v; '
                              'the lemma named here no longer checks against the current source. schedules: (program, kind, thread ids in order) with kind 1 = different queue contents/results, '
                              '2 = a step enabled in one machine and blocked in the other, 3 = a segment of the regenerated code does more than one shared action between two scheduling points, touches the list outside the mutex or leaves the subset')
    if beh not in (None, '[]', 'nil'):
        violation(drv, pid, dict(common, case='queuegen',
                                 failing_schedule_on_the_regenerated_code=beh,
                                 what='on these small programs and schedules the regenerated queue methods, executed by the semantics of coq/QueueSem.v, give queue contents, results or blocking different from the FIFO model (bounded exhaustive search, coq/QueueSweep.v)'))
        return 1, ev
    if viol_so_far == 0:
        violation(drv, pid, dict(common, case='queuegen',
                                 theorem_or_correspondence='the lemma %s of %s about the queue methods regenerated from the current source no longer checks; neither the correspondence run on the real code nor the bounded search over small programs found a schedule on which the behaviour differs from the model' % (lemma, failed)),
                  'no-failing-input-found')
        return 1, ev
    # the correspondence run of this check already reported concrete failing schedules on the real code: this is their explanation
    ev['explains_correspondence'] = True
    import glob, json
    for rp in glob.glob(os.path.join(drv.BUILD, 'replay', pid + '-*.json')):
        try:
            r = json.load(open(rp))
            r['generated_code_explanation'] = {k: common[k] for k in ('lemma_that_no_longer_checks', 'at', 'statements_outside_the_subset', 'schedules_leaving_the_segment_discipline')}
            json.dump(r, open(rp, 'w'), indent=1)
        except Exception:
            pass
    return 0, ev
