"""The proofs about the REGENERATED queue methods (coq/GenQueue.v, written by tools/goqueue from
v4/collection/queue.go on every run): coq/GenC04.v shows that the interleaving machine over these bodies is, step
for step, the hand-written machine of coq/Conc.v that the theorems of C04/C05/C06 are about.  It is compiled here,
after the correspondence run of the property, not in the common build.  Used by props.check for the properties
configured with "queue_proofs"."""
import os, re, time


def enclosing_lemma(path, line):
    name = None
    for i, l in enumerate(open(path).read().split('\n'), 1):
        m = re.match(r'\s*(Theorem|Lemma|Corollary|Example|Fact|Proposition)\s+(\w+)', l)
        if m:
            name = m.group(2)
        if i >= line:
            break
    return name


def queue_check(drv, violation, pid, cfg, info, seed, tier, viol_so_far):
    """returns (number of violations, evidence)"""
    coq = drv.COQ
    if 'GenC12.v' in cfg['queue_proofs']:
        return scan_check(drv, violation, pid, cfg, info, seed, tier, viol_so_far)
    ev = dict(translator=info.get('goqueue'), translator_pipes=info.get('gopipes'), queue_proofs=cfg['queue_proofs'],
              generated_class_functions=re.findall(r'Definition (gen_\w+) : list pstmt := \(\* (queue\.go:\d+) \*\)', open(os.path.join(coq, 'GenPipes.v')).read()) if os.path.exists(os.path.join(coq, 'GenPipes.v')) else None,
              generated=re.findall(r'Definition (gen_\w+) : list qstmt := \(\* (queue\.go:\d+) \*\)', open(os.path.join(coq, 'GenQueue.v')).read()))
    t0 = time.time()
    failed, out = None, ''
    with drv.Lock():
        for f in cfg['queue_proofs']:
            rc, out = drv.coqc_cached(f)
            if rc != 0:
                failed = f
                vo = os.path.join(coq, f[:-2] + '.vo')
                if os.path.exists(vo):
                    os.remove(vo)
                break
    ev['queue_proofs_s'] = round(time.time() - t0, 1)
    if failed is None:
        names = re.findall(r'Print Assumptions\s+(\w+)', open(os.path.join(coq, cfg['queue_proofs'][-1])).read())
        ev['theorems'] = {f: re.findall(r'Print Assumptions\s+(\w+)', open(os.path.join(coq, f)).read()) for f in cfg['queue_proofs']}
        txt = ' | '.join(l.rstrip() for l in out.split('\n') if l.strip())
        ev['print_assumptions'] = 'Print Assumptions of %s (in order %s): %s' % (cfg['queue_proofs'][-1], ', '.join(names), txt)
        bad = [l for l in out.split('\n') if l.strip() and 'Closed under the global context' not in l]
        if bad or not names:
            violation(drv, pid, dict(property=pid, seed=seed, tier=tier, case='queueproof', kind='proof-obligation',
                                     theorem_or_correspondence='%s compiles but its theorems are not closed under the global context' % cfg['queue_proofs'][-1],
                                     output=out[-3000:]), 'no-failing-input-found')
            return 1, ev
        return 0, ev
    if failed == 'GenC12.v':
        return scan_explain(drv, violation, pid, cfg, info, seed, tier, viol_so_far, failed, out, ev)
    if failed == 'GenC06.v' or (failed and 'Pipe' in failed):
        return pipes_explain(drv, violation, pid, cfg, info, seed, tier, viol_so_far, failed, out, ev)
    # a lemma about the regenerated methods no longer checks: which one, and is there a schedule on which the machine
    # over the regenerated bodies departs from the model (bounded exhaustive search over small programs, QueueSweep.v)?
    m = re.search(r'File "[^"]*?([\w.]+\.v)", line (\d+), characters', out)
    lemma = enclosing_lemma(os.path.join(coq, m.group(1)), int(m.group(2))) if m else None
    where = '%s:%s' % (m.group(1), m.group(2)) if m else failed
    ev['failed'] = dict(file=failed, lemma=lemma, at=where)
    outdir = os.path.join(drv.BUILD, pid)
    os.makedirs(outdir, exist_ok=True)
    sw = os.path.join(outdir, 'queuesweep.v')
    open(sw, 'w').write('From Coq Require Import String List.\nFrom Verif Require Import QueueLang GenQueue QueueSweep.\nOpen Scope string_scope.\n'
                        'Definition B := Eval vm_compute in queue_sweep_behaviour.\nPrint B.\n'
                        'Definition D := Eval vm_compute in queue_sweep_discipline.\nPrint D.\n'
                        'Definition U := Eval vm_compute in filter (fun m => match snd m with SUnknown _ :: _ => true | _ => false end) '
                        '(flat_map (fun m => map (fun s => (fst m, s)) (snd m)) gen_methods).\nPrint U.\n')
    ts = time.time()
    rc, sout = drv.run(['timeout', '900', 'coqc', '-R', coq, 'Verif', sw], cwd=outdir)
    ev['sweep_s'] = round(time.time() - ts, 1)

    def grab(name):
        mm = re.search(r'%s =\s*(.*?)\n\s*: list' % name, sout, re.S)
        return re.sub(r'\s+', ' ', mm.group(1)).strip() if mm else None
    beh, dis, unk = grab('B'), grab('D'), grab('U')
    ev['sweep'] = dict(behaviour=beh, discipline=dis, outside_subset=unk)
    bodies = open(os.path.join(coq, 'GenQueue.v')).read()
    common = dict(property=pid, seed=seed, tier=tier, kind='generated-code', lemma_that_no_longer_checks=lemma, at=where,
                  coqc_output=out[-2500:], regenerated_methods=bodies[-6000:], rerun='./check %s' % pid,
                  statements_outside_the_subset=unk,
                  schedules_leaving_the_segment_discipline=dis,
                  explanation='coq/GenC04.v proves that the machine over the queue methods regenerated from v4/collection/queue.go (coq/GenQueue.v) is step for step the model of coq/Conc.v; '
                              'the lemma named here no longer checks against the current source. schedules: (program, kind, thread ids in order) with kind 1 = different queue contents/results, '
                              '2 = a step enabled in one machine and blocked in the other, 3 = a segment of the regenerated code does more than one shared action between two scheduling points, touches the list outside the mutex or leaves the subset')
    if beh not in (None, '[]', 'nil'):
        violation(drv, pid, dict(common, case='queuegen',
                                 failing_schedule_on_the_regenerated_code=beh,
                                 what='on these small programs and schedules the regenerated queue methods, executed by the semantics of coq/QueueSem.v, give queue contents, results or blocking different from the FIFO model (bounded exhaustive search, coq/QueueSweep.v)'))
        return 1, ev
    if viol_so_far == 0:
        violation(drv, pid, dict(common, case='queuegen',
                                 theorem_or_correspondence='the lemma %s of %s about the queue methods regenerated from the current source no longer checks; neither the correspondence run on the real code nor the bounded search over small programs found a schedule on which the behaviour differs from the model' % (lemma, failed)),
                  'no-failing-input-found')
        return 1, ev
    # the correspondence run of this check already reported concrete failing schedules on the real code: this is their explanation
    ev['explains_correspondence'] = True
    import glob, json
    for rp in glob.glob(os.path.join(drv.BUILD, 'replay', pid + '-*.json')):
        try:
            r = json.load(open(rp))
            r['generated_code_explanation'] = {k: common[k] for k in ('lemma_that_no_longer_checks', 'at', 'statements_outside_the_subset', 'schedules_leaving_the_segment_discipline')}
            json.dump(r, open(rp, 'w'), indent=1)
        except Exception:
            pass
    return 0, ev


def pipes_explain(drv, violation, pid, cfg, info, seed, tier, viol_so_far, failed, out, ev):
    """a lemma of coq/GenC06.v about the regenerated class functions (constructors, Fork/Split/Join and their helper
    goroutines; coq/GenPipes.v) no longer checks: which one, and is there a pipeline + schedule (or a number of initial
    values) on which the machine over the regenerated code departs from the model (coq/PipeSweep.v)?"""
    coq = drv.COQ
    m = re.search(r'File "[^"]*?([\w.]+\.v)", line (\d+), characters', out)
    lemma = enclosing_lemma(os.path.join(coq, m.group(1)), int(m.group(2))) if m else None
    where = '%s:%s' % (m.group(1), m.group(2)) if m else failed
    ev['failed'] = dict(file=failed, lemma=lemma, at=where)
    outdir = os.path.join(drv.BUILD, pid)
    os.makedirs(outdir, exist_ok=True)
    sw = os.path.join(outdir, 'pipesweep.v')
    open(sw, 'w').write('From Coq Require Import String List ZArith.\nFrom Verif Require Import PipeLang GenPipes PipeSem PipeSweep.\nOpen Scope string_scope.\n'
                        'Definition Q := Eval vm_compute in pipe_sweep_quick.\nPrint Q.\n'
                        'Definition A := Eval vm_compute in pipe_sweep_all.\nPrint A.\n'
                        'Definition S := Eval vm_compute in firstn 12 sweep_ctor_sizes.\nPrint S.\n'
                        'Definition K := Eval vm_compute in firstn 12 sweep_ctor_blocks.\nPrint K.\n')
    ts = time.time()
    rc, sout = drv.run(['timeout', '900', 'coqc', '-R', coq, 'Verif', sw], cwd=outdir)
    ev['sweep_s'] = round(time.time() - ts, 1)

    def grab(name):
        mm = re.search(r'%s =\s*(.*?)\n\s*: list' % name, sout, re.S)
        return re.sub(r'\s+', ' ', mm.group(1)).strip() if mm else None
    quick, allsched, sizes, blocks = grab('Q'), grab('A'), grab('S'), grab('K')
    bodies = open(os.path.join(coq, 'GenPipes.v')).read()
    unknown = re.findall(r'PUnknown "((?:[^"]|"")*)"', bodies)
    ev['sweep'] = dict(deterministic_schedules=quick, all_schedules_bounded=allsched, constructor_sizes_with_other_capacity=sizes,
                       constructor_sizes_that_block=blocks, outside_subset=unknown)
    empty = (None, '[]', 'nil')
    common = dict(property=pid, seed=seed, tier=tier, kind='generated-code', lemma_that_no_longer_checks=lemma, at=where,
                  coqc_output=out[-2500:], regenerated_class_functions=bodies[-7000:], rerun='./check %s' % pid,
                  statements_outside_the_subset=unknown,
                  explanation='coq/GenC06.v proves that the constructors and the Fork/Split/Join helper goroutines regenerated from v4/collection/queue.go (coq/GenPipes.v, tools/gopipes; meaning: coq/PipeSem.v) '
                              'are the programs the C05/C06 theorems are about (ConcLive.ctor_config with capacity max(default, N); the loops LFork/LSplit/LJoin of Conc.continue; wait group counted before the go statement); '
                              'the lemma named here no longer checks against the current source. schedules: (pipeline, kind, thread ids in order; thread 0 = the first helper) with kind 0 = the regenerated function does not start (panic / outside the subset), '
                              '1 = different queue contents, wait-group counter or results, 2 = a step enabled in one machine and blocked in the other, 3 = the regenerated code leaves the subset (e.g. a method called on the nil queue that GetNext returns at the end of the iterator). '
                              'constructor sizes: (number of initial values, capacities of the queue made), listed when the capacity is not max(default, N) / when it is smaller than N (the constructor blocks on its own AddValue)')
    found = {}
    if quick not in empty:
        found['failing_schedule_on_the_regenerated_code'] = quick
    if allsched not in empty:
        found['failing_schedule_bounded_search'] = allsched
    if blocks not in empty:
        found['constructor_blocks_for_these_numbers_of_initial_values'] = blocks
    if sizes not in empty:
        found['constructor_capacity_differs_from_max_default_N'] = sizes
    if 'failing_schedule_on_the_regenerated_code' in found or 'failing_schedule_bounded_search' in found or 'constructor_blocks_for_these_numbers_of_initial_values' in found:
        violation(drv, pid, dict(common, case='pipesgen', what='on these inputs the regenerated class functions, executed by the semantics of coq/PipeSem.v over the regenerated queue methods, behave differently from the model the theorems are about (coq/PipeSweep.v: deterministic complete schedules, all schedules to a bounded depth, constructor sizes 0..4*default+1)', **found))
        return 1, ev
    if viol_so_far == 0:
        violation(drv, pid, dict(common, case='pipesgen', theorem_or_correspondence='the lemma %s of %s about the class functions regenerated from the current source no longer checks; neither the correspondence run on the real code nor the search over small pipelines and constructor sizes found an input on which the behaviour differs from the model' % (lemma, failed), **found),
                  'no-failing-input-found')
        return 1, ev
    ev['explains_correspondence'] = True
    import glob, json
    for rp in glob.glob(os.path.join(drv.BUILD, 'replay', pid + '-*.json')):
        try:
            r = json.load(open(rp))
            r['generated_code_explanation'] = dict(lemma_that_no_longer_checks=lemma, at=where, statements_outside_the_subset=unknown, **found)
            json.dump(r, open(rp, 'w'), indent=1)
        except Exception:
            pass
    return 0, ev


def scan_check(drv, violation, pid, cfg, info, seed, tier, viol_so_far):
    """the proofs about the scanner's bookkeeping regenerated by tools/goscan (coq/GenScan.v): coq/GenC12.v"""
    coq = drv.COQ
    gs = open(os.path.join(coq, 'GenScan.v')).read()
    ev = dict(translator_scan=info.get('goscan'), queue_proofs=cfg['queue_proofs'],
              generated_scanner_methods=re.findall(r'Definition (gen_\w+) : list sstmt := \(\* (scanner\.go:\d+) \*\)', gs))
    t0 = time.time()
    failed, out = None, ''
    with drv.Lock():
        for f in cfg['queue_proofs']:
            rc, out = drv.coqc_cached(f)
            if rc != 0:
                failed = f
                break
    ev['queue_proofs_s'] = round(time.time() - t0, 1)
    if failed is None:
        names = re.findall(r'Print Assumptions\s+(\w+)', open(os.path.join(coq, cfg['queue_proofs'][-1])).read())
        ev['theorems'] = {f: re.findall(r'Print Assumptions\s+(\w+)', open(os.path.join(coq, f)).read()) for f in cfg['queue_proofs']}
        txt = ' | '.join(l.rstrip() for l in out.split('\n') if l.strip())
        ev['print_assumptions'] = 'Print Assumptions of %s (in order %s): %s' % (cfg['queue_proofs'][-1], ', '.join(names), txt)
        bad = [l for l in out.split('\n') if l.strip() and 'Closed under the global context' not in l]
        if bad or not names:
            violation(drv, pid, dict(property=pid, seed=seed, tier=tier, case='scanproof', kind='proof-obligation',
                                     theorem_or_correspondence='%s compiles but its theorems are not closed under the global context' % cfg['queue_proofs'][-1],
                                     output=out[-3000:]), 'no-failing-input-found')
            return 1, ev
        return 0, ev
    return scan_explain(drv, violation, pid, cfg, info, seed, tier, viol_so_far, failed, out, ev)


def scan_explain(drv, violation, pid, cfg, info, seed, tier, viol_so_far, failed, out, ev):
    """a lemma of coq/GenC12.v about the regenerated scanner bookkeeping no longer checks: which one, and is there a small
    source on which the regenerated scanner and the model differ (coq/ScanSweep.v)?"""
    coq = drv.COQ
    m = re.search(r'File "[^"]*?([\w.]+\.v)", line (\d+), characters', out)
    lemma = enclosing_lemma(os.path.join(coq, m.group(1)), int(m.group(2))) if m else None
    where = '%s:%s' % (m.group(1), m.group(2)) if m else failed
    ev['failed'] = dict(file=failed, lemma=lemma, at=where)
    outdir = os.path.join(drv.BUILD, pid)
    os.makedirs(outdir, exist_ok=True)
    sw = os.path.join(outdir, 'scansweep.v')
    open(sw, 'w').write('From Coq Require Import String List ZArith.\nFrom Verif Require Import Lexer ScanSweep.\n'
                        'Definition W := Eval vm_compute in scan_sweep.\nPrint W.\n')
    ts = time.time()
    rc, sout = drv.run(['timeout', '900', 'coqc', '-R', coq, 'Verif', sw], cwd=outdir)
    ev['sweep_s'] = round(time.time() - ts, 1)
    mm = re.search(r'W =\s*(.*?)\n\s*: list', sout, re.S)
    found = re.sub(r'\s+', ' ', mm.group(1)).strip() if mm else None
    sources = []
    if found not in (None, '[]', 'nil'):
        # the sources as Go string literals, for the reader
        for runes in re.findall(r'\(\(?\s*((?:\d+ :: )*nil|\[[\d; ]*\])\s*,', found):
            nums = [int(x) for x in re.findall(r'\d+', runes)]
            sources.append(''.join(chr(c) for c in nums))
    gs = open(os.path.join(coq, 'GenScan.v')).read()
    unknown = re.findall(r'SUnknown "((?:[^"]|"")*)"', gs)
    ev['sweep'] = dict(differing_sources=found, as_text=sources, outside_subset=unknown)
    common = dict(property=pid, seed=seed, tier=tier, kind='generated-code', lemma_that_no_longer_checks=lemma, at=where,
                  coqc_output=out[-2500:], regenerated_scanner=gs[-6000:], rerun='./check %s' % pid,
                  statements_outside_the_subset=unknown,
                  explanation='coq/GenC12.v proves that the token / line / position bookkeeping regenerated from v4/cdcn/scanner.go (coq/GenScan.v, tools/goscan; meaning: coq/ScanSem.v, the regular-expression match taken from the model) '
                              'produces for every source the token list of Lexer.lex, about which the C12 theorems are (indexOfLastEOL, one foundToken step, the order of the cases of scanTokens, the renaming table, the Error/EOF tail); '
                              'the lemma named here no longer checks against the current source. differing sources: (runes of the source, tokens of the regenerated scanner or None when it panics / leaves the subset, tokens of the model), '
                              'the shortest of all strings up to length 5 over the alphabet e-acute (two bytes), newline, double quote, 1, space, x')
    if found not in (None, '[]', 'nil'):
        violation(drv, pid, dict(common, case='scangen', failing_source_on_the_regenerated_scanner=found, failing_sources_as_text=sources,
                                 what='on these sources the regenerated scanner, executed by the semantics of coq/ScanSem.v, emits tokens (type, text, line, position) different from the model the theorems are about (coq/ScanSweep.v)'))
        return 1, ev
    if viol_so_far == 0:
        violation(drv, pid, dict(common, case='scangen', theorem_or_correspondence='the lemma %s of %s about the scanner bookkeeping regenerated from the current source no longer checks; neither the correspondence run on the real code nor the search over all sources up to length 5 found an input on which the tokens differ from the model' % (lemma, failed)),
                  'no-failing-input-found')
        return 1, ev
    ev['explains_correspondence'] = True
    import glob, json
    for rp in glob.glob(os.path.join(drv.BUILD, 'replay', pid + '-*.json')):
        try:
            r = json.load(open(rp))
            r['generated_code_explanation'] = dict(lemma_that_no_longer_checks=lemma, at=where, statements_outside_the_subset=unknown)
            json.dump(r, open(rp, 'w'), indent=1)
        except Exception:
            pass
    return 0, ev
