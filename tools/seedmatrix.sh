#!/bin/sh
# tools/seedmatrix.sh <logfile> <seeds, e.g. "1 2 3"> <id:prop> ...   — runs tools/seedlocal.sh for every pair and seed, one line per run into the log
log="$1"; seeds="$2"; shift 2
root="$(cd "$(dirname "$0")/.." && pwd)"
for pair in "$@"; do
  id="${pair%%:*}"; prop="${pair##*:}"
  for sd in $seeds; do
    out="$(sh "$root/tools/seedlocal.sh" "$id" "$prop" --seed "$sd" 2>&1)"
    mm="$(echo "$out" | grep -E "cases, .* mismatches" | sed 's/.*steps, \([0-9]*\) mismatches.*/\1/')"
    ex="$(echo "$out" | grep '^seedlocal:' | sed 's/.*exit=\([0-9]*\).*/\1/')"
    ws="$(echo "$out" | grep -E "cases, .* mismatches" | sed 's/.*mismatches, \([0-9.]*\)s.*/\1/')"
    echo "$id $prop seed=$sd exit=$ex mismatching_cases=$mm check_s=$ws" >> "$log"
    mkdir -p "$log.d"; echo "$out" > "$log.d/$id-$sd.out"
  done
done
