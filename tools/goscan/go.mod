module goscan

go 1.23
