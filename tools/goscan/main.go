// goscan: a purely syntactic translator from the token / line / position bookkeeping of
// v4/cdcn/scanner.go to terms of the micro-language of coq/ScanLang.v.
//
//	goscan <repo root> <output .v file>
//
// Translated: the bodies of foundToken, foundError, foundEOF, indexOfLastEOL and scanTokens (one Go
// statement = one constructor, anything else SUnknown "<its text>", so that the generated file
// always compiles and the proof obligations of coq/GenC12.v are what fails); from emitToken what
// locates a token (which fields delimit its text, which are its line and position: this DEFINES
// the roles first/next/line/position of the int fields), its shape and the renaming table of lone
// control characters as data; from the constructor Make how the int fields are initialised.
// Methods are found by their signature and use, locals are named by kind, so renaming is not a
// change of the output.
package main

import (
	"bytes"
	"fmt"
	"go/ast"
	"go/parser"
	"go/printer"
	"go/token"
	"os"
	"path/filepath"
	"sort"
	"strconv"
	"strings"
)

var fset = token.NewFileSet()

func text(n ast.Node) string {
	var b bytes.Buffer
	printer.Fprint(&b, fset, n)
	return strings.Join(strings.Fields(b.String()), " ")
}
func coqString(s string) string { return "\"" + strings.ReplaceAll(s, "\"", "\"\"") + "\"" }
func isIdent(e ast.Expr, name string) bool {
	id, ok := e.(*ast.Ident)
	return ok && id.Name == name
}
func runesZ(s string) string {
	var p []string
	for _, r := range []rune(s) {
		p = append(p, fmt.Sprintf("%d", r))
	}
	return "[" + strings.Join(p, "; ") + "]"
}

var runesField, queueField string
var intFields = map[string]bool{}
var role = map[string]string{}   // Go field name -> FNext / FFirst / FLine / FPos
var method = map[string]string{} // Go method name -> canonical name

func fieldTerm(name string) string {
	if r, ok := role[name]; ok {
		return r
	}
	return "(FOther " + coqString(name) + ")"
}

type tr struct {
	recv   string
	scopes []map[string]string
	count  map[string]int
	kinds  map[string]string
	typ    string // the TokenType parameter
}

func (t *tr) push() { t.scopes = append(t.scopes, map[string]string{}) }
func (t *tr) pop()  { t.scopes = t.scopes[:len(t.scopes)-1] }
func (t *tr) declare(name, kind string) string {
	t.count[kind]++
	c := fmt.Sprintf("%s%d", kind, t.count[kind])
	if name != "_" {
		t.scopes[len(t.scopes)-1][name] = c
	}
	t.kinds[c] = kind
	return c
}
func (t *tr) variable(e ast.Expr, kind string) (string, bool) {
	id, ok := e.(*ast.Ident)
	if !ok {
		return "", false
	}
	for i := len(t.scopes) - 1; i >= 0; i-- {
		if c, ok := t.scopes[i][id.Name]; ok {
			if kind != "" && t.kinds[c] != kind {
				return "", false
			}
			return c, true
		}
	}
	return "", false
}

// v.f with f an int field
func (t *tr) intField(e ast.Expr) (string, bool) {
	s, ok := e.(*ast.SelectorExpr)
	if !ok || !isIdent(s.X, t.recv) || !intFields[s.Sel.Name] {
		return "", false
	}
	return fieldTerm(s.Sel.Name), true
}
func (t *tr) isRunesField(e ast.Expr) bool {
	s, ok := e.(*ast.SelectorExpr)
	return ok && isIdent(s.X, t.recv) && s.Sel.Name == runesField
}

func sel(e ast.Expr) (ast.Expr, string, []ast.Expr, bool) { // X.M(args)
	c, ok := e.(*ast.CallExpr)
	if !ok {
		return nil, "", nil, false
	}
	s, ok := c.Fun.(*ast.SelectorExpr)
	if !ok {
		return nil, "", nil, false
	}
	return s.X, s.Sel.Name, c.Args, true
}

func (t *tr) exp(e ast.Expr) (string, bool) {
	switch x := e.(type) {
	case *ast.ParenExpr:
		return t.exp(x.X)
	case *ast.BasicLit:
		if x.Kind == token.INT && len(x.Value) <= 6 && (x.Value == "0" || !strings.HasPrefix(x.Value, "0")) {
			return "(XLit " + x.Value + ")", true
		}
	case *ast.Ident:
		if c, ok := t.variable(x, "num"); ok {
			return "(XVar " + coqString(c) + ")", true
		}
	case *ast.SelectorExpr:
		if f, ok := t.intField(x); ok {
			return "(XField " + f + ")", true
		}
	case *ast.CallExpr:
		if isIdent(x.Fun, "len") && len(x.Args) == 1 {
			if t.isRunesField(x.Args[0]) {
				return "XLenSource", true
			}
			if c, ok := t.variable(x.Args[0], "runes"); ok {
				return "(XLenRunes " + coqString(c) + ")", true
			}
			if c, ok := t.variable(x.Args[0], "str"); ok {
				return "(XLenBytes " + coqString(c) + ")", true
			}
			return "", false
		}
		if _, m, args, ok := sel(x); ok {
			if m == "RuneCountInString" && len(args) == 1 {
				if c, ok := t.variable(args[0], "str"); ok {
					return "(XRuneCount " + coqString(c) + ")", true
				}
			}
			if m == "Count" && len(args) == 2 {
				if b, ok := args[1].(*ast.BasicLit); ok && b.Kind == token.STRING {
					if s, err := strconv.Unquote(b.Value); err == nil && s == "\n" {
						if c, ok := t.variable(args[0], "str"); ok {
							return "(XCountNL " + coqString(c) + ")", true
						}
					}
				}
			}
		}
	case *ast.BinaryExpr:
		if x.Op == token.ADD || x.Op == token.SUB {
			a, ok1 := t.exp(x.X)
			b, ok2 := t.exp(x.Y)
			if ok1 && ok2 {
				if x.Op == token.ADD {
					return "(XAdd " + a + " " + b + ")", true
				}
				return "(XSub " + a + " " + b + ")", true
			}
		}
	}
	return "", false
}

var cmps = map[token.Token]string{token.LSS: "KLt", token.GTR: "KGt", token.LEQ: "KLe", token.GEQ: "KGe", token.EQL: "KEq", token.NEQ: "KNe"}

func tokenConst(e ast.Expr) (string, bool) {
	id, ok := e.(*ast.Ident)
	if !ok || !strings.HasSuffix(id.Name, "Token") || len(id.Name) <= 5 {
		return "", false
	}
	return strings.TrimSuffix(id.Name, "Token"), true
}

func (t *tr) cond(e ast.Expr) (string, bool) {
	switch x := e.(type) {
	case *ast.ParenExpr:
		return t.cond(x.X)
	case *ast.UnaryExpr:
		if x.Op == token.NOT {
			if a, ok := t.cond(x.X); ok {
				return "(CNot " + a + ")", true
			}
		}
	case *ast.CallExpr:
		if y, m, args, ok := sel(x); ok && m == "IsEmpty" && len(args) == 0 {
			if c, ok := t.variable(y, "ms"); ok {
				return "(CMatchIsEmpty " + coqString(c) + ")", true
			}
		}
	case *ast.BinaryExpr:
		op, ok := cmps[x.Op]
		if !ok {
			return "", false
		}
		// type_ == XToken / type_ != XToken
		if t.typ != "" && isIdent(x.X, t.typ) && (x.Op == token.EQL || x.Op == token.NEQ) {
			if n, ok := tokenConst(x.Y); ok {
				if x.Op == token.EQL {
					return "(CTypeIs " + coqString(n) + ")", true
				}
				return "(CNot (CTypeIs " + coqString(n) + "))", true
			}
			return "", false
		}
		// x[i] == 'c'
		if ix, ok := x.X.(*ast.IndexExpr); ok && (x.Op == token.EQL || x.Op == token.NEQ) {
			if c, ok := t.variable(ix.X, "runes"); ok {
				if i, ok := t.exp(ix.Index); ok {
					if b, ok := x.Y.(*ast.BasicLit); ok && b.Kind == token.CHAR {
						if s, err := strconv.Unquote(b.Value); err == nil && len([]rune(s)) == 1 {
							r := fmt.Sprintf("(CRuneAtIs %s %s %d)", coqString(c), i, []rune(s)[0])
							if x.Op == token.NEQ {
								r = "(CNot " + r + ")"
							}
							return r, true
						}
					}
				}
			}
			return "", false
		}
		a, ok1 := t.exp(x.X)
		b, ok2 := t.exp(x.Y)
		if ok1 && ok2 {
			return "(CCmp " + op + " " + a + " " + b + ")", true
		}
	}
	return "", false
}

func (t *tr) unknown(n ast.Node) string { return "SUnknown " + coqString(text(n)) }

func (t *tr) block(stmts []ast.Stmt) string {
	t.push()
	defer t.pop()
	var parts []string
	for _, s := range stmts {
		parts = append(parts, t.labeled(s, ""))
	}
	return "[" + strings.Join(parts, "; ") + "]"
}

func optExp(s string, ok bool) string {
	if !ok {
		return "None"
	}
	return "(Some " + s + ")"
}

// a []rune argument: a []rune local or []rune(string local)
func (t *tr) runesArg(e ast.Expr) (string, bool) {
	if c, ok := t.variable(e, "runes"); ok {
		return "(TRunesVar " + coqString(c) + ")", true
	}
	if c, ok := e.(*ast.CallExpr); ok && len(c.Args) == 1 {
		if a, ok := c.Fun.(*ast.ArrayType); ok && a.Len == nil && isIdent(a.Elt, "rune") {
			if y, ok := t.variable(c.Args[0], "str"); ok {
				return "(TRunesOf " + coqString(y) + ")", true
			}
		}
	}
	return "", false
}

func (t *tr) define1(name string, v ast.Expr, whole ast.Node) string {
	// string(v.runes_[lo:hi])
	if c, ok := v.(*ast.CallExpr); ok && isIdent(c.Fun, "string") && len(c.Args) == 1 {
		if sl, ok := c.Args[0].(*ast.SliceExpr); ok && t.isRunesField(sl.X) && !sl.Slice3 {
			lo, hi := "None", "None"
			if sl.Low != nil {
				e, ok := t.exp(sl.Low)
				if !ok {
					return t.unknown(whole)
				}
				lo = optExp(e, true)
			}
			if sl.High != nil {
				e, ok := t.exp(sl.High)
				if !ok {
					return t.unknown(whole)
				}
				hi = optExp(e, true)
			}
			return "STextSlice " + coqString(t.declare(name, "str")) + " " + lo + " " + hi
		}
		return t.unknown(whole)
	}
	if _, m, args, ok := sel(v); ok {
		if m == "MatchToken" && len(args) == 2 && t.typ != "" && isIdent(args[0], t.typ) {
			if x, ok := t.variable(args[1], "str"); ok {
				return "SMatch " + coqString(t.declare(name, "ms")) + " " + coqString(x)
			}
			return t.unknown(whole)
		}
	}
	if y, m, args, ok := sel(v); ok && m == "GetValue" && len(args) == 1 {
		if ms, ok := t.variable(y, "ms"); ok {
			if b, ok := args[0].(*ast.BasicLit); ok && b.Kind == token.INT && len(b.Value) <= 3 {
				return "SGroup " + coqString(t.declare(name, "str")) + " " + coqString(ms) + " " + b.Value
			}
		}
		return t.unknown(whole)
	}
	if c, ok := v.(*ast.CallExpr); ok && len(c.Args) == 1 {
		if a, ok := c.Fun.(*ast.ArrayType); ok && a.Len == nil && isIdent(a.Elt, "rune") {
			if y, ok := t.variable(c.Args[0], "str"); ok {
				return "SRunes " + coqString(t.declare(name, "runes")) + " " + coqString(y)
			}
			return t.unknown(whole)
		}
	}
	if e, ok := t.exp(v); ok {
		return "SVar " + coqString(t.declare(name, "num")) + " " + e
	}
	return t.unknown(whole)
}

func (t *tr) labeled(s ast.Stmt, label string) string {
	if l, ok := s.(*ast.LabeledStmt); ok {
		if label != "" {
			return t.unknown(s)
		}
		return t.labeled(l.Stmt, l.Label.Name)
	}
	if _, isFor := s.(*ast.ForStmt); label != "" && !isFor {
		return t.unknown(s)
	}
	return t.stmt(s, label)
}

func (t *tr) stmt(s ast.Stmt, label string) string {
	switch x := s.(type) {
	case *ast.ExprStmt:
		if y, m, args, ok := sel(x.X); ok && isIdent(y, t.recv) {
			switch method[m] {
			case "emitToken":
				if len(args) == 1 {
					if t.typ != "" && isIdent(args[0], t.typ) {
						return "SEmit TyParam"
					}
					if n, ok := tokenConst(args[0]); ok {
						return "SEmit (TyConst " + coqString(n) + ")"
					}
				}
			case "foundError", "foundEOF":
				if len(args) == 0 {
					return "SCall " + coqString(method[m])
				}
			}
		}
		return t.unknown(s)
	case *ast.IncDecStmt:
		if f, ok := t.intField(x.X); ok && x.Tok == token.INC {
			return "SIncField " + f
		}
		if c, ok := t.variable(x.X, "num"); ok {
			if x.Tok == token.INC {
				return "SIncVar " + coqString(c)
			}
			return "SDecVar " + coqString(c)
		}
		return t.unknown(s)
	case *ast.BranchStmt:
		if x.Tok == token.BREAK {
			if x.Label == nil {
				return "SBreak None"
			}
			return "SBreak (Some \"loop\")" // labels are positional: the only labelled statement is the enclosing loop
		}
		return t.unknown(s)
	case *ast.AssignStmt:
		if len(x.Lhs) != 1 || len(x.Rhs) != 1 {
			return t.unknown(s)
		}
		if x.Tok == token.DEFINE {
			if id, ok := x.Lhs[0].(*ast.Ident); ok {
				return t.define1(id.Name, x.Rhs[0], s)
			}
			return t.unknown(s)
		}
		f, ok := t.intField(x.Lhs[0])
		if !ok {
			return t.unknown(s)
		}
		if x.Tok == token.ASSIGN {
			if y, m, args, ok := sel(x.Rhs[0]); ok && isIdent(y, t.recv) && method[m] == "indexOfLastEOL" && len(args) == 1 {
				if a, ok := t.runesArg(args[0]); ok {
					return "SSetFieldCall " + f + " \"indexOfLastEOL\" " + a
				}
				return t.unknown(s)
			}
		}
		e, ok := t.exp(x.Rhs[0])
		if !ok {
			return t.unknown(s)
		}
		switch x.Tok {
		case token.ASSIGN:
			return "SSetField " + f + " " + e
		case token.ADD_ASSIGN:
			return "SAddField " + f + " " + e
		case token.SUB_ASSIGN:
			return "SAddField " + f + " (XSub (XLit 0) " + e + ")"
		}
		return t.unknown(s)
	case *ast.DeclStmt:
		g, ok := x.Decl.(*ast.GenDecl)
		if !ok || g.Tok != token.VAR || len(g.Specs) != 1 {
			return t.unknown(s)
		}
		vs := g.Specs[0].(*ast.ValueSpec)
		if len(vs.Names) == 1 && len(vs.Values) == 1 && vs.Type == nil {
			return t.define1(vs.Names[0].Name, vs.Values[0], s)
		}
		return t.unknown(s)
	case *ast.IfStmt:
		if x.Init != nil {
			return t.unknown(s)
		}
		c, ok := t.cond(x.Cond)
		if !ok {
			return t.unknown(s)
		}
		els := "[]"
		if x.Else != nil {
			b, ok := x.Else.(*ast.BlockStmt)
			if !ok {
				return t.unknown(s)
			}
			els = t.block(b.List)
		}
		return "SIf " + c + " " + t.block(x.Body.List) + " " + els
	case *ast.ForStmt:
		if x.Cond == nil {
			return t.unknown(s)
		}
		t.push()
		defer t.pop()
		init, post := "[]", "[]"
		if x.Init != nil {
			init = "[" + t.stmt(x.Init, "") + "]"
		}
		c, ok := t.cond(x.Cond)
		if !ok {
			return t.unknown(s)
		}
		if x.Post != nil {
			post = "[" + t.stmt(x.Post, "") + "]"
		}
		lab := "None"
		if label != "" {
			lab = "(Some \"loop\")"
		}
		return "SFor " + lab + " " + init + " " + c + " " + post + " " + t.block(x.Body.List)
	case *ast.SwitchStmt:
		// switch { case v.foundToken(XToken): … default: … }
		if x.Init != nil || x.Tag != nil {
			return t.unknown(s)
		}
		var cases []string
		dflt := "[]"
		seenDefault := false
		for _, c := range x.Body.List {
			cc := c.(*ast.CaseClause)
			if cc.List == nil {
				if seenDefault {
					return t.unknown(s)
				}
				seenDefault = true
				dflt = t.block(cc.Body)
				continue
			}
			if seenDefault || len(cc.List) != 1 { // the default clause must come last for the order to be the textual one
				return t.unknown(s)
			}
			y, m, args, ok := sel(cc.List[0])
			if !ok || !isIdent(y, t.recv) || method[m] != "foundToken" || len(args) != 1 {
				return t.unknown(s)
			}
			n, ok := tokenConst(args[0])
			if !ok {
				return t.unknown(s)
			}
			cases = append(cases, "("+coqString(n)+", "+t.block(cc.Body)+")")
		}
		return "SSwitchFound [" + strings.Join(cases, "; ") + "] " + dflt
	case *ast.ReturnStmt:
		if len(x.Results) == 0 {
			return "SReturn"
		}
		if len(x.Results) == 1 {
			if isIdent(x.Results[0], "true") {
				return "SReturnBool true"
			}
			if isIdent(x.Results[0], "false") {
				return "SReturnBool false"
			}
			if e, ok := t.exp(x.Results[0]); ok {
				return "SReturnInt " + e
			}
		}
		return t.unknown(s)
	}
	return t.unknown(s)
}

func structFields(f *ast.File, name string) []*ast.Field {
	for _, d := range f.Decls {
		g, ok := d.(*ast.GenDecl)
		if !ok || g.Tok != token.TYPE {
			continue
		}
		for _, sp := range g.Specs {
			ts := sp.(*ast.TypeSpec)
			if st, ok := ts.Type.(*ast.StructType); ok && ts.Name.Name == name {
				return st.Fields.List
			}
		}
	}
	return nil
}

func recvOf(fd *ast.FuncDecl, typ string) (string, bool) {
	if fd.Recv == nil || len(fd.Recv.List) != 1 || fd.Body == nil || len(fd.Recv.List[0].Names) != 1 {
		return "", false
	}
	star, ok := fd.Recv.List[0].Type.(*ast.StarExpr)
	if !ok || !isIdent(star.X, typ) {
		return "", false
	}
	return fd.Recv.List[0].Names[0].Name, true
}

func nparams(fd *ast.FuncDecl) int {
	n := 0
	if fd.Type.Params != nil {
		for _, p := range fd.Type.Params.List {
			n += len(p.Names)
		}
	}
	return n
}
func nresults(fd *ast.FuncDecl) int {
	if fd.Type.Results == nil {
		return 0
	}
	return len(fd.Type.Results.List)
}

// the token constant of the single emitToken call of a body (or "")
func emitsConst(fd *ast.FuncDecl, recv, emit string) string {
	found := ""
	ast.Inspect(fd.Body, func(n ast.Node) bool {
		if c, ok := n.(*ast.CallExpr); ok {
			if y, m, args, ok := sel(c); ok && isIdent(y, recv) && m == emit && len(args) == 1 {
				if k, ok := tokenConst(args[0]); ok {
					found = k
				}
			}
		}
		return true
	})
	return found
}

func main() {
	if len(os.Args) != 3 {
		fmt.Fprintln(os.Stderr, "usage: goscan <repo root> <out.v>")
		os.Exit(2)
	}
	src := filepath.Join(os.Args[1], "v4", "cdcn", "scanner.go")
	f, err := parser.ParseFile(fset, src, nil, 0)
	if err != nil {
		fmt.Fprintln(os.Stderr, "goscan:", err)
		os.Exit(3)
	}
	for _, fl := range structFields(f, "scanner_") {
		ty := text(fl.Type)
		for _, n := range fl.Names {
			switch {
			case ty == "[]rune":
				runesField = n.Name
			case ty == "int":
				intFields[n.Name] = true
			case strings.Contains(ty, "QueueLike["):
				queueField = n.Name
			}
		}
	}
	var methods []*ast.FuncDecl
	for _, d := range f.Decls {
		if fd, ok := d.(*ast.FuncDecl); ok {
			if _, ok := recvOf(fd, "scanner_"); ok {
				methods = append(methods, fd)
			}
		}
	}
	// emitToken: the method that makes the token; its use of the fields defines their roles
	var shape []string
	var table []string
	emitName := ""
	for _, fd := range methods {
		recv, _ := recvOf(fd, "scanner_")
		makes := false
		ast.Inspect(fd.Body, func(n ast.Node) bool {
			if c, ok := n.(*ast.CallExpr); ok {
				if y, m, _, ok := sel(c); ok && m == "Make" {
					if cc, ok := y.(*ast.CallExpr); ok && isIdent(cc.Fun, "Token") {
						makes = true
					}
				}
			}
			return true
		})
		if !makes || nparams(fd) != 1 {
			continue
		}
		emitName = fd.Name.Name
		method[emitName] = "emitToken"
		typ := fd.Type.Params.List[0].Names[0].Name
		valueVar, tokenVar := "", ""
		for _, s := range fd.Body.List {
			desc := "?" + text(s)
			switch x := s.(type) {
			case *ast.DeclStmt:
				g, ok := x.Decl.(*ast.GenDecl)
				if !ok || g.Tok != token.VAR || len(g.Specs) != 1 {
					break
				}
				vs := g.Specs[0].(*ast.ValueSpec)
				if len(vs.Names) != 1 || len(vs.Values) != 1 {
					break
				}
				v := vs.Values[0]
				if c, ok := v.(*ast.CallExpr); ok && isIdent(c.Fun, "string") && len(c.Args) == 1 && valueVar == "" {
					if sl, ok := c.Args[0].(*ast.SliceExpr); ok && !sl.Slice3 && sl.Low != nil && sl.High != nil {
						if sx, ok := sl.X.(*ast.SelectorExpr); ok && isIdent(sx.X, recv) && sx.Sel.Name == runesField {
							lo, ok1 := sl.Low.(*ast.SelectorExpr)
							hi, ok2 := sl.High.(*ast.SelectorExpr)
							if ok1 && ok2 && isIdent(lo.X, recv) && isIdent(hi.X, recv) && intFields[lo.Sel.Name] && intFields[hi.Sel.Name] && lo.Sel.Name != hi.Sel.Name {
								role[lo.Sel.Name] = "FFirst"
								role[hi.Sel.Name] = "FNext"
								valueVar = vs.Names[0].Name
								desc = "value = string(runes[first:next])"
							}
						}
					}
				}
				if y, m, args, ok := sel(v); ok && m == "Make" && len(args) == 4 && valueVar != "" && tokenVar == "" {
					if cc, ok := y.(*ast.CallExpr); ok && isIdent(cc.Fun, "Token") {
						l, ok1 := args[0].(*ast.SelectorExpr)
						p, ok2 := args[1].(*ast.SelectorExpr)
						if ok1 && ok2 && isIdent(l.X, recv) && isIdent(p.X, recv) && intFields[l.Sel.Name] && intFields[p.Sel.Name] &&
							role[l.Sel.Name] == "" && role[p.Sel.Name] == "" && l.Sel.Name != p.Sel.Name && isIdent(args[2], typ) && isIdent(args[3], valueVar) {
							role[l.Sel.Name] = "FLine"
							role[p.Sel.Name] = "FPos"
							tokenVar = vs.Names[0].Name
							desc = "token = Token().Make(line, position, type, value)"
						}
					}
				}
			case *ast.SwitchStmt:
				if x.Init == nil && valueVar != "" && tokenVar == "" && isIdent(x.Tag, valueVar) && table == nil {
					okAll := true
					var tb []string
					for _, c := range x.Body.List {
						cc := c.(*ast.CaseClause)
						if len(cc.List) != 1 || len(cc.Body) != 1 {
							okAll = false
							break
						}
						k, ok1 := cc.List[0].(*ast.BasicLit)
						a, ok2 := cc.Body[0].(*ast.AssignStmt)
						if !ok1 || !ok2 || k.Kind != token.STRING || a.Tok != token.ASSIGN || len(a.Lhs) != 1 || len(a.Rhs) != 1 || !isIdent(a.Lhs[0], valueVar) {
							okAll = false
							break
						}
						r, ok3 := a.Rhs[0].(*ast.BasicLit)
						if !ok3 || r.Kind != token.STRING {
							okAll = false
							break
						}
						ks, e1 := strconv.Unquote(k.Value)
						rs, e2 := strconv.Unquote(r.Value)
						if e1 != nil || e2 != nil {
							okAll = false
							break
						}
						tb = append(tb, "("+runesZ(ks)+", "+runesZ(rs)+")")
					}
					if okAll {
						table = tb
						if table == nil {
							table = []string{}
						}
						desc = "switch value { case <text>: value = <name> ... }"
					}
				}
			case *ast.ExprStmt:
				if y, m, args, ok := sel(x.X); ok && m == "AddValue" && len(args) == 1 && tokenVar != "" && isIdent(args[0], tokenVar) {
					if sx, ok := y.(*ast.SelectorExpr); ok && isIdent(sx.X, recv) && sx.Sel.Name == queueField {
						desc = "tokens.AddValue(token)"
					}
				}
			}
			shape = append(shape, coqString(desc))
		}
	}
	// the other methods, by signature and use
	for _, fd := range methods {
		recv, _ := recvOf(fd, "scanner_")
		if fd.Name.Name == emitName {
			continue
		}
		np, nr := nparams(fd), nresults(fd)
		switch {
		case np == 1 && nr == 1 && text(fd.Type.Params.List[0].Type) == "[]rune" && text(fd.Type.Results.List[0].Type) == "int":
			method[fd.Name.Name] = "indexOfLastEOL"
		case np == 1 && nr == 1 && text(fd.Type.Params.List[0].Type) == "TokenType" && text(fd.Type.Results.List[0].Type) == "bool":
			method[fd.Name.Name] = "foundToken"
		case np == 0 && nr == 0:
			hasFor := false
			ast.Inspect(fd.Body, func(n ast.Node) bool {
				if _, ok := n.(*ast.ForStmt); ok {
					hasFor = true
				}
				return true
			})
			if hasFor {
				method[fd.Name.Name] = "scanTokens"
			} else if k := emitsConst(fd, recv, emitName); k == "EOF" {
				method[fd.Name.Name] = "foundEOF"
			} else if k == "Error" {
				method[fd.Name.Name] = "foundError"
			}
		}
	}
	bodies := map[string]string{}
	lines := map[string]int{}
	for _, fd := range methods {
		cn := method[fd.Name.Name]
		if cn == "" || cn == "emitToken" {
			continue
		}
		if _, dup := bodies[cn]; dup {
			bodies[cn] = "[SUnknown \"two methods in the role of " + cn + "\"]"
			continue
		}
		recv, _ := recvOf(fd, "scanner_")
		t := &tr{recv: recv, count: map[string]int{}, kinds: map[string]string{}}
		t.push()
		if fd.Type.Params != nil {
			for _, p := range fd.Type.Params.List {
				for _, n := range p.Names {
					switch text(p.Type) {
					case "[]rune":
						t.declare(n.Name, "runes")
					case "TokenType":
						t.typ = n.Name
					default:
						t.declare(n.Name, "arg")
					}
				}
			}
		}
		bodies[cn] = t.block(fd.Body.List)
		lines[cn] = fset.Position(fd.Pos()).Line
	}
	// the constructor: how the int fields and the rune slice are initialised; which method the goroutine runs
	var inits []string
	runesOK, started := "false", ""
	for _, d := range f.Decls {
		fd, ok := d.(*ast.FuncDecl)
		if !ok || fd.Name.Name != "Make" {
			continue
		}
		if _, ok := recvOf(fd, "scannerClass_"); !ok {
			continue
		}
		srcParam := ""
		for _, p := range fd.Type.Params.List {
			if text(p.Type) == "string" && len(p.Names) == 1 {
				srcParam = p.Names[0].Name
			}
		}
		isRunesOfSource := func(e ast.Expr) bool {
			c, ok := e.(*ast.CallExpr)
			if !ok || len(c.Args) != 1 || !isIdent(c.Args[0], srcParam) {
				return false
			}
			a, ok := c.Fun.(*ast.ArrayType)
			return ok && a.Len == nil && isIdent(a.Elt, "rune")
		}
		runeLocals := map[string]bool{}
		scannerVar := ""
		for _, s := range fd.Body.List {
			switch x := s.(type) {
			case *ast.DeclStmt:
				g, ok := x.Decl.(*ast.GenDecl)
				if !ok || g.Tok != token.VAR || len(g.Specs) != 1 {
					continue
				}
				vs := g.Specs[0].(*ast.ValueSpec)
				if len(vs.Names) != 1 || len(vs.Values) != 1 {
					continue
				}
				if isRunesOfSource(vs.Values[0]) {
					runeLocals[vs.Names[0].Name] = true
				}
				if u, ok := vs.Values[0].(*ast.UnaryExpr); ok && u.Op == token.AND {
					if cl, ok := u.X.(*ast.CompositeLit); ok && isIdent(cl.Type, "scanner_") {
						scannerVar = vs.Names[0].Name
						for _, el := range cl.Elts {
							kv, ok := el.(*ast.KeyValueExpr)
							if !ok {
								continue
							}
							k, ok := kv.Key.(*ast.Ident)
							if !ok {
								continue
							}
							isRunes := isRunesOfSource(kv.Value)
							if id, ok := kv.Value.(*ast.Ident); ok && runeLocals[id.Name] {
								isRunes = true
							}
							if k.Name == runesField && isRunes {
								runesOK = "true"
							}
							if intFields[k.Name] {
								ini := "InitUnknown " + coqString(text(kv.Value))
								if b, ok := kv.Value.(*ast.BasicLit); ok && b.Kind == token.INT && len(b.Value) <= 6 {
									ini = "InitLit " + b.Value
								}
								if c, ok := kv.Value.(*ast.CallExpr); ok && isIdent(c.Fun, "len") && len(c.Args) == 1 {
									if isRunesOfSource(c.Args[0]) {
										ini = "InitLenSource"
									}
									if id, ok := c.Args[0].(*ast.Ident); ok && runeLocals[id.Name] {
										ini = "InitLenSource"
									}
								}
								inits = append(inits, "("+fieldTerm(k.Name)+", "+ini+")")
							}
						}
					}
				}
			case *ast.GoStmt:
				if y, m, args, ok := sel(x.Call); ok && isIdent(y, scannerVar) && scannerVar != "" && len(args) == 0 {
					started = method[m]
				}
			}
		}
	}
	sort.Strings(inits)
	var out bytes.Buffer
	out.WriteString("(* GENERATED by tools/goscan from v4/cdcn/scanner.go — do not edit. *)\n")
	out.WriteString("From Coq Require Import ZArith List String.\nFrom Verif Require Import ScanLang.\nImport ListNotations.\nOpen Scope Z_scope.\nOpen Scope string_scope.\n")
	fmt.Fprintf(&out, "(* emitToken: its statements; the roles first/next/line/position of the int fields are read off them *)\nDefinition gen_emit_shape : list string := [%s].\n", strings.Join(shape, "; "))
	var rl []string
	for _, r := range []string{"FFirst", "FNext", "FLine", "FPos"} {
		n := 0
		for _, v := range role {
			if v == r {
				n++
			}
		}
		if n == 1 {
			rl = append(rl, r)
		}
	}
	fmt.Fprintf(&out, "Definition gen_roles_found : list sfield := [%s].\n", strings.Join(rl, "; "))
	fmt.Fprintf(&out, "Definition gen_rename_table : list (list Z * list Z) := [%s].\n", strings.Join(table, "; "))
	fmt.Fprintf(&out, "(* the constructor Make *)\nDefinition gen_init : list (sfield * sinit) := [%s].\nDefinition gen_init_runes_ok : bool := %s.\nDefinition gen_started : string := %s.\n", strings.Join(inits, "; "), runesOK, coqString(started))
	for _, cn := range []string{"foundToken", "foundError", "foundEOF", "indexOfLastEOL", "scanTokens"} {
		b, ok := bodies[cn]
		if !ok {
			b = "[SUnknown \"method not found\"]"
		}
		fmt.Fprintf(&out, "Definition gen_%s : list sstmt := (* scanner.go:%d *)\n  %s.\n", cn, lines[cn], b)
	}
	old, _ := os.ReadFile(os.Args[2])
	if !bytes.Equal(old, out.Bytes()) {
		if err := os.WriteFile(os.Args[2], out.Bytes(), 0o644); err != nil {
			fmt.Fprintln(os.Stderr, "goscan:", err)
			os.Exit(3)
		}
		fmt.Println("goscan: wrote", os.Args[2])
	} else {
		fmt.Println("goscan: unchanged")
	}
}
