"""Per-property configuration and the generic check flow (used by ../check)."""
import glob, json, os, re, shutil, subprocess, sys, time

# coq files whose statements count as the obligations of a property, the property file
# (statements only + Print Assumptions), the generator kind and the case counts per tier.
POOL_BASE = ['Base.v', 'Value.v', 'Seq.v', 'Coll.v', 'Pool.v']
PROPS = {
    'C01': dict(kind='pool', files=POOL_BASE + ['ListImpl.v', 'ListMachine.v', 'SeqProofs.v', 'C01.v'], quick=300, thorough=12000),
    'C02': dict(kind='pool', files=POOL_BASE + ['SetProofs.v', 'C02.v'], quick=300, thorough=12000),
    'C03': dict(kind='pool', files=POOL_BASE + ['AssocProofs.v', 'C03.v'], quick=300, thorough=12000),
    'C09': dict(kind='pool', files=POOL_BASE + ['Sorter.v', 'SorterProofs.v', 'C09.v'], quick=300, thorough=12000),
    'C14': dict(kind='pool', files=POOL_BASE + ['AssocProofs.v', 'C14.v'], quick=300, thorough=12000),
    'C15': dict(kind='pool', files=POOL_BASE + ['SetProofs.v', 'C15.v'], quick=300, thorough=12000),
    'C16': dict(kind='pool', files=POOL_BASE + ['AssocProofs.v', 'C16.v'], quick=300, thorough=12000),
    'C07': dict(kind='collate', files=['Base.v', 'Sorter.v', 'Value.v', 'CollateProofs.v', 'C07.v'], quick=400, thorough=20000),
    'C08': dict(kind='collate', files=['Base.v', 'Sorter.v', 'Value.v', 'CollateProofs.v', 'C08.v'], quick=400, thorough=20000),
    'C13': dict(kind='pool', files=POOL_BASE + ['StackProofs.v', 'C13.v'], quick=300, thorough=12000),
    'C17': dict(kind='pool', files=POOL_BASE + ['IterProofs.v', 'C17.v'], quick=300, thorough=12000),
    'C18': dict(kind='pool', files=POOL_BASE + ['PoolFrame.v', 'C18.v'], quick=300, thorough=12000),
}

# further properties are configured by one JSON file each in tools/props.d/ (same keys)
for _f in sorted(glob.glob(os.path.join(os.path.dirname(os.path.abspath(__file__)), 'props.d', '*.json'))):
    PROPS.update(json.load(open(_f)))

TRUSTED_COMMON = [
    "Coq 8.16.1 kernel (coqc); vm_compute is used to evaluate the model on the generated cases; native_compute is not used",
    "tools/genparams.py (translator of the numeric constants and tables of /repo into coq/Params.v)",
    "the Go harness (generators, interpreter over the real library, encoders to Gallina) and the decoders/comparison in coq/*Run.v",
    "the hand-written model is tied to the code only by this differential execution; the Go runtime, reflect and the standard library are trusted",
]


TRUSTED_QUEUE = [
    "tools/goqueue (purely syntactic translator, one Go statement of a queue_ method = one constructor of coq/QueueLang.v; fields found by their types, locals by their use) and the meaning given to that micro-language in coq/QueueSem.v (segments between scheduling points; Go channel semantics as a token counter with capacity and closed flag; the mutex as the discipline 'one shared action per segment')",
]
TRUSTED_SCAN = [
    "tools/goscan (purely syntactic translator of the scanner's bookkeeping: foundToken, foundError, foundEOF, indexOfLastEOL, scanTokens statement by statement into coq/ScanLang.v; the roles first/next/line/position of the int fields read off emitToken; methods found by signature, locals named by kind) and the meaning given in coq/ScanSem.v (int as Z; a string as the list of its runes, len(string) as the length of its UTF-8 encoding; the regular-expression match MatchToken as the model's Lexer.recognize; the token queue as a list; the goroutine run to its end)",
]
TRUSTED_PIPES = [
    "tools/gopipes (purely syntactic translator, one Go statement of the queue class functions MakeWithCapacity / MakeFromArray / MakeFromSequence / Fork / Split / Join = one constructor of coq/PipeLang.v; fields found by their types, parameters named by type and locals by what they are initialised with) and the meaning given to that micro-language in coq/PipeSem.v (a goroutine as a call generator: local code between two queue-method calls; iterators = the model of agent/iterator.go proved in IterProofs.v; nil queue = panic; uint as unbounded naturals; List[QueueLike]/Array as sequences; the caller's part of Fork/Split/Join run to completion before the pipeline starts)",
]
TRUSTED_GEN = [
    "tools/gotrans (Go -> MiniGo translator, go/parser based, purely syntactic; regenerates coq/GenSrc.v on every run) and coq/MiniGo.v (the hand-written semantics of the MiniGo terms: unbounded int, value-semantics slices with write-back of receivers, panic messages ignored, generics as an opaque element type, interfaces resolved by dynamic type name); coq/GenRep.v (how model states are represented as MiniGo values)",
]


def enclosing_lemma(vfile, line):
    """name of the Lemma/Theorem/... that contains the given line of a .v file"""
    name = None
    for n, l in enumerate(open(vfile, encoding='utf-8').read().split('\n'), 1):
        if n > line:
            break
        m = re.match(r'\s*(Lemma|Theorem|Corollary|Example|Fact|Proposition|Definition|Fixpoint)\s+(\w+)', l)
        if m:
            name = m.group(2)
    return name


def gen_check(drv, pid, cfg, info, seed, tier, viol_so_far):
    """The proofs about the GENERATED code (coq/GenSrc.v, regenerated from the Go sources by tools/gotrans): compile
    the property's Gen*.v files; when one no longer checks, evaluate the property's small-domain sweeps
    (coq/GenSweep.v: generated code against model function) and report the disagreeing inputs.
    Returns (number of violations, evidence)."""
    rep = info.get('gotrans_report') or {}
    mine = [f for f in rep.get('functions', []) if pid in f.get('props', [])]
    ev = dict(translator=info.get('gotrans'), functions=[dict(function='%s.%s' % (f['type'], f['method']), source='%s:%d-%d' % (f['file'], f['start_line'], f['end_line']),
                                                               sha256=f['sha256'], term='GenSrc.' + f['coq']) for f in mine],
              gen_proofs=cfg['gen_proofs'])
    flat = [f for g in cfg['gen_proofs'] for f in (g if isinstance(g, list) else [g])]
    errs = [e for e in rep.get('errors', []) if pid in e.get('props', [])]
    if errs:
        # a selected function is missing or has left the subset the translator understands
        violation(drv, pid, dict(property=pid, seed=seed, tier=tier, case='gentrans', kind='proof-obligation', stage='gotrans',
                                 theorem_or_correspondence='the Go -> MiniGo translator (tools/gotrans) can no longer translate a function that the theorems of %s are about; they are not re-checked against the current source' % ', '.join(flat),
                                 translator_messages=['%s: %s.%s: %s' % (e['pos'], e['type'], e['method'], e['msg']) for e in errs]),
                  'no-failing-input-found')
        ev['translator_errors'] = errs
        return 1, ev
    t0 = time.time()
    failed = None
    out = ''
    with drv.Lock():
        # the files are compiled in the listed order; a nested list is a group of files that do not depend on each
        # other and are compiled at the same time.  A dependency whose .vo is newer than its sources is not recompiled;
        # the property's own (last) file always is, to capture its Print Assumptions.
        from concurrent.futures import ThreadPoolExecutor
        prev = [os.path.join(drv.COQ, x) for x in ('GenSrc.vo', 'GenLib.vo', 'GenRep.vo')]
        groups = [g if isinstance(g, list) else [g] for g in cfg['gen_proofs']]

        def compile_one(f):
            return f, drv.coqc_cached(f)

        for gi, group in enumerate(groups):
            last = gi == len(groups) - 1
            todo = []
            for f in group:
                src, vo = os.path.join(drv.COQ, f), os.path.join(drv.COQ, f[:-2] + '.vo')
                fresh = os.path.exists(vo) and all(os.path.getmtime(vo) >= os.path.getmtime(d) for d in prev + [src] if os.path.exists(d))
                todo.append(f)      # drv.coqc_cached decides what really needs compiling
            with ThreadPoolExecutor(max_workers=4) as ex:
                for f, (rc, o) in ex.map(compile_one, todo):
                    if rc != 0 and failed is None:
                        failed, out = f, o
                        vo = os.path.join(drv.COQ, f[:-2] + '.vo')
                        if os.path.exists(vo):
                            os.remove(vo)
                    elif failed is None:
                        out = o
            if failed is not None:
                break
            prev += [os.path.join(drv.COQ, f[:-2] + '.vo') for f in group]
    ev['gen_proofs_s'] = round(time.time() - t0, 1)
    # the small-domain sweeps (generated code against model function) are evaluated on every run: they also cover
    # translated functions about which no lemma is proved yet, and they supply the failing input when a proof breaks
    # identifiers for the replay texts: method and type names (>= 101, from GenSrc.v) and the canonical field
    # identifiers 1..20 of MiniGo.v (their real names per struct are in the translator's report)
    ids = {}
    for mm in re.finditer(r'Notation id_(\w+) := (\d+)%positive', open(os.path.join(drv.COQ, 'GenSrc.v')).read()):
        ids[mm.group(2)] = mm.group(1)
    for k, kind in enumerate(['int', 'bool', 'elem', 'slice', 'nil']):
        for o in range(4):
            ids[str(1 + k + 5 * o)] = 'f_%s%d' % (kind, o)
    field_names = {t: ', '.join('%s=%s' % kv for kv in sorted(fs.items())) for t, fs in (rep.get('fields') or {}).items() if fs}
    outdir = os.path.join(drv.BUILD, pid)
    sw = os.path.join(outdir, 'gensweep.v')
    open(sw, 'w').write('From Verif Require Import Base MiniGo GenSrc GenRep GenSweep.\n'
                        '(* an input on which the generated code cannot be run by the semantics (OHang: a callee that is not translated, or out\n'
                        '   of fuel) is not an observation of the code: it is counted apart and never reported as a failing input *)\n'
                        'Definition SALL := Eval vm_compute in sweeps_%s.\n'
                        'Definition S := Eval vm_compute in List.filter (fun d => match d_generated d with OHang => false | _ => true end) SALL.\n'
                        'Definition NH := Eval vm_compute in (length SALL - length S)%%nat.\nPrint NH.\n'
                        'Definition N := Eval vm_compute in length S.\nPrint N.\n' % pid +
                        ''.join('Definition S%d := Eval vm_compute in nth_error S %d.\nPrint S%d.\n' % (k, k, k) for k in range(3)))
    ts = time.time()
    rc, sout = drv.run(['timeout', '900', 'coqc', '-R', drv.COQ, 'Verif', sw], cwd=outdir)
    ev['sweep_s'] = round(time.time() - ts, 1)
    n = re.search(r'N = (\d+)', sout)
    count = int(n.group(1)) if (rc == 0 and n) else None
    ev['sweep_disagreements'] = count
    nh = re.search(r'NH = (\d+)', sout)
    ev['sweep_not_executable'] = int(nh.group(1)) if (rc == 0 and nh) else None
    lemma = where = None
    if failed is not None:
        m = re.search(r'File "[^"]*?([\w.]+\.v)", line (\d+), characters', out)
        lemma = enclosing_lemma(os.path.join(drv.COQ, m.group(1)), int(m.group(2))) if m else None
        where = '%s:%s' % (m.group(1), m.group(2)) if m else failed
        ev['failed'] = dict(file=failed, lemma=lemma, at=where)
    common = dict(property=pid, seed=seed, tier=tier, kind='generated-code',
                  lemma_that_no_longer_checks=lemma, at=where, coqc_output=out[-2500:] if failed else None,
                  sweep_result=('sweeps_%s evaluated: %s disagreeing inputs' % (pid, count)) + (' - generated code and model agree on the whole small domain' if count == 0 and not ev.get('sweep_not_executable') else '')
                               + ((' ; on %d inputs the generated code could not be run by the semantics (it calls a function that is not translated, or runs out of fuel): no observation there' % ev['sweep_not_executable']) if ev.get('sweep_not_executable') else ''),
                  field_names=field_names,
                  functions=[e['function'] + ' ' + e['source'] for e in ev['functions']],
                  rerun='./check %s' % pid)
    nv = 0
    if count is None:
        nv += 1
        violation(drv, pid, dict(common, case='gensweep', kind='proof-obligation',
                                 theorem_or_correspondence='the sweeps of coq/GenSweep.v (sweeps_%s) could not be evaluated' % pid, output=sout[-2000:]),
                  'no-failing-input-found')
    elif count > 0:
        for k in range(min(count, 3)):
            mm = re.search(r'S%d = (.*?)\n\s*: option disagreement' % k, sout, re.S)
            txt = re.sub(r'\s+', ' ', mm.group(1)) if mm else '?'
            txt = re.sub(r'(\d+)%positive', lambda x: ids.get(x.group(1), x.group(0)), txt)
            nv += 1
            violation(drv, pid, dict(common, case='gen%d' % k,
                                     explanation='the MiniGo term generated from the current Go source and the model function the theorems are about disagree on this input (found by the exhaustive small-domain sweep coq/GenSweep.v: sweeps_%s; %d disagreeing inputs in all). d_method = the method, d_recv = the receiver before the call, d_args = the arguments, d_model = what the model says (ORet (result, receiver afterwards) / OPanic receiver-left-unchanged), d_generated = what the generated code does (OPanic r: it panics and leaves the receiver as r)' % (pid, count),
                                     failing_input=txt))
    if failed is None:
        txt = ' | '.join(l.rstrip() for l in out.split('\n') if l.strip())
        names = re.findall(r'Print Assumptions\s+(\w+)', open(os.path.join(drv.COQ, flat[-1])).read())
        ev['print_assumptions'] = 'Print Assumptions of %s (in order %s): %s' % (flat[-1], ', '.join(names), txt)
        bad = [l for l in out.split('\n') if l.strip() and 'Closed under the global context' not in l]
        if bad or not names:
            nv += 1
            violation(drv, pid, dict(property=pid, seed=seed, tier=tier, case='genproof', kind='proof-obligation',
                                     theorem_or_correspondence='%s compiles but its theorems are not closed under the global context' % flat[-1],
                                     output=out[-3000:]), 'no-failing-input-found')
    elif nv == 0 and viol_so_far == 0:
        # a proof about the generated code no longer checks and no input was found on which code and model differ
        nv = 1
        violation(drv, pid, dict(common, case='genproof',
                                 theorem_or_correspondence='the lemma %s (%s) about the code generated from the current Go source no longer checks; the exhaustive small-domain sweeps (sweeps_%s: %d disagreeing inputs, i.e. generated code and model agree on the whole small domain) and the correspondence run found no input on which code and model differ: the property is no longer shown to hold for the code as it is now, rather than shown to fail' % (lemma, where, pid, count),
                                 sweep_output=sout[-800:]), 'no-failing-input-found')
    else:
        nv += 1
        print('(a proof about the generated code no longer checks: %s in %s)' % (lemma, where), flush=True)
    return nv, ev


def assumptions_of(drv, pid):
    """compile the property file once more (cheap) to capture its Print Assumptions output"""
    pf = os.path.join(drv.COQ, pid + '.v')
    if not os.path.exists(pf):
        return ['(no property file %s.v yet)' % pid]
    tmp = os.path.join(drv.BUILD, 'assume')
    os.makedirs(tmp, exist_ok=True)
    rc, out = drv.run(['timeout', '600', 'coqc', '-R', drv.COQ, 'Verif', '-o', os.path.join(tmp, pid + '.vo'), pf])
    if rc != 0:
        return ['Print Assumptions could not be captured: ' + out[-500:]]
    blocks = []
    cur = []
    for line in out.split('\n'):
        if line.strip() == '':
            continue
        cur.append(line.rstrip())
    txt = '\n'.join(cur)
    names = re.findall(r'Print Assumptions\s+(\w+)', open(pf).read())
    return ['Print Assumptions of %s (in order %s): %s' % (pid + '.v', ', '.join(names), txt.replace('\n', ' | '))]


def library_crash(out):
    """Did the harness die of a Go panic / fatal error whose panicking goroutine is running library code (and not the
    harness's own)?  Returns None or {headline, frame, stack}."""
    m = re.search(r'^(panic: .*|fatal error: .*)$', out, re.M)
    if not m:
        return None
    rest = out[m.start():]
    g = re.search(r'^goroutine \d+ \[[^\]]*\]:\n((?:.+\n?)+)', rest, re.M)
    if not g:
        return None
    stack = g.group(1)
    for line in stack.split('\n'):
        if not line or line.startswith('\t') or line.startswith(' '):
            continue
        fn = line.strip()
        if fn.startswith('runtime.') or fn.startswith('panic(') or fn.startswith('created by runtime') or fn.startswith('internal/') or fn.startswith('sync.') or fn.startswith('reflect.'):
            continue
        if 'go-collection-framework/v4' in fn:
            return dict(headline=m.group(1), frame=fn, stack=rest[:4000])
        return None       # the harness's own code panicked: a fault of the machinery
    return None


def violation(drv, pid, replay_obj, suffix=''):
    rdir = os.path.join(drv.BUILD, 'replay')
    os.makedirs(rdir, exist_ok=True)
    path = os.path.join(rdir, '%s-%s-%s.json' % (pid, replay_obj.get('seed', 0), replay_obj.get('case', 0)))
    with open(path, 'w') as f:
        json.dump(replay_obj, f, indent=1)
    print('VIOLATION property=%s replay=%s%s' % (pid, path, (' ' + suffix) if suffix else ''), flush=True)
    return path


def model_view(drv, pid, outdir, shard_file, local_case, step):
    """ask Coq what the model computes for one case up to a step (for replay files / explain)"""
    src = open(os.path.join(outdir, shard_file)).read()
    src = src.split('Definition M :=')[0]
    meta = json.load(open(os.path.join(outdir, 'cases.json')))
    if meta.get('explain_template'):
        # the generator says how to ask the model about one case: {case} and {step} are filled in
        src += meta['explain_template'].replace('{case}', str(local_case)).replace('{step}', str(step))
        p = os.path.join(outdir, 'explain_tmp.v')
        open(p, 'w').write(src)
        rc, out = drv.run(['timeout', '600', 'coqc', '-R', drv.COQ, 'Verif', p], cwd=outdir)
        return out
    if PROPS[pid]['kind'] == 'collate':
        src += ("Definition the_case := nth %d cases {| cc_max := 0; cc_calls := [] |}.\n"
                "Definition the_call := nth %d (cc_calls the_case) (CRank VNil VNil None).\n"
                "Definition Report := Eval vm_compute in (the_call, call_report (cc_max the_case) the_call).\nPrint Report.\n") % (local_case, step)
        p = os.path.join(outdir, 'explain_tmp.v')
        open(p, 'w').write(src)
        rc, out = drv.run(['timeout', '600', 'coqc', '-R', drv.COQ, 'Verif', p], cwd=outdir)
        return out
    src += ("Definition the_case := nth %d cases {| h_zero := VNil; h_steps := [] |}.\n"
            "Definition Report := Eval vm_compute in (hist_report the_case %d).\n"
            "Print Report.\n") % (local_case, step)
    p = os.path.join(outdir, 'explain_tmp.v')
    open(p, 'w').write(src)
    rc, out = drv.run(['timeout', '600', 'coqc', '-R', drv.COQ, 'Verif', p], cwd=outdir)
    return out


def predicates_without_model(drv, pid, tier, seed, cfg, stage):
    """The Coq development does not build against these sources, so no case can be evaluated on the model.  The
    property's own predicates, which the harness evaluates on the real code, need no model: run the generator for them
    alone and report the cases on which they fail as concrete failing inputs (next to the proof-obligation violation)."""
    try:
        if cfg.get('race') or not hasattr(drv, 'build_harness_only'):
            return
        ok, info = drv.build_harness_only()
        if not ok:
            return
        outdir = os.path.join(drv.BUILD, pid)
        shutil.rmtree(outdir, ignore_errors=True)
        os.makedirs(outdir)
        count = cfg[tier if tier in ('quick', 'thorough') else 'quick']
        rc, out = drv.run([drv.HARNESS_BIN, 'gen', pid, '-seed', str(seed), '-tier', tier, '-out', outdir, '-count', str(count)],
                          env=drv.GOENV, timeout=3000)
        if rc != 0:
            return
        meta = json.load(open(os.path.join(outdir, 'cases.json')))
        n = 0
        for pv in ((meta.get('extra') or {}).get('predicate_violations') or []):
            if not isinstance(pv, dict):
                continue
            n += 1
            if n > 3:
                continue
            g = pv['case']
            violation(drv, pid, dict(property=pid, seed=seed, tier=tier, count=count, case=g, kind='predicate', history=meta['traces'][g],
                                     property_predicates_violated_on_the_implementation=pv['violated'],
                                     explanation='the Coq development no longer builds against these sources (stage %s), so the model could not be evaluated; '
                                                 'the property\'s own predicates, evaluated by the harness on the observed behaviour of the real code, fail on this case: '
                                                 'it is a concrete failing input' % stage))
        if n > 3:
            print('(%d further cases failing the predicates not written out)' % (n - 3))
    except Exception as e:   # never let this extra step turn a violation into a fault of the machinery
        print('(the predicates could not be evaluated without the model: %r)' % (e,))


def static_words(drv, cfg):
    """for a property with late files: what the statically extracted tables (coq/ParamsFoot.v) say in words about a change of
    the sources, compared with the expected tables - needs no compiled Coq file, so it is available when the build is broken"""
    if not cfg.get('late_files'):
        return {}
    try:
        import footdiff
        if 'AliasStatic.v' in cfg['late_files']:
            diffs, regenerated, expected = footdiff.alias_differences(drv)
            where = 'coq/AliasFacts.v'
        else:
            diffs, regenerated, expected = footdiff.differences(drv)
            where = 'coq/IndepFacts.v'
        if diffs:
            return dict(static_explanation=dict(what='differences between the statically extracted tables (coq/ParamsFoot.v) and the expected ones (%s)' % where,
                                                difference_in_words=[d['words'] + '  [lemma ' + d['lemma'] + ' of the late file]' for d in diffs],
                                                regenerated=regenerated, expected=expected))
    except Exception as e:   # never let the explanation break the report
        return dict(static_explanation=dict(what='the static tables could not be compared: %r' % (e,)))
    return {}


def check(drv, pid, tier, seed):
    if pid not in PROPS:
        print('unknown property', pid)
        return 2
    cfg = PROPS[pid]
    t0 = time.time()
    ok, info = drv.build_all(bool(cfg.get('race')))
    if not ok:
        stage = info.get('stage')
        if stage in ('coq', 'hygiene', 'genparams', 'gotrans'):
            # a proof obligation (or the translator's expectation) no longer checks
            tail = info.get('output', '')[-3000:]
            more = static_words(drv, cfg)
            path = violation(drv, pid, dict(property=pid, seed=seed, case='proof', kind='proof-obligation', stage=stage,
                                             theorem_or_correspondence='the Coq development no longer builds against the regenerated Params.v (stage %s)' % stage,
                                             output=tail, **more), 'no-failing-input-found')
            predicates_without_model(drv, pid, tier, seed, cfg, stage)
            return 1
        print('check: cannot build (%s):\n%s' % (stage, info.get('output', '')[-3000:]))
        return 2
    if info.get('coq_broken'):
        # some Coq file no longer compiles; does that concern this property?  (its own files, transitively)
        stale = drv.coq_stale(cfg['files'])
        if stale:
            outp = info.get('coq_output', '')
            errs = re.findall(r'(File "\./[\w.]+", line \d+, characters [\d-]+:\n(?:.*\n){1,12}?)(?=make|File|COQC|Closed|$)', outp)
            violation(drv, pid, dict(property=pid, seed=seed, case='proof', kind='proof-obligation', stage='coq',
                                     theorem_or_correspondence='the Coq files of this property no longer build against the regenerated sources (Params.v / ParamsFoot.v / GenSrc.v / GenQueue.v): %s have no up-to-date compiled file; files that failed to compile: %s' % (', '.join(stale), ', '.join(f + '.v' for f in info.get('coq_failed_files', []))),
                                     errors=[e.strip() for e in errs][:6], output=outp[-3000:], **static_words(drv, cfg)), 'no-failing-input-found')
            return 1
        print('(a Coq file of another property does not compile: %s; the files of %s are up to date)' % (', '.join(info.get('coq_failed_files', [])), pid), flush=True)
    outdir = os.path.join(drv.BUILD, pid)
    for old in glob.glob(os.path.join(drv.BUILD, 'replay', pid + '-*.json')):
        os.remove(old)
    shutil.rmtree(outdir, ignore_errors=True)
    os.makedirs(outdir)
    count = cfg[tier if tier in ('quick', 'thorough') else 'quick']
    tg = time.time()
    harness_bin = drv.HARNESS_RACE_BIN if cfg.get('race') else drv.HARNESS_BIN
    marker = os.path.join(outdir, 'current_case.txt')
    rc, out = drv.run([harness_bin, 'gen', pid, '-seed', str(seed), '-tier', tier, '-out', outdir, '-count', str(count)],
                      env=dict(drv.GOENV, VERIF_MARKER=marker), timeout=3000)
    gen_s = round(time.time() - tg, 1)
    if rc != 0:
        crash = library_crash(out)
        if crash:
            # the harness process was killed from inside the library (a runtime error in a goroutine the library started, which no
            # recover() of the caller can stop): that is a failure of the library on the input it was given, not of the machinery
            given = open(marker).read() if os.path.exists(marker) else None
            violation(drv, pid, dict(property=pid, seed=seed, tier=tier, count=count, case='crash', kind='crash',
                                     failing_input=given,
                                     what='the process running the library was killed: ' + crash['headline'],
                                     panicking_goroutine=crash['stack'][:3000],
                                     explanation='the first frame of the panicking goroutine outside the Go runtime is inside the library (%s); the caller cannot recover from a panic in a goroutine the library started itself. The input is the one the harness had just handed to the library%s' % (crash['frame'], '' if given else ' (this generator does not record it: see the stack)')),
                      '' if given else 'no-failing-input-found')
            return 1
        print('check: harness failed:\n' + out[-3000:])
        return 2
    meta = json.load(open(os.path.join(outdir, 'cases.json')))
    tc = time.time()
    results = drv.eval_shards(outdir, meta['shards'])
    coq_s = round(time.time() - tc, 1)
    mism = []   # (global case, step, shard, local)
    broken = []
    base = 0
    for (shard, rc, out), n in zip(results, meta['shard_sizes']):
        ms = drv.parse_mismatches(out) if rc == 0 else None
        if ms is None:
            broken.append((shard, out[-1500:]))
        else:
            for m in ms:
                mism.append((base + m[0], m[1] if len(m) > 1 else 0, shard, m[0]))
        base += n
    viol = 0
    # late files: obligations compiled by this property's check only (not part of the common build), e.g. the lemmas
    # that compare the statically extracted footprint tables of C19 with the expected ones
    static = None
    static_fields = {}
    if cfg.get('late_files'):
        import footdiff
        static = footdiff.run_late(drv, pid, cfg['late_files'])
        if not static['ok']:
            static_fields = dict(static_explanation=dict(
                what='a static obligation of %s (file %s, first failing lemma %s; failing: %s) no longer holds for these sources; the difference between the regenerated and the expected tables is the explanation of this failing program'
                     % (pid, static['failures'][0]['file'], static['failures'][0]['first_failing_lemma'], ', '.join(static.get('failing_lemmas') or [])),
                difference_in_words=static.get('difference_in_words'), regenerated=static.get('regenerated'), expected=static.get('expected')))
    if broken:
        viol += 1
        violation(drv, pid, dict(property=pid, seed=seed, tier=tier, case='correspondence', kind='correspondence-broken',
                                 theorem_or_correspondence='the case file %s could not be evaluated by coqc' % broken[0][0],
                                 output=broken[0][1]), 'no-failing-input-found')
    reported = 0
    refinement = cfg.get('refinement', cfg['kind'] == 'pool')
    extra = meta.get('extra') or {}
    pred = {}
    for pv in (extra.get('predicate_violations') or []):
        if isinstance(pv, dict):
            pred.setdefault(pv['case'], []).extend(pv['violated'])
        else:
            # "case <n>: <what>" (generators that list their predicate failures as text)
            mm = re.match(r'case (\d+): (.*)$', str(pv), re.S)
            if mm:
                pred.setdefault(int(mm.group(1)), []).append(mm.group(2))
    known = [k for k in drv.load_findings().get('known', []) if isinstance(k, dict) and k.get('property') == pid]
    known_hit = {}

    def is_known(text):
        for k in known:
            if re.search(k['match'], text, re.S):
                known_hit[k['id']] = k
                return True
        return False

    # only the first three cases are written out: those that also fail one of the property's own predicates
    # (concrete failing inputs) come first
    # (a mismatching case without a failing predicate leaves room for up to two cases that fail a predicate although
    # model and implementation agree on the recorded calls - those are concrete failing inputs too)
    _mis = set(m[0] for m in mism)
    room = min(2, len([g for g in pred if g not in _mis]))
    for (g, step, shard, local) in sorted(mism, key=lambda m: (m[0] not in pred, m[0])):
        trace = meta['traces'][g]
        if is_known('\n'.join(trace)):
            continue
        viol += 1
        if reported >= 3 or (g not in pred and reported >= 3 - room):
            continue
        reported += 1
        mv = model_view(drv, pid, outdir, shard, local, step)
        if refinement:
            violation(drv, pid, dict(property=pid, seed=seed, tier=tier, count=count, case=g, step=step, kind='history',
                                     history=trace[:step + 1],
                                     explanation='the implementation (observed results in the history) and the model disagree at the last step shown; for this refinement-shaped property the difference on an observable is the counterexample',
                                     model_view=mv[-4000:], rerun='./check replay <this file>', **static_fields))
        elif g in pred:
            violation(drv, pid, dict(property=pid, seed=seed, tier=tier, count=count, case=g, step=step, kind='history',
                                     history=trace, property_predicates_violated_on_the_implementation=pred[g],
                                     explanation='the implementation and the model disagree on this case (code = second number of the mismatch, see the *Run.v file) AND the property\'s own predicates, evaluated by the harness on the observed behaviour of the real code, fail as listed: this case is the concrete failing input',
                                     model_view=mv[-4000:], rerun='./check replay <this file>', **static_fields))
        else:
            violation(drv, pid, dict(property=pid, seed=seed, tier=tier, count=count, case=g, step=step, kind='correspondence',
                                     history=trace,
                                     theorem_or_correspondence='correspondence %s (coq/*Run.v mismatch code %s): the implementation no longer behaves like the model the theorems are about on this case; the property\'s own predicates evaluated on the observed behaviour did not fail, so the property is no longer shown to hold rather than shown to fail' % (pid, step),
                                     model_view=mv[-4000:], rerun='./check replay <this file>', **static_fields),
                      '' if (static_fields and cfg.get('late_explains_correspondence')) else 'no-failing-input-found')
    # the property's own predicates failing on the implementation although model and implementation agree
    for g, bad in sorted(pred.items()):
        if g in [m[0] for m in mism]:
            continue
        if is_known('\n'.join(meta['traces'][g]) + '\n' + '\n'.join(bad)):
            continue
        viol += 1
        if reported >= 3:
            continue
        reported += 1
        violation(drv, pid, dict(property=pid, seed=seed, tier=tier, count=count, case=g, kind='predicate', history=meta['traces'][g],
                                 property_predicates_violated_on_the_implementation=bad,
                                 explanation='the property\'s own predicates, evaluated by the harness on the observed behaviour of the real code, fail on this case', **static_fields))
    if static is not None and not static['ok']:
        if reported == 0:
            viol += 1
            # nothing concrete was found by the correspondence of this run: the static difference is reported on its own
            f0 = static['failures'][0]
            reported += 1
            violation(drv, pid, dict(property=pid, seed=seed, tier=tier, case='static', kind='proof-obligation', stage='late_files',
                                     theorem_or_correspondence='lemma %s of coq/%s (compiled by ./check %s only) no longer holds for the tables regenerated from the Go sources; all failing lemmas: %s'
                                                               % (f0['first_failing_lemma'], f0['file'], pid, ', '.join(static.get('failing_lemmas') or [])),
                                     lemma=f0['first_failing_lemma'], failing_lemmas=static.get('failing_lemmas'),
                                     difference_in_words=static.get('difference_in_words'),
                                     regenerated=static.get('regenerated'), expected=static.get('expected'), static_facts=static.get('static_facts'),
                                     output=f0['output'], rerun='./check %s' % pid), 'no-failing-input-found')
    # findings the model mirrors (no mismatch arises): the harness replays their inputs on every run and says what it saw
    obs = {o['id']: o for o in (extra.get('known_finding_observations') or [])}
    for k in known:
        if k['id'] in known_hit:
            continue
        o = obs.get(k['id'])
        if o is not None and o.get('still_fails') is False:
            print('(known finding %s did not show in this run: %s)' % (k['id'], o.get('detail')), flush=True)
            continue
        known_hit[k['id']] = k
    for k in known_hit.values():
        print('KNOWN-FINDING: property=%s %s' % (pid, k['what']), flush=True)
    if viol > reported:
        print('(%d further mismatching cases not written out)' % (viol - reported))
    gen_extra = None
    if cfg.get('gen_proofs'):
        nv, gen_extra = gen_check(drv, pid, cfg, info, seed, tier, viol)
        viol += nv
    queue_extra = None
    if cfg.get('queue_proofs'):
        import queuegen
        nv, queue_extra = queuegen.queue_check(drv, violation, pid, cfg, info, seed, tier, viol)
        viol += nv
    table_extra = None
    if cfg.get('table_proofs'):
        import tablegen
        nv, table_extra = tablegen.table_check(drv, violation, pid, cfg, info, seed, tier, viol)
        viol += nv
    nobl, names = drv.count_obligations(cfg['files'] + list(cfg.get('late_files') or []) + [f for g in (cfg.get('gen_proofs') or []) for f in (g if isinstance(g, list) else [g])] + list(cfg.get('queue_proofs') or []) + [f for e in (cfg.get('table_proofs') or []) for f in (e if isinstance(e, list) else [e])])
    ndis = nobl
    if static is not None and not static['ok']:
        ndis = nobl - max(1, len(static.get('failing_lemmas') or []))
    coqchk = None
    if tier == 'thorough' and os.path.exists(os.path.join(drv.COQ, pid + '.vo')):
        # independent re-check of the property file and everything it depends on; lists the axioms
        tk = time.time()
        with drv.Lock():
            # the property file and the late proof files of this property (about the regenerated code / tables), with everything they depend on
            late = []
            for key in ('late_files', 'gen_proofs', 'queue_proofs', 'table_proofs'):
                for g in (cfg.get(key) or []):
                    for f in (g if isinstance(g, list) else [g]):
                        if os.path.exists(os.path.join(drv.COQ, f[:-2] + '.vo')):
                            late.append('Verif.' + f[:-2])
            rc, out = drv.run(['timeout', '6000', 'coqchk', '-silent', '-o', '-R', drv.COQ, 'Verif', 'Verif.' + pid] + late, cwd=drv.COQ)
        summary = out[out.find('CONTEXT SUMMARY'):] if 'CONTEXT SUMMARY' in out else out[-1500:]
        coqchk = dict(exit=rc, seconds=round(time.time() - tk, 1), summary=' | '.join(l.strip() for l in summary.split('\n') if l.strip()))
        if rc != 0:
            viol += 1
            violation(drv, pid, dict(property=pid, seed=seed, tier=tier, case='coqchk', kind='proof-obligation',
                                     theorem_or_correspondence='coqchk rejected %s.vo or one of its dependencies' % pid, output=out[-3000:]), 'no-failing-input-found')
    ev = dict(property_id=pid, tier=tier, seed=seed, level='proof',
              coverage=dict(obligations=nobl, discharged=ndis,
                            checker_cmd='cd /verif/coq && coq_makefile -f _CoqProject -o Makefile && make -k -j16  (coqc 8.16.1, full .vo build of the common tree after the translators regenerated Params.v, ParamsFoot.v, GenSrc.v, GenQueue.v, GenPipes.v, GenScan.v, GenModule.v, GenCollate.v from /repo); coqc on the late proof files of this property (cached when nothing they depend on changed); then coqc on build/%s/cases_*.v (vm_compute of the model on the generated histories)' % pid,
                            trusted_base=assumptions_of(drv, pid) + (static.get('assumptions', []) if static is not None else []) + TRUSTED_COMMON + (TRUSTED_GEN if cfg.get('gen_proofs') else []) + (TRUSTED_QUEUE if (cfg.get('queue_proofs') and 'GenC12.v' not in cfg.get('queue_proofs')) else []) + (TRUSTED_PIPES if 'GenC06.v' in (cfg.get('queue_proofs') or []) else []) + (TRUSTED_SCAN if 'GenC12.v' in (cfg.get('queue_proofs') or []) else []),
                            evaluations=meta['cases'], distinct_nontrivial=meta['distinct_nontrivial'], rule=meta['rule'],
                            samples=meta['samples'], steps=meta['steps'],
                            traces_validated_against_impl=meta['cases'],
                            op_histogram=meta.get('op_histogram'), outcome_histogram=meta.get('outcome_histogram'),
                            type_histogram=meta.get('type_histogram'), length_histogram=meta.get('length_histogram'), extra=meta.get('extra'),
                            generated_code=gen_extra, generated_queue_methods=queue_extra, regenerated_tables=table_extra,
                            hangs=meta.get('hangs', 0), mismatching_cases=len(mism), known_findings_reported=sorted(known_hit),
                            params=info.get('genparams'), obligations_files=cfg['files'] + list(cfg.get('late_files') or []), coqchk=coqchk,
                            late_files=(dict(ok=static['ok'], files=static['files'], seconds=static['seconds'], failing_lemmas=static.get('failing_lemmas'),
                                             difference_in_words=static.get('difference_in_words')) if static is not None else None),
                            timings=dict(build_s=info.get('coq_make_s'), go_build_s=info.get('go_build_s'), gen_s=gen_s, coqc_cases_s=coq_s)),
              assumptions=TRUSTED_COMMON, wall_s=round(time.time() - t0, 1), violations=viol)
    drv.write_evidence(pid, ev)
    print('%s: %d cases, %d steps, %d mismatches, %.1fs' % (pid, meta['cases'], meta['steps'], len(mism), time.time() - t0))
    return 1 if viol else 0


def explain(drv, args):
    pid, case = args[0], int(args[1])
    outdir = os.path.join(drv.BUILD, pid)
    meta = json.load(open(os.path.join(outdir, 'cases.json')))
    base = 0
    for shard, n in zip(meta['shards'], meta['shard_sizes']):
        if case < base + n:
            local = case - base
            break
        base += n
    trace = meta['traces'][case]
    step = int(args[2]) if len(args) > 2 else len(trace) - 1
    for i, t in enumerate(trace[:step + 1]):
        print('%3d  %s' % (i, t))
    print(model_view(drv, pid, outdir, shard, local, step))
    return 0


def replay(drv, path):
    r = json.load(open(path))
    pid = r['property']
    if r.get('kind') != 'history':
        print('replay: %s is not a history replay (kind=%s): %s' % (path, r.get('kind'), r.get('theorem_or_correspondence')))
        return check(drv, pid, r.get('tier', 'quick'), r.get('seed', 1))
    rc = check(drv, pid, r.get('tier', 'quick'), r['seed'])
    return rc
