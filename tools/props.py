"""Per-property configuration and the generic check flow (used by ../check)."""
import glob, json, os, re, shutil, subprocess, sys, time

# coq files whose statements count as the obligations of a property, the property file
# (statements only + Print Assumptions), the generator kind and the case counts per tier.
POOL_BASE = ['Base.v', 'Value.v', 'Seq.v', 'Coll.v', 'Pool.v']
PROPS = {
    'C01': dict(kind='pool', files=POOL_BASE + ['ListImpl.v', 'ListMachine.v', 'SeqProofs.v', 'C01.v'], quick=300, thorough=4000),
    'C02': dict(kind='pool', files=POOL_BASE + ['SetProofs.v', 'C02.v'], quick=300, thorough=4000),
    'C03': dict(kind='pool', files=POOL_BASE + ['AssocProofs.v', 'C03.v'], quick=300, thorough=4000),
    'C09': dict(kind='pool', files=POOL_BASE + ['Sorter.v', 'SorterProofs.v', 'C09.v'], quick=300, thorough=4000),
    'C14': dict(kind='pool', files=POOL_BASE + ['AssocProofs.v', 'C14.v'], quick=300, thorough=4000),
    'C15': dict(kind='pool', files=POOL_BASE + ['SetProofs.v', 'C15.v'], quick=300, thorough=4000),
    'C16': dict(kind='pool', files=POOL_BASE + ['AssocProofs.v', 'C16.v'], quick=300, thorough=4000),
    'C07': dict(kind='collate', files=['Base.v', 'Sorter.v', 'Value.v', 'CollateProofs.v', 'C07.v'], quick=400, thorough=8000),
    'C08': dict(kind='collate', files=['Base.v', 'Sorter.v', 'Value.v', 'CollateProofs.v', 'C08.v'], quick=400, thorough=8000),
    'C13': dict(kind='pool', files=POOL_BASE + ['StackProofs.v', 'C13.v'], quick=300, thorough=4000),
    'C17': dict(kind='pool', files=POOL_BASE + ['IterProofs.v', 'C17.v'], quick=300, thorough=4000),
    'C18': dict(kind='pool', files=POOL_BASE + ['PoolFrame.v', 'C18.v'], quick=300, thorough=4000),
}

# further properties are configured by one JSON file each in tools/props.d/ (same keys)
for _f in sorted(glob.glob(os.path.join(os.path.dirname(os.path.abspath(__file__)), 'props.d', '*.json'))):
    PROPS.update(json.load(open(_f)))

TRUSTED_COMMON = [
    "Coq 8.16.1 kernel (coqc); vm_compute is used to evaluate the model on the generated cases; native_compute is not used",
    "tools/genparams.py (translator of the numeric constants and tables of /repo into coq/Params.v)",
    "the Go harness (generators, interpreter over the real library, encoders to Gallina) and the decoders/comparison in coq/*Run.v",
    "the hand-written model is tied to the code only by this differential execution; the Go runtime, reflect and the standard library are trusted",
]


def assumptions_of(drv, pid):
    """compile the property file once more (cheap) to capture its Print Assumptions output"""
    pf = os.path.join(drv.COQ, pid + '.v')
    if not os.path.exists(pf):
        return ['(no property file %s.v yet)' % pid]
    tmp = os.path.join(drv.BUILD, 'assume')
    os.makedirs(tmp, exist_ok=True)
    rc, out = drv.run(['timeout', '600', 'coqc', '-R', drv.COQ, 'Verif', '-o', os.path.join(tmp, pid + '.vo'), pf])
    if rc != 0:
        return ['Print Assumptions could not be captured: ' + out[-500:]]
    blocks = []
    cur = []
    for line in out.split('\n'):
        if line.strip() == '':
            continue
        cur.append(line.rstrip())
    txt = '\n'.join(cur)
    names = re.findall(r'Print Assumptions\s+(\w+)', open(pf).read())
    return ['Print Assumptions of %s (in order %s): %s' % (pid + '.v', ', '.join(names), txt.replace('\n', ' | '))]


def violation(drv, pid, replay_obj, suffix=''):
    rdir = os.path.join(drv.BUILD, 'replay')
    os.makedirs(rdir, exist_ok=True)
    path = os.path.join(rdir, '%s-%s-%s.json' % (pid, replay_obj.get('seed', 0), replay_obj.get('case', 0)))
    with open(path, 'w') as f:
        json.dump(replay_obj, f, indent=1)
    print('VIOLATION property=%s replay=%s%s' % (pid, path, (' ' + suffix) if suffix else ''), flush=True)
    return path


def model_view(drv, pid, outdir, shard_file, local_case, step):
    """ask Coq what the model computes for one case up to a step (for replay files / explain)"""
    src = open(os.path.join(outdir, shard_file)).read()
    src = src.split('Definition M :=')[0]
    meta = json.load(open(os.path.join(outdir, 'cases.json')))
    if meta.get('explain_template'):
        # the generator says how to ask the model about one case: {case} and {step} are filled in
        src += meta['explain_template'].replace('{case}', str(local_case)).replace('{step}', str(step))
        p = os.path.join(outdir, 'explain_tmp.v')
        open(p, 'w').write(src)
        rc, out = drv.run(['timeout', '600', 'coqc', '-R', drv.COQ, 'Verif', p], cwd=outdir)
        return out
    if PROPS[pid]['kind'] == 'collate':
        src += ("Definition the_case := nth %d cases {| cc_max := 0; cc_calls := [] |}.\n"
                "Definition the_call := nth %d (cc_calls the_case) (CRank VNil VNil None).\n"
                "Definition Report := Eval vm_compute in (the_call, call_report (cc_max the_case) the_call).\nPrint Report.\n") % (local_case, step)
        p = os.path.join(outdir, 'explain_tmp.v')
        open(p, 'w').write(src)
        rc, out = drv.run(['timeout', '600', 'coqc', '-R', drv.COQ, 'Verif', p], cwd=outdir)
        return out
    src += ("Definition the_case := nth %d cases {| h_zero := VNil; h_steps := [] |}.\n"
            "Definition Report := Eval vm_compute in (hist_report the_case %d).\n"
            "Print Report.\n") % (local_case, step)
    p = os.path.join(outdir, 'explain_tmp.v')
    open(p, 'w').write(src)
    rc, out = drv.run(['timeout', '600', 'coqc', '-R', drv.COQ, 'Verif', p], cwd=outdir)
    return out


def check(drv, pid, tier, seed):
    if pid not in PROPS:
        print('unknown property', pid)
        return 2
    cfg = PROPS[pid]
    t0 = time.time()
    ok, info = drv.build_all(bool(cfg.get('race')))
    if not ok:
        stage = info.get('stage')
        if stage in ('coq', 'hygiene', 'genparams'):
            # a proof obligation (or the translator's expectation) no longer checks
            tail = info.get('output', '')[-3000:]
            more = {}
            if cfg.get('late_files'):
                # the statically extracted tables may say in words what changed in the sources (they need no compiled Coq file)
                try:
                    import footdiff
                    diffs, regenerated, expected = footdiff.differences(drv)
                    if diffs:
                        more = dict(static_explanation=dict(what='differences between the statically extracted footprint tables (coq/ParamsFoot.v) and the expected ones (coq/IndepFacts.v)',
                                                            difference_in_words=[d['words'] + '  [lemma ' + d['lemma'] + ' of the late file]' for d in diffs],
                                                            regenerated=regenerated, expected=expected))
                except Exception as e:   # never let the explanation break the report
                    more = dict(static_explanation=dict(what='the static tables could not be compared: %r' % (e,)))
            path = violation(drv, pid, dict(property=pid, seed=seed, case='proof', kind='proof-obligation', stage=stage,
                                             theorem_or_correspondence='the Coq development no longer builds against the regenerated Params.v (stage %s)' % stage,
                                             output=tail, **more), 'no-failing-input-found')
            return 1
        print('check: cannot build (%s):\n%s' % (stage, info.get('output', '')[-3000:]))
        return 2
    outdir = os.path.join(drv.BUILD, pid)
    for old in glob.glob(os.path.join(drv.BUILD, 'replay', pid + '-*.json')):
        os.remove(old)
    shutil.rmtree(outdir, ignore_errors=True)
    os.makedirs(outdir)
    count = cfg[tier if tier in ('quick', 'thorough') else 'quick']
    tg = time.time()
    harness_bin = drv.HARNESS_RACE_BIN if cfg.get('race') else drv.HARNESS_BIN
    rc, out = drv.run([harness_bin, 'gen', pid, '-seed', str(seed), '-tier', tier, '-out', outdir, '-count', str(count)],
                      env=drv.GOENV, timeout=3000)
    gen_s = round(time.time() - tg, 1)
    if rc != 0:
        print('check: harness failed:\n' + out[-3000:])
        return 2
    meta = json.load(open(os.path.join(outdir, 'cases.json')))
    tc = time.time()
    results = drv.eval_shards(outdir, meta['shards'])
    coq_s = round(time.time() - tc, 1)
    mism = []   # (global case, step, shard, local)
    broken = []
    base = 0
    for (shard, rc, out), n in zip(results, meta['shard_sizes']):
        ms = drv.parse_mismatches(out) if rc == 0 else None
        if ms is None:
            broken.append((shard, out[-1500:]))
        else:
            for m in ms:
                mism.append((base + m[0], m[1] if len(m) > 1 else 0, shard, m[0]))
        base += n
    viol = 0
    # late files: obligations compiled by this property's check only (not part of the common build), e.g. the lemmas
    # that compare the statically extracted footprint tables of C19 with the expected ones
    static = None
    static_fields = {}
    if cfg.get('late_files'):
        import footdiff
        static = footdiff.run_late(drv, pid, cfg['late_files'])
        if not static['ok']:
            static_fields = dict(static_explanation=dict(
                what='a static obligation of %s (file %s, first failing lemma %s; failing: %s) no longer holds for these sources; the difference between the regenerated and the expected tables is the explanation of this failing program'
                     % (pid, static['failures'][0]['file'], static['failures'][0]['first_failing_lemma'], ', '.join(static.get('failing_lemmas') or [])),
                difference_in_words=static.get('difference_in_words'), regenerated=static.get('regenerated'), expected=static.get('expected')))
    if broken:
        viol += 1
        violation(drv, pid, dict(property=pid, seed=seed, tier=tier, case='correspondence', kind='correspondence-broken',
                                 theorem_or_correspondence='the case file %s could not be evaluated by coqc' % broken[0][0],
                                 output=broken[0][1]), 'no-failing-input-found')
    reported = 0
    refinement = cfg.get('refinement', cfg['kind'] == 'pool')
    extra = meta.get('extra') or {}
    pred = {}
    for pv in (extra.get('predicate_violations') or []):
        if isinstance(pv, dict):
            pred.setdefault(pv['case'], []).extend(pv['violated'])
        else:
            # "case <n>: <what>" (generators that list their predicate failures as text)
            mm = re.match(r'case (\d+): (.*)$', str(pv), re.S)
            if mm:
                pred.setdefault(int(mm.group(1)), []).append(mm.group(2))
    known = [k for k in drv.load_findings().get('known', []) if isinstance(k, dict) and k.get('property') == pid]
    known_hit = {}

    def is_known(text):
        for k in known:
            if re.search(k['match'], text, re.S):
                known_hit[k['id']] = k
                return True
        return False

    for (g, step, shard, local) in mism:
        trace = meta['traces'][g]
        if is_known('\n'.join(trace)):
            continue
        viol += 1
        if reported >= 3:
            continue
        reported += 1
        mv = model_view(drv, pid, outdir, shard, local, step)
        if refinement:
            violation(drv, pid, dict(property=pid, seed=seed, tier=tier, count=count, case=g, step=step, kind='history',
                                     history=trace[:step + 1],
                                     explanation='the implementation (observed results in the history) and the model disagree at the last step shown; for this refinement-shaped property the difference on an observable is the counterexample',
                                     model_view=mv[-4000:], rerun='./check replay <this file>', **static_fields))
        elif g in pred:
            violation(drv, pid, dict(property=pid, seed=seed, tier=tier, count=count, case=g, step=step, kind='history',
                                     history=trace, property_predicates_violated_on_the_implementation=pred[g],
                                     explanation='the implementation and the model disagree on this case (code = second number of the mismatch, see the *Run.v file) AND the property\'s own predicates, evaluated by the harness on the observed behaviour of the real code, fail as listed: this case is the concrete failing input',
                                     model_view=mv[-4000:], rerun='./check replay <this file>', **static_fields))
        else:
            violation(drv, pid, dict(property=pid, seed=seed, tier=tier, count=count, case=g, step=step, kind='correspondence',
                                     history=trace,
                                     theorem_or_correspondence='correspondence %s (coq/*Run.v mismatch code %s): the implementation no longer behaves like the model the theorems are about on this case; the property\'s own predicates evaluated on the observed behaviour did not fail, so the property is no longer shown to hold rather than shown to fail' % (pid, step),
                                     model_view=mv[-4000:], rerun='./check replay <this file>', **static_fields),
                      '' if (static_fields and cfg.get('late_explains_correspondence')) else 'no-failing-input-found')
    # the property's own predicates failing on the implementation although model and implementation agree
    for g, bad in sorted(pred.items()):
        if g in [m[0] for m in mism]:
            continue
        if is_known('\n'.join(meta['traces'][g]) + '\n' + '\n'.join(bad)):
            continue
        viol += 1
        if reported >= 3:
            continue
        reported += 1
        violation(drv, pid, dict(property=pid, seed=seed, tier=tier, count=count, case=g, kind='predicate', history=meta['traces'][g],
                                 property_predicates_violated_on_the_implementation=bad,
                                 explanation='the property\'s own predicates, evaluated by the harness on the observed behaviour of the real code, fail on this case', **static_fields))
    if static is not None and not static['ok']:
        if reported == 0:
            viol += 1
            # nothing concrete was found by the correspondence of this run: the static difference is reported on its own
            f0 = static['failures'][0]
            reported += 1
            violation(drv, pid, dict(property=pid, seed=seed, tier=tier, case='static', kind='proof-obligation', stage='late_files',
                                     theorem_or_correspondence='lemma %s of coq/%s (compiled by ./check %s only) no longer holds for the tables regenerated from the Go sources; all failing lemmas: %s'
                                                               % (f0['first_failing_lemma'], f0['file'], pid, ', '.join(static.get('failing_lemmas') or [])),
                                     lemma=f0['first_failing_lemma'], failing_lemmas=static.get('failing_lemmas'),
                                     difference_in_words=static.get('difference_in_words'),
                                     regenerated=static.get('regenerated'), expected=static.get('expected'), static_facts=static.get('static_facts'),
                                     output=f0['output'], rerun='./check %s' % pid), 'no-failing-input-found')
    # findings the model mirrors (no mismatch arises): the harness replays their inputs on every run and says what it saw
    obs = {o['id']: o for o in (extra.get('known_finding_observations') or [])}
    for k in known:
        if k['id'] in known_hit:
            continue
        o = obs.get(k['id'])
        if o is not None and o.get('still_fails') is False:
            print('(known finding %s did not show in this run: %s)' % (k['id'], o.get('detail')), flush=True)
            continue
        known_hit[k['id']] = k
    for k in known_hit.values():
        print('KNOWN-FINDING: property=%s %s' % (pid, k['what']), flush=True)
    if viol > reported:
        print('(%d further mismatching cases not written out)' % (viol - reported))
    nobl, names = drv.count_obligations(cfg['files'] + list(cfg.get('late_files') or []))
    ndis = nobl
    if static is not None and not static['ok']:
        ndis = nobl - max(1, len(static.get('failing_lemmas') or []))
    coqchk = None
    if tier == 'thorough' and os.path.exists(os.path.join(drv.COQ, pid + '.vo')):
        # independent re-check of the property file and everything it depends on; lists the axioms
        tk = time.time()
        with drv.Lock():
            rc, out = drv.run(['timeout', '3000', 'coqchk', '-silent', '-o', '-R', drv.COQ, 'Verif', 'Verif.' + pid], cwd=drv.COQ)
        summary = out[out.find('CONTEXT SUMMARY'):] if 'CONTEXT SUMMARY' in out else out[-1500:]
        coqchk = dict(exit=rc, seconds=round(time.time() - tk, 1), summary=' | '.join(l.strip() for l in summary.split('\n') if l.strip()))
        if rc != 0:
            viol += 1
            violation(drv, pid, dict(property=pid, seed=seed, tier=tier, case='coqchk', kind='proof-obligation',
                                     theorem_or_correspondence='coqchk rejected %s.vo or one of its dependencies' % pid, output=out[-3000:]), 'no-failing-input-found')
    ev = dict(property_id=pid, tier=tier, seed=seed, level='proof',
              coverage=dict(obligations=nobl, discharged=ndis,
                            checker_cmd='cd /verif/coq && coq_makefile -f _CoqProject -o Makefile && make -j16  (coqc 8.16.1, full .vo build); then coqc on build/%s/cases_*.v (vm_compute of the model on the generated histories)' % pid,
                            trusted_base=assumptions_of(drv, pid) + (static.get('assumptions', []) if static is not None else []) + TRUSTED_COMMON,
                            evaluations=meta['cases'], distinct_nontrivial=meta['distinct_nontrivial'], rule=meta['rule'],
                            samples=meta['samples'], steps=meta['steps'],
                            traces_validated_against_impl=meta['cases'],
                            op_histogram=meta.get('op_histogram'), outcome_histogram=meta.get('outcome_histogram'),
                            type_histogram=meta.get('type_histogram'), length_histogram=meta.get('length_histogram'), extra=meta.get('extra'),
                            hangs=meta.get('hangs', 0), mismatching_cases=len(mism), known_findings_reported=sorted(known_hit),
                            params=info.get('genparams'), obligations_files=cfg['files'] + list(cfg.get('late_files') or []), coqchk=coqchk,
                            late_files=(dict(ok=static['ok'], files=static['files'], seconds=static['seconds'], failing_lemmas=static.get('failing_lemmas'),
                                             difference_in_words=static.get('difference_in_words')) if static is not None else None),
                            timings=dict(build_s=info.get('coq_make_s'), go_build_s=info.get('go_build_s'), gen_s=gen_s, coqc_cases_s=coq_s)),
              assumptions=TRUSTED_COMMON, wall_s=round(time.time() - t0, 1), violations=viol)
    drv.write_evidence(pid, ev)
    print('%s: %d cases, %d steps, %d mismatches, %.1fs' % (pid, meta['cases'], meta['steps'], len(mism), time.time() - t0))
    return 1 if viol else 0


def explain(drv, args):
    pid, case = args[0], int(args[1])
    outdir = os.path.join(drv.BUILD, pid)
    meta = json.load(open(os.path.join(outdir, 'cases.json')))
    base = 0
    for shard, n in zip(meta['shards'], meta['shard_sizes']):
        if case < base + n:
            local = case - base
            break
        base += n
    trace = meta['traces'][case]
    step = int(args[2]) if len(args) > 2 else len(trace) - 1
    for i, t in enumerate(trace[:step + 1]):
        print('%3d  %s' % (i, t))
    print(model_view(drv, pid, outdir, shard, local, step))
    return 0


def replay(drv, path):
    r = json.load(open(path))
    pid = r['property']
    if r.get('kind') != 'history':
        print('replay: %s is not a history replay (kind=%s): %s' % (path, r.get('kind'), r.get('theorem_or_correspondence')))
        return check(drv, pid, r.get('tier', 'quick'), r.get('seed', 1))
    rc = check(drv, pid, r.get('tier', 'quick'), r['seed'])
    return rc
