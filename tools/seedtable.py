#!/usr/bin/env python3
"""prints a markdown table of seeded/<id>/ (meta.json + result.json) for DESIGN.md"""
import json, os, glob
ROOT = os.path.join(os.path.dirname(os.path.abspath(__file__)), '..')
print('| id | property | change | needs | caught by | ')
print('|----|----------|--------|-------|-----------|')
for d in sorted(glob.glob(os.path.join(ROOT, 'seeded', '*'))):
    try:
        m = json.load(open(os.path.join(d, 'meta.json')))
    except Exception:
        continue
    r = {}
    try:
        txt = open(os.path.join(d, 'result.json')).read()
        r = json.loads(txt[txt.index('{'):])
    except Exception:
        pass
    caught = []
    for p, v in r.items():
        if v.get('exit') == 1 and v.get('violation_lines'):
            caught.append('`./check %s` (%d+ violations, %.0fs)' % (p, len(v['violation_lines']), v.get('wall_s', 0)))
        else:
            caught.append('`./check %s`: NOT caught (exit %s)' % (p, v.get('exit')))
    def short(s, n=170):
        s = ' '.join(str(s).split())
        return s if len(s) <= n else s[:n - 1] + '…'
    print('| %s | %s | %s | %s | %s |' % (os.path.basename(d), m.get('property'), short(m.get('change')), short(m.get('needs')), '; '.join(caught) or '?'))
