#!/usr/bin/env python3
"""seedtable.py [--write]: the tables of DESIGN.md section 13 from seeded/<id>/{meta.json,result.json} (seeded changes) and
seeded/benign/<id>/ (harmless changes).  With --write the block between the markers <!-- SEEDTABLE BEGIN --> and
<!-- SEEDTABLE END --> of DESIGN.md is replaced."""
import json, os, glob, re, sys
ROOT = os.path.abspath(os.path.join(os.path.dirname(os.path.abspath(__file__)), '..'))

# what the quick check of the change's property did the FIRST time the change was tried (before the machinery was
# strengthened because of it); everything not listed was caught at once
FIRST_MISS = {
    'C17-A': 'missed (the observation repaired the slot it observed)', 'C17-B': 'caught on 2 of 4 seeds', 'C09-A': 'missed (no persistent sorter instances)',
    'C04-A': 'caught, but in 50 min (mutex left locked)', 'C06-B': 'missed (invisible at hook granularity)', 'C08-A': 'missed (no neighbours beyond 2^53)',
    'C11-B': 'missed (parser instances never reused)', 'C20-A': 'missed (driver fault, exit 1 without a line)', 'C20-B': 'missed (driver fault)',
    'C01-C': 'missed', 'C03-C': 'missed', 'C06-D': 'missed', 'C08-D': 'missed', 'C09-C': 'missed', 'C13-C': 'missed', 'C14-D': 'missed',
    'C15-C': 'missed', 'C15-D': 'missed', 'C16-C': 'missed', 'C18-C': 'missed', 'C18-D': 'missed',
    'C02-F': 'missed', 'C05-F': 'missed by C05 (C20: table lemma only)', 'C07-E': 'missed', 'C09-F': 'missed', 'C10-E': 'missed',
    'C12-E': 'harness killed by the deadlock detector (exit 2)', 'C12-F': 'missed', 'C17-E': 'missed',
    'C03-G': 'missed', 'C03-H': 'missed', 'C07-G': 'missed', 'C07-H': 'missed', 'C12-G': 'harness killed by a runtime error in the scanner goroutine (exit 2)',
}


def short(s, n=150):
    s = ' '.join(str(s).split()).replace('|', '/')
    return s if len(s) <= n else s[:n - 1] + '…'


def load(d):
    try:
        m = json.load(open(os.path.join(d, 'meta.json')))
    except Exception:
        return None, {}
    r = {}
    try:
        txt = open(os.path.join(d, 'result.json')).read()
        r = json.loads(txt[txt.index('{'):])
    except Exception:
        pass
    return m, r


def seeded_table():
    out = ['| id | change | needs | first run | now (quick check of the property) |', '|----|--------|-------|-----------|------|']
    n = caught = concrete = 0
    for d in sorted(glob.glob(os.path.join(ROOT, 'seeded', 'C*-[A-Z]'))):
        sid = os.path.basename(d)
        m, r = load(d)
        if m is None:
            continue
        n += 1
        now = []
        any_caught = any_conc = False
        for p, v in r.items():
            lines = [l for l in v.get('violation_lines', []) if l.startswith('VIOLATION')]
            conc = [l for l in lines if 'no-failing-input-found' not in l]
            if v.get('exit') == 1 and lines:
                any_caught = True
                any_conc = any_conc or bool(conc)
                now.append('`./check %s`: caught, %s (%.0f s)' % (p, 'concrete failing input' if conc else '`no-failing-input-found` (proof obligation / correspondence)', v.get('wall_s', 0)))
            elif v.get('exit') is None:
                now.append('patch no longer applies')
            else:
                now.append('`./check %s`: NOT caught (exit %s)' % (p, v.get('exit')))
        caught += 1 if any_caught else 0
        concrete += 1 if any_conc else 0
        out.append('| %s | %s | %s | %s | %s |' % (sid, short(m.get('change')), short(m.get('needs'), 130), FIRST_MISS.get(sid, 'caught'), '; '.join(now) or '?'))
    out.append('')
    out.append('%d seeded changes; the quick check of their own property now catches %d, %d of them with a concrete failing input; first run: %d caught at once.'
               % (n, caught, concrete, n - len([k for k in FIRST_MISS if not FIRST_MISS[k].startswith('caught')])))
    return out


def benign_table():
    out = ['| id | kind | change | quick checks of the properties it touches |', '|----|------|--------|------|']
    n = silent = 0
    for d in sorted(glob.glob(os.path.join(ROOT, 'seeded', 'benign', '[HK]*'))):
        m, r = load(d)
        if m is None:
            continue
        n += 1
        res = []
        quiet = True
        for p, v in r.items():
            lines = [l for l in v.get('violation_lines', v.get('lines', [])) if l.startswith('VIOLATION')]
            if v.get('exit') == 0 and not lines:
                res.append('%s: nothing' % p)
            else:
                quiet = False
                nf = all('no-failing-input-found' in l for l in lines) and lines
                res.append('%s: exit %s%s' % (p, v.get('exit'), ' `no-failing-input-found`' if nf else (' **concrete alarm**' if lines else '')))
        silent += 1 if quiet else 0
        out.append('| %s | %s | %s | %s |' % (os.path.basename(d), short(m.get('kind'), 40), short(m.get('change'), 170), '; '.join(res) or '?'))
    out.append('')
    out.append('%d harmless changes, %d of them raise nothing in any check of a property they touch.' % (n, silent))
    return out


def main():
    block = ['<!-- SEEDTABLE BEGIN (generated by tools/seedtable.py --write from seeded/*/meta.json and result.json) -->', '']
    block += seeded_table() + ['', '**Harmless changes** (each keeps all twenty properties true; a check that reports one has raised a false alarm, or — where it ends in',
                               '`no-failing-input-found` — has met a proof obligation about regenerated code that a genuinely different but equivalent piece of code no longer satisfies):', '']
    block += benign_table() + ['', '<!-- SEEDTABLE END -->']
    text = '\n'.join(block)
    if '--write' in sys.argv:
        p = os.path.join(ROOT, 'DESIGN.md')
        s = open(p).read()
        s2, k = re.subn(r'<!-- SEEDTABLE BEGIN.*?<!-- SEEDTABLE END -->', lambda _: text, s, flags=re.S)
        assert k == 1, 'markers not found in DESIGN.md'
        open(p, 'w').write(s2)
        print('DESIGN.md: table block rewritten')
    else:
        print(text)


if __name__ == '__main__':
    main()
