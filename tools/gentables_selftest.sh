#!/bin/sh
# Self-test of the regenerated-tables machinery (tools/gomodule -> coq/GenModule.v -> coq/GenC20.v; tools/gocollate ->
# coq/GenCollate.v -> coq/GenC07.v); not a registered check.  Applies, one at a time, seeded changes to the library worktree
# $VERIF_REPO, runs ./check for the property, prints what was reported, and undoes the change.
# usage: VERIF_REPO=<scratch worktree of the library> tools/gentables_selftest.sh [out-file] [case-filter-regexp]
set -u
ROOT=$(cd "$(dirname "$0")/.." && pwd)
REPO=${VERIF_REPO:?set VERIF_REPO to a scratch worktree of the library}
OUT=${1:-$ROOT/build/gentables_selftest.txt}
FILTER=${2:-.}
export GOFLAGS=-mod=mod GOPROXY=off GOSUMDB=off GOTOOLCHAIN=local
mkdir -p "$ROOT/build"
: > "$OUT"
if [ -n "$(cd "$REPO" && git status --porcelain)" ]; then echo "worktree $REPO is not clean" >&2; exit 2; fi

summarize() {  # property
  python3 - "$ROOT" "$1" <<'PY'
import glob, json, sys
root, pid = sys.argv[1], sys.argv[2]
n = 0
for f in sorted(glob.glob('%s/build/replay/%s-*.json' % (root, pid))):
    e = json.load(open(f))
    n += 1
    x = e.get('regenerated_table_explanation') or {}
    print('   replay %s: kind=%s case=%s lemma=%s' % (f.split('/')[-1], e.get('kind'), e.get('case'), e.get('lemma_that_no_longer_checks') or x.get('lemma_that_no_longer_checks')))
    if e.get('history'): print('     failing input: ' + ' | '.join(e['history'])[:400])
    if n >= 4: break
PY
}

run_case() {  # name property patch
  name=$1; pid=$2; patch=$3
  echo "$name" | grep -Eq "$FILTER" || return
  echo "=== $name (property $pid)" | tee -a "$OUT"
  (cd "$REPO" && git apply "$patch") || { echo "   patch does not apply" | tee -a "$OUT"; (cd "$REPO" && git checkout -- . && git clean -fdq); return; }
  t0=$(date +%s)
  (cd "$ROOT" && timeout 1800 ./check "$pid") > "$ROOT/build/selftest_$pid.log" 2>&1
  rc=$?
  t1=$(date +%s)
  echo "   exit=$rc  seconds=$((t1 - t0))" | tee -a "$OUT"
  grep -E '^VIOLATION|no-failing-input-found' "$ROOT/build/selftest_$pid.log" | cut -c1-300 | sed 's/^/   /' | tee -a "$OUT"
  summarize "$pid" | tee -a "$OUT"
  (cd "$REPO" && git checkout -- . && git clean -fdq)
}

S=$ROOT/seeded
run_case "C20-A Association: flag hasKey replaced by a zero-value sentinel" C20 "$S/C20-A/patch.diff"
run_case "C20-B Stack source: no delegation for > 16 values" C20 "$S/C20-B/patch.diff"
run_case "C20-C Association: case col.NotationLike removed" C20 "$S/C20-C/patch.diff"
run_case "C20-D Queue source: MakeWithCapacity(cap(values))" C20 "$S/C20-D/patch.diff"
run_case "H03 benign: switch -> if/else in List/Set, loop factored into a helper" C20 "$S/benign/H03/patch.diff"
run_case "H07 benign: reworded panic messages" C20 "$S/benign/H07/patch.diff"
run_case "C07-A rankSigned by subtraction (not visible in a table)" C07 "$S/C07-A/patch.diff"
run_case "C07-C getType as a first-match table, uint before uint8" C07 "$S/C07-C/patch.diff"
run_case "C08-A signed integers compared through float64" C08 "$S/C08-A/patch.diff"
run_case "C08-B interface unwrapping up front" C08 "$S/C08-B/patch.diff"
run_case "C08-D" C08 "$S/C08-D/patch.diff"
run_case "H02 benign: collator nil handling if/else -> switch, rank inversion helper" C07 "$S/benign/H02/patch.diff"
# leave the generated files as they are on the unchanged tree
(cd "$ROOT" && [ -x build/gomodule ] && build/gomodule "$REPO" coq/GenModule.v >/dev/null 2>&1)
(cd "$ROOT" && [ -x build/gocollate ] && build/gocollate "$REPO" coq/GenCollate.v >/dev/null 2>&1)
echo "written: $OUT"
