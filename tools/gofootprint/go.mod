module gofootprint

go 1.22
