package main

import (
	"fmt"
	"go/ast"
	"go/token"
	"go/types"
	"sort"
	"strings"
)

// ---------------------------------------------------------------------------------------------
// roots: where a value (more exactly: the memory a reference-like value gives access to) comes from
// ---------------------------------------------------------------------------------------------

type root struct {
	kind  string // recv | param | global | call | fresh
	name  string // param: "<index>:<name>"; global: short name "agent.sorterClass"; call: callee name
	field string // first library struct field on the access path from the root ("" = none), e.g. "agent.sorter_.ranker_"
}

var freshRoot = root{kind: "fresh"}

type rootset map[root]bool

func single(r root) rootset { return rootset{r: true} }
func fresh() rootset        { return rootset{freshRoot: true} }

func (s rootset) addAll(t rootset) bool {
	changed := false
	for r := range t {
		if !s[r] {
			s[r] = true
			changed = true
		}
	}
	return changed
}

func (s rootset) onlyFresh() bool {
	for r := range s {
		if r.kind != "fresh" {
			return false
		}
	}
	return true
}

func (s rootset) sorted() []root {
	var rs []root
	for r := range s {
		rs = append(rs, r)
	}
	sort.Slice(rs, func(i, j int) bool {
		if rs[i].kind != rs[j].kind {
			return rs[i].kind < rs[j].kind
		}
		if rs[i].name != rs[j].name {
			return rs[i].name < rs[j].name
		}
		return rs[i].field < rs[j].field
	})
	return rs
}

func withField(s rootset, f string) rootset {
	res := rootset{}
	for r := range s {
		if r.kind != "fresh" && r.field == "" {
			r.field = f
		}
		res[r] = true
	}
	return res
}

// ---------------------------------------------------------------------------------------------
// the inventory
// ---------------------------------------------------------------------------------------------

type fieldInfo struct {
	qname string // agent.sorter_.ranker_
	name  string
	owner *structInfo
	kind  string
	obj   *types.Var
}

type structInfo struct {
	qname    string // agent.sorter_
	role     string // class | instance | other
	isStruct bool
	fields   []*fieldInfo
	obj      *types.TypeName
	pkg      *loaded
}

type globalInfo struct {
	short    string // agent.sorterClass
	fileName string // agent/sorter.go:sorterClass  (the naming of Params.package_vars)
	kind     string // registry | mutex | class-singleton | map | func | other
	exported bool
	obj      *types.Var
	pkg      *loaded
}

type writeEvent struct {
	r      root
	how    string
	pos    token.Pos
	via    string // "" for a direct write, otherwise the callee through which it happens
	lock   bool   // a Lock/Unlock operation on a mutex (synchronisation, not a data write)
	chanOp bool
}

type globalAccess struct {
	g     *globalInfo
	kind  string // read | write | mutate | lock
	how   string
	pos   token.Pos
	scope int
	held  []string // package-level mutexes held (short names), filled in later
}

type lockOp struct {
	mutex  string // short name of a package-level mutex
	op     string // Lock Unlock RLock RUnlock
	pos    token.Pos
	defer_ bool
	scope  int
}

type callSite struct {
	recvType   types.Type
	callee     *types.Func // origin
	recvExpr   ast.Expr    // nil for plain functions
	recvRoots  rootset
	recvIsSelf bool
	args       []rootset
	pos        token.Pos
}

type edge struct {
	dest   string
	source string
	where  string // function in which the edge arises
	pos    token.Pos
}

type fnInfo struct {
	qname      string
	simple     string // function / method name
	pkg        *loaded
	decl       *ast.FuncDecl // nil for the pseudo function of a package-level initialiser
	body       ast.Node
	obj        *types.Func
	recvVar    *types.Var
	recvStruct *structInfo
	recvPtr    bool
	params     map[*types.Var]string
	paramList  []*types.Var
	results    []*types.Var

	env          map[types.Object]rootset
	retRoots     rootset
	returnsFresh bool

	writes      map[string]writeEvent // keyed for de-duplication
	reads       map[string]bool       // receiver fields read
	globals     []globalAccess
	lockOps     []lockOp
	calls       []callSite
	creates     map[string]bool
	usesFields  map[string]bool
	spawns      int
	closures    int
	reflectCall bool
	kept        map[int]bool
}

type analysis struct {
	fset       *token.FileSet
	pkgs       []*loaded
	libPkg     map[*types.Package]*loaded
	structs    map[*types.TypeName]*structInfo
	structList []*structInfo
	fields     map[*types.Var]*fieldInfo
	globals    map[*types.Var]*globalInfo
	globalList []*globalInfo
	funcs      map[*types.Func]*fnInfo
	fnList     []*fnInfo
	byName     map[string][]*fnInfo
	edges      []edge
	classLits  []edge // dest = class struct, source = location
	stateless  map[*structInfo]bool
}

func (a *analysis) pos(p token.Pos) string {
	pp := a.fset.Position(p)
	f := pp.Filename
	if i := strings.Index(f, "/v4/"); i >= 0 {
		f = f[i+4:]
	}
	return fmt.Sprintf("%s:%d", f, pp.Line)
}

func pure(t types.Type) bool { return pureN(t, 0) }
func pureN(t types.Type, depth int) bool {
	if t == nil || depth > 6 {
		return false
	}
	switch u := t.(type) {
	case *types.Basic:
		return u.Kind() != types.UnsafePointer
	case *types.TypeParam:
		return true
	case *types.Named:
		return pureN(u.Underlying(), depth+1)
	case *types.Struct:
		for i := 0; i < u.NumFields(); i++ {
			if !pureN(u.Field(i).Type(), depth+1) {
				return false
			}
		}
		return true
	case *types.Array:
		return pureN(u.Elem(), depth+1)
	case *types.Tuple:
		for i := 0; i < u.Len(); i++ {
			if !pureN(u.At(i).Type(), depth+1) {
				return false
			}
		}
		return true
	}
	return false
}

func (a *analysis) qualNamed(n *types.Named) string {
	o := n.Origin().Obj()
	if o.Pkg() == nil {
		return o.Name()
	}
	if lp, ok := a.libPkg[o.Pkg()]; ok {
		return lp.short + "." + o.Name()
	}
	return o.Pkg().Path() + "." + o.Name()
}

func (a *analysis) kindOf(t types.Type) string {
	switch u := t.(type) {
	case *types.TypeParam:
		return "typeparam"
	case *types.Basic:
		return "basic"
	case *types.Named:
		o := u.Origin().Obj()
		_, lib := a.libPkg[o.Pkg()]
		q := a.qualNamed(u)
		switch uu := u.Underlying().(type) {
		case *types.Interface:
			if lib && strings.HasSuffix(o.Name(), "ClassLike") {
				return "classlink"
			}
			return "iface:" + q
		case *types.Signature:
			return "func:" + q
		case *types.Basic:
			_ = uu
			return "basic"
		}
		if !lib {
			return "ext:" + q
		}
		if pure(u) {
			return "basic"
		}
		return "struct:" + q
	case *types.Pointer:
		if n, ok := u.Elem().(*types.Named); ok {
			return "ptr:" + a.qualNamed(n)
		}
		return "ptr"
	case *types.Slice:
		return "slice"
	case *types.Map:
		return "map"
	case *types.Chan:
		return "chan"
	case *types.Signature:
		return "func"
	case *types.Interface:
		return "iface:any"
	case *types.Array:
		if pure(u) {
			return "basic"
		}
		return "array"
	case *types.Struct:
		if pure(u) {
			return "basic"
		}
		return "struct"
	}
	return "other"
}

func refCapable(kind string) bool {
	return kind != "basic" && kind != "typeparam" && kind != "classlink"
}

func newAnalysis(fset *token.FileSet, pkgs []*loaded) *analysis {
	a := &analysis{fset: fset, pkgs: pkgs, libPkg: map[*types.Package]*loaded{}, structs: map[*types.TypeName]*structInfo{},
		fields: map[*types.Var]*fieldInfo{}, globals: map[*types.Var]*globalInfo{}, funcs: map[*types.Func]*fnInfo{}, byName: map[string][]*fnInfo{}}
	for _, p := range pkgs {
		a.libPkg[p.pkg] = p
	}
	for _, p := range pkgs {
		a.inventory(p)
	}
	return a
}

func (a *analysis) inventory(p *loaded) {
	for fi, f := range p.files {
		for _, d := range f.Decls {
			switch d := d.(type) {
			case *ast.GenDecl:
				for _, s := range d.Specs {
					switch s := s.(type) {
					case *ast.TypeSpec:
						tn, ok := p.info.Defs[s.Name].(*types.TypeName)
						if !ok || tn.IsAlias() {
							continue
						}
						named, ok := tn.Type().(*types.Named)
						if !ok {
							continue
						}
						if _, isIface := named.Underlying().(*types.Interface); isIface {
							continue
						}
						if _, isSig := named.Underlying().(*types.Signature); isSig {
							continue
						}
						if _, isBasic := named.Underlying().(*types.Basic); isBasic {
							continue
						}
						si := &structInfo{qname: p.short + "." + tn.Name(), obj: tn, pkg: p, role: "other"}
						if strings.HasSuffix(tn.Name(), "Class_") {
							si.role = "class"
						} else if strings.HasSuffix(tn.Name(), "_") {
							si.role = "instance"
						}
						if st, ok := named.Underlying().(*types.Struct); ok {
							si.isStruct = true
							for i := 0; i < st.NumFields(); i++ {
								fv := st.Field(i)
								fld := &fieldInfo{qname: si.qname + "." + fv.Name(), name: fv.Name(), owner: si, obj: fv, kind: a.kindOf(fv.Type())}
								si.fields = append(si.fields, fld)
								a.fields[fv] = fld
							}
						}
						a.structs[tn] = si
						a.structList = append(a.structList, si)
					case *ast.ValueSpec:
						if d.Tok != token.VAR {
							continue
						}
						for _, n := range s.Names {
							v, ok := p.info.Defs[n].(*types.Var)
							if !ok || n.Name == "_" {
								continue
							}
							g := &globalInfo{short: p.short + "." + n.Name, fileName: p.names[fi] + ":" + n.Name, exported: n.IsExported(), obj: v, pkg: p}
							g.kind = a.globalKind(v.Type())
							a.globals[v] = g
							a.globalList = append(a.globalList, g)
						}
					}
				}
			}
		}
	}
}

func (a *analysis) globalKind(t types.Type) string {
	switch u := t.(type) {
	case *types.Map:
		if b, ok := u.Key().(*types.Basic); ok && b.Kind() == types.String {
			if i, ok := u.Elem().Underlying().(*types.Interface); ok && i.NumMethods() == 0 {
				return "registry"
			}
		}
		return "map"
	case *types.Named:
		q := a.qualNamed(u)
		if q == "sync.Mutex" || q == "sync.RWMutex" {
			return "mutex"
		}
		if strings.HasPrefix(q, "sync.") || strings.HasPrefix(q, "sync/atomic.") {
			return "sync:" + q
		}
	case *types.Pointer:
		if n, ok := u.Elem().(*types.Named); ok {
			if _, lib := a.libPkg[n.Origin().Obj().Pkg()]; lib && strings.HasSuffix(n.Origin().Obj().Name(), "Class_") {
				return "class-singleton"
			}
			q := a.qualNamed(n)
			if strings.HasPrefix(q, "sync.") {
				return "sync:" + q
			}
		}
	case *types.Signature:
		return "func"
	}
	if pure(t) {
		return "value"
	}
	return "other"
}

// ---------------------------------------------------------------------------------------------
// functions
// ---------------------------------------------------------------------------------------------

func (a *analysis) collectFuncs() {
	for _, p := range a.pkgs {
		for _, f := range p.files {
			for _, d := range f.Decls {
				switch d := d.(type) {
				case *ast.FuncDecl:
					if d.Body == nil {
						continue
					}
					obj := p.info.Defs[d.Name].(*types.Func)
					fn := &fnInfo{pkg: p, decl: d, body: d.Body, obj: obj, simple: d.Name.Name, params: map[*types.Var]string{}}
					sig := obj.Type().(*types.Signature)
					if d.Recv != nil && len(d.Recv.List) == 1 {
						rt := sig.Recv().Type()
						if pt, ok := rt.(*types.Pointer); ok {
							fn.recvPtr = true
							rt = pt.Elem()
						}
						if n, ok := rt.(*types.Named); ok {
							fn.recvStruct = a.structs[n.Origin().Obj()]
						}
						if len(d.Recv.List[0].Names) == 1 {
							if v, ok := p.info.Defs[d.Recv.List[0].Names[0]].(*types.Var); ok {
								fn.recvVar = v
							}
						}
						star := ""
						if fn.recvPtr {
							star = "*"
						}
						rn := "?"
						if fn.recvStruct != nil {
							rn = fn.recvStruct.obj.Name()
						}
						fn.qname = fmt.Sprintf("%s.(%s%s).%s", p.short, star, rn, d.Name.Name)
					} else {
						fn.qname = p.short + "." + d.Name.Name
					}
					idx := 0
					for _, fl := range d.Type.Params.List {
						if len(fl.Names) == 0 {
							idx++
							continue
						}
						for _, n := range fl.Names {
							idx++
							if v, ok := p.info.Defs[n].(*types.Var); ok {
								fn.params[v] = fmt.Sprintf("%d:%s", idx, n.Name)
								fn.paramList = append(fn.paramList, v)
							} else {
								fn.paramList = append(fn.paramList, nil)
							}
						}
					}
					if d.Type.Results != nil {
						for _, fl := range d.Type.Results.List {
							for _, n := range fl.Names {
								if v, ok := p.info.Defs[n].(*types.Var); ok {
									fn.results = append(fn.results, v)
								}
							}
						}
					}
					a.funcs[obj] = fn
					a.fnList = append(a.fnList, fn)
					a.byName[fn.simple] = append(a.byName[fn.simple], fn)
				case *ast.GenDecl:
					if d.Tok != token.VAR {
						continue
					}
					for _, s := range d.Specs {
						vs := s.(*ast.ValueSpec)
						if len(vs.Values) == 0 {
							continue
						}
						fn := &fnInfo{pkg: p, body: vs, simple: "", qname: "var " + p.short + "." + vs.Names[0].Name, params: map[*types.Var]string{}}
						a.fnList = append(a.fnList, fn)
					}
				}
			}
		}
	}
	sort.SliceStable(a.fnList, func(i, j int) bool { return a.fnList[i].qname < a.fnList[j].qname })
	for _, fn := range a.fnList {
		fn.returnsFresh = true
	}
}

// resolve a callee to the library functions it may denote.  A function or a method of a concrete type
// denotes itself.  A method called through an interface value denotes the method of that name of every
// library type that has (by name) all the methods of the interface: class hierarchy analysis by names,
// which also covers generic types.
func (a *analysis) resolve(callee *types.Func, recvType types.Type) []*fnInfo {
	if callee == nil {
		return nil
	}
	if fi, ok := a.funcs[callee]; ok {
		return []*fnInfo{fi}
	}
	if _, lib := a.libPkg[callee.Pkg()]; !lib {
		return nil
	}
	var need []string
	if recvType != nil {
		if it, ok := recvType.Underlying().(*types.Interface); ok {
			for i := 0; i < it.NumMethods(); i++ {
				need = append(need, it.Method(i).Name())
			}
		}
	}
	var res []*fnInfo
	for _, fi := range a.byName[callee.Name()] {
		if fi.recvStruct == nil {
			continue
		}
		ok := sigCompatible(callee, fi.obj)
		for _, m := range need {
			if !ok {
				break
			}
			if !a.hasMethod(fi.recvStruct, m) {
				ok = false
				break
			}
		}
		if ok {
			res = append(res, fi)
		}
	}
	return res
}

// could the method [cand] of a concrete type be what the interface method [im] denotes?  Same numbers of
// parameters and results; where both have a named type at a position it must be the same named type (up to
// instantiation); type parameters match anything.
func sigCompatible(im, cand *types.Func) bool {
	if im == nil || cand == nil {
		return true
	}
	s1, ok1 := im.Type().(*types.Signature)
	s2, ok2 := cand.Type().(*types.Signature)
	if !ok1 || !ok2 {
		return true
	}
	if s1.Variadic() != s2.Variadic() {
		return false
	}
	tuples := func(t1, t2 *types.Tuple) bool {
		if t1.Len() != t2.Len() {
			return false
		}
		for i := 0; i < t1.Len(); i++ {
			if !typeCompatible(t1.At(i).Type(), t2.At(i).Type()) {
				return false
			}
		}
		return true
	}
	return tuples(s1.Params(), s2.Params()) && tuples(s1.Results(), s2.Results())
}

func typeCompatible(t1, t2 types.Type) bool {
	if _, ok := t1.(*types.TypeParam); ok {
		return true
	}
	if _, ok := t2.(*types.TypeParam); ok {
		return true
	}
	n1, ok1 := t1.(*types.Named)
	n2, ok2 := t2.(*types.Named)
	if ok1 && ok2 {
		return n1.Origin().Obj() == n2.Origin().Obj()
	}
	if ok1 != ok2 {
		// a named type against an unnamed one: only an interface can hold it
		return true
	}
	b1, ok1 := t1.(*types.Basic)
	b2, ok2 := t2.(*types.Basic)
	if ok1 && ok2 {
		return b1.Kind() == b2.Kind()
	}
	return true
}

func (a *analysis) hasMethod(si *structInfo, name string) bool {
	for _, fi := range a.byName[name] {
		if fi.recvStruct == si {
			return true
		}
	}
	return false
}

func unparen(e ast.Expr) ast.Expr {
	for {
		p, ok := e.(*ast.ParenExpr)
		if !ok {
			return e
		}
		e = p.X
	}
}

// the static callee of a call: (function object (origin), receiver expression or nil)
func (fn *fnInfo) calleeOf(call *ast.CallExpr) (*types.Func, ast.Expr) {
	info := fn.pkg.info
	fun := unparen(call.Fun)
	switch f := fun.(type) {
	case *ast.IndexExpr:
		fun = unparen(f.X)
	case *ast.IndexListExpr:
		fun = unparen(f.X)
	}
	switch f := fun.(type) {
	case *ast.Ident:
		if o, ok := info.Uses[f].(*types.Func); ok {
			return o.Origin(), nil
		}
	case *ast.SelectorExpr:
		if sel, ok := info.Selections[f]; ok {
			if o, ok := sel.Obj().(*types.Func); ok && sel.Kind() == types.MethodVal {
				return o.Origin(), f.X
			}
			return nil, nil
		}
		if o, ok := info.Uses[f.Sel].(*types.Func); ok {
			return o.Origin(), nil
		}
	}
	return nil, nil
}

func recvNamedOf(f *types.Func) (pkgPath, typeName string, ptr bool) {
	sig, ok := f.Type().(*types.Signature)
	if !ok || sig.Recv() == nil {
		return "", "", false
	}
	t := sig.Recv().Type()
	if p, ok := t.(*types.Pointer); ok {
		ptr = true
		t = p.Elem()
	}
	if n, ok := t.(*types.Named); ok {
		o := n.Origin().Obj()
		if o.Pkg() != nil {
			return o.Pkg().Path(), o.Name(), ptr
		}
		return "", o.Name(), ptr
	}
	return "", "", ptr
}

// ---------------------------------------------------------------------------------------------
// roots of an expression
// ---------------------------------------------------------------------------------------------

type fnAn struct {
	a  *analysis
	fn *fnInfo
}

func (x *fnAn) identRoots(id *ast.Ident) rootset {
	info := x.fn.pkg.info
	obj := info.Uses[id]
	if obj == nil {
		obj = info.Defs[id]
	}
	v, ok := obj.(*types.Var)
	if !ok {
		return fresh()
	}
	if x.fn.recvVar != nil && v == x.fn.recvVar {
		return single(root{kind: "recv"})
	}
	if g, ok := x.a.globals[v]; ok {
		return single(root{kind: "global", name: g.short})
	}
	if rs, ok := x.fn.env[v]; ok && len(rs) > 0 {
		res := rootset{}
		res.addAll(rs)
		return res
	}
	return fresh()
}

func (x *fnAn) rootsOf(e ast.Expr) rootset {
	info := x.fn.pkg.info
	if tv, ok := info.Types[e]; ok && tv.Type != nil && !tv.IsType() && pure(tv.Type) {
		return fresh()
	}
	switch e := e.(type) {
	case *ast.Ident:
		return x.identRoots(e)
	case *ast.ParenExpr:
		return x.rootsOf(e.X)
	case *ast.SelectorExpr:
		if sel, ok := info.Selections[e]; ok {
			rs := x.rootsOf(e.X)
			if sel.Kind() == types.FieldVal {
				if fv, ok := sel.Obj().(*types.Var); ok {
					if fi, ok := x.a.fields[fv.Origin()]; ok {
						return withField(rs, fi.qname)
					}
				}
			}
			return rs
		}
		if v, ok := info.Uses[e.Sel].(*types.Var); ok {
			if g, ok := x.a.globals[v]; ok {
				return single(root{kind: "global", name: g.short})
			}
		}
		return fresh()
	case *ast.IndexExpr:
		if tv, ok := info.Types[e.X]; ok {
			if _, isSig := tv.Type.(*types.Signature); isSig {
				return fresh() // instantiation of a generic function
			}
		}
		return x.rootsOf(e.X)
	case *ast.IndexListExpr:
		return fresh()
	case *ast.SliceExpr:
		return x.rootsOf(e.X)
	case *ast.StarExpr:
		return x.rootsOf(e.X)
	case *ast.TypeAssertExpr:
		return x.rootsOf(e.X)
	case *ast.UnaryExpr:
		if e.Op == token.AND {
			return x.rootsOf(e.X)
		}
		return fresh()
	case *ast.CallExpr:
		return x.callRoots(e)
	}
	return fresh()
}

func (x *fnAn) callRoots(call *ast.CallExpr) rootset {
	info := x.fn.pkg.info
	fun := unparen(call.Fun)
	if tv, ok := info.Types[fun]; ok && tv.IsType() {
		if len(call.Args) == 1 {
			return x.rootsOf(call.Args[0])
		}
		return fresh()
	}
	if id, ok := fun.(*ast.Ident); ok {
		if _, isB := info.Uses[id].(*types.Builtin); isB {
			if id.Name == "append" && len(call.Args) > 0 {
				rs := fresh()
				rs.addAll(x.rootsOf(call.Args[0]))
				return rs
			}
			return fresh()
		}
	}
	callee, recvExpr := x.fn.calleeOf(call)
	if callee == nil {
		return fresh() // call of a function value: its result is taken to be fresh
	}
	if _, lib := x.a.libPkg[callee.Pkg()]; lib {
		var rt types.Type
		if recvExpr != nil {
			if tv, ok := info.Types[recvExpr]; ok {
				rt = tv.Type
			}
		}
		cands := x.a.resolve(callee, rt)
		for _, c := range cands {
			if !c.returnsFresh {
				return single(root{kind: "call", name: callee.Name()})
			}
		}
		return fresh()
	}
	pkgPath, typeName, _ := recvNamedOf(callee)
	if recvExpr != nil {
		if pkgPath == "sync" || pkgPath == "sync/atomic" {
			return single(root{kind: "call", name: pkgPath + "." + typeName + "." + callee.Name()})
		}
		if pkgPath == "reflect" {
			// MapKeys, Call ...: the slice itself is new (the reflect.Values in it may refer to anything)
			if tv, ok := info.Types[call]; ok && tv.Type != nil {
				if _, isSlice := tv.Type.Underlying().(*types.Slice); isSlice {
					return fresh()
				}
			}
		}
		return x.rootsOf(recvExpr)
	}
	if callee.Pkg() != nil && callee.Pkg().Path() == "reflect" {
		rs := fresh()
		for _, arg := range call.Args {
			rs.addAll(x.rootsOf(arg))
		}
		return rs
	}
	return fresh()
}

// ---------------------------------------------------------------------------------------------
// local environment (flow insensitive): every local variable -> the roots of everything assigned to it
// ---------------------------------------------------------------------------------------------

type binding struct {
	obj types.Object
	e   ast.Expr
}

func (x *fnAn) localObj(e ast.Expr) types.Object {
	id, ok := unparen(e).(*ast.Ident)
	if !ok || id.Name == "_" {
		return nil
	}
	info := x.fn.pkg.info
	obj := info.Defs[id]
	if obj == nil {
		obj = info.Uses[id]
	}
	v, ok := obj.(*types.Var)
	if !ok || v.IsField() {
		return nil
	}
	if _, isG := x.a.globals[v]; isG {
		return nil
	}
	if x.fn.recvVar != nil && v == x.fn.recvVar {
		return nil
	}
	return v
}

func (x *fnAn) bindings() []binding {
	var bs []binding
	info := x.fn.pkg.info
	bindAll := func(lhs []ast.Expr, rhs []ast.Expr) {
		if len(lhs) == len(rhs) {
			for i := range lhs {
				if o := x.localObj(lhs[i]); o != nil {
					bs = append(bs, binding{o, rhs[i]})
				}
			}
		} else if len(rhs) == 1 {
			for i := range lhs {
				if o := x.localObj(lhs[i]); o != nil {
					bs = append(bs, binding{o, rhs[0]})
				}
			}
		}
	}
	ast.Inspect(x.fn.body, func(n ast.Node) bool {
		switch n := n.(type) {
		case *ast.AssignStmt:
			if n.Tok == token.DEFINE || n.Tok == token.ASSIGN {
				bindAll(n.Lhs, n.Rhs)
			}
		case *ast.ValueSpec:
			if len(n.Values) > 0 && x.fn.decl != nil {
				lhs := make([]ast.Expr, len(n.Names))
				for i, id := range n.Names {
					lhs[i] = id
				}
				bindAll(lhs, n.Values)
			}
		case *ast.RangeStmt:
			for _, kv := range []ast.Expr{n.Key, n.Value} {
				if kv == nil {
					continue
				}
				if o := x.localObj(kv); o != nil {
					bs = append(bs, binding{o, n.X})
				}
			}
		case *ast.TypeSwitchStmt:
			if as, ok := n.Assign.(*ast.AssignStmt); ok && len(as.Rhs) == 1 {
				if ta, ok := unparen(as.Rhs[0]).(*ast.TypeAssertExpr); ok {
					for _, cl := range n.Body.List {
						if o := info.Implicits[cl]; o != nil {
							bs = append(bs, binding{o, ta.X})
						}
					}
				}
			}
		}
		return true
	})
	return bs
}

func (x *fnAn) computeEnv() {
	fn := x.fn
	fn.env = map[types.Object]rootset{}
	for v, name := range fn.params {
		fn.env[v] = single(root{kind: "param", name: name})
	}
	bs := x.bindings()
	for iter := 0; iter < 50; iter++ {
		changed := false
		for _, b := range bs {
			rs := x.rootsOf(b.e)
			if fn.env[b.obj] == nil {
				fn.env[b.obj] = rootset{}
			}
			// a variable of pure type holds a copy: no roots
			if v, ok := b.obj.(*types.Var); ok && pure(v.Type()) {
				continue
			}
			if fn.env[b.obj].addAll(rs) {
				changed = true
			}
		}
		if !changed {
			break
		}
	}
	// what the function returns
	fn.retRoots = rootset{}
	if fn.decl != nil {
		var walk func(n ast.Node) bool
		walk = func(n ast.Node) bool {
			switch n := n.(type) {
			case *ast.FuncLit:
				return false // returns of a closure are not returns of the function
			case *ast.ReturnStmt:
				if len(n.Results) == 0 {
					for _, r := range fn.results {
						if !pure(r.Type()) {
							if rs, ok := fn.env[r]; ok {
								fn.retRoots.addAll(rs)
							}
						}
					}
				}
				for _, r := range n.Results {
					fn.retRoots.addAll(x.rootsOf(r))
				}
			}
			return true
		}
		ast.Inspect(fn.body, walk)
	}
}

// ---------------------------------------------------------------------------------------------
// events
// ---------------------------------------------------------------------------------------------

func (fn *fnInfo) addWrite(r root, how string, pos token.Pos, via string) bool {
	key := r.kind + "|" + r.name + "|" + r.field + "|" + how + "|" + via
	if _, ok := fn.writes[key]; ok {
		return false
	}
	fn.writes[key] = writeEvent{r: r, how: how, pos: pos, via: via}
	return true
}

// the roots written by an assignment to the l-value e, and whether the write goes through an indirection
func (x *fnAn) lv(e ast.Expr) (rootset, bool) {
	info := x.fn.pkg.info
	switch e := e.(type) {
	case *ast.ParenExpr:
		return x.lv(e.X)
	case *ast.Ident:
		obj := info.Uses[e]
		if obj == nil {
			obj = info.Defs[e]
		}
		if v, ok := obj.(*types.Var); ok {
			if g, ok := x.a.globals[v]; ok {
				return single(root{kind: "global", name: g.short}), true
			}
		}
		return x.identRoots(e), false
	case *ast.SelectorExpr:
		if sel, ok := info.Selections[e]; ok && sel.Kind() == types.FieldVal {
			rs, ind := x.lv(e.X)
			if tv, ok := info.Types[e.X]; ok {
				if _, isPtr := tv.Type.Underlying().(*types.Pointer); isPtr {
					ind = true
				}
			}
			if fv, ok := sel.Obj().(*types.Var); ok {
				if fi, ok := x.a.fields[fv.Origin()]; ok {
					rs = withField(rs, fi.qname)
				}
			}
			return rs, ind
		}
		if v, ok := info.Uses[e.Sel].(*types.Var); ok {
			if g, ok := x.a.globals[v]; ok {
				return single(root{kind: "global", name: g.short}), true
			}
		}
		return x.rootsOf(e), false
	case *ast.IndexExpr:
		rs, ind := x.lv(e.X)
		if tv, ok := info.Types[e.X]; ok {
			switch tv.Type.Underlying().(type) {
			case *types.Slice, *types.Map, *types.Pointer:
				ind = true
			}
		}
		return rs, ind
	case *ast.SliceExpr:
		rs, ind := x.lv(e.X)
		if tv, ok := info.Types[e.X]; ok {
			switch tv.Type.Underlying().(type) {
			case *types.Slice, *types.Pointer:
				ind = true
			}
		}
		return rs, ind
	case *ast.StarExpr:
		rs, _ := x.lv(e.X)
		return rs, true
	case *ast.TypeAssertExpr:
		return x.lv(e.X)
	}
	return x.rootsOf(e), false
}

func (x *fnAn) write(e ast.Expr, how string, force bool, pos token.Pos) {
	rs, ind := x.lv(e)
	if !(ind || force) {
		return
	}
	for r := range rs {
		if r.kind == "fresh" {
			continue
		}
		x.fn.addWrite(r, how, pos, "")
	}
}

func (x *fnAn) globalOf(e ast.Expr) *globalInfo {
	info := x.fn.pkg.info
	var id *ast.Ident
	switch e := unparen(e).(type) {
	case *ast.Ident:
		id = e
	case *ast.SelectorExpr:
		if _, ok := info.Selections[e]; ok {
			return nil
		}
		id = e.Sel
	default:
		return nil
	}
	if v, ok := info.Uses[id].(*types.Var); ok {
		return x.a.globals[v]
	}
	return nil
}

// the package-level variable at the root of an access path (g, g[k], g.f, *g ...), if any
func (x *fnAn) globalRootOf(e ast.Expr) *globalInfo {
	for {
		if g := x.globalOf(e); g != nil {
			return g
		}
		switch ee := unparen(e).(type) {
		case *ast.SelectorExpr:
			if _, ok := x.fn.pkg.info.Selections[ee]; !ok {
				return nil
			}
			e = ee.X
		case *ast.IndexExpr:
			e = ee.X
		case *ast.SliceExpr:
			e = ee.X
		case *ast.StarExpr:
			e = ee.X
		case *ast.TypeAssertExpr:
			e = ee.X
		default:
			return nil
		}
	}
}

func (x *fnAn) events() {
	fn := x.fn
	a := x.a
	info := fn.pkg.info
	fn.writes = map[string]writeEvent{}
	fn.reads = map[string]bool{}
	fn.globals = nil
	fn.lockOps = nil
	fn.calls = nil
	fn.creates = map[string]bool{}
	fn.usesFields = map[string]bool{}
	fn.spawns, fn.closures = 0, 0
	written := map[ast.Expr]bool{}      // plain-assignment targets (not reads)
	gWritten := map[*ast.Ident]string{} // global identifiers that are the root of a write: kind
	scope := 0
	nextScope := 0
	deferred := map[*ast.CallExpr]bool{}

	noteGlobalWrite := func(lhs ast.Expr, how string) {
		// find the identifier of the package-level variable at the root of lhs
		e := lhs
		direct := true
		for {
			switch ee := unparen(e).(type) {
			case *ast.Ident:
				if v, ok := info.Uses[ee].(*types.Var); ok {
					if _, isG := a.globals[v]; isG {
						if direct {
							gWritten[ee] = "write|" + how
						} else {
							gWritten[ee] = "mutate|" + how
						}
					}
				}
				return
			case *ast.SelectorExpr:
				if _, ok := info.Selections[ee]; ok {
					e = ee.X
					direct = false
					continue
				}
				if v, ok := info.Uses[ee.Sel].(*types.Var); ok {
					if _, isG := a.globals[v]; isG {
						if direct {
							gWritten[ee.Sel] = "write|" + how
						} else {
							gWritten[ee.Sel] = "mutate|" + how
						}
					}
				}
				return
			case *ast.IndexExpr:
				e = ee.X
				direct = false
			case *ast.SliceExpr:
				e = ee.X
				direct = false
			case *ast.StarExpr:
				e = ee.X
				direct = false
			case *ast.TypeAssertExpr:
				e = ee.X
			default:
				return
			}
		}
	}

	edgeFrom := func(dest *fieldInfo, val ast.Expr, pos token.Pos) {
		if dest == nil || !refCapable(dest.kind) {
			return
		}
		for _, r := range x.rootsOf(val).sorted() {
			if r.kind == "fresh" {
				continue
			}
			src := ""
			switch r.kind {
			case "param":
				src = "arg " + r.name + " of " + fn.qname
				var idx int
				fmt.Sscanf(r.name, "%d:", &idx)
				if fn.kept == nil {
					fn.kept = map[int]bool{}
				}
				fn.kept[idx] = true
			case "recv":
				if r.field != "" {
					src = "field " + r.field
				} else {
					src = "receiver of " + fn.qname
				}
			case "global":
				src = "global " + r.name
				if r.field != "" {
					src += " field " + r.field
				}
			case "call":
				src = "result of " + r.name
			}
			a.edges = append(a.edges, edge{dest: dest.qname, source: src, where: fn.qname, pos: pos})
		}
	}

	var visit func(n ast.Node) bool
	visit = func(n ast.Node) bool {
		switch n := n.(type) {
		case *ast.FuncLit:
			fn.closures++
			saved := scope
			nextScope++
			scope = nextScope
			ast.Inspect(n.Body, visit)
			scope = saved
			return false
		case *ast.GoStmt:
			fn.spawns++
		case *ast.DeferStmt:
			deferred[n.Call] = true
		case *ast.AssignStmt:
			if n.Tok != token.DEFINE {
				how := "assign"
				if n.Tok != token.ASSIGN {
					how = "op-assign"
				}
				for i, l := range n.Lhs {
					if n.Tok == token.ASSIGN {
						written[unparen(l)] = true
					}
					x.write(l, how, false, l.Pos())
					noteGlobalWrite(l, how)
					if n.Tok == token.ASSIGN && len(n.Lhs) == len(n.Rhs) {
						if se, ok := unparen(l).(*ast.SelectorExpr); ok {
							if sel, ok := info.Selections[se]; ok && sel.Kind() == types.FieldVal {
								if fv, ok := sel.Obj().(*types.Var); ok {
									edgeFrom(a.fields[fv.Origin()], n.Rhs[i], l.Pos())
								}
							}
						}
					}
				}
			}
		case *ast.IncDecStmt:
			x.write(n.X, "incdec", false, n.X.Pos())
			noteGlobalWrite(n.X, "incdec")
		case *ast.SendStmt:
			// channel operations are synchronisation, not data writes
		case *ast.UnaryExpr:
			if n.Op == token.AND {
				if _, isLit := unparen(n.X).(*ast.CompositeLit); !isLit {
					rs, _ := x.lv(n.X)
					for r := range rs {
						if r.kind != "fresh" && (r.field != "" || r.kind == "global") {
							fn.addWrite(r, "address-taken", n.Pos(), "")
						}
					}
					noteGlobalWrite(n.X, "address-taken")
				}
			}
		case *ast.CompositeLit:
			tv, ok := info.Types[n]
			if !ok {
				break
			}
			t := tv.Type
			if p, ok := t.(*types.Pointer); ok {
				t = p.Elem()
			}
			named, ok := t.(*types.Named)
			if !ok {
				break
			}
			si := a.structs[named.Origin().Obj()]
			if si == nil || !si.isStruct {
				break
			}
			if si.role == "class" {
				a.classLits = append(a.classLits, edge{dest: si.qname, source: fn.qname, pos: n.Pos()})
			}
			for i, el := range n.Elts {
				if kv, ok := el.(*ast.KeyValueExpr); ok {
					if id, ok := kv.Key.(*ast.Ident); ok {
						if fv, ok := info.Uses[id].(*types.Var); ok {
							edgeFrom(a.fields[fv.Origin()], kv.Value, kv.Pos())
						}
					}
				} else if i < len(si.fields) {
					edgeFrom(si.fields[i], el, el.Pos())
				}
			}
		case *ast.CallExpr:
			x.callEvents(n, scope, deferred[n], noteGlobalWrite)
		case *ast.SelectorExpr:
			if sel, ok := info.Selections[n]; ok && sel.Kind() == types.FieldVal {
				if fv, ok := sel.Obj().(*types.Var); ok {
					if fi, ok := a.fields[fv.Origin()]; ok && !written[n] {
						for r := range x.rootsOfNoPurity(n.X) {
							if r.kind == "recv" && r.field == "" {
								fn.reads[fi.qname] = true
								if strings.HasPrefix(fi.kind, "iface:") || strings.HasPrefix(fi.kind, "func") || strings.HasPrefix(fi.kind, "ptr:") {
									fn.usesFields[fi.qname] = true
								}
							}
						}
					}
				}
			}
		case *ast.Ident:
			if v, ok := info.Uses[n].(*types.Var); ok {
				if g, ok := a.globals[v]; ok {
					kind, how := "read", ""
					if w, ok := gWritten[n]; ok {
						parts := strings.SplitN(w, "|", 2)
						kind, how = parts[0], parts[1]
						if how == "lock" {
							kind = "lock"
						}
					}
					fn.globals = append(fn.globals, globalAccess{g: g, kind: kind, how: how, pos: n.Pos(), scope: scope})
				}
			}
		}
		return true
	}
	ast.Inspect(fn.body, visit)
}

// roots of the expression ignoring the purity short cut at the top (used for field reads: v.depth_ is a read of depth_)
func (x *fnAn) rootsOfNoPurity(e ast.Expr) rootset {
	switch e := e.(type) {
	case *ast.Ident:
		return x.identRoots(e)
	case *ast.ParenExpr:
		return x.rootsOfNoPurity(e.X)
	case *ast.StarExpr:
		return x.rootsOfNoPurity(e.X)
	}
	return x.rootsOf(e)
}

var immutableExternal = map[string]bool{"regexp.Regexp": true}

func isRefType(t types.Type) bool {
	switch t.Underlying().(type) {
	case *types.Slice, *types.Map, *types.Pointer, *types.Chan:
		return true
	}
	return false
}

func (x *fnAn) callEvents(call *ast.CallExpr, scope int, isDeferred bool, noteGlobalWrite func(ast.Expr, string)) {
	fn := x.fn
	a := x.a
	info := fn.pkg.info
	fun := unparen(call.Fun)
	if tv, ok := info.Types[fun]; ok && tv.IsType() {
		return
	}
	if id, ok := fun.(*ast.Ident); ok {
		if _, isB := info.Uses[id].(*types.Builtin); isB {
			switch id.Name {
			case "append", "delete", "clear", "copy":
				if len(call.Args) > 0 {
					x.write(call.Args[0], id.Name, true, call.Pos())
					noteGlobalWrite(call.Args[0], id.Name)
					// a write THROUGH the variable, never of the variable itself
					if g := x.globalOf(call.Args[0]); g != nil {
						noteGlobalMutate(info, call.Args[0], noteGlobalWrite, id.Name)
					}
				}
			}
			return
		}
	}
	callee, recvExpr := fn.calleeOf(call)
	if callee == nil {
		return
	}
	if callee.Pkg() != nil && callee.Pkg().Path() == "reflect" {
		switch callee.Name() {
		case "Call", "CallSlice", "Set", "SetInt", "SetString", "SetFloat", "SetBool", "SetLen", "SetMapIndex", "SetUint", "SetComplex", "SetBytes", "SetCap", "SetPointer", "SetZero":
			fn.reflectCall = true
		}
	}
	_, lib := a.libPkg[callee.Pkg()]
	if !lib {
		pkgPath, typeName, ptr := recvNamedOf(callee)
		if recvExpr != nil {
			q := pkgPath + "." + typeName
			if (q == "sync.Mutex" || q == "sync.RWMutex") && (callee.Name() == "Lock" || callee.Name() == "Unlock" || callee.Name() == "RLock" || callee.Name() == "RUnlock" || callee.Name() == "TryLock" || callee.Name() == "TryRLock") {
				if g := x.globalOf(recvExpr); g != nil {
					fn.lockOps = append(fn.lockOps, lockOp{mutex: g.short, op: callee.Name(), pos: call.Pos(), defer_: isDeferred, scope: scope})
					noteGlobalLock(info, recvExpr, noteGlobalWrite)
					return
				}
				rs, _ := x.lv(recvExpr)
				for r := range rs {
					if r.kind == "fresh" {
						continue
					}
					key := "lock|" + r.kind + "|" + r.name + "|" + r.field
					if _, ok := fn.writes[key]; !ok {
						fn.writes[key] = writeEvent{r: r, how: callee.Name(), pos: call.Pos(), lock: true}
					}
				}
				if g := x.globalRootOf(recvExpr); g != nil {
					noteGlobalWrite(recvExpr, "call "+q+"."+callee.Name())
				}
				return
			}
			if ptr && !immutableExternal[q] && pkgPath != "reflect" {
				x.write(recvExpr, "call "+q+"."+callee.Name(), true, call.Pos())
				if g := x.globalOf(recvExpr); g != nil {
					noteGlobalMutate(info, recvExpr, noteGlobalWrite, "call "+q+"."+callee.Name())
				} else {
					noteGlobalWrite(recvExpr, "call "+q+"."+callee.Name())
				}
			}
			return
		}
		// a plain function outside the library: a non-fresh slice / map / pointer / channel handed to it may be written
		if callee.Pkg() != nil && callee.Pkg().Path() != "reflect" && callee.Pkg().Path() != "fmt" {
			for _, arg := range call.Args {
				if tv, ok := info.Types[arg]; ok && tv.Type != nil && isRefType(tv.Type) {
					x.write(arg, "passed to "+callee.Pkg().Path()+"."+callee.Name(), true, arg.Pos())
					noteGlobalWrite(arg, "passed to "+callee.Pkg().Path()+"."+callee.Name())
				}
			}
		}
		return
	}
	// a function or method of the library
	cs := callSite{callee: callee, recvExpr: recvExpr, pos: call.Pos()}
	if recvExpr != nil {
		if tv, ok := info.Types[recvExpr]; ok {
			cs.recvType = tv.Type
		}
		cs.recvRoots = x.rootsOfNoPurity(recvExpr)
		if id, ok := unparen(recvExpr).(*ast.Ident); ok {
			if v, ok := info.Uses[id].(*types.Var); ok && fn.recvVar != nil && v == fn.recvVar {
				cs.recvIsSelf = true
			}
		}
	}
	for _, arg := range call.Args {
		cs.args = append(cs.args, x.rootsOf(arg))
	}
	fn.calls = append(fn.calls, cs)
	// agents created per call: <Accessor>(...).Make...(...)
	if recvExpr != nil && strings.HasPrefix(callee.Name(), "Make") {
		if inner, ok := unparen(recvExpr).(*ast.CallExpr); ok {
			if acc, _ := fn.calleeOf(inner); acc != nil {
				if lp, ok := a.libPkg[acc.Pkg()]; ok {
					fn.creates[lp.short+"."+acc.Name()] = true
				}
			}
		}
	}
}

// g.M() with a pointer receiver method outside the library, append(g, ...), delete(g, k) ...: g itself is the
// operand, but what happens is a mutation THROUGH g, not an assignment of g
func noteGlobalMutate(info *types.Info, e ast.Expr, note func(ast.Expr, string), how string) {
	note(&ast.StarExpr{X: e}, how)
}

func noteGlobalLock(info *types.Info, e ast.Expr, note func(ast.Expr, string)) {
	note(&ast.StarExpr{X: e}, "lock")
}
