package main

import (
	"fmt"
	"go/ast"
	"go/token"
	"go/types"
	"sort"
	"strings"
)

// ---------------------------------------------------------------------------------------------
// roots: where a value (more exactly: the memory a reference-like value gives access to) comes from
// ---------------------------------------------------------------------------------------------

type root struct {
	via string // "" = the value may BE (alias) the root's memory; otherwise it only holds a reference to it: in the field
	// named here (of an object allocated in this call), or "[]" as an element of a slice / map / container
	kind  string // recv | param | global | call | fresh | alloc (name = allocation site: memory allocated in this call)
	name  string // param: "<index>:<name>"; global: short name "agent.sorterClass"; call: callee name
	field string // first library struct field on the access path from the root ("" = none), e.g. "agent.sorter_.ranker_"
}

var freshRoot = root{kind: "fresh"}

type rootset map[root]bool

func single(r root) rootset { return rootset{r: true} }
func fresh() rootset        { return rootset{freshRoot: true} }

func (s rootset) addAll(t rootset) bool {
	changed := false
	for r := range t {
		if !s[r] {
			s[r] = true
			changed = true
		}
	}
	return changed
}

func isFresh(r root) bool { return r.kind == "fresh" || r.kind == "alloc" }

func allocAt(p token.Pos) rootset {
	return rootset{root{kind: "alloc", name: fmt.Sprint(int(p))}: true}
}

func asElem(s rootset) rootset {
	res := rootset{}
	for r := range s {
		if !isFresh(r) && r.via == "" {
			r.via = "[]"
		}
		res[r] = true
	}
	return res
}

// the roots the value may alias (as opposed to merely hold a reference to)
func identity(s rootset) rootset {
	res := rootset{}
	for r := range s {
		if r.via == "" {
			res[r] = true
		}
	}
	return res
}

// the value was stored in the field / as an element [via] of an object allocated here: the object reaches all of it
func heldVia(s rootset, via string) rootset {
	res := rootset{}
	for r := range s {
		if isFresh(r) {
			res[r] = true
			continue
		}
		r.via = via
		res[r] = true
	}
	return res
}

// reading the field / an element [via] of a value: what it aliases keeps its roots (with the field as first step),
// what it holds through that field becomes what the read value aliases, what it holds elsewhere is left behind
func derefVia(s rootset, via string) rootset {
	res := rootset{}
	for r := range s {
		switch {
		case r.via == "":
			res[r] = true
		case r.via == via:
			r.via = ""
			res[r] = true
		}
	}
	return res
}

func (s rootset) onlyFresh() bool {
	for r := range s {
		if !isFresh(r) {
			return false
		}
	}
	return true
}

func (s rootset) sorted() []root {
	var rs []root
	for r := range s {
		rs = append(rs, r)
	}
	sort.Slice(rs, func(i, j int) bool {
		if rs[i].kind != rs[j].kind {
			return rs[i].kind < rs[j].kind
		}
		if rs[i].name != rs[j].name {
			return rs[i].name < rs[j].name
		}
		if rs[i].field != rs[j].field {
			return rs[i].field < rs[j].field
		}
		return rs[i].via < rs[j].via
	})
	return rs
}

func withField(s rootset, f string) rootset {
	res := rootset{}
	for r := range s {
		if !isFresh(r) && r.field == "" {
			r.field = f
		}
		res[r] = true
	}
	return res
}

// ---------------------------------------------------------------------------------------------
// the inventory
// ---------------------------------------------------------------------------------------------

type fieldInfo struct {
	qname string // agent.sorter_.ranker_
	name  string
	owner *structInfo
	kind  string
	obj   *types.Var
}

type structInfo struct {
	qname    string // agent.sorter_
	role     string // class | instance | other
	isStruct bool
	fields   []*fieldInfo
	obj      *types.TypeName
	pkg      *loaded
}

type globalInfo struct {
	short    string // agent.sorterClass
	fileName string // agent/sorter.go:sorterClass  (the naming of Params.package_vars)
	kind     string // registry | mutex | class-singleton | map | func | other
	exported bool
	obj      *types.Var
	pkg      *loaded
}

type writeEvent struct {
	r    root
	how  string
	pos  token.Pos
	via  string // "" for a direct write, otherwise the callee through which it happens
	lock bool   // a Lock/Unlock operation on a mutex (synchronisation, not a data write)
	// the contents of a slice / map / pointed-to value are changed in place (as opposed to a field being set)
	storage bool
	chanOp  bool
}

type globalAccess struct {
	g     *globalInfo
	kind  string // read | write | mutate | lock
	how   string
	pos   token.Pos
	scope int
	held  []string // package-level mutexes held (short names), filled in later
}

type lockOp struct {
	mutex  string // short name of a package-level mutex
	op     string // Lock Unlock RLock RUnlock
	pos    token.Pos
	defer_ bool
	scope  int
}

type callSite struct {
	recvType   types.Type
	callee     *types.Func // origin
	recvExpr   ast.Expr    // nil for plain functions
	recvRoots  rootset
	recvIsSelf bool
	args       []rootset
	pos        token.Pos
}

type edge struct {
	dest   string
	source string
	where  string // function in which the edge arises
	pos    token.Pos
}

type fieldSet struct {
	field string
	from  string
	pos   token.Pos
}

type fnInfo struct {
	qname      string
	simple     string // function / method name
	pkg        *loaded
	decl       *ast.FuncDecl // nil for the pseudo function of a package-level initialiser
	body       ast.Node
	obj        *types.Func
	recvVar    *types.Var
	recvStruct *structInfo
	recvPtr    bool
	params     map[*types.Var]string
	paramList  []*types.Var
	results    []*types.Var

	env            map[types.Object]rootset
	retRoots       rootset   // everything pre-existing that some result may reach (own roots of this function)
	retByIndex     []rootset // the same per result
	fieldSets      []fieldSet
	overwritten    map[types.Object]bool
	summaryChanged bool
	retained       map[string][]string // allocation site -> where memory allocated in this call is also stored (receiver field, global ...)

	writes      map[string]writeEvent // keyed for de-duplication
	reads       map[string]bool       // receiver fields read
	globals     []globalAccess
	lockOps     []lockOp
	calls       []callSite
	creates     map[string]bool
	usesFields  map[string]bool
	spawns      int
	closures    int
	reflectCall bool
	kept        map[int]bool
}

type analysis struct {
	fset       *token.FileSet
	pkgs       []*loaded
	libPkg     map[*types.Package]*loaded
	structs    map[*types.TypeName]*structInfo
	structList []*structInfo
	fields     map[*types.Var]*fieldInfo
	globals    map[*types.Var]*globalInfo
	globalList []*globalInfo
	funcs      map[*types.Func]*fnInfo
	fnList     []*fnInfo
	byName     map[string][]*fnInfo
	edges      []edge
	classLits  []edge // dest = class struct, source = location
	stateless  map[*structInfo]bool
}

func (a *analysis) pos(p token.Pos) string {
	pp := a.fset.Position(p)
	f := pp.Filename
	if i := strings.Index(f, "/v4/"); i >= 0 {
		f = f[i+4:]
	}
	return fmt.Sprintf("%s:%d", f, pp.Line)
}

func pure(t types.Type) bool { return pureN(t, 0) }
func pureN(t types.Type, depth int) bool {
	if t == nil || depth > 6 {
		return false
	}
	switch u := t.(type) {
	case *types.Basic:
		return u.Kind() != types.UnsafePointer
	case *types.TypeParam:
		return true
	case *types.Named:
		return pureN(u.Underlying(), depth+1)
	case *types.Struct:
		for i := 0; i < u.NumFields(); i++ {
			if !pureN(u.Field(i).Type(), depth+1) {
				return false
			}
		}
		return true
	case *types.Array:
		return pureN(u.Elem(), depth+1)
	case *types.Tuple:
		for i := 0; i < u.Len(); i++ {
			if !pureN(u.At(i).Type(), depth+1) {
				return false
			}
		}
		return true
	}
	return false
}

func (a *analysis) qualNamed(n *types.Named) string {
	o := n.Origin().Obj()
	if o.Pkg() == nil {
		return o.Name()
	}
	if lp, ok := a.libPkg[o.Pkg()]; ok {
		return lp.short + "." + o.Name()
	}
	return o.Pkg().Path() + "." + o.Name()
}

func (a *analysis) kindOf(t types.Type) string {
	switch u := t.(type) {
	case *types.TypeParam:
		return "typeparam"
	case *types.Basic:
		return "basic"
	case *types.Named:
		o := u.Origin().Obj()
		_, lib := a.libPkg[o.Pkg()]
		q := a.qualNamed(u)
		switch uu := u.Underlying().(type) {
		case *types.Interface:
			if lib && strings.HasSuffix(o.Name(), "ClassLike") {
				return "classlink"
			}
			return "iface:" + q
		case *types.Signature:
			return "func:" + q
		case *types.Basic:
			_ = uu
			return "basic"
		}
		if !lib {
			return "ext:" + q
		}
		if pure(u) {
			return "basic"
		}
		return "struct:" + q
	case *types.Pointer:
		if n, ok := u.Elem().(*types.Named); ok {
			return "ptr:" + a.qualNamed(n)
		}
		return "ptr"
	case *types.Slice:
		return "slice"
	case *types.Map:
		return "map"
	case *types.Chan:
		return "chan"
	case *types.Signature:
		return "func"
	case *types.Interface:
		return "iface:any"
	case *types.Array:
		if pure(u) {
			return "basic"
		}
		return "array"
	case *types.Struct:
		if pure(u) {
			return "basic"
		}
		return "struct"
	}
	return "other"
}

func refCapable(kind string) bool {
	return kind != "basic" && kind != "typeparam" && kind != "classlink"
}

func newAnalysis(fset *token.FileSet, pkgs []*loaded) *analysis {
	a := &analysis{fset: fset, pkgs: pkgs, libPkg: map[*types.Package]*loaded{}, structs: map[*types.TypeName]*structInfo{},
		fields: map[*types.Var]*fieldInfo{}, globals: map[*types.Var]*globalInfo{}, funcs: map[*types.Func]*fnInfo{}, byName: map[string][]*fnInfo{}}
	for _, p := range pkgs {
		a.libPkg[p.pkg] = p
	}
	for _, p := range pkgs {
		a.inventory(p)
	}
	return a
}

func (a *analysis) inventory(p *loaded) {
	for fi, f := range p.files {
		for _, d := range f.Decls {
			switch d := d.(type) {
			case *ast.GenDecl:
				for _, s := range d.Specs {
					switch s := s.(type) {
					case *ast.TypeSpec:
						tn, ok := p.info.Defs[s.Name].(*types.TypeName)
						if !ok || tn.IsAlias() {
							continue
						}
						named, ok := tn.Type().(*types.Named)
						if !ok {
							continue
						}
						if _, isIface := named.Underlying().(*types.Interface); isIface {
							continue
						}
						if _, isSig := named.Underlying().(*types.Signature); isSig {
							continue
						}
						if _, isBasic := named.Underlying().(*types.Basic); isBasic {
							continue
						}
						si := &structInfo{qname: p.short + "." + tn.Name(), obj: tn, pkg: p, role: "other"}
						if strings.HasSuffix(tn.Name(), "Class_") {
							si.role = "class"
						} else if strings.HasSuffix(tn.Name(), "_") {
							si.role = "instance"
						}
						if st, ok := named.Underlying().(*types.Struct); ok {
							si.isStruct = true
							for i := 0; i < st.NumFields(); i++ {
								fv := st.Field(i)
								fld := &fieldInfo{qname: si.qname + "." + fv.Name(), name: fv.Name(), owner: si, obj: fv, kind: a.kindOf(fv.Type())}
								si.fields = append(si.fields, fld)
								a.fields[fv] = fld
							}
						}
						a.structs[tn] = si
						a.structList = append(a.structList, si)
					case *ast.ValueSpec:
						if d.Tok != token.VAR {
							continue
						}
						for _, n := range s.Names {
							v, ok := p.info.Defs[n].(*types.Var)
							if !ok || n.Name == "_" {
								continue
							}
							g := &globalInfo{short: p.short + "." + n.Name, fileName: p.names[fi] + ":" + n.Name, exported: n.IsExported(), obj: v, pkg: p}
							g.kind = a.globalKind(v.Type())
							a.globals[v] = g
							a.globalList = append(a.globalList, g)
						}
					}
				}
			}
		}
	}
}

func (a *analysis) globalKind(t types.Type) string {
	switch u := t.(type) {
	case *types.Map:
		if b, ok := u.Key().(*types.Basic); ok && b.Kind() == types.String {
			if i, ok := u.Elem().Underlying().(*types.Interface); ok && i.NumMethods() == 0 {
				return "registry"
			}
		}
		return "map"
	case *types.Named:
		q := a.qualNamed(u)
		if q == "sync.Mutex" || q == "sync.RWMutex" {
			return "mutex"
		}
		if strings.HasPrefix(q, "sync.") || strings.HasPrefix(q, "sync/atomic.") {
			return "sync:" + q
		}
	case *types.Pointer:
		if n, ok := u.Elem().(*types.Named); ok {
			if _, lib := a.libPkg[n.Origin().Obj().Pkg()]; lib && strings.HasSuffix(n.Origin().Obj().Name(), "Class_") {
				return "class-singleton"
			}
			q := a.qualNamed(n)
			if strings.HasPrefix(q, "sync.") {
				return "sync:" + q
			}
		}
	case *types.Signature:
		return "func"
	}
	if pure(t) {
		return "value"
	}
	return "other"
}

// ---------------------------------------------------------------------------------------------
// functions
// ---------------------------------------------------------------------------------------------

func (a *analysis) collectFuncs() {
	for _, p := range a.pkgs {
		for _, f := range p.files {
			for _, d := range f.Decls {
				switch d := d.(type) {
				case *ast.FuncDecl:
					if d.Body == nil {
						continue
					}
					obj := p.info.Defs[d.Name].(*types.Func)
					fn := &fnInfo{pkg: p, decl: d, body: d.Body, obj: obj, simple: d.Name.Name, params: map[*types.Var]string{}}
					sig := obj.Type().(*types.Signature)
					if d.Recv != nil && len(d.Recv.List) == 1 {
						rt := sig.Recv().Type()
						if pt, ok := rt.(*types.Pointer); ok {
							fn.recvPtr = true
							rt = pt.Elem()
						}
						if n, ok := rt.(*types.Named); ok {
							fn.recvStruct = a.structs[n.Origin().Obj()]
						}
						if len(d.Recv.List[0].Names) == 1 {
							if v, ok := p.info.Defs[d.Recv.List[0].Names[0]].(*types.Var); ok {
								fn.recvVar = v
							}
						}
						star := ""
						if fn.recvPtr {
							star = "*"
						}
						rn := "?"
						if fn.recvStruct != nil {
							rn = fn.recvStruct.obj.Name()
						}
						fn.qname = fmt.Sprintf("%s.(%s%s).%s", p.short, star, rn, d.Name.Name)
					} else {
						fn.qname = p.short + "." + d.Name.Name
					}
					idx := 0
					for _, fl := range d.Type.Params.List {
						if len(fl.Names) == 0 {
							idx++
							continue
						}
						for _, n := range fl.Names {
							idx++
							if v, ok := p.info.Defs[n].(*types.Var); ok {
								fn.params[v] = fmt.Sprintf("%d:%s", idx, n.Name)
								fn.paramList = append(fn.paramList, v)
							} else {
								fn.paramList = append(fn.paramList, nil)
							}
						}
					}
					if d.Type.Results != nil {
						for _, fl := range d.Type.Results.List {
							for _, n := range fl.Names {
								if v, ok := p.info.Defs[n].(*types.Var); ok {
									fn.results = append(fn.results, v)
								}
							}
						}
					}
					a.funcs[obj] = fn
					a.fnList = append(a.fnList, fn)
					a.byName[fn.simple] = append(a.byName[fn.simple], fn)
				case *ast.GenDecl:
					if d.Tok != token.VAR {
						continue
					}
					for _, s := range d.Specs {
						vs := s.(*ast.ValueSpec)
						if len(vs.Values) == 0 {
							continue
						}
						fn := &fnInfo{pkg: p, body: vs, simple: "", qname: "var " + p.short + "." + vs.Names[0].Name, params: map[*types.Var]string{}}
						a.fnList = append(a.fnList, fn)
					}
				}
			}
		}
	}
	sort.SliceStable(a.fnList, func(i, j int) bool { return a.fnList[i].qname < a.fnList[j].qname })
	for _, fn := range a.fnList {
		fn.retRoots = rootset{}
	}
}

// resolve a callee to the library functions it may denote.  A function or a method of a concrete type
// denotes itself.  A method called through an interface value denotes the method of that name of every
// library type that has (by name) all the methods of the interface: class hierarchy analysis by names,
// which also covers generic types.
func (a *analysis) resolve(callee *types.Func, recvType types.Type) []*fnInfo {
	if callee == nil {
		return nil
	}
	if fi, ok := a.funcs[callee]; ok {
		return []*fnInfo{fi}
	}
	if _, lib := a.libPkg[callee.Pkg()]; !lib {
		return nil
	}
	var need []string
	if recvType != nil {
		if it, ok := recvType.Underlying().(*types.Interface); ok {
			for i := 0; i < it.NumMethods(); i++ {
				need = append(need, it.Method(i).Name())
			}
		}
	}
	var res []*fnInfo
	for _, fi := range a.byName[callee.Name()] {
		if fi.recvStruct == nil {
			continue
		}
		ok := sigCompatible(callee, fi.obj)
		for _, m := range need {
			if !ok {
				break
			}
			if !a.hasMethod(fi.recvStruct, m) {
				ok = false
				break
			}
		}
		if ok {
			res = append(res, fi)
		}
	}
	return res
}

// could the method [cand] of a concrete type be what the interface method [im] denotes?  Same numbers of
// parameters and results; where both have a named type at a position it must be the same named type (up to
// instantiation); type parameters match anything.
func sigCompatible(im, cand *types.Func) bool {
	if im == nil || cand == nil {
		return true
	}
	s1, ok1 := im.Type().(*types.Signature)
	s2, ok2 := cand.Type().(*types.Signature)
	if !ok1 || !ok2 {
		return true
	}
	if s1.Variadic() != s2.Variadic() {
		return false
	}
	tuples := func(t1, t2 *types.Tuple) bool {
		if t1.Len() != t2.Len() {
			return false
		}
		for i := 0; i < t1.Len(); i++ {
			if !typeCompatible(t1.At(i).Type(), t2.At(i).Type()) {
				return false
			}
		}
		return true
	}
	return tuples(s1.Params(), s2.Params()) && tuples(s1.Results(), s2.Results())
}

func typeCompatible(t1, t2 types.Type) bool {
	if _, ok := t1.(*types.TypeParam); ok {
		return true
	}
	if _, ok := t2.(*types.TypeParam); ok {
		return true
	}
	n1, ok1 := t1.(*types.Named)
	n2, ok2 := t2.(*types.Named)
	if ok1 && ok2 {
		return n1.Origin().Obj() == n2.Origin().Obj()
	}
	if ok1 != ok2 {
		// a named type against an unnamed one: only an interface can hold it
		return true
	}
	b1, ok1 := t1.(*types.Basic)
	b2, ok2 := t2.(*types.Basic)
	if ok1 && ok2 {
		return b1.Kind() == b2.Kind()
	}
	return true
}

func (a *analysis) hasMethod(si *structInfo, name string) bool {
	for _, fi := range a.byName[name] {
		if fi.recvStruct == si {
			return true
		}
	}
	return false
}

func unparen(e ast.Expr) ast.Expr {
	for {
		p, ok := e.(*ast.ParenExpr)
		if !ok {
			return e
		}
		e = p.X
	}
}

// the static callee of a call: (function object (origin), receiver expression or nil)
func (fn *fnInfo) calleeOf(call *ast.CallExpr) (*types.Func, ast.Expr) {
	info := fn.pkg.info
	fun := unparen(call.Fun)
	switch f := fun.(type) {
	case *ast.IndexExpr:
		fun = unparen(f.X)
	case *ast.IndexListExpr:
		fun = unparen(f.X)
	}
	switch f := fun.(type) {
	case *ast.Ident:
		if o, ok := info.Uses[f].(*types.Func); ok {
			return o.Origin(), nil
		}
	case *ast.SelectorExpr:
		if sel, ok := info.Selections[f]; ok {
			if o, ok := sel.Obj().(*types.Func); ok && sel.Kind() == types.MethodVal {
				return o.Origin(), f.X
			}
			return nil, nil
		}
		if o, ok := info.Uses[f.Sel].(*types.Func); ok {
			return o.Origin(), nil
		}
	}
	return nil, nil
}

func recvNamedOf(f *types.Func) (pkgPath, typeName string, ptr bool) {
	sig, ok := f.Type().(*types.Signature)
	if !ok || sig.Recv() == nil {
		return "", "", false
	}
	t := sig.Recv().Type()
	if p, ok := t.(*types.Pointer); ok {
		ptr = true
		t = p.Elem()
	}
	if n, ok := t.(*types.Named); ok {
		o := n.Origin().Obj()
		if o.Pkg() != nil {
			return o.Pkg().Path(), o.Name(), ptr
		}
		return "", o.Name(), ptr
	}
	return "", "", ptr
}

// ---------------------------------------------------------------------------------------------
// roots of an expression
// ---------------------------------------------------------------------------------------------

type fnAn struct {
	a  *analysis
	fn *fnInfo
}

func (x *fnAn) identRoots(id *ast.Ident) rootset {
	info := x.fn.pkg.info
	obj := info.Uses[id]
	if obj == nil {
		obj = info.Defs[id]
	}
	v, ok := obj.(*types.Var)
	if !ok {
		return fresh()
	}
	if x.fn.recvVar != nil && v == x.fn.recvVar {
		return single(root{kind: "recv"})
	}
	if g, ok := x.a.globals[v]; ok {
		return single(root{kind: "global", name: g.short})
	}
	if rs, ok := x.fn.env[v]; ok && len(rs) > 0 {
		res := rootset{}
		res.addAll(rs)
		return res
	}
	return fresh()
}

func (x *fnAn) rootsOf(e ast.Expr) rootset {
	info := x.fn.pkg.info
	if tv, ok := info.Types[e]; ok && tv.Type != nil && !tv.IsType() && pure(tv.Type) {
		return fresh()
	}
	return x.rootsRaw(e)
}

func (x *fnAn) rootsRaw(e ast.Expr) rootset {
	info := x.fn.pkg.info
	switch e := e.(type) {
	case *ast.Ident:
		return x.identRoots(e)
	case *ast.ParenExpr:
		return x.rootsOf(e.X)
	case *ast.SelectorExpr:
		if sel, ok := info.Selections[e]; ok {
			rs := x.rootsOfNoPurity(e.X)
			if sel.Kind() == types.FieldVal {
				if fv, ok := sel.Obj().(*types.Var); ok {
					if fi, ok := x.a.fields[fv.Origin()]; ok {
						return withField(derefVia(rs, fi.qname), fi.qname)
					}
				}
			}
			return rs
		}
		if v, ok := info.Uses[e.Sel].(*types.Var); ok {
			if g, ok := x.a.globals[v]; ok {
				return single(root{kind: "global", name: g.short})
			}
		}
		return fresh()
	case *ast.IndexExpr:
		if tv, ok := info.Types[e.X]; ok {
			if _, isSig := tv.Type.(*types.Signature); isSig {
				return fresh() // instantiation of a generic function
			}
		}
		return derefVia(x.rootsOf(e.X), "[]")
	case *ast.IndexListExpr:
		return fresh()
	case *ast.SliceExpr:
		return x.rootsOf(e.X)
	case *ast.StarExpr:
		return x.rootsOf(e.X)
	case *ast.TypeAssertExpr:
		return x.rootsOf(e.X)
	case *ast.UnaryExpr:
		if e.Op == token.AND {
			return x.rootsOf(e.X)
		}
		return fresh()
	case *ast.CallExpr:
		return x.callRoots(e)
	case *ast.CompositeLit:
		return x.literalRoots(e)
	case *ast.FuncLit:
		return allocAt(e.Pos())
	}
	return fresh()
}

// a composite literal is memory allocated here; it reaches whatever its reference-like components reach
// (links to the class and objects without state excepted)
func (x *fnAn) literalRoots(e *ast.CompositeLit) rootset {
	info := x.fn.pkg.info
	rs := allocAt(e.Pos())
	var si *structInfo
	if tv, ok := info.Types[e]; ok && tv.Type != nil {
		t := tv.Type
		if p, ok := t.(*types.Pointer); ok {
			t = p.Elem()
		}
		if n, ok := t.(*types.Named); ok {
			si = x.a.structs[n.Origin().Obj()]
		}
	}
	for i, el := range e.Elts {
		val := el
		var fld *fieldInfo
		if kv, ok := el.(*ast.KeyValueExpr); ok {
			val = kv.Value
			if id, ok := kv.Key.(*ast.Ident); ok {
				if fv, ok := info.Uses[id].(*types.Var); ok {
					fld = x.a.fields[fv.Origin()]
				}
			}
		} else if si != nil && si.isStruct && i < len(si.fields) {
			fld = si.fields[i]
		}
		if fld != nil && (!refCapable(fld.kind) || x.a.statelessType(fld.obj.Type())) {
			continue
		}
		via := "[]"
		if fld != nil {
			via = fld.qname
		}
		rs.addAll(heldVia(x.rootsOf(val), via))
	}
	return rs
}

func (x *fnAn) callRoots(call *ast.CallExpr) rootset {
	info := x.fn.pkg.info
	fun := unparen(call.Fun)
	if tv, ok := info.Types[fun]; ok && tv.IsType() {
		if len(call.Args) == 1 {
			return x.rootsOf(call.Args[0])
		}
		return fresh()
	}
	if id, ok := fun.(*ast.Ident); ok {
		if _, isB := info.Uses[id].(*types.Builtin); isB {
			switch id.Name {
			case "append":
				rs := allocAt(call.Pos())
				for i, arg := range call.Args {
					if i == 0 || call.Ellipsis.IsValid() {
						rs.addAll(x.rootsOf(arg))
					} else {
						rs.addAll(heldVia(x.rootsOf(arg), "[]"))
					}
				}
				return rs
			case "make", "new":
				return allocAt(call.Pos())
			}
			return fresh()
		}
	}
	callee, recvExpr := x.fn.calleeOf(call)
	if callee == nil {
		return fresh() // call of a function value: its result is taken to be fresh
	}
	if _, lib := x.a.libPkg[callee.Pkg()]; lib {
		var rt types.Type
		if recvExpr != nil {
			if tv, ok := info.Types[recvExpr]; ok {
				rt = tv.Type
			}
		}
		cands := x.a.resolve(callee, rt)
		rs := allocAt(call.Pos())
		for _, c := range cands {
			rs.addAll(x.substitute(c, c.retRoots, call, recvExpr))
		}
		// a generic container (its declared result has a type parameter where this call has a library object type)
		// hands on the element objects of its receiver and arguments
		if sig, ok := callee.Type().(*types.Signature); ok && sig.Results().Len() > 0 {
			if tv, ok := info.Types[call]; ok && tv.Type != nil && x.a.opaqueBoundToObject(sig.Results(), tv.Type) {
				if recvExpr != nil && rt != nil && x.a.kindOf(rt) != "classlink" {
					rs.addAll(asElem(x.rootsOf(recvExpr)))
				}
				for _, arg := range call.Args {
					if atv, ok := info.Types[arg]; ok && atv.Type != nil && x.a.containsLibObject(atv.Type, 0) {
						rs.addAll(asElem(x.rootsOf(arg)))
					}
				}
			}
		}
		return rs
	}
	pkgPath, typeName, _ := recvNamedOf(callee)
	if recvExpr != nil {
		if pkgPath == "sync" || pkgPath == "sync/atomic" {
			return single(root{kind: "call", name: pkgPath + "." + typeName + "." + callee.Name()})
		}
		if pkgPath == "reflect" {
			// MapKeys, Call ...: the slice itself is new (the reflect.Values in it may refer to anything)
			if tv, ok := info.Types[call]; ok && tv.Type != nil {
				if _, isSlice := tv.Type.Underlying().(*types.Slice); isSlice {
					return fresh()
				}
			}
		}
		return x.rootsOf(recvExpr)
	}
	if callee.Pkg() != nil && callee.Pkg().Path() == "reflect" {
		rs := fresh()
		for _, arg := range call.Args {
			rs.addAll(x.rootsOf(arg))
		}
		return rs
	}
	return fresh()
}

// the roots of a callee's summary expressed in terms of the caller: parameters become the arguments, the
// receiver becomes the receiver expression, memory allocated by the callee is memory allocated by this call
func (x *fnAn) substitute(c *fnInfo, summary rootset, call *ast.CallExpr, recvExpr ast.Expr) rootset {
	res := rootset{}
	put := func(from root, rs rootset) {
		for r := range rs {
			if isFresh(r) {
				res[r] = true
				continue
			}
			if from.via != "" {
				r.via = from.via // reached through that field / as an element of the result
			}
			if r.field == "" {
				r.field = from.field
			}
			res[r] = true
		}
	}
	for r := range summary {
		switch r.kind {
		case "fresh", "alloc":
			res[root{kind: "alloc", name: fmt.Sprint(int(call.Pos()))}] = true
		case "param":
			var idx int
			fmt.Sscanf(r.name, "%d:", &idx)
			if idx >= 1 && len(call.Args) > 0 {
				if idx > len(call.Args) {
					if len(c.paramList) > 0 && idx == len(c.paramList) {
						continue // the variadic parameter without arguments
					}
					idx = len(call.Args)
				}
				if idx == len(c.paramList) && len(call.Args) > idx {
					for _, arg := range call.Args[idx-1:] {
						put(r, x.rootsOf(arg))
					}
				} else {
					put(r, x.rootsOf(call.Args[idx-1]))
				}
			}
		case "recv":
			if recvExpr != nil {
				put(r, x.rootsOfNoPurity(recvExpr))
			}
		default:
			res[r] = true
		}
	}
	return res
}

// does the type contain (as element / type argument) a library object type: a named struct, interface or pointer
// type of the library that is not a link to a class and not a type parameter
func (a *analysis) containsLibObject(t types.Type, depth int) bool {
	if t == nil || depth > 5 {
		return false
	}
	switch u := t.(type) {
	case *types.Named:
		if _, lib := a.libPkg[u.Origin().Obj().Pkg()]; lib {
			switch u.Underlying().(type) {
			case *types.Interface, *types.Struct:
				if a.kindOf(u) != "classlink" && !a.statelessType(u) {
					return true
				}
			}
		}
		if ta := u.TypeArgs(); ta != nil {
			for i := 0; i < ta.Len(); i++ {
				if a.containsLibObject(ta.At(i), depth+1) {
					return true
				}
			}
		}
		return false
	case *types.Pointer:
		return a.containsLibObject(u.Elem(), depth+1)
	case *types.Slice:
		return a.containsLibObject(u.Elem(), depth+1)
	case *types.Array:
		return a.containsLibObject(u.Elem(), depth+1)
	case *types.Map:
		return a.containsLibObject(u.Elem(), depth+1) || a.containsLibObject(u.Key(), depth+1)
	case *types.Tuple:
		for i := 0; i < u.Len(); i++ {
			if a.containsLibObject(u.At(i).Type(), depth+1) {
				return true
			}
		}
	}
	return false
}

// walk the callee's declared type and the type at the call site in parallel: is a type parameter of the callee
// bound to something that contains a library object type?
func (a *analysis) opaqueBoundToObject(decl, site types.Type) bool {
	switch d := decl.(type) {
	case *types.TypeParam:
		return a.containsLibObject(site, 0)
	case *types.Tuple:
		if s, ok := site.(*types.Tuple); ok && s.Len() == d.Len() {
			for i := 0; i < d.Len(); i++ {
				if a.opaqueBoundToObject(d.At(i).Type(), s.At(i).Type()) {
					return true
				}
			}
			return false
		}
		if d.Len() == 1 {
			return a.opaqueBoundToObject(d.At(0).Type(), site)
		}
	case *types.Slice:
		if s, ok := site.(*types.Slice); ok {
			return a.opaqueBoundToObject(d.Elem(), s.Elem())
		}
	case *types.Pointer:
		if s, ok := site.(*types.Pointer); ok {
			return a.opaqueBoundToObject(d.Elem(), s.Elem())
		}
	case *types.Map:
		if s, ok := site.(*types.Map); ok {
			return a.opaqueBoundToObject(d.Elem(), s.Elem()) || a.opaqueBoundToObject(d.Key(), s.Key())
		}
	case *types.Named:
		if s, ok := site.(*types.Named); ok && d.Origin().Obj() == s.Origin().Obj() && d.TypeArgs() != nil && s.TypeArgs() != nil && d.TypeArgs().Len() == s.TypeArgs().Len() {
			for i := 0; i < d.TypeArgs().Len(); i++ {
				if a.opaqueBoundToObject(d.TypeArgs().At(i), s.TypeArgs().At(i)) {
					return true
				}
			}
		}
	}
	return false
}

// ---------------------------------------------------------------------------------------------
// local environment (flow insensitive): every local variable -> the roots of everything assigned to it
// ---------------------------------------------------------------------------------------------

type binding struct {
	obj  types.Object
	e    ast.Expr
	def  bool   // the defining binding (var x = e, x := e)
	elem bool   // only the element objects flow (copy(x, e))
	via  string // x.f = e / x[i] = e on a local object: the object holds e through that field / as an element
}

func (x *fnAn) localObj(e ast.Expr) types.Object {
	id, ok := unparen(e).(*ast.Ident)
	if !ok || id.Name == "_" {
		return nil
	}
	info := x.fn.pkg.info
	obj := info.Defs[id]
	if obj == nil {
		obj = info.Uses[id]
	}
	v, ok := obj.(*types.Var)
	if !ok || v.IsField() {
		return nil
	}
	if _, isG := x.a.globals[v]; isG {
		return nil
	}
	if x.fn.recvVar != nil && v == x.fn.recvVar {
		return nil
	}
	return v
}

// the last step of an l-value path: the field assigned, or "[]" for an element / a dereference
func (x *fnAn) lastStep(e ast.Expr) string {
	if se, ok := unparen(e).(*ast.SelectorExpr); ok {
		if sel, ok := x.fn.pkg.info.Selections[se]; ok && sel.Kind() == types.FieldVal {
			if fv, ok := sel.Obj().(*types.Var); ok {
				if fi, ok := x.a.fields[fv.Origin()]; ok {
					return fi.qname
				}
			}
		}
	}
	return "[]"
}

// the local variable at the base of an access path with at least one step (x.f, x[i], *x ...), if any
func (x *fnAn) baseLocal(e ast.Expr) types.Object {
	steps := 0
	for {
		switch ee := unparen(e).(type) {
		case *ast.SelectorExpr:
			if _, ok := x.fn.pkg.info.Selections[ee]; !ok {
				return nil
			}
			e = ee.X
		case *ast.IndexExpr:
			e = ee.X
		case *ast.SliceExpr:
			e = ee.X
		case *ast.StarExpr:
			e = ee.X
		case *ast.TypeAssertExpr:
			e = ee.X
		case *ast.Ident:
			if steps == 0 {
				return nil
			}
			return x.localObj(ee)
		default:
			return nil
		}
		steps++
	}
}

func (x *fnAn) bindings() []binding {
	var bs []binding
	info := x.fn.pkg.info
	bindAll := func(lhs []ast.Expr, rhs []ast.Expr, def bool) {
		if len(lhs) == len(rhs) {
			for i := range lhs {
				if o := x.localObj(lhs[i]); o != nil {
					bs = append(bs, binding{obj: o, e: rhs[i], def: def})
				} else if o := x.baseLocal(lhs[i]); o != nil && !def {
					// x.f = e, x[i] = e, *x = e on a local object: the object now reaches what e reaches
					bs = append(bs, binding{obj: o, e: rhs[i], via: x.lastStep(lhs[i])})
				}
			}
		} else if len(rhs) == 1 {
			for i := range lhs {
				if o := x.localObj(lhs[i]); o != nil {
					bs = append(bs, binding{obj: o, e: rhs[0], def: def})
				}
			}
		}
	}
	x.fn.overwritten = map[types.Object]bool{}
	ast.Inspect(x.fn.body, func(n ast.Node) bool {
		switch n := n.(type) {
		case *ast.AssignStmt:
			if n.Tok == token.DEFINE || n.Tok == token.ASSIGN {
				bindAll(n.Lhs, n.Rhs, n.Tok == token.DEFINE)
			}
		case *ast.CallExpr:
			if id, ok := unparen(n.Fun).(*ast.Ident); ok && id.Name == "copy" && len(n.Args) == 2 {
				if _, isB := info.Uses[id].(*types.Builtin); isB {
					if o := x.baseLocal(n.Args[0]); o != nil {
						bs = append(bs, binding{obj: o, e: n.Args[1], elem: true})
					} else if o := x.localObj(n.Args[0]); o != nil {
						bs = append(bs, binding{obj: o, e: n.Args[1], elem: true})
					}
				}
			}
		case *ast.ValueSpec:
			if len(n.Values) > 0 && x.fn.decl != nil {
				lhs := make([]ast.Expr, len(n.Names))
				for i, id := range n.Names {
					lhs[i] = id
				}
				bindAll(lhs, n.Values, true)
			}
		case *ast.RangeStmt:
			// for k := range x { x[k] = e ... }: every element of x is replaced
			if xo := x.localObj(n.X); xo != nil && n.Key != nil {
				if ko := x.localObj(n.Key); ko != nil {
					for _, st := range n.Body.List {
						if as, ok := st.(*ast.AssignStmt); ok && as.Tok == token.ASSIGN && len(as.Lhs) == 1 {
							if ix, ok := unparen(as.Lhs[0]).(*ast.IndexExpr); ok && x.localObj(ix.X) == xo && x.localObj(ix.Index) == ko {
								x.fn.overwritten[xo] = true
							}
						}
					}
				}
			}
			for _, kv := range []ast.Expr{n.Key, n.Value} {
				if kv == nil {
					continue
				}
				if o := x.localObj(kv); o != nil {
					bs = append(bs, binding{obj: o, e: n.X})
				}
			}
		case *ast.TypeSwitchStmt:
			if as, ok := n.Assign.(*ast.AssignStmt); ok && len(as.Rhs) == 1 {
				if ta, ok := unparen(as.Rhs[0]).(*ast.TypeAssertExpr); ok {
					for _, cl := range n.Body.List {
						if o := info.Implicits[cl]; o != nil {
							bs = append(bs, binding{obj: o, e: ta.X})
						}
					}
				}
			}
		}
		return true
	})
	return bs
}

func (x *fnAn) computeEnv() {
	fn := x.fn
	fn.env = map[types.Object]rootset{}
	for v, name := range fn.params {
		fn.env[v] = single(root{kind: "param", name: name})
	}
	bs := x.bindings()
	for iter := 0; iter < 50; iter++ {
		changed := false
		for _, b := range bs {
			rs := x.rootsOf(b.e)
			if b.elem {
				if tv, ok := fn.pkg.info.Types[b.e]; !ok || tv.Type == nil || !x.a.containsLibObject(tv.Type, 0) {
					continue // elements of pure / opaque type: nothing flows
				}
				rs = asElem(rs)
			}
			if b.via != "" {
				rs = heldVia(rs, b.via)
			}
			if b.def && fn.overwritten[b.obj] {
				kept := rootset{}
				for r := range rs {
					if r.via != "[]" {
						kept[r] = true
					}
				}
				rs = kept
			}
			if fn.env[b.obj] == nil {
				fn.env[b.obj] = rootset{}
			}
			// a variable of pure type holds a copy: no roots
			if v, ok := b.obj.(*types.Var); ok && pure(v.Type()) {
				continue
			}
			if fn.env[b.obj].addAll(rs) {
				changed = true
			}
		}
		if !changed {
			break
		}
	}
	// what the function returns
	nresults := 0
	if fn.obj != nil {
		nresults = fn.obj.Type().(*types.Signature).Results().Len()
	}
	fn.retByIndex = make([]rootset, nresults)
	for i := range fn.retByIndex {
		fn.retByIndex[i] = rootset{}
	}
	if fn.decl != nil {
		var walk func(n ast.Node) bool
		walk = func(n ast.Node) bool {
			switch n := n.(type) {
			case *ast.FuncLit:
				return false // returns of a closure are not returns of the function
			case *ast.ReturnStmt:
				if len(n.Results) == 0 {
					for i, r := range fn.results {
						if !pure(r.Type()) {
							if rs, ok := fn.env[r]; ok && i < nresults {
								fn.retByIndex[i].addAll(rs)
							}
						}
					}
				}
				for i, r := range n.Results {
					if len(n.Results) == nresults {
						fn.retByIndex[i].addAll(x.rootsOf(r))
					} else if nresults > 0 {
						fn.retByIndex[0].addAll(x.rootsOf(r)) // return f() forwarding a tuple
					}
				}
			}
			return true
		}
		ast.Inspect(fn.body, walk)
	}
	for _, rs := range fn.retByIndex {
		for r := range rs {
			if !isFresh(r) && !fn.retRoots[r] {
				fn.retRoots[r] = true
				fn.summaryChanged = true
			}
		}
	}
}

// ---------------------------------------------------------------------------------------------
// events
// ---------------------------------------------------------------------------------------------

func (fn *fnInfo) addWrite(r root, how string, pos token.Pos, via string, storage bool) bool {
	r.via = ""
	key := r.kind + "|" + r.name + "|" + r.field + "|" + how + "|" + via
	if old, ok := fn.writes[key]; ok {
		if storage && !old.storage {
			old.storage = true
			fn.writes[key] = old
			return true
		}
		return false
	}
	fn.writes[key] = writeEvent{r: r, how: how, pos: pos, via: via, storage: storage}
	return true
}

// does an assignment to this l-value change the contents of a slice / map / pointed-to value (x[i] = , *x = )
// rather than set a field or a variable?
func isStorageLvalue(e ast.Expr) bool {
	switch unparen(e).(type) {
	case *ast.IndexExpr, *ast.StarExpr:
		return true
	}
	return false
}

// the roots written by an assignment to the l-value e, and whether the write goes through an indirection
func (x *fnAn) lv(e ast.Expr) (rootset, bool) {
	info := x.fn.pkg.info
	switch e := e.(type) {
	case *ast.ParenExpr:
		return x.lv(e.X)
	case *ast.Ident:
		obj := info.Uses[e]
		if obj == nil {
			obj = info.Defs[e]
		}
		if v, ok := obj.(*types.Var); ok {
			if g, ok := x.a.globals[v]; ok {
				return single(root{kind: "global", name: g.short}), true
			}
		}
		return x.identRoots(e), false
	case *ast.SelectorExpr:
		if sel, ok := info.Selections[e]; ok && sel.Kind() == types.FieldVal {
			_, ind := x.lv(e.X)
			rs := identity(x.rootsOfNoPurity(e.X)) // the object whose field is assigned
			if tv, ok := info.Types[e.X]; ok {
				if _, isPtr := tv.Type.Underlying().(*types.Pointer); isPtr {
					ind = true
				}
			}
			if fv, ok := sel.Obj().(*types.Var); ok {
				if fi, ok := x.a.fields[fv.Origin()]; ok {
					rs = withField(rs, fi.qname)
				}
			}
			return rs, ind
		}
		if v, ok := info.Uses[e.Sel].(*types.Var); ok {
			if g, ok := x.a.globals[v]; ok {
				return single(root{kind: "global", name: g.short}), true
			}
		}
		return x.rootsOf(e), false
	case *ast.IndexExpr:
		_, ind := x.lv(e.X)
		rs := identity(x.rootsOfNoPurity(e.X)) // the storage whose element is assigned
		if tv, ok := info.Types[e.X]; ok {
			switch tv.Type.Underlying().(type) {
			case *types.Slice, *types.Map, *types.Pointer:
				ind = true
			}
		}
		return rs, ind
	case *ast.SliceExpr:
		_, ind := x.lv(e.X)
		rs := identity(x.rootsOfNoPurity(e.X))
		if tv, ok := info.Types[e.X]; ok {
			switch tv.Type.Underlying().(type) {
			case *types.Slice, *types.Pointer:
				ind = true
			}
		}
		return rs, ind
	case *ast.StarExpr:
		return identity(x.rootsOfNoPurity(e.X)), true
	case *ast.TypeAssertExpr:
		return x.lv(e.X)
	}
	return x.rootsOf(e), false
}

// an assignment l = r whose target is memory that existed before the call: (1) memory allocated in this call that is
// stored there is no longer exclusively the result's; (2) a field of the receiver that is set to something that is
// not freshly allocated is recorded (foot_field_sets)
func (x *fnAn) noteStore(l, r ast.Expr) {
	fn := x.fn
	target, ind := x.lv(l)
	if !ind {
		return
	}
	var where []string
	for _, t := range identity(target).sorted() {
		if isFresh(t) {
			continue
		}
		d := t.kind
		if t.kind == "param" || t.kind == "global" {
			d += " " + t.name
		}
		if t.field != "" {
			d += " field " + t.field
		}
		where = append(where, d)
	}
	if len(where) == 0 {
		return
	}
	if tv, ok := fn.pkg.info.Types[r]; ok && tv.Type != nil && pure(tv.Type) {
		return
	}
	rs := x.rootsOf(r)
	for v := range rs {
		if v.kind == "alloc" {
			if fn.retained == nil {
				fn.retained = map[string][]string{}
			}
			fn.retained[v.name] = append(fn.retained[v.name], where...)
		}
	}
	// v.f = e directly on the receiver
	if se, ok := unparen(l).(*ast.SelectorExpr); ok {
		if id, ok := unparen(se.X).(*ast.Ident); ok && fn.recvVar != nil && fn.pkg.info.Uses[id] == fn.recvVar {
			if sel, ok := fn.pkg.info.Selections[se]; ok && sel.Kind() == types.FieldVal {
				if fv, ok := sel.Obj().(*types.Var); ok {
					if fi, ok := x.a.fields[fv.Origin()]; ok && refCapable(fi.kind) {
						for _, v := range rs.sorted() {
							if !isFresh(v) {
								fn.fieldSets = append(fn.fieldSets, fieldSet{field: fi.qname, from: describeRoot(v), pos: l.Pos()})
							}
						}
					}
				}
			}
		}
	}
}

func describeRoot(r root) string {
	d := ""
	switch r.kind {
	case "recv":
		d = "receiver"
	case "param":
		var pi int
		fmt.Sscanf(r.name, "%d:", &pi)
		d = fmt.Sprintf("parameter %d", pi)
	case "global":
		d = "global " + r.name
	case "call":
		d = "result of " + r.name
	default:
		d = r.kind
	}
	if r.field != "" {
		d += " field " + r.field
	}
	switch r.via {
	case "":
		return "aliases " + d
	case "[]":
		return "contains the objects of " + d
	}
	return "keeps in " + r.via + " " + d
}

// a method of a type outside the library changes the state of the object e (not the contents of a slice or map)
func (x *fnAn) writeObject(e ast.Expr, how string, pos token.Pos) {
	rs, _ := x.lv(e)
	for r := range identity(rs) {
		if !isFresh(r) {
			x.fn.addWrite(r, how, pos, "", false)
		}
	}
}

func (x *fnAn) write(e ast.Expr, how string, force bool, pos token.Pos) {
	rs, ind := x.lv(e)
	if !(ind || force) {
		return
	}
	for r := range identity(rs) {
		if isFresh(r) {
			continue
		}
		x.fn.addWrite(r, how, pos, "", force || isStorageLvalue(e))
	}
}

func (x *fnAn) globalOf(e ast.Expr) *globalInfo {
	info := x.fn.pkg.info
	var id *ast.Ident
	switch e := unparen(e).(type) {
	case *ast.Ident:
		id = e
	case *ast.SelectorExpr:
		if _, ok := info.Selections[e]; ok {
			return nil
		}
		id = e.Sel
	default:
		return nil
	}
	if v, ok := info.Uses[id].(*types.Var); ok {
		return x.a.globals[v]
	}
	return nil
}

// the package-level variable at the root of an access path (g, g[k], g.f, *g ...), if any
func (x *fnAn) globalRootOf(e ast.Expr) *globalInfo {
	for {
		if g := x.globalOf(e); g != nil {
			return g
		}
		switch ee := unparen(e).(type) {
		case *ast.SelectorExpr:
			if _, ok := x.fn.pkg.info.Selections[ee]; !ok {
				return nil
			}
			e = ee.X
		case *ast.IndexExpr:
			e = ee.X
		case *ast.SliceExpr:
			e = ee.X
		case *ast.StarExpr:
			e = ee.X
		case *ast.TypeAssertExpr:
			e = ee.X
		default:
			return nil
		}
	}
}

func (x *fnAn) events() {
	fn := x.fn
	a := x.a
	info := fn.pkg.info
	fn.writes = map[string]writeEvent{}
	fn.reads = map[string]bool{}
	fn.globals = nil
	fn.lockOps = nil
	fn.calls = nil
	fn.creates = map[string]bool{}
	fn.usesFields = map[string]bool{}
	fn.fieldSets = nil
	fn.retained = nil
	fn.spawns, fn.closures = 0, 0
	written := map[ast.Expr]bool{}      // plain-assignment targets (not reads)
	gWritten := map[*ast.Ident]string{} // global identifiers that are the root of a write: kind
	scope := 0
	nextScope := 0
	deferred := map[*ast.CallExpr]bool{}

	noteGlobalWrite := func(lhs ast.Expr, how string) {
		// find the identifier of the package-level variable at the root of lhs
		e := lhs
		direct := true
		for {
			switch ee := unparen(e).(type) {
			case *ast.Ident:
				if v, ok := info.Uses[ee].(*types.Var); ok {
					if _, isG := a.globals[v]; isG {
						if direct {
							gWritten[ee] = "write|" + how
						} else {
							gWritten[ee] = "mutate|" + how
						}
					}
				}
				return
			case *ast.SelectorExpr:
				if _, ok := info.Selections[ee]; ok {
					e = ee.X
					direct = false
					continue
				}
				if v, ok := info.Uses[ee.Sel].(*types.Var); ok {
					if _, isG := a.globals[v]; isG {
						if direct {
							gWritten[ee.Sel] = "write|" + how
						} else {
							gWritten[ee.Sel] = "mutate|" + how
						}
					}
				}
				return
			case *ast.IndexExpr:
				e = ee.X
				direct = false
			case *ast.SliceExpr:
				e = ee.X
				direct = false
			case *ast.StarExpr:
				e = ee.X
				direct = false
			case *ast.TypeAssertExpr:
				e = ee.X
			default:
				return
			}
		}
	}

	edgeFrom := func(dest *fieldInfo, val ast.Expr, pos token.Pos) {
		if dest == nil || !refCapable(dest.kind) {
			return
		}
		for _, r := range x.rootsOf(val).sorted() {
			if isFresh(r) {
				continue
			}
			src := ""
			switch r.kind {
			case "param":
				src = "arg " + r.name + " of " + fn.qname
				if r.field != "" {
					src += " field " + r.field
				}
				var idx int
				fmt.Sscanf(r.name, "%d:", &idx)
				if fn.kept == nil {
					fn.kept = map[int]bool{}
				}
				fn.kept[idx] = true
			case "recv":
				if r.field != "" {
					src = "field " + r.field
				} else {
					src = "receiver of " + fn.qname
				}
			case "global":
				src = "global " + r.name
				if r.field != "" {
					src += " field " + r.field
				}
			case "call":
				src = "result of " + r.name
			}
			a.edges = append(a.edges, edge{dest: dest.qname, source: src, where: fn.qname, pos: pos})
		}
	}

	var visit func(n ast.Node) bool
	visit = func(n ast.Node) bool {
		switch n := n.(type) {
		case *ast.FuncLit:
			fn.closures++
			saved := scope
			nextScope++
			scope = nextScope
			ast.Inspect(n.Body, visit)
			scope = saved
			return false
		case *ast.GoStmt:
			fn.spawns++
		case *ast.DeferStmt:
			deferred[n.Call] = true
		case *ast.AssignStmt:
			if n.Tok != token.DEFINE {
				how := "assign"
				if n.Tok != token.ASSIGN {
					how = "op-assign"
				}
				for i, l := range n.Lhs {
					if n.Tok == token.ASSIGN {
						written[unparen(l)] = true
					}
					x.write(l, how, false, l.Pos())
					noteGlobalWrite(l, how)
					if n.Tok == token.ASSIGN && len(n.Lhs) == len(n.Rhs) {
						x.noteStore(l, n.Rhs[i])
					}
					if n.Tok == token.ASSIGN && len(n.Lhs) == len(n.Rhs) {
						if se, ok := unparen(l).(*ast.SelectorExpr); ok {
							if sel, ok := info.Selections[se]; ok && sel.Kind() == types.FieldVal {
								if fv, ok := sel.Obj().(*types.Var); ok {
									edgeFrom(a.fields[fv.Origin()], n.Rhs[i], l.Pos())
								}
							}
						}
					}
				}
			}
		case *ast.IncDecStmt:
			x.write(n.X, "incdec", false, n.X.Pos())
			noteGlobalWrite(n.X, "incdec")
		case *ast.SendStmt:
			// channel operations are synchronisation, not data writes
		case *ast.UnaryExpr:
			if n.Op == token.AND {
				if _, isLit := unparen(n.X).(*ast.CompositeLit); !isLit {
					rs, _ := x.lv(n.X)
					for r := range identity(rs) {
						if !isFresh(r) && (r.field != "" || r.kind == "global") {
							fn.addWrite(r, "address-taken", n.Pos(), "", false)
						}
					}
					noteGlobalWrite(n.X, "address-taken")
				}
			}
		case *ast.CompositeLit:
			tv, ok := info.Types[n]
			if !ok {
				break
			}
			t := tv.Type
			if p, ok := t.(*types.Pointer); ok {
				t = p.Elem()
			}
			named, ok := t.(*types.Named)
			if !ok {
				break
			}
			si := a.structs[named.Origin().Obj()]
			if si == nil || !si.isStruct {
				break
			}
			if si.role == "class" {
				a.classLits = append(a.classLits, edge{dest: si.qname, source: fn.qname, pos: n.Pos()})
			}
			for i, el := range n.Elts {
				if kv, ok := el.(*ast.KeyValueExpr); ok {
					if id, ok := kv.Key.(*ast.Ident); ok {
						if fv, ok := info.Uses[id].(*types.Var); ok {
							edgeFrom(a.fields[fv.Origin()], kv.Value, kv.Pos())
						}
					}
				} else if i < len(si.fields) {
					edgeFrom(si.fields[i], el, el.Pos())
				}
			}
		case *ast.CallExpr:
			x.callEvents(n, scope, deferred[n], noteGlobalWrite)
		case *ast.SelectorExpr:
			if sel, ok := info.Selections[n]; ok && sel.Kind() == types.FieldVal {
				if fv, ok := sel.Obj().(*types.Var); ok {
					if fi, ok := a.fields[fv.Origin()]; ok && !written[n] {
						for r := range x.rootsOfNoPurity(n.X) {
							if r.kind == "recv" && r.field == "" {
								fn.reads[fi.qname] = true
								if strings.HasPrefix(fi.kind, "iface:") || strings.HasPrefix(fi.kind, "func") || strings.HasPrefix(fi.kind, "ptr:") {
									fn.usesFields[fi.qname] = true
								}
							}
						}
					}
				}
			}
		case *ast.Ident:
			if v, ok := info.Uses[n].(*types.Var); ok {
				if g, ok := a.globals[v]; ok {
					kind, how := "read", ""
					if w, ok := gWritten[n]; ok {
						parts := strings.SplitN(w, "|", 2)
						kind, how = parts[0], parts[1]
						if how == "lock" {
							kind = "lock"
						}
					}
					fn.globals = append(fn.globals, globalAccess{g: g, kind: kind, how: how, pos: n.Pos(), scope: scope})
				}
			}
		}
		return true
	}
	ast.Inspect(fn.body, visit)
}

// roots of the expression ignoring the purity short cut at the top (used for field reads: v.depth_ is a read of depth_)
func (x *fnAn) rootsOfNoPurity(e ast.Expr) rootset {
	switch e := e.(type) {
	case *ast.Ident:
		return x.identRoots(e)
	case *ast.ParenExpr:
		return x.rootsOfNoPurity(e.X)
	case *ast.StarExpr:
		return x.rootsOfNoPurity(e.X)
	case *ast.SelectorExpr, *ast.IndexExpr, *ast.SliceExpr:
		return x.rootsRaw(e)
	}
	return x.rootsOf(e)
}

var immutableExternal = map[string]bool{"regexp.Regexp": true}

func isRefType(t types.Type) bool {
	switch t.Underlying().(type) {
	case *types.Slice, *types.Map, *types.Pointer, *types.Chan:
		return true
	}
	return false
}

func (x *fnAn) callEvents(call *ast.CallExpr, scope int, isDeferred bool, noteGlobalWrite func(ast.Expr, string)) {
	fn := x.fn
	a := x.a
	info := fn.pkg.info
	fun := unparen(call.Fun)
	if tv, ok := info.Types[fun]; ok && tv.IsType() {
		return
	}
	if id, ok := fun.(*ast.Ident); ok {
		if _, isB := info.Uses[id].(*types.Builtin); isB {
			switch id.Name {
			case "append", "delete", "clear", "copy":
				if len(call.Args) > 0 {
					x.write(call.Args[0], id.Name, true, call.Pos())
					noteGlobalWrite(call.Args[0], id.Name)
					// a write THROUGH the variable, never of the variable itself
					if g := x.globalOf(call.Args[0]); g != nil {
						noteGlobalMutate(info, call.Args[0], noteGlobalWrite, id.Name)
					}
				}
			}
			return
		}
	}
	callee, recvExpr := fn.calleeOf(call)
	if callee == nil {
		return
	}
	if callee.Pkg() != nil && callee.Pkg().Path() == "reflect" {
		switch callee.Name() {
		case "Call", "CallSlice", "Set", "SetInt", "SetString", "SetFloat", "SetBool", "SetLen", "SetMapIndex", "SetUint", "SetComplex", "SetBytes", "SetCap", "SetPointer", "SetZero":
			fn.reflectCall = true
		}
	}
	_, lib := a.libPkg[callee.Pkg()]
	if !lib {
		pkgPath, typeName, ptr := recvNamedOf(callee)
		if recvExpr != nil {
			q := pkgPath + "." + typeName
			if (q == "sync.Mutex" || q == "sync.RWMutex") && (callee.Name() == "Lock" || callee.Name() == "Unlock" || callee.Name() == "RLock" || callee.Name() == "RUnlock" || callee.Name() == "TryLock" || callee.Name() == "TryRLock") {
				if g := x.globalOf(recvExpr); g != nil {
					fn.lockOps = append(fn.lockOps, lockOp{mutex: g.short, op: callee.Name(), pos: call.Pos(), defer_: isDeferred, scope: scope})
					noteGlobalLock(info, recvExpr, noteGlobalWrite)
					return
				}
				rs, _ := x.lv(recvExpr)
				for r := range identity(rs) {
					if isFresh(r) {
						continue
					}
					key := "lock|" + r.kind + "|" + r.name + "|" + r.field
					if _, ok := fn.writes[key]; !ok {
						fn.writes[key] = writeEvent{r: r, how: callee.Name(), pos: call.Pos(), lock: true}
					}
				}
				if g := x.globalRootOf(recvExpr); g != nil {
					noteGlobalWrite(recvExpr, "call "+q+"."+callee.Name())
				}
				return
			}
			if ptr && !immutableExternal[q] && pkgPath != "reflect" {
				x.writeObject(recvExpr, "call "+q+"."+callee.Name(), call.Pos())
				if g := x.globalOf(recvExpr); g != nil {
					noteGlobalMutate(info, recvExpr, noteGlobalWrite, "call "+q+"."+callee.Name())
				} else {
					noteGlobalWrite(recvExpr, "call "+q+"."+callee.Name())
				}
			}
			return
		}
		// a plain function outside the library: a non-fresh slice / map / pointer / channel handed to it may be written
		if callee.Pkg() != nil && callee.Pkg().Path() != "reflect" && callee.Pkg().Path() != "fmt" {
			for _, arg := range call.Args {
				if tv, ok := info.Types[arg]; ok && tv.Type != nil && isRefType(tv.Type) {
					x.write(arg, "passed to "+callee.Pkg().Path()+"."+callee.Name(), true, arg.Pos())
					noteGlobalWrite(arg, "passed to "+callee.Pkg().Path()+"."+callee.Name())
				}
			}
		}
		return
	}
	// a function or method of the library
	cs := callSite{callee: callee, recvExpr: recvExpr, pos: call.Pos()}
	if recvExpr != nil {
		if tv, ok := info.Types[recvExpr]; ok {
			cs.recvType = tv.Type
		}
		cs.recvRoots = x.rootsOfNoPurity(recvExpr)
		if id, ok := unparen(recvExpr).(*ast.Ident); ok {
			if v, ok := info.Uses[id].(*types.Var); ok && fn.recvVar != nil && v == fn.recvVar {
				cs.recvIsSelf = true
			}
		}
	}
	for _, arg := range call.Args {
		cs.args = append(cs.args, x.rootsOf(arg))
	}
	fn.calls = append(fn.calls, cs)
	// agents created per call: <Accessor>(...).Make...(...)
	if recvExpr != nil && strings.HasPrefix(callee.Name(), "Make") {
		if inner, ok := unparen(recvExpr).(*ast.CallExpr); ok {
			if acc, _ := fn.calleeOf(inner); acc != nil {
				if lp, ok := a.libPkg[acc.Pkg()]; ok {
					fn.creates[lp.short+"."+acc.Name()] = true
				}
			}
		}
	}
}

// g.M() with a pointer receiver method outside the library, append(g, ...), delete(g, k) ...: g itself is the
// operand, but what happens is a mutation THROUGH g, not an assignment of g
func noteGlobalMutate(info *types.Info, e ast.Expr, note func(ast.Expr, string), how string) {
	note(&ast.StarExpr{X: e}, how)
}

func noteGlobalLock(info *types.Info, e ast.Expr, note func(ast.Expr, string)) {
	note(&ast.StarExpr{X: e}, "lock")
}
