package main

import (
	"fmt"
	"go/ast"
	"go/types"
	"regexp"
	"sort"
	"strings"
)

// Canonical identifiers: what is written to ParamsFoot.v must not change when a private field, a local, a parameter,
// a receiver or a private helper is renamed, or when declarations are reordered.
//   - a struct field: <struct>.<tag><n>, tag = the kind of its type (int, uint, bool, string ..., T for a type
//     parameter, class for the link to the class, slice, map, chan, func, ptr<Type>, the bare name of a named type:
//     CollatorLike, ListLike, RankingFunction, Mutex, Builder ...), n = its ordinal among the fields of that struct
//     with the same tag, in declaration order.  Exported fields keep their names.
//   - a parameter: "arg <n>" / "parameter <n>" - never its name.
//   - an unexported function or method: <pkg>.(<recv>).<private> / <pkg>.<private> - all private helpers of a type
//     share one identifier (their rows are merged); exported functions and methods keep their names, as do types and
//     package-level variables.
//   - rows are sorted (and de-duplicated) AFTER canonicalisation.
// build/footprint.json keeps the real names and carries the map canonical -> real.

func (a *analysis) fieldTag(f *fieldInfo) string {
	switch t := f.obj.Type().(type) {
	case *types.Basic:
		return t.Name()
	case *types.TypeParam:
		return "T"
	}
	k := f.kind
	switch {
	case k == "classlink":
		return "class"
	case k == "basic":
		if b, ok := f.obj.Type().Underlying().(*types.Basic); ok {
			return b.Name()
		}
		return "basic"
	case strings.HasPrefix(k, "iface:"), strings.HasPrefix(k, "func:"), strings.HasPrefix(k, "struct:"), strings.HasPrefix(k, "ext:"):
		name := k[strings.Index(k, ":")+1:]
		if i := strings.LastIndex(name, "."); i >= 0 {
			name = name[i+1:]
		}
		return name
	case strings.HasPrefix(k, "ptr:"):
		name := k[4:]
		if i := strings.LastIndex(name, "."); i >= 0 {
			name = name[i+1:]
		}
		return "ptr" + name
	}
	return k
}

type canonMap struct {
	fields map[string]string // real qualified field -> canonical
	funcs  map[string]string // real qualified private function -> canonical
	keys   []string          // all real names, longest first
	back   map[string][]string
}

func (a *analysis) buildCanon() *canonMap {
	cm := &canonMap{fields: map[string]string{}, funcs: map[string]string{}, back: map[string][]string{}}
	for _, si := range a.structList {
		count := map[string]int{}
		for _, f := range si.fields {
			if ast.IsExported(f.name) {
				continue
			}
			tag := a.fieldTag(f)
			c := fmt.Sprintf("%s.%s%d", si.qname, tag, count[tag])
			count[tag]++
			cm.fields[f.qname] = c
			cm.back[c] = append(cm.back[c], f.qname)
		}
	}
	for _, fn := range a.fnList {
		if fn.decl == nil || ast.IsExported(fn.simple) {
			continue
		}
		c := fn.qname[:len(fn.qname)-len(fn.simple)] + "<private>"
		cm.funcs[fn.qname] = c
		cm.back[c] = append(cm.back[c], fn.qname)
	}
	for k := range cm.fields {
		cm.keys = append(cm.keys, k)
	}
	for k := range cm.funcs {
		cm.keys = append(cm.keys, k)
	}
	sort.Slice(cm.keys, func(i, j int) bool {
		if len(cm.keys[i]) != len(cm.keys[j]) {
			return len(cm.keys[i]) > len(cm.keys[j])
		}
		return cm.keys[i] < cm.keys[j]
	})
	for _, l := range cm.back {
		sort.Strings(l)
	}
	return cm
}

var argName = regexp.MustCompile(`\barg (\d+):\w+`)

func isIdentChar(c byte) bool {
	return c == '_' || (c >= '0' && c <= '9') || (c >= 'a' && c <= 'z') || (c >= 'A' && c <= 'Z')
}

func (cm *canonMap) canon(s string) string {
	if s == "" {
		return s
	}
	for _, k := range cm.keys {
		if !strings.Contains(s, k) {
			continue
		}
		rep := cm.fields[k]
		if rep == "" {
			rep = cm.funcs[k]
		}
		var b strings.Builder
		rest := s
		for {
			i := strings.Index(rest, k)
			if i < 0 {
				b.WriteString(rest)
				break
			}
			end := i + len(k)
			beforeOK := i == 0 || !(isIdentChar(rest[i-1]) || rest[i-1] == '.')
			afterOK := end == len(rest) || !isIdentChar(rest[end])
			if beforeOK && afterOK {
				b.WriteString(rest[:i])
				b.WriteString(rep)
			} else {
				b.WriteString(rest[:end])
			}
			rest = rest[end:]
		}
		s = b.String()
	}
	return argName.ReplaceAllString(s, "arg $1")
}

func canon3(cm *canonMap, rows [][3]string) [][3]string {
	seen := map[[3]string]bool{}
	for _, r := range rows {
		seen[[3]string{cm.canon(r[0]), cm.canon(r[1]), cm.canon(r[2])}] = true
	}
	return sorted3(seen)
}

func canon2(cm *canonMap, rows [][2]string) [][2]string {
	seen := map[[2]string]bool{}
	for _, r := range rows {
		seen[[2]string{cm.canon(r[0]), cm.canon(r[1])}] = true
	}
	res := [][2]string{}
	for k := range seen {
		res = append(res, k)
	}
	sort.Slice(res, func(i, j int) bool { return res[i][0]+"|"+res[i][1] < res[j][0]+"|"+res[j][1] })
	return res
}

func canonStrs(cm *canonMap, l []string) []string {
	seen := map[string]bool{}
	for _, s := range l {
		seen[cm.canon(s)] = true
	}
	return sortedKeys(seen)
}

// the report with canonical identifiers, rows sorted and de-duplicated, the private methods of a type merged
func (a *analysis) canonReport(rep *report) *report {
	cm := a.buildCanon()
	c := &report{Blind: rep.Blind}
	c.Fields = canon3(cm, rep.Fields)
	c.ClassMutable = canon3(cm, rep.ClassMutable)
	c.ForeignWrites = canon3(cm, rep.ForeignWrites)
	c.SharedEdges = canon2(cm, rep.SharedEdges)
	c.PkgVars = rep.PkgVars
	seen4 := map[[4]string]bool{}
	for _, r := range rep.PkgVarWriters {
		seen4[[4]string{r[0], cm.canon(r[1]), cm.canon(r[2]), r[3]}] = true
	}
	for k := range seen4 {
		c.PkgVarWriters = append(c.PkgVarWriters, k)
	}
	sort.Slice(c.PkgVarWriters, func(i, j int) bool {
		return strings.Join(c.PkgVarWriters[i][:], "|") < strings.Join(c.PkgVarWriters[j][:], "|")
	})
	c.Unguarded = canon3(cm, rep.Unguarded)
	c.Exported = rep.Exported
	for _, r := range rep.Accessors {
		r.Accessor = cm.canon(r.Accessor)
		c.Accessors = append(c.Accessors, r)
	}
	merged := map[string]*methodRow{}
	var order []string
	union := func(x, y []string) []string {
		s := map[string]bool{}
		for _, v := range x {
			s[v] = true
		}
		for _, v := range y {
			s[cm.canon(v)] = true
		}
		return sortedKeys(s)
	}
	for _, m := range rep.Methods {
		name := cm.canon(m.Name)
		row, ok := merged[name]
		if !ok {
			row = &methodRow{Name: name, Struct: m.Struct, Role: m.Role}
			merged[name] = row
			order = append(order, name)
		}
		row.Writes = union(row.Writes, m.Writes)
		row.Reads = union(row.Reads, m.Reads)
		row.Creates = union(row.Creates, m.Creates)
		row.Takes = union(row.Takes, m.Takes)
	}
	sort.Strings(order)
	for _, n := range order {
		c.Methods = append(c.Methods, *merged[n])
	}
	c.Escapes = canon3(cm, rep.Escapes)
	c.Api = canon3(cm, rep.Api)
	c.StorageWrites = canon3(cm, rep.StorageWrites)
	c.FieldSets = canon3(cm, rep.FieldSets)
	c.PublishOnce = canonStrs(cm, rep.PublishOnce)
	// the real report learns the canonical words and the way back
	rep.Names = cm.back
	for i := range rep.Details {
		rep.Details[i].Canon = cm.canon(rep.Details[i].Words)
		rep.Details[i].CWhere = cm.canon(rep.Details[i].Where)
	}
	return c
}
