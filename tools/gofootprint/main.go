package main

import (
	"encoding/json"
	"flag"
	"fmt"
	"go/ast"
	"go/token"
	"go/types"
	"os"
	"sort"
	"strings"
)

// ---------------------------------------------------------------------------------------------
// whole-program fixpoints
// ---------------------------------------------------------------------------------------------

func (a *analysis) run() {
	a.collectFuncs()
	// 1. summaries: what pre-existing memory the results of every function may reach (least fixpoint: grows)
	for iter := 0; iter < 40; iter++ {
		changed := false
		for _, fn := range a.fnList {
			fn.summaryChanged = false
			x := &fnAn{a: a, fn: fn}
			x.computeEnv()
			if fn.summaryChanged {
				changed = true
			}
		}
		if !changed {
			break
		}
	}
	// 2. the events of every function
	for _, fn := range a.fnList {
		x := &fnAn{a: a, fn: fn}
		x.computeEnv()
		x.events()
	}
	// 3. propagate writes through calls (parameters written by the callee, receivers mutated by the callee)
	//    and the parameters a callee keeps in a field
	for iter := 0; iter < 50; iter++ {
		changed := false
		for _, fn := range a.fnList {
			for _, cs := range fn.calls {
				for _, cand := range a.resolve(cs.callee, cs.recvType) {
					for j, ar := range cs.args {
						idx := j + 1
						if idx > len(cand.paramList) {
							idx = len(cand.paramList)
						}
						for _, w := range cand.paramWrites(idx) {
							for r := range ar {
								// what the argument aliases, and what it holds through the field the callee writes through
								if isFresh(r) || !(r.via == "" || r.via == w.r.field || (r.via == "[]" && w.r.field == "")) {
									continue
								}
								if r.field == "" {
									r.field = w.r.field
								}
								if fn.addWrite(r, "passed to a function that writes through it", cs.pos, cand.qname, w.storage) {
									changed = true
								}
							}
						}
						if cand.kept[idx] {
							for r := range ar {
								if r.kind == "param" {
									var pi int
									fmt.Sscanf(r.name, "%d:", &pi)
									if fn.kept == nil {
										fn.kept = map[int]bool{}
									}
									if !fn.kept[pi] {
										fn.kept[pi] = true
										changed = true
									}
								}
							}
						}
					}
					if cs.recvExpr == nil {
						continue
					}
					if cs.recvIsSelf {
						for _, w := range cand.sortedWrites() {
							if w.r.kind == "recv" {
								ww := w
								key := "self|" + w.r.field + "|" + w.how + "|" + fmt.Sprint(w.lock)
								if _, ok := fn.writes[key]; !ok {
									ww.via = cand.qname
									ww.pos = cs.pos
									fn.writes[key] = ww
									changed = true
								}
							}
						}
						continue
					}
					for _, w := range cand.sortedWrites() {
						if w.r.kind != "recv" || w.lock {
							continue
						}
						// only a receiver that is itself a slice / map (array_, map_) has its storage written by the call;
						// a struct sub-object looks after its own storage
						storage := w.storage && cand.recvStruct != nil && !cand.recvStruct.isStruct
						for r := range cs.recvRoots {
							if isFresh(r) || !(r.via == "" || r.via == w.r.field || (r.via == "[]" && w.r.field == "")) {
								continue
							}
							if fn.addWrite(r, "calls mutating method "+cs.callee.Name(), cs.pos, cand.qname, storage) {
								changed = true
							}
						}
					}
				}
			}
		}
		if !changed {
			break
		}
	}
	// 4. call-level edges: what is handed to a parameter that the callee keeps
	for _, fn := range a.fnList {
		for _, cs := range fn.calls {
			for _, cand := range a.resolve(cs.callee, cs.recvType) {
				for j, ar := range cs.args {
					idx := j + 1
					if idx > len(cand.paramList) {
						idx = len(cand.paramList)
					}
					if !cand.kept[idx] || idx == 0 {
						continue
					}
					pv := cand.paramList[idx-1]
					if pv == nil || !refCapable(a.kindOf(pv.Type())) || a.statelessType(pv.Type()) {
						continue
					}
					dest := "arg " + cand.params[pv] + " of " + cand.qname
					for _, r := range ar.sorted() {
						src := ""
						switch r.kind {
						case "param":
							src = "arg " + r.name + " of " + fn.qname
							if r.field != "" {
								src += " field " + r.field
							}
						case "recv":
							if r.field != "" {
								src = "field " + r.field
							} else {
								src = "receiver of " + fn.qname
							}
						case "global":
							src = "global " + r.name
						case "call":
							src = "result of " + r.name
						default:
							continue
						}
						a.edges = append(a.edges, edge{dest: dest, source: src, where: fn.qname, pos: cs.pos})
					}
				}
			}
		}
	}
	// 5. locks held at every access of a package-level variable
	for _, fn := range a.fnList {
		for i := range fn.globals {
			ga := &fn.globals[i]
			held := map[string]string{}
			for _, l := range fn.lockOps {
				if l.scope != ga.scope || l.defer_ || l.pos >= ga.pos || (l.op != "Lock" && l.op != "RLock") {
					continue
				}
				released := false
				for _, u := range fn.lockOps {
					if u.scope == l.scope && !u.defer_ && u.mutex == l.mutex && (u.op == "Unlock" || u.op == "RUnlock") && u.pos > l.pos && u.pos < ga.pos {
						released = true
					}
				}
				if !released {
					mode := "W"
					if l.op == "RLock" {
						mode = "R"
					}
					if held[l.mutex] != "W" {
						held[l.mutex] = mode
					}
				}
			}
			for m, mode := range held {
				ga.held = append(ga.held, m+":"+mode)
			}
			sort.Strings(ga.held)
		}
	}
}

func (fn *fnInfo) sortedWrites() []writeEvent {
	var keys []string
	for k := range fn.writes {
		keys = append(keys, k)
	}
	sort.Strings(keys)
	var res []writeEvent
	for _, k := range keys {
		res = append(res, fn.writes[k])
	}
	return res
}

func (fn *fnInfo) paramWrites(idx int) []writeEvent {
	var res []writeEvent
	for _, w := range fn.sortedWrites() {
		if w.r.kind == "param" && !w.lock {
			var pi int
			fmt.Sscanf(w.r.name, "%d:", &pi)
			if pi == idx {
				res = append(res, w)
			}
		}
	}
	return res
}

func (fn *fnInfo) mutatesRecv() bool {
	for _, w := range fn.writes {
		if w.r.kind == "recv" && !w.lock {
			return true
		}
	}
	return false
}

// a struct without state of its own: every field is a link to its class
func (a *analysis) statelessStruct(si *structInfo) bool {
	if !si.isStruct {
		return false
	}
	for _, f := range si.fields {
		if f.kind != "classlink" {
			return false
		}
	}
	return true
}

// an interface all of whose library implementers (by method names) are stateless, or a pointer to a stateless struct
func (a *analysis) statelessType(t types.Type) bool {
	if p, ok := t.(*types.Pointer); ok {
		if n, ok := p.Elem().(*types.Named); ok {
			if si := a.structs[n.Origin().Obj()]; si != nil {
				return si.role == "instance" && a.statelessStruct(si)
			}
		}
		return false
	}
	it, ok := t.Underlying().(*types.Interface)
	if !ok || it.NumMethods() == 0 {
		return false
	}
	found := false
	for _, si := range a.structList {
		if si.role != "instance" {
			continue
		}
		all := true
		for i := 0; i < it.NumMethods(); i++ {
			if !a.hasMethod(si, it.Method(i).Name()) {
				all = false
				break
			}
		}
		if all {
			found = true
			if !a.statelessStruct(si) {
				return false
			}
		}
	}
	return found
}

// ---------------------------------------------------------------------------------------------
// accessor discipline
// ---------------------------------------------------------------------------------------------

type accessorRow struct {
	Registry   string   `json:"registry"`
	Accessor   string   `json:"accessor"`
	Mutex      string   `json:"mutex"`
	OneSection bool     `json:"one_section"`
	Covers     bool     `json:"covers"`
	Sole       bool     `json:"sole"`
	Returned   bool     `json:"returned"`
	Why        []string `json:"why,omitempty"`
}

func (a *analysis) accessors() []accessorRow {
	var rows []accessorRow
	for _, g := range a.globalList {
		if g.kind != "registry" {
			continue
		}
		var users []*fnInfo
		for _, fn := range a.fnList {
			for _, ga := range fn.globals {
				if ga.g == g {
					users = append(users, fn)
					break
				}
			}
		}
		row := accessorRow{Registry: g.fileName, Sole: len(users) == 1}
		if len(users) == 0 {
			row.Accessor = "(none)"
			row.Why = append(row.Why, "no function uses the registry")
			rows = append(rows, row)
			continue
		}
		if len(users) > 1 {
			var ns []string
			for _, u := range users {
				ns = append(ns, u.qname)
			}
			row.Why = append(row.Why, "used by several functions: "+strings.Join(ns, ", "))
		}
		fn := users[0]
		for _, u := range users {
			if u.decl != nil && u.recvStruct == nil {
				fn = u
				break
			}
		}
		row.Accessor = fn.qname
		if fn.decl == nil {
			row.Why = append(row.Why, "the registry is used in an initialiser")
			rows = append(rows, row)
			continue
		}
		// exactly one Lock ... Unlock pair, both statements of the function body itself
		var locks, unlocks []lockOp
		other := false
		for _, l := range fn.lockOps {
			switch {
			case l.op == "Lock" && !l.defer_:
				locks = append(locks, l)
			case l.op == "Unlock":
				unlocks = append(unlocks, l)
			default:
				other = true
			}
		}
		topLevel := func(p token.Pos) bool {
			for _, st := range fn.decl.Body.List {
				switch st := st.(type) {
				case *ast.ExprStmt:
					if c, ok := st.X.(*ast.CallExpr); ok && c.Pos() == p {
						return true
					}
				case *ast.DeferStmt:
					if st.Call.Pos() == p {
						return true
					}
				}
			}
			return false
		}
		row.OneSection = len(locks) == 1 && len(unlocks) == 1 && !other && locks[0].mutex == unlocks[0].mutex &&
			locks[0].scope == 0 && unlocks[0].scope == 0 && topLevel(locks[0].pos) && topLevel(unlocks[0].pos) && locks[0].pos < unlocks[0].pos
		if !row.OneSection {
			row.Why = append(row.Why, fmt.Sprintf("not exactly one Lock()/Unlock() pair on one package-level mutex at the top level of the body (%d Lock, %d Unlock, other lock operations: %v)", len(locks), len(unlocks), other))
		}
		var lo, hi token.Pos
		deferredUnlock := false
		if len(locks) >= 1 {
			row.Mutex = locks[0].mutex
			lo = locks[0].pos
		}
		if row.OneSection {
			hi = unlocks[0].pos
			deferredUnlock = unlocks[0].defer_
		}
		inside := func(p token.Pos, scope int) bool {
			return row.OneSection && scope == 0 && p > lo && (deferredUnlock || p < hi)
		}
		row.Covers = row.OneSection
		for _, ga := range fn.globals {
			if ga.g == g && !inside(ga.pos, ga.scope) {
				row.Covers = false
				row.Why = append(row.Why, fmt.Sprintf("%s of the registry at %s outside the critical section", ga.kind, a.pos(ga.pos)))
			}
		}
		// the value returned is the one found in / inserted into the registry inside the critical section
		row.Returned = a.returnsRegistered(fn, g, inside, deferredUnlock, hi, &row)
		rows = append(rows, row)
	}
	sort.Slice(rows, func(i, j int) bool { return rows[i].Registry < rows[j].Registry })
	return rows
}

func (a *analysis) returnsRegistered(fn *fnInfo, g *globalInfo, inside func(token.Pos, int) bool, deferredUnlock bool, hi token.Pos, row *accessorRow) bool {
	info := fn.pkg.info
	x := &fnAn{a: a, fn: fn}
	var retVar *types.Var
	ok := true
	nret := 0
	ast.Inspect(fn.decl.Body, func(n ast.Node) bool {
		switch n := n.(type) {
		case *ast.FuncLit:
			return false
		case *ast.ReturnStmt:
			nret++
			if len(n.Results) != 1 {
				ok = false
				return true
			}
			id, isId := unparen(n.Results[0]).(*ast.Ident)
			if !isId {
				ok = false
				row.Why = append(row.Why, "returns an expression that is not the local variable holding the class")
				return true
			}
			v, _ := info.Uses[id].(*types.Var)
			if v == nil || (retVar != nil && v != retVar) {
				ok = false
				return true
			}
			retVar = v
			if !deferredUnlock && n.Pos() < hi {
				ok = false
				row.Why = append(row.Why, "returns before Unlock()")
			}
		}
		return true
	})
	if !ok || retVar == nil || nret == 0 {
		return false
	}
	if _, isParam := fn.params[retVar]; isParam {
		return false
	}
	// every assignment to the returned variable
	var checkList func(list []ast.Stmt)
	isInsert := func(st ast.Stmt) bool {
		as, isAs := st.(*ast.AssignStmt)
		if !isAs || as.Tok != token.ASSIGN || len(as.Lhs) != 1 || len(as.Rhs) != 1 {
			return false
		}
		ix, isIx := unparen(as.Lhs[0]).(*ast.IndexExpr)
		if !isIx || x.globalOf(ix.X) != g {
			return false
		}
		id, isId := unparen(as.Rhs[0]).(*ast.Ident)
		if !isId {
			return false
		}
		v, _ := info.Uses[id].(*types.Var)
		return v == retVar
	}
	checkAssign := func(list []ast.Stmt, i int, rhs ast.Expr, pos token.Pos) {
		if !inside(pos, 0) {
			ok = false
			row.Why = append(row.Why, fmt.Sprintf("the returned class is assigned at %s outside the critical section", a.pos(pos)))
			return
		}
		rs := x.rootsOf(rhs)
		fromRegistry := false
		for r := range rs {
			if r.kind == "global" && r.name == g.short {
				fromRegistry = true
			} else if !isFresh(r) {
				ok = false
				row.Why = append(row.Why, fmt.Sprintf("the returned class assigned at %s comes from %s %s", a.pos(pos), r.kind, r.name))
			}
		}
		if fromRegistry {
			return
		}
		for _, later := range list[i+1:] {
			if isInsert(later) && inside(later.Pos(), 0) {
				return
			}
		}
		ok = false
		row.Why = append(row.Why, fmt.Sprintf("the class built at %s is returned without having been inserted into the registry in the same block of the critical section", a.pos(pos)))
	}
	checkList = func(list []ast.Stmt) {
		for i, st := range list {
			switch st := st.(type) {
			case *ast.AssignStmt:
				if len(st.Lhs) == len(st.Rhs) {
					for k, l := range st.Lhs {
						if id, isId := unparen(l).(*ast.Ident); isId {
							obj := info.Uses[id]
							if obj == nil {
								obj = info.Defs[id]
							}
							if obj == retVar {
								checkAssign(list, i, st.Rhs[k], st.Pos())
							}
						}
					}
				}
			case *ast.DeclStmt:
				if gd, isGd := st.Decl.(*ast.GenDecl); isGd {
					for _, s := range gd.Specs {
						if vs, isVs := s.(*ast.ValueSpec); isVs {
							for k, n := range vs.Names {
								if info.Defs[n] == retVar && k < len(vs.Values) {
									checkAssign(list, i, vs.Values[k], st.Pos())
								}
							}
						}
					}
				}
			case *ast.BlockStmt:
				checkList(st.List)
			case *ast.IfStmt:
				checkList(st.Body.List)
				if eb, isB := st.Else.(*ast.BlockStmt); isB {
					checkList(eb.List)
				} else if ei, isI := st.Else.(*ast.IfStmt); isI {
					checkList([]ast.Stmt{ei})
				}
			case *ast.SwitchStmt:
				for _, c := range st.Body.List {
					checkList(c.(*ast.CaseClause).Body)
				}
			case *ast.TypeSwitchStmt:
				for _, c := range st.Body.List {
					checkList(c.(*ast.CaseClause).Body)
				}
			case *ast.ForStmt:
				checkList(st.Body.List)
			case *ast.RangeStmt:
				checkList(st.Body.List)
			}
		}
	}
	checkList(fn.decl.Body.List)
	return ok
}

// ---------------------------------------------------------------------------------------------
// the report
// ---------------------------------------------------------------------------------------------

type triple struct{ A, B, C string }

type methodRow struct {
	Name     string   `json:"name"`
	Struct   string   `json:"struct"`
	Role     string   `json:"role"`
	Writes   []string `json:"writes"`
	Reads    []string `json:"reads"`
	Creates  []string `json:"creates"`
	Takes    []string `json:"takes"`
	Locks    []string `json:"locks,omitempty"`
	Spawns   int      `json:"spawns,omitempty"`
	Closures int      `json:"closures,omitempty"`
	Reflect  bool     `json:"reflect_call,omitempty"`
}

type detail struct {
	What   string `json:"what"`
	Where  string `json:"where"`
	At     string `json:"at"`
	Words  string `json:"words"`
	Canon  string `json:"canonical_words,omitempty"` // the same with the canonical identifiers of ParamsFoot.v
	CWhere string `json:"canonical_where,omitempty"`
}

type report struct {
	Fields        [][3]string         `json:"fields"`         // field, kind, classification
	ClassMutable  [][3]string         `json:"class_mutable"`  // field, how, function
	ForeignWrites [][3]string         `json:"foreign_writes"` // field, how, function
	SharedEdges   [][2]string         `json:"shared_edges"`   // destination, source
	PkgVars       [][2]string         `json:"pkgvars"`        // var (file:name), kind
	PkgVarWriters [][4]string         `json:"pkgvar_writers"` // var, access, function, locks held
	Unguarded     [][3]string         `json:"pkgvar_unguarded"`
	Exported      []string            `json:"exported_vars"`
	Accessors     []accessorRow       `json:"accessors"`
	Methods       []methodRow         `json:"methods"`
	Escapes       [][3]string         `json:"escapes"` // function, through, how
	ClassLits     [][2]string         `json:"class_literals"`
	Api           [][3]string         `json:"api"`            // exported function, "result k" / "parameter n", verdict ("fresh" / "not-retained" / what it aliases, joined by "; ")
	StorageWrites [][3]string         `json:"storage_writes"` // method, receiver field (or struct.[] for a slice / map receiver), how
	FieldSets     [][3]string         `json:"field_sets"`     // method, field, what non-fresh value it is set to
	PublishOnce   []string            `json:"publish_once"`
	Names         map[string][]string `json:"canonical_names,omitempty"` // canonical identifier -> the real names it stands for   // storage fields only ever set to fresh memory and never written in place
	Details       []detail            `json:"details"`
	Blind         map[string][]string `json:"blind_spots"`
}

func sortedKeys(m map[string]bool) []string {
	res := []string{}
	for k := range m {
		res = append(res, k)
	}
	sort.Strings(res)
	return res
}

func (a *analysis) report() *report {
	rep := &report{Blind: map[string][]string{}}
	det := func(what, where string, pos token.Pos, words string) {
		rep.Details = append(rep.Details, detail{What: what, Where: where, At: a.pos(pos), Words: words})
	}
	// --- field writes
	type fw struct {
		fn *fnInfo
		w  writeEvent
	}
	byField := map[string][]fw{}
	for _, fn := range a.fnList {
		for _, w := range fn.sortedWrites() {
			if w.r.field != "" {
				byField[w.r.field] = append(byField[w.r.field], fw{fn, w})
			}
		}
	}
	cm := map[[3]string]bool{}
	fwr := map[[3]string]bool{}
	sort.Slice(a.structList, func(i, j int) bool { return a.structList[i].qname < a.structList[j].qname })
	for _, si := range a.structList {
		for _, f := range si.fields {
			class := ""
			switch si.role {
			case "class":
				class = "class-constant"
				for _, e := range byField[f.qname] {
					class = "class-mutable"
					how := e.w.how
					if e.w.via != "" {
						how += " (in " + e.w.via + ")"
					}
					k := [3]string{f.qname, how, e.fn.qname}
					if !cm[k] {
						cm[k] = true
						det("class-mutable", e.fn.qname, e.w.pos, fmt.Sprintf("field %s of %s is written (%s) in %s", f.name, si.qname, how, e.fn.qname))
					}
				}
			default:
				class = "instance-constant"
				for _, e := range byField[f.qname] {
					own := e.w.r.kind == "recv" && e.fn.recvStruct == si
					if own {
						if !e.w.lock {
							class = "instance-state"
						}
						continue
					}
					if e.w.r.kind == "recv" && e.w.r.field == f.qname {
						// reached from the receiver of another struct through ITS field of this struct type: impossible
						// (the first field on the path belongs to the receiver's struct)
						continue
					}
					how := e.w.how
					if e.w.via != "" {
						how += " (in " + e.w.via + ")"
					}
					k := [3]string{f.qname, how, e.fn.qname}
					if !fwr[k] {
						fwr[k] = true
						det("foreign-write", e.fn.qname, e.w.pos, fmt.Sprintf("field %s of %s is written (%s) in %s, which is not a method of %s", f.name, si.qname, how, e.fn.qname, si.qname))
					}
				}
			}
			rep.Fields = append(rep.Fields, [3]string{f.qname, f.kind, class})
		}
	}
	// a class object created anywhere but in an accessor function or in the initialiser of a package-level variable
	for _, cl := range a.classLits {
		rep.ClassLits = append(rep.ClassLits, [2]string{cl.dest, cl.source})
		okPlace := strings.HasPrefix(cl.source, "var ")
		if !okPlace {
			for _, fn := range a.fnList {
				if fn.qname == cl.source && fn.recvStruct == nil && fn.decl != nil {
					okPlace = true
				}
			}
		}
		if !okPlace {
			k := [3]string{cl.dest + ".*", "class object created outside the accessor", cl.source}
			if !cm[k] {
				cm[k] = true
				det("class-mutable", cl.source, cl.pos, fmt.Sprintf("an object of class struct %s is created in %s (not in the accessor / a package-level initialiser)", cl.dest, cl.source))
			}
		}
	}
	rep.ClassMutable = sorted3(cm)
	rep.ForeignWrites = sorted3(fwr)
	sort.Slice(rep.ClassLits, func(i, j int) bool {
		return rep.ClassLits[i][0]+rep.ClassLits[i][1] < rep.ClassLits[j][0]+rep.ClassLits[j][1]
	})

	// --- shared edges (omitting objects without state)
	fieldByName := map[string]*fieldInfo{}
	for _, f := range a.fields {
		fieldByName[f.qname] = f
	}
	se := map[[2]string]bool{}
	for _, e := range a.edges {
		if f, ok := fieldByName[e.dest]; ok && a.statelessType(f.obj.Type()) {
			continue
		}
		k := [2]string{e.dest, e.source}
		if !se[k] {
			se[k] = true
			det("shared-edge", e.where, e.pos, fmt.Sprintf("%s is initialised from %s in %s", e.dest, e.source, e.where))
		}
	}
	for k := range se {
		rep.SharedEdges = append(rep.SharedEdges, k)
	}
	sort.Slice(rep.SharedEdges, func(i, j int) bool {
		return rep.SharedEdges[i][0]+"|"+rep.SharedEdges[i][1] < rep.SharedEdges[j][0]+"|"+rep.SharedEdges[j][1]
	})

	// --- package-level variables
	sort.Slice(a.globalList, func(i, j int) bool { return a.globalList[i].fileName < a.globalList[j].fileName })
	written := map[*globalInfo]bool{}
	for _, fn := range a.fnList {
		for _, ga := range fn.globals {
			if (ga.kind == "write" || ga.kind == "mutate") && fn.decl != nil {
				written[ga.g] = true
			}
		}
	}
	ug := map[[3]string]bool{}
	pw := map[[4]string]bool{}
	for _, g := range a.globalList {
		rep.PkgVars = append(rep.PkgVars, [2]string{g.fileName, g.kind})
		if g.exported && g.kind != "mutex" {
			rep.Exported = append(rep.Exported, g.fileName)
		}
	}
	for _, fn := range a.fnList {
		if fn.decl == nil {
			continue // the initialiser of a package-level variable runs before everything else
		}
		for _, ga := range fn.globals {
			if ga.kind == "lock" || ga.g.kind == "mutex" {
				continue
			}
			hasW := false
			for _, h := range ga.held {
				if strings.HasSuffix(h, ":W") {
					hasW = true
				}
			}
			hasAny := len(ga.held) > 0
			if ga.kind == "write" || ga.kind == "mutate" {
				pw[[4]string{ga.g.fileName, ga.kind + " (" + ga.how + ")", fn.qname, strings.Join(ga.held, ",")}] = true
				if !hasW {
					k := [3]string{ga.g.fileName, ga.kind + " (" + ga.how + ")", fn.qname}
					if !ug[k] {
						ug[k] = true
						det("pkgvar-unguarded", fn.qname, ga.pos, fmt.Sprintf("package-level variable %s: %s (%s) in %s without holding the write lock of a package-level mutex (held: %v)", ga.g.short, ga.kind, ga.how, fn.qname, ga.held))
					}
				}
			} else if written[ga.g] && !hasAny {
				k := [3]string{ga.g.fileName, "read", fn.qname}
				if !ug[k] {
					ug[k] = true
					det("pkgvar-unguarded", fn.qname, ga.pos, fmt.Sprintf("package-level variable %s is written somewhere and read in %s without holding a package-level mutex", ga.g.short, fn.qname))
				}
			}
		}
	}
	rep.Unguarded = sorted3(ug)
	for k := range pw {
		rep.PkgVarWriters = append(rep.PkgVarWriters, k)
	}
	sort.Slice(rep.PkgVarWriters, func(i, j int) bool {
		return strings.Join(rep.PkgVarWriters[i][:], "|") < strings.Join(rep.PkgVarWriters[j][:], "|")
	})
	if rep.Exported == nil {
		rep.Exported = []string{}
	}
	sort.Strings(rep.Exported)

	rep.Accessors = a.accessors()
	for _, r := range rep.Accessors {
		if !(r.OneSection && r.Covers && r.Sole && r.Returned) {
			rep.Details = append(rep.Details, detail{What: "accessor", Where: r.Accessor, At: r.Registry, Words: fmt.Sprintf("accessor %s of registry %s: %s", r.Accessor, r.Registry, strings.Join(r.Why, "; "))})
		}
	}

	// --- methods and escapes
	esc := map[[3]string]bool{}
	for _, fn := range a.fnList {
		if fn.decl == nil {
			continue
		}
		wr := map[string]bool{}
		lk := map[string]bool{}
		for _, w := range fn.sortedWrites() {
			switch w.r.kind {
			case "recv":
				name := w.r.field
				if name == "" && fn.recvStruct != nil {
					if fn.recvStruct.isStruct {
						name = fn.recvStruct.qname + ".*"
					} else {
						name = fn.recvStruct.qname + ".[]"
					}
				}
				if w.lock {
					lk[name] = true
				} else {
					wr[name] = true
				}
			case "param", "call":
				if w.lock {
					continue
				}
				through := ""
				if w.r.kind == "param" {
					var pi int
					fmt.Sscanf(w.r.name, "%d:", &pi)
					through = fmt.Sprintf("parameter %d", pi)
				} else {
					through = "result of " + w.r.name
				}
				how := w.how
				k := [3]string{fn.qname, through, how}
				if !esc[k] {
					esc[k] = true
					via := ""
					if w.via != "" {
						via = " (" + w.via + ")"
					}
					det("escape", fn.qname, w.pos, fmt.Sprintf("%s writes through %s [%s]: %s%s", fn.qname, through, w.r.name, how, via))
				}
			}
		}
		if fn.recvStruct != nil {
			rep.Methods = append(rep.Methods, methodRow{Name: fn.qname, Struct: fn.recvStruct.qname, Role: fn.recvStruct.role,
				Writes: sortedKeys(wr), Reads: sortedKeys(fn.reads), Creates: sortedKeys(fn.creates), Takes: sortedKeys(fn.usesFields),
				Locks: sortedKeys(lk), Spawns: fn.spawns, Closures: fn.closures, Reflect: fn.reflectCall})
		}
		if fn.spawns > 0 {
			rep.Blind["goroutines started"] = append(rep.Blind["goroutines started"], fn.qname)
		}
		if fn.closures > 0 {
			rep.Blind["closures"] = append(rep.Blind["closures"], fn.qname)
		}
		if fn.reflectCall {
			rep.Blind["reflect Call/Set"] = append(rep.Blind["reflect Call/Set"], fn.qname)
		}
	}
	for _, p := range a.pkgs {
		for _, im := range p.pkg.Imports() {
			if im.Path() == "unsafe" {
				rep.Blind["imports unsafe"] = append(rep.Blind["imports unsafe"], p.short)
			}
			if im.Path() == "reflect" {
				rep.Blind["imports reflect"] = append(rep.Blind["imports reflect"], p.short)
			}
		}
	}
	rep.Escapes = sorted3(esc)
	a.apiReport(rep, det)
	sort.Slice(rep.Methods, func(i, j int) bool { return rep.Methods[i].Name < rep.Methods[j].Name })
	sort.Slice(rep.Details, func(i, j int) bool {
		if rep.Details[i].What != rep.Details[j].What {
			return rep.Details[i].What < rep.Details[j].What
		}
		return rep.Details[i].Words < rep.Details[j].Words
	})
	return rep
}

// does a non-struct type of the library (array_ = []V, map_ = map[K]V) have all the methods of the interface?
func (a *analysis) holdsRawStorage(t types.Type) bool {
	switch u := t.Underlying().(type) {
	case *types.Slice, *types.Map:
		return true
	case *types.Pointer:
		_, isStruct := u.Elem().Underlying().(*types.Struct)
		return !isStruct
	case *types.Interface:
		if u.NumMethods() == 0 {
			return false
		}
		for _, si := range a.structList {
			if si.isStruct || si.role != "instance" {
				continue
			}
			all := true
			for i := 0; i < u.NumMethods(); i++ {
				if !a.hasMethod(si, u.Method(i).Name()) {
					all = false
					break
				}
			}
			if all {
				return true
			}
		}
	}
	return false
}

func (a *analysis) apiReport(rep *report, det func(what, where string, pos token.Pos, words string)) {
	api := map[[3]string]bool{}
	sw := map[[3]string]bool{}
	fs := map[[3]string]bool{}
	inPlace := map[string]bool{}  // field -> written in place somewhere
	nonFresh := map[string]bool{} // field -> set to something not fresh
	for _, fn := range a.fnList {
		if fn.decl == nil {
			continue
		}
		// --- storage written in place through the receiver, fields set to non-fresh values
		for _, w := range fn.sortedWrites() {
			if !w.storage || w.lock {
				continue
			}
			if w.r.field != "" {
				inPlace[w.r.field] = true
			}
			if w.r.kind == "recv" && fn.recvStruct != nil {
				name := w.r.field
				if name == "" {
					if fn.recvStruct.isStruct {
						name = fn.recvStruct.qname + ".*"
					} else {
						name = fn.recvStruct.qname + ".[]"
					}
				}
				how := w.how
				if w.via != "" {
					how += " (" + w.via + ")"
				}
				k := [3]string{fn.qname, name, how}
				if !sw[k] {
					sw[k] = true
					det("storage-write", fn.qname, w.pos, fmt.Sprintf("%s writes in place into storage reachable through %s: %s", fn.qname, name, how))
				}
			}
		}
		for _, f := range fn.fieldSets {
			nonFresh[f.field] = true
			k := [3]string{fn.qname, f.field, f.from}
			if !fs[k] {
				fs[k] = true
				det("field-set", fn.qname, f.pos, fmt.Sprintf("%s sets %s to a value that is not freshly allocated: it %s", fn.qname, f.field, f.from))
			}
		}
		// --- the exported interface of agent/, collection/ and the module
		if !ast.IsExported(fn.simple) || !(fn.pkg.short == "agent" || fn.pkg.short == "collection" || fn.pkg.short == "module") {
			continue
		}
		sig := fn.obj.Type().(*types.Signature)
		for k := 0; k < sig.Results().Len(); k++ {
			rt := sig.Results().At(k).Type()
			kind := a.kindOf(rt)
			if pure(rt) || !refCapable(kind) || a.statelessType(rt) {
				continue
			}
			var verdict []string
			if k < len(fn.retByIndex) {
				for _, r := range fn.retByIndex[k].sorted() {
					if r.kind == "alloc" {
						if where, ok := fn.retained[r.name]; ok {
							sort.Strings(where)
							verdict = appendUnique(verdict, "shares memory allocated in this call with "+strings.Join(uniq(where), ", "))
						}
						continue
					}
					if !isFresh(r) {
						verdict = appendUnique(verdict, describeRoot(r))
					}
				}
			}
			if len(verdict) == 0 {
				verdict = []string{"fresh"}
			}
			row := [3]string{fn.qname, fmt.Sprintf("result %d", k+1), strings.Join(verdict, "; ")}
			api[row] = true
			if verdict[0] != "fresh" {
				det("api", fn.qname, fn.decl.Pos(), fmt.Sprintf("%s of %s is not fresh: it %s", row[1], fn.qname, row[2]))
			}
		}
		for i, pv := range fn.paramList {
			if pv == nil {
				continue
			}
			kind := a.kindOf(pv.Type())
			if pure(pv.Type()) || !refCapable(kind) || a.statelessType(pv.Type()) {
				continue
			}
			idx := i + 1
			var verdict []string
			prefix := fmt.Sprintf("arg %d:", idx)
			for _, e := range a.edges {
				if e.where == fn.qname && strings.HasPrefix(e.source, prefix) && strings.Contains(e.source, " of "+fn.qname) {
					verdict = appendUnique(verdict, "kept: "+e.dest)
				}
			}
			for k := range fn.retByIndex {
				for _, r := range fn.retByIndex[k].sorted() {
					if r.kind == "param" && strings.HasPrefix(r.name, fmt.Sprintf("%d:", idx)) {
						d := describeRoot(r)
						d = strings.Replace(d, fmt.Sprintf("parameter %d field ", idx), "its field ", 1)
						d = strings.Replace(d, fmt.Sprintf("parameter %d", idx), "it", 1)
						verdict = appendUnique(verdict, fmt.Sprintf("result %d %s", k+1, d))
					}
				}
			}
			for _, w := range fn.sortedWrites() {
				if w.r.kind == "param" && !w.lock && strings.HasPrefix(w.r.name, fmt.Sprintf("%d:", idx)) {
					verdict = appendUnique(verdict, "written")
				}
			}
			sort.Strings(verdict)
			if len(verdict) == 0 {
				verdict = []string{"not-retained"}
			}
			row := [3]string{fn.qname, fmt.Sprintf("parameter %d [%s]", idx, kind), strings.Join(verdict, "; ")}
			api[row] = true
			if verdict[0] != "not-retained" {
				det("api", fn.qname, fn.decl.Pos(), fmt.Sprintf("%s of %s is retained: %s", row[1], fn.qname, row[2]))
			}
		}
	}
	rep.Api = sorted3(api)
	rep.StorageWrites = sorted3(sw)
	rep.FieldSets = sorted3(fs)
	rep.PublishOnce = []string{}
	for _, si := range a.structList {
		if si.role != "instance" {
			continue
		}
		for _, f := range si.fields {
			if a.holdsRawStorage(f.obj.Type()) && !inPlace[f.qname] && !nonFresh[f.qname] {
				rep.PublishOnce = append(rep.PublishOnce, f.qname)
			}
		}
	}
	sort.Strings(rep.PublishOnce)
}

func appendUnique(l []string, s string) []string {
	for _, x := range l {
		if x == s {
			return l
		}
	}
	return append(l, s)
}

func uniq(l []string) []string {
	var res []string
	for _, x := range l {
		res = appendUnique(res, x)
	}
	return res
}

func sorted3(m map[[3]string]bool) [][3]string {
	res := [][3]string{}
	for k := range m {
		res = append(res, k)
	}
	sort.Slice(res, func(i, j int) bool { return strings.Join(res[i][:], "|") < strings.Join(res[j][:], "|") })
	return res
}

// ---------------------------------------------------------------------------------------------
// Coq output
// ---------------------------------------------------------------------------------------------

func cs(s string) string { return "\"" + strings.ReplaceAll(s, "\"", "\"\"") + "\"" }
func cb(b bool) string {
	if b {
		return "true"
	}
	return "false"
}
func clist(items []string) string {
	if len(items) == 0 {
		return "[]"
	}
	return "[\n  " + strings.Join(items, ";\n  ") + "]"
}
func cstrs(items []string) string {
	var q []string
	for _, s := range items {
		q = append(q, cs(s))
	}
	return "[" + strings.Join(q, "; ") + "]"
}

func coqOutput(rep, tagged *report, errMsg string) string {
	var b strings.Builder
	b.WriteString("(* GENERATED by tools/gofootprint from the Go sources of the library - do not edit. *)\n")
	b.WriteString("From Coq Require Import List String Bool.\nImport ListNotations.\nOpen Scope string_scope.\n")
	fmt.Fprintf(&b, "Definition foot_tool_ok : bool := %s.\n", cb(errMsg == ""))
	fmt.Fprintf(&b, "Definition foot_tool_error : string := %s.\n", cs(errMsg))
	if rep == nil {
		rep = &report{}
	}
	if tagged == nil {
		tagged = &report{}
	}
	var it []string
	for _, f := range rep.Fields {
		it = append(it, fmt.Sprintf("(%s, %s, %s)", cs(f[0]), cs(f[1]), cs(f[2])))
	}
	fmt.Fprintf(&b, "(* struct field, kind of its type, classification *)\nDefinition foot_fields : list (string * string * string) := %s.\n", clist(it))
	t3 := func(name, comment string, rows [][3]string) {
		var it []string
		for _, f := range rows {
			it = append(it, fmt.Sprintf("(%s, %s, %s)", cs(f[0]), cs(f[1]), cs(f[2])))
		}
		fmt.Fprintf(&b, "(* %s *)\nDefinition %s : list (string * string * string) := %s.\n", comment, name, clist(it))
	}
	t3("foot_class_mutable", "field of a class struct, how it is written outside the creating literal, in which function", rep.ClassMutable)
	t3("foot_foreign_writes", "field of an instance struct, how, function that is not a method of that struct", rep.ForeignWrites)
	it = nil
	for _, e := range rep.SharedEdges {
		it = append(it, fmt.Sprintf("(%s, %s)", cs(e[0]), cs(e[1])))
	}
	fmt.Fprintf(&b, "(* where a reference is kept, where it comes from (an argument, another object's field, a global, a getter) *)\nDefinition foot_shared_edges : list (string * string) := %s.\n", clist(it))
	it = nil
	for _, e := range rep.PkgVars {
		it = append(it, fmt.Sprintf("(%s, %s)", cs(e[0]), cs(e[1])))
	}
	fmt.Fprintf(&b, "Definition foot_pkgvars : list (string * string) := %s.\n", clist(it))
	it = nil
	for _, e := range rep.PkgVarWriters {
		it = append(it, fmt.Sprintf("(%s, %s, %s, %s)", cs(e[0]), cs(e[1]), cs(e[2]), cs(e[3])))
	}
	fmt.Fprintf(&b, "(* variable, access, function, package-level mutexes held (W = Lock, R = RLock) *)\nDefinition foot_pkgvar_writers : list (string * string * string * string) := %s.\n", clist(it))
	t3("foot_pkgvar_unguarded", "variable, access, function: a write without a write lock, or a read without any lock of a variable that is written somewhere", rep.Unguarded)
	fmt.Fprintf(&b, "Definition foot_exported_vars : list string := %s.\n", cstrs(rep.Exported))
	it = nil
	for _, r := range rep.Accessors {
		it = append(it, fmt.Sprintf("(%s, %s, (%s, %s, %s, %s))", cs(r.Registry), cs(r.Accessor), cb(r.OneSection), cb(r.Covers), cb(r.Sole), cb(r.Returned)))
	}
	fmt.Fprintf(&b, "(* registry, accessor, (one critical section, it covers every use of the registry, no other function uses the registry,\n   the class returned is the one found in / inserted into the registry inside the critical section) *)\nDefinition foot_accessors : list (string * string * (bool * bool * bool * bool)) := %s.\n", clist(it))
	it = nil
	for _, m := range rep.Methods {
		it = append(it, fmt.Sprintf("(%s, %s, %s, (%s, %s, %s, %s))", cs(m.Name), cs(m.Struct), cs(m.Role), cstrs(m.Writes), cstrs(m.Reads), cstrs(m.Creates), cstrs(m.Takes)))
	}
	fmt.Fprintf(&b, "(* method, struct of the receiver, role, (fields written through the receiver incl. through the receiver's own methods and sub-objects,\n   receiver fields read, agents created per call, agent-like receiver fields used) *)\nDefinition foot_methods : list (string * string * string * (list string * list string * list string * list string)) := %s.\n", clist(it))
	it = nil
	seenEsc := map[string]bool{}
	for _, e := range rep.Escapes {
		k := fmt.Sprintf("(%s, %s)", cs(e[0]), cs(e[1]))
		if !seenEsc[k] {
			seenEsc[k] = true
			it = append(it, k)
		}
	}
	fmt.Fprintf(&b, "(* function, what it writes through that is neither its receiver nor memory allocated in the call (a parameter, the result of a getter) *)\nDefinition foot_escapes : list (string * string) := %s.\n", clist(it))
	t3("foot_api", "exported function of agent/, collection/, the module; result k / parameter n; fresh / not-retained or what it aliases, keeps, contains", rep.Api)
	it = nil
	seenSW := map[string]bool{}
	for _, e := range rep.StorageWrites {
		k := fmt.Sprintf("(%s, %s)", cs(e[0]), cs(e[1]))
		if !seenSW[k] {
			seenSW[k] = true
			it = append(it, k)
		}
	}
	fmt.Fprintf(&b, "(* method, receiver field (struct.[] for a slice or map receiver): storage reachable before the call is written in place *)\nDefinition foot_storage_writes : list (string * string) := %s.\n", clist(it))
	t3("foot_field_sets", "method, field, what the field is set to that is not freshly allocated", rep.FieldSets)
	fmt.Fprintf(&b, "(* slice / map / raw-storage fields that are only ever set to fresh memory and never written in place *)\nDefinition foot_publish_once : list string := %s.\n", cstrs(rep.PublishOnce))
	// the build with the verif tag
	fmt.Fprintf(&b, "(* the build with the tag verif *)\nDefinition foot_verif_exported_vars : list string := %s.\n", cstrs(tagged.Exported))
	t3("foot_verif_pkgvar_unguarded", "the same as foot_pkgvar_unguarded for the build with the tag verif", tagged.Unguarded)
	it = nil
	for _, e := range tagged.PkgVars {
		it = append(it, fmt.Sprintf("(%s, %s)", cs(e[0]), cs(e[1])))
	}
	fmt.Fprintf(&b, "Definition foot_verif_pkgvars : list (string * string) := %s.\n", clist(it))
	return b.String()
}

// returns the report with the real names (for build/footprint.json) and the one with canonical identifiers (for Coq)
func analyse(root string, tags []string, fsetStd *stdCache) (*report, *report, error) {
	l := newLoader(root, tags, fsetStd.imp, fsetStd.fset)
	pkgs, err := l.loadAll()
	if err != nil {
		return nil, nil, err
	}
	a := newAnalysis(fsetStd.fset, pkgs)
	a.run()
	rep := a.report()
	return rep, a.canonReport(rep), nil
}

type stdCache struct {
	fset *token.FileSet
	imp  types.Importer
}

func main() {
	coqOut := flag.String("coq", "", "write the Coq definitions to this file (only when the content changes)")
	jsonOut := flag.String("json", "", "write the full report (with source positions) to this file")
	flag.Parse()
	if flag.NArg() != 1 {
		fmt.Fprintln(os.Stderr, "usage: gofootprint [-coq ParamsFoot.v] [-json footprint.json] <repo>/v4")
		os.Exit(2)
	}
	root := flag.Arg(0)
	fset := token.NewFileSet()
	std := &stdCache{fset: fset, imp: newStdImporter(fset)}
	errMsg := ""
	rep, crep, err := analyse(root, nil, std)
	if err != nil {
		errMsg = "untagged build: " + err.Error()
	}
	var tagged, ctagged *report
	if err == nil {
		tagged, ctagged, err = analyse(root, []string{"verif"}, std)
		if err != nil {
			errMsg = "build with tag verif: " + err.Error()
		}
	}
	text := coqOutput(crep, ctagged, errMsg)
	if *coqOut != "" {
		old, _ := os.ReadFile(*coqOut)
		if string(old) != text {
			if err := os.WriteFile(*coqOut, []byte(text), 0o644); err != nil {
				fmt.Fprintln(os.Stderr, err)
				os.Exit(2)
			}
			fmt.Println("gofootprint: wrote", *coqOut)
		} else {
			fmt.Println("gofootprint: unchanged")
		}
	} else {
		fmt.Print(text)
	}
	if *jsonOut != "" {
		out := map[string]any{"untagged": rep, "verif": tagged, "error": errMsg}
		data, _ := json.MarshalIndent(out, "", " ")
		if err := os.WriteFile(*jsonOut, data, 0o644); err != nil {
			fmt.Fprintln(os.Stderr, err)
			os.Exit(2)
		}
	}
	if errMsg != "" {
		fmt.Fprintln(os.Stderr, "gofootprint:", errMsg)
	}
}
