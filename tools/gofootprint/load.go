// gofootprint: static footprint extraction for property C19 (see docs/C19.md, section
// "Static footprint extraction").  Standard library only (go/parser, go/ast, go/types with the
// "source" importer for the standard library and an own importer for the library's packages).
package main

import (
	"fmt"
	"go/ast"
	"go/build"
	"go/importer"
	"go/parser"
	"go/token"
	"go/types"
	"os"
	"path/filepath"
	"sort"
	"strings"
)

const modPath = "github.com/craterdog/go-collection-framework/v4"

// the packages of the library in dependency order: short name -> sub directory of v4
var subPackages = [][2]string{{"agent", "agent"}, {"collection", "collection"}, {"cdcn", "cdcn"}, {"module", ""}}

type loaded struct {
	short string // agent, collection, cdcn, module
	path  string
	dir   string
	pkg   *types.Package
	files []*ast.File
	names []string // file names relative to v4, parallel to files
	info  *types.Info
}

type loader struct {
	fset *token.FileSet
	std  types.Importer
	root string // .../v4
	ctx  build.Context
	pkgs map[string]*loaded
}

func newLoader(root string, tags []string, std types.Importer, fset *token.FileSet) *loader {
	ctx := build.Default
	ctx.CgoEnabled = false
	ctx.BuildTags = tags
	return &loader{fset: fset, std: std, root: root, ctx: ctx, pkgs: map[string]*loaded{}}
}

func newStdImporter(fset *token.FileSet) types.Importer {
	build.Default.CgoEnabled = false
	return importer.ForCompiler(fset, "source", nil)
}

func (l *loader) Import(path string) (*types.Package, error) {
	if path == modPath || strings.HasPrefix(path, modPath+"/") {
		if p, ok := l.pkgs[path]; ok {
			return p.pkg, nil
		}
		return nil, fmt.Errorf("library package %s imported before it was loaded (import cycle or unknown package)", path)
	}
	return l.std.Import(path)
}

func (l *loader) load(short, sub string) (*loaded, error) {
	path := modPath
	if sub != "" {
		path += "/" + sub
	}
	dir := filepath.Join(l.root, sub)
	ents, err := os.ReadDir(dir)
	if err != nil {
		return nil, err
	}
	res := &loaded{short: short, path: path, dir: dir}
	var fnames []string
	for _, e := range ents {
		n := e.Name()
		if e.IsDir() || !strings.HasSuffix(n, ".go") || strings.HasSuffix(n, "_test.go") {
			continue
		}
		ok, err := l.ctx.MatchFile(dir, n)
		if err != nil {
			return nil, err
		}
		if ok {
			fnames = append(fnames, n)
		}
	}
	sort.Strings(fnames)
	for _, n := range fnames {
		f, err := parser.ParseFile(l.fset, filepath.Join(dir, n), nil, parser.SkipObjectResolution)
		if err != nil {
			return nil, err
		}
		res.files = append(res.files, f)
		rel := n
		if sub != "" {
			rel = sub + "/" + n
		}
		res.names = append(res.names, rel)
	}
	res.info = &types.Info{
		Types:      map[ast.Expr]types.TypeAndValue{},
		Defs:       map[*ast.Ident]types.Object{},
		Uses:       map[*ast.Ident]types.Object{},
		Selections: map[*ast.SelectorExpr]*types.Selection{},
		Implicits:  map[ast.Node]types.Object{},
		Instances:  map[*ast.Ident]types.Instance{},
	}
	conf := types.Config{Importer: l}
	res.pkg, err = conf.Check(path, l.fset, res.files, res.info)
	if err != nil {
		return nil, err
	}
	l.pkgs[path] = res
	return res, nil
}

func (l *loader) loadAll() ([]*loaded, error) {
	var res []*loaded
	for _, sp := range subPackages {
		p, err := l.load(sp[0], sp[1])
		if err != nil {
			return nil, fmt.Errorf("package %s: %v", sp[0], err)
		}
		res = append(res, p)
	}
	return res, nil
}
