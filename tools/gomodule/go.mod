module gomodule

go 1.23
