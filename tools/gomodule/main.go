// gomodule: a purely syntactic translator from the universal constructors of v4/Module.go
// (Association, Array, Catalog, List, Map, Queue, Set, Stack, and the private helper functions they
// call) to terms of the small language of coq/ModuleLang.v.
//
//	gomodule <repo root> <output .v file>
//
// One Go statement becomes one constructor of ModuleLang.mstmt, one Go expression one constructor of
// mexpr; nothing is simplified or interpreted.  A statement or expression outside the subset becomes
// SUnknown / EUnknown "<its text>", so that the generated file always compiles (pure data) and the
// proof obligations about it (coq/GenC20.v, compiled late by ./check C20) are what fails.
// Names are positional: locals are numbered in the order of their declaration in the function, the
// type parameters are K and V by position (the last one is V), packages are named by the last
// element of their import path, the text of string literals is dropped.
package main

import (
	"bytes"
	"fmt"
	"go/ast"
	"go/parser"
	"go/printer"
	"go/token"
	"os"
	"path/filepath"
	"strconv"
	"strings"
)

var fset = token.NewFileSet()

func text(n ast.Node) string {
	var b bytes.Buffer
	printer.Fprint(&b, fset, n)
	return strings.Join(strings.Fields(b.String()), " ")
}

func coqString(s string) string { return "\"" + strings.ReplaceAll(s, "\"", "\"\"") + "\"" }

var universal = []string{"Association", "Array", "Catalog", "List", "Map", "Queue", "Set", "Stack"}

type fileCtx struct {
	imports map[string]string // alias -> last path element
	aliases map[string]string // local type alias -> "pkg.Name"
	funcs   map[string]*ast.FuncDecl
	helper  map[string]string // private helper function -> canonical id "h<i>" (order of declaration)
}

// the name under which a function of this file is called: a private helper by its canonical id
func (f *fileCtx) fname(n string) string {
	if id, ok := f.helper[n]; ok {
		return id
	}
	return n
}

type fnCtx struct {
	f       *fileCtx
	tparams []string       // type parameter names in order
	locals  map[string]int // Go name -> index (current binding)
	nlocals int
	actual  string // variable bound by the enclosing type switch
	argvar  string // variable of the loop over the variadic parameter
	variad  string // name of the variadic parameter
	iter    string // iterator variable of the enclosing iterator loop
	params  []string
}

func (c *fnCtx) declare(name string) int {
	i := c.nlocals
	c.nlocals++
	if name != "_" {
		c.locals[name] = i
	}
	return i
}

// ---------- types ----------
func (c *fnCtx) ty(e ast.Expr) string {
	switch t := e.(type) {
	case *ast.Ident:
		for i, p := range c.tparams {
			if p == t.Name {
				if i == len(c.tparams)-1 {
					return "TyV"
				}
				if i == len(c.tparams)-2 {
					return "TyK"
				}
			}
		}
		if a, ok := c.f.aliases[t.Name]; ok {
			parts := strings.SplitN(a, ".", 2)
			return fmt.Sprintf("(TyNamed %s %s [])", coqString(parts[0]), coqString(parts[1]))
		}
		switch t.Name {
		case "int", "uint", "string", "bool", "any", "int64", "uint64", "float64", "rune", "byte", "int8", "int16", "int32", "uint8", "uint16", "uint32", "float32":
			return "(TyBasic " + coqString(t.Name) + ")"
		}
		return "(TyOther " + coqString(t.Name) + ")"
	case *ast.ArrayType:
		if t.Len == nil {
			return "(TySlice " + c.ty(t.Elt) + ")"
		}
	case *ast.MapType:
		return "(TyMap " + c.ty(t.Key) + " " + c.ty(t.Value) + ")"
	case *ast.SelectorExpr:
		if id, ok := t.X.(*ast.Ident); ok {
			if p, ok := c.f.imports[id.Name]; ok {
				return fmt.Sprintf("(TyNamed %s %s [])", coqString(p), coqString(t.Sel.Name))
			}
		}
	case *ast.IndexExpr:
		return c.named(t.X, []ast.Expr{t.Index})
	case *ast.IndexListExpr:
		return c.named(t.X, t.Indices)
	case *ast.ParenExpr:
		return c.ty(t.X)
	case *ast.InterfaceType:
		if t.Methods == nil || len(t.Methods.List) == 0 {
			return "(TyBasic \"any\")"
		}
	}
	return "(TyOther " + coqString(text(e)) + ")"
}

func (c *fnCtx) named(x ast.Expr, idx []ast.Expr) string {
	s, ok := x.(*ast.SelectorExpr)
	if ok {
		if id, ok := s.X.(*ast.Ident); ok {
			if p, ok := c.f.imports[id.Name]; ok {
				var as []string
				for _, a := range idx {
					as = append(as, c.ty(a))
				}
				return fmt.Sprintf("(TyNamed %s %s [%s])", coqString(p), coqString(s.Sel.Name), strings.Join(as, "; "))
			}
		}
	}
	return "(TyOther " + coqString(text(x)) + ")"
}

// ---------- expressions ----------
func (c *fnCtx) exprs(es []ast.Expr) string {
	var r []string
	for _, e := range es {
		r = append(r, c.expr(e))
	}
	return "[" + strings.Join(r, "; ") + "]"
}

func isBuiltinType(n string) bool {
	switch n {
	case "int", "uint", "int64", "uint64", "float64", "rune", "byte", "string", "int8", "int16", "int32", "uint8", "uint16", "uint32", "float32":
		return true
	}
	return false
}

func (c *fnCtx) expr(e ast.Expr) string {
	switch x := e.(type) {
	case *ast.ParenExpr:
		return c.expr(x.X)
	case *ast.Ident:
		switch x.Name {
		case "true":
			return "ETrue"
		case "false":
			return "EFalse"
		case "nil":
			return "ENil"
		}
		if x.Name == c.actual && c.actual != "" {
			return "EActual"
		}
		if x.Name == c.argvar && c.argvar != "" {
			return "EArgument"
		}
		if i, ok := c.locals[x.Name]; ok {
			return fmt.Sprintf("(ELocal %d)", i)
		}
	case *ast.BasicLit:
		switch x.Kind {
		case token.INT:
			if v, err := strconv.ParseInt(x.Value, 0, 64); err == nil {
				return fmt.Sprintf("(EInt %d)", v)
			}
		case token.STRING:
			return "EText"
		}
	case *ast.UnaryExpr:
		if x.Op == token.NOT {
			return "(ENot " + c.expr(x.X) + ")"
		}
	case *ast.BinaryExpr:
		return fmt.Sprintf("(EBin %s %s %s)", coqString(x.Op.String()), c.expr(x.X), c.expr(x.Y))
	case *ast.TypeAssertExpr:
		if x.Type != nil {
			return fmt.Sprintf("(EAssert %s %s)", c.ty(x.Type), c.expr(x.X))
		}
	case *ast.CallExpr:
		return c.call(x)
	}
	return "(EUnknown " + coqString(text(e)) + ")"
}

// ref.TypeOf((*T)(nil)).Elem()
func (c *fnCtx) ifaceType(x *ast.CallExpr) (string, bool) {
	s, ok := x.Fun.(*ast.SelectorExpr)
	if !ok || s.Sel.Name != "Elem" || len(x.Args) != 0 {
		return "", false
	}
	in, ok := s.X.(*ast.CallExpr)
	if !ok || len(in.Args) != 1 {
		return "", false
	}
	f, ok := in.Fun.(*ast.SelectorExpr)
	if !ok || f.Sel.Name != "TypeOf" {
		return "", false
	}
	if id, ok := f.X.(*ast.Ident); !ok || c.f.imports[id.Name] != "reflect" {
		return "", false
	}
	conv, ok := in.Args[0].(*ast.CallExpr)
	if !ok || len(conv.Args) != 1 {
		return "", false
	}
	if id, ok := conv.Args[0].(*ast.Ident); !ok || id.Name != "nil" {
		return "", false
	}
	p, ok := conv.Fun.(*ast.ParenExpr)
	if !ok {
		return "", false
	}
	st, ok := p.X.(*ast.StarExpr)
	if !ok {
		return "", false
	}
	return "(EIfaceType " + c.ty(st.X) + ")", true
}

func (c *fnCtx) call(x *ast.CallExpr) string {
	if r, ok := c.ifaceType(x); ok {
		return r
	}
	switch f := x.Fun.(type) {
	case *ast.Ident:
		switch {
		case isBuiltinType(f.Name) && len(x.Args) == 1:
			return fmt.Sprintf("(EConv (TyBasic %s) %s)", coqString(f.Name), c.expr(x.Args[0]))
		case f.Name == "len" && len(x.Args) == 1:
			return "(ELen " + c.expr(x.Args[0]) + ")"
		case f.Name == "cap" && len(x.Args) == 1:
			return "(ECap " + c.expr(x.Args[0]) + ")"
		case f.Name == "make" && len(x.Args) >= 1:
			return fmt.Sprintf("(EMake %s %s)", c.ty(x.Args[0]), c.exprs(x.Args[1:]))
		case f.Name == "append" && len(x.Args) == 2:
			return fmt.Sprintf("(EAppend %s %s)", c.expr(x.Args[0]), c.expr(x.Args[1]))
		}
		if _, isLocal := c.locals[f.Name]; !isLocal {
			return fmt.Sprintf("(EFun \"\" %s %s)", coqString(c.f.fname(f.Name)), c.exprs(x.Args))
		}
	case *ast.IndexExpr:
		// asType[V](e), helper[V](...), col.Array[V](notation)
		return c.generic(f.X, []ast.Expr{f.Index}, x)
	case *ast.IndexListExpr:
		return c.generic(f.X, f.Indices, x)
	case *ast.SelectorExpr:
		if id, ok := f.X.(*ast.Ident); ok {
			if p, ok := c.f.imports[id.Name]; ok {
				if p == "fmt" && f.Sel.Name == "Sprintf" {
					return "EText"
				}
				return fmt.Sprintf("(EFun %s %s %s)", coqString(p), coqString(f.Sel.Name), c.exprs(x.Args))
			}
			if id.Name == c.iter && c.iter != "" && f.Sel.Name == "GetNext" && len(x.Args) == 0 {
				return "EIterNext"
			}
		}
		return fmt.Sprintf("(EMethod %s %s %s)", c.expr(f.X), coqString(f.Sel.Name), c.exprs(x.Args))
	}
	return "(EUnknown " + coqString(text(x)) + ")"
}

func (c *fnCtx) generic(fun ast.Expr, targs []ast.Expr, x *ast.CallExpr) string {
	var ts []string
	for _, t := range targs {
		ts = append(ts, c.ty(t))
	}
	switch f := fun.(type) {
	case *ast.Ident:
		if f.Name == "asType" && len(targs) == 1 && len(x.Args) == 1 {
			return fmt.Sprintf("(EAsType %s %s)", ts[0], c.expr(x.Args[0]))
		}
		// a generic function of this file: the type arguments must be the caller's own type parameters, in order
		// (then they are K / V of the caller); anything else has no meaning
		for _, t := range ts {
			if t != "TyK" && t != "TyV" {
				return "(EUnknown " + coqString(text(x)) + ")"
			}
		}
		return fmt.Sprintf("(EFun \"\" %s %s)", coqString(c.f.fname(f.Name)), c.exprs(x.Args))
	case *ast.SelectorExpr:
		if id, ok := f.X.(*ast.Ident); ok {
			if p, ok := c.f.imports[id.Name]; ok {
				return fmt.Sprintf("(EClassOf %s %s [%s] %s)", coqString(p), coqString(f.Sel.Name), strings.Join(ts, "; "), c.exprs(x.Args))
			}
		}
	}
	return "(EUnknown " + coqString(text(x)) + ")"
}

// ---------- statements ----------
func (c *fnCtx) block(ss []ast.Stmt) string {
	var r []string
	for i := 0; i < len(ss); i++ {
		// var it = X.GetIterator(); for it.HasNext() { ... }
		if i+1 < len(ss) {
			if name, coll, ok := c.iteratorDecl(ss[i]); ok {
				if fs, ok := ss[i+1].(*ast.ForStmt); ok && fs.Init == nil && fs.Post == nil && c.isHasNext(fs.Cond, name) {
					collE := c.expr(coll)
					old := c.iter
					c.iter = name
					body := c.block(fs.Body.List)
					c.iter = old
					r = append(r, fmt.Sprintf("SIterLoop %s %s", collE, body))
					i++
					continue
				}
			}
		}
		r = append(r, c.stmt(ss[i])...)
	}
	return "[" + strings.Join(r, ";\n    ") + "]"
}

func (c *fnCtx) iteratorDecl(s ast.Stmt) (string, ast.Expr, bool) {
	var lhs []string
	var rhs []ast.Expr
	switch d := s.(type) {
	case *ast.DeclStmt:
		g, ok := d.Decl.(*ast.GenDecl)
		if !ok || g.Tok != token.VAR || len(g.Specs) != 1 {
			return "", nil, false
		}
		vs := g.Specs[0].(*ast.ValueSpec)
		for _, n := range vs.Names {
			lhs = append(lhs, n.Name)
		}
		rhs = vs.Values
	case *ast.AssignStmt:
		if d.Tok != token.DEFINE {
			return "", nil, false
		}
		for _, l := range d.Lhs {
			if id, ok := l.(*ast.Ident); ok {
				lhs = append(lhs, id.Name)
			}
		}
		rhs = d.Rhs
	default:
		return "", nil, false
	}
	if len(lhs) != 1 || len(rhs) != 1 {
		return "", nil, false
	}
	call, ok := rhs[0].(*ast.CallExpr)
	if !ok || len(call.Args) != 0 {
		return "", nil, false
	}
	sel, ok := call.Fun.(*ast.SelectorExpr)
	if !ok || sel.Sel.Name != "GetIterator" {
		return "", nil, false
	}
	return lhs[0], sel.X, true
}

func (c *fnCtx) isHasNext(e ast.Expr, it string) bool {
	call, ok := e.(*ast.CallExpr)
	if !ok || len(call.Args) != 0 {
		return false
	}
	sel, ok := call.Fun.(*ast.SelectorExpr)
	if !ok || sel.Sel.Name != "HasNext" {
		return false
	}
	id, ok := sel.X.(*ast.Ident)
	return ok && id.Name == it
}

func (c *fnCtx) assign(names []string, define bool, typ ast.Expr, values []ast.Expr, whole ast.Node) []string {
	unknown := []string{"SUnknown " + coqString(text(whole))}
	idx := func(n string) (int, bool) {
		if define {
			return c.declare(n), true
		}
		i, ok := c.locals[n]
		return i, ok
	}
	switch {
	case len(values) == 0 && typ != nil:
		var r []string
		for _, n := range names {
			r = append(r, fmt.Sprintf("SDecl %d %s", c.declare(n), c.ty(typ)))
		}
		return r
	case len(names) == 1 && len(values) == 1:
		e := c.expr(values[0]) // evaluated before the new name is bound
		i, ok := idx(names[0])
		if !ok {
			return unknown
		}
		return []string{fmt.Sprintf("SAssign %d %s", i, e)}
	case len(names) == 2 && len(values) == 1:
		if _, ok := values[0].(*ast.TypeAssertExpr); ok {
			e := c.expr(values[0])
			i, ok1 := idx(names[0])
			j, ok2 := idx(names[1])
			if ok1 && ok2 {
				return []string{fmt.Sprintf("SAssign2 %d %d %s", i, j, e)}
			}
		}
	}
	return unknown
}

func (c *fnCtx) stmt(s ast.Stmt) []string {
	unknown := []string{"SUnknown " + coqString(text(s))}
	switch x := s.(type) {
	case *ast.DeclStmt:
		g, ok := x.Decl.(*ast.GenDecl)
		if !ok || g.Tok != token.VAR {
			return unknown
		}
		var r []string
		for _, sp := range g.Specs {
			vs := sp.(*ast.ValueSpec)
			var names []string
			for _, n := range vs.Names {
				names = append(names, n.Name)
			}
			r = append(r, c.assign(names, true, vs.Type, vs.Values, s)...)
		}
		return r
	case *ast.AssignStmt:
		if x.Tok != token.ASSIGN && x.Tok != token.DEFINE {
			return unknown
		}
		var names []string
		for _, l := range x.Lhs {
			id, ok := l.(*ast.Ident)
			if !ok {
				return unknown
			}
			names = append(names, id.Name)
		}
		return c.assign(names, x.Tok == token.DEFINE, nil, x.Rhs, s)
	case *ast.IncDecStmt:
		if id, ok := x.X.(*ast.Ident); ok && x.Tok == token.INC {
			if i, ok := c.locals[id.Name]; ok {
				return []string{fmt.Sprintf("SInc %d", i)}
			}
		}
	case *ast.ExprStmt:
		if call, ok := x.X.(*ast.CallExpr); ok {
			if id, ok := call.Fun.(*ast.Ident); ok && id.Name == "panic" {
				return []string{"SPanic"}
			}
			return []string{"SExpr " + c.expr(call)}
		}
	case *ast.BranchStmt:
		if x.Tok == token.BREAK && x.Label == nil {
			return []string{"SBreak"}
		}
	case *ast.ReturnStmt:
		if len(x.Results) == 1 {
			return []string{"SReturn " + c.expr(x.Results[0])}
		}
	case *ast.BlockStmt:
		return []string{fmt.Sprintf("SIf ETrue %s []", c.block(x.List))}
	case *ast.IfStmt:
		if x.Init != nil {
			return unknown
		}
		cond := c.expr(x.Cond)
		yes := c.block(x.Body.List)
		no := "[]"
		switch e := x.Else.(type) {
		case *ast.BlockStmt:
			no = c.block(e.List)
		case *ast.IfStmt:
			no = "[" + strings.Join(c.stmt(e), ";\n    ") + "]"
		}
		return []string{fmt.Sprintf("SIf %s %s %s", cond, yes, no)}
	case *ast.SwitchStmt:
		if x.Init != nil || x.Tag != nil {
			return unknown
		}
		var cases []string
		dflt := "None"
		for _, cl := range x.Body.List {
			cc := cl.(*ast.CaseClause)
			if cc.List == nil {
				dflt = "(Some " + c.block(cc.Body) + ")"
				continue
			}
			if len(cc.List) != 1 {
				return unknown
			}
			cases = append(cases, fmt.Sprintf("(%s, %s)", c.expr(cc.List[0]), c.block(cc.Body)))
		}
		return []string{fmt.Sprintf("SSwitch [%s] %s", strings.Join(cases, ";\n    "), dflt)}
	case *ast.TypeSwitchStmt:
		if x.Init != nil {
			return unknown
		}
		as, ok := x.Assign.(*ast.AssignStmt)
		if !ok || len(as.Lhs) != 1 || len(as.Rhs) != 1 {
			return unknown
		}
		ta, ok := as.Rhs[0].(*ast.TypeAssertExpr)
		if !ok || ta.Type != nil {
			return unknown
		}
		if id, ok := ta.X.(*ast.Ident); !ok || id.Name != c.argvar {
			return unknown
		}
		old := c.actual
		c.actual = as.Lhs[0].(*ast.Ident).Name
		var cases []string
		dflt := "None"
		for _, cl := range x.Body.List {
			cc := cl.(*ast.CaseClause)
			if cc.List == nil {
				dflt = "(Some " + c.block(cc.Body) + ")"
				continue
			}
			var ts []string
			for _, t := range cc.List {
				ts = append(ts, c.ty(t))
			}
			cases = append(cases, fmt.Sprintf("([%s], %s)", strings.Join(ts, "; "), c.block(cc.Body)))
		}
		c.actual = old
		return []string{fmt.Sprintf("STypeSwitch [%s] %s", strings.Join(cases, ";\n    "), dflt)}
	case *ast.RangeStmt:
		if x.Tok != token.DEFINE || x.Value == nil {
			return unknown
		}
		if k, ok := x.Key.(*ast.Ident); !ok || k.Name != "_" {
			return unknown
		}
		v, ok := x.Value.(*ast.Ident)
		if !ok {
			return unknown
		}
		if id, ok := x.X.(*ast.Ident); ok && id.Name == c.variad && c.argvar == "" {
			c.argvar = v.Name
			body := c.block(x.Body.List)
			c.argvar = ""
			return []string{"SArgLoop " + body}
		}
		over := c.expr(x.X)
		i := c.declare(v.Name)
		return []string{fmt.Sprintf("SRange %d %s %s", i, over, c.block(x.Body.List))}
	}
	return unknown
}

func lastElem(path string) string {
	path = strings.Trim(path, "\"")
	if i := strings.LastIndex(path, "/"); i >= 0 {
		return path[i+1:]
	}
	return path
}

func main() {
	if len(os.Args) != 3 {
		fmt.Fprintln(os.Stderr, "usage: gomodule <repo root> <output .v>")
		os.Exit(2)
	}
	src := filepath.Join(os.Args[1], "v4", "Module.go")
	file, err := parser.ParseFile(fset, src, nil, 0)
	if err != nil {
		fmt.Fprintln(os.Stderr, "gomodule:", err)
		os.Exit(2)
	}
	fc := &fileCtx{imports: map[string]string{}, aliases: map[string]string{}, funcs: map[string]*ast.FuncDecl{}, helper: map[string]string{}}
	for _, im := range file.Imports {
		name := lastElem(im.Path.Value)
		alias := name
		if im.Name != nil {
			alias = im.Name.Name
		}
		fc.imports[alias] = name
	}
	for _, d := range file.Decls {
		switch x := d.(type) {
		case *ast.GenDecl:
			if x.Tok == token.TYPE {
				for _, sp := range x.Specs {
					ts := sp.(*ast.TypeSpec)
					if ts.Assign.IsValid() {
						if sel, ok := ts.Type.(*ast.SelectorExpr); ok {
							if id, ok := sel.X.(*ast.Ident); ok {
								fc.aliases[ts.Name.Name] = fc.imports[id.Name] + "." + sel.Sel.Name
							}
						}
					}
				}
			}
		case *ast.FuncDecl:
			if x.Recv == nil {
				fc.funcs[x.Name.Name] = x
			}
		}
	}
	// private helpers: the functions of the file other than the universal constructors, asType and the notation
	// functions, in the order of their declaration
	skip := map[string]bool{"asType": true, "ParseSource": true, "FormatValue": true, "ImplementsAspect": true, "IsDefined": true, "IsUndefined": true, "CDCN": true, "JSON": true, "XML": true}
	var helpers []string
	for _, d := range file.Decls {
		if fd, ok := d.(*ast.FuncDecl); ok && fd.Recv == nil {
			n := fd.Name.Name
			isU := false
			for _, u := range universal {
				isU = isU || u == n
			}
			if !isU && !skip[n] {
				fc.helper[n] = fmt.Sprintf("h%d", len(helpers))
				helpers = append(helpers, n)
			}
		}
	}
	var b strings.Builder
	b.WriteString("(* GENERATED by tools/gomodule from v4/Module.go on every run of ./check — do not edit. *)\n")
	b.WriteString("From Coq Require Import ZArith List String.\nFrom Verif Require Import ModuleLang.\nImport ListNotations.\nOpen Scope string_scope.\nOpen Scope Z_scope.\n\n")
	emit := func(coqName string, fd *ast.FuncDecl) {
		c := &fnCtx{f: fc, locals: map[string]int{}}
		if fd.Type.TypeParams != nil {
			for _, f := range fd.Type.TypeParams.List {
				for _, n := range f.Names {
					c.tparams = append(c.tparams, n.Name)
				}
			}
		}
		nparams := 0
		for _, f := range fd.Type.Params.List {
			_, variadic := f.Type.(*ast.Ellipsis)
			for _, n := range f.Names {
				if variadic {
					c.variad = n.Name
				} else {
					c.declare(n.Name)
					nparams++
				}
			}
		}
		body := c.block(fd.Body.List)
		pos := fset.Position(fd.Pos())
		fmt.Fprintf(&b, "Definition %s : gen_ctor := (* %s, Module.go:%d *)\n  {| g_name := %s; g_where := %s; g_tparams := %d; g_locals := %d; g_body :=\n    %s |}.\n\n",
			coqName, fd.Name.Name, pos.Line, coqString(fd.Name.Name), coqString(fmt.Sprintf("Module.go:%d", pos.Line)), len(c.tparams), c.nlocals, body)
	}
	var found []string
	for _, n := range universal {
		if fd, ok := fc.funcs[n]; ok {
			emit("gen_"+n, fd)
			found = append(found, n)
		} else {
			fmt.Fprintf(&b, "Definition gen_%s : gen_ctor := {| g_name := %s; g_where := \"missing\"; g_tparams := 0; g_locals := 0; g_body := [SUnknown \"function not found\"] |}.\n\n", n, coqString(n))
		}
	}
	for _, n := range helpers {
		emit("gen_helper_"+n, fc.funcs[n])
	}
	b.WriteString("Definition gen_helpers : list (string * (nat * gen_ctor)) := [")
	for i, n := range helpers {
		if i > 0 {
			b.WriteString("; ")
		}
		fd := fc.funcs[n]
		np := 0
		for _, f := range fd.Type.Params.List {
			np += len(f.Names)
		}
		fmt.Fprintf(&b, "(%s, (%d%%nat, gen_helper_%s))", coqString(fc.helper[n]), np, n)
	}
	b.WriteString("].\n")
	b.WriteString("Definition gen_ctors : list gen_ctor := [gen_Association; gen_Array; gen_Catalog; gen_List; gen_Map; gen_Queue; gen_Set; gen_Stack].\n")
	if old, err := os.ReadFile(os.Args[2]); err == nil && string(old) == b.String() {
		// unchanged: leave the file (and its time stamp) alone, so that nothing that depends on it is compiled again
	} else if err := os.WriteFile(os.Args[2], []byte(b.String()), 0o644); err != nil {
		fmt.Fprintln(os.Stderr, "gomodule:", err)
		os.Exit(2)
	}
	fmt.Printf("gomodule: %d constructors, %d helpers -> %s\n", len(found), len(helpers), os.Args[2])
}
