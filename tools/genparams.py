#!/usr/bin/env python3
"""Translator: regenerates coq/Params.v from /repo's current sources.

Extracts the numeric class constants, the order in which scanTokens tries the token
types, the regular-expression constants of scanner.go (as strings) and the order of the
Rank / TokenType enumerations.  Theorems are parametric in the numbers where possible;
where a bound matters ParamsOk.v proves the side condition by computation on the
regenerated values, so changing a constant in the source re-checks (or breaks) a proof.
Usage: genparams.py <repo-root> <out-file>   (writes only when the content changes)
"""
import re, sys, os

def read(p):
    with open(p, encoding='utf-8') as f:
        return f.read()

def must(m, what):
    if not m:
        sys.stderr.write("genparams: cannot find %s\n" % what)
        sys.exit(3)
    return m

def coq_string(s):
    return '"' + s.replace('"', '""') + '"'

def go_unquote(lit):
    # interpreted Go string literal without the quotes -> python str
    out = []
    i = 0
    while i < len(lit):
        c = lit[i]
        if c == '\\':
            n = lit[i + 1]
            table = {'n': '\n', 't': '\t', '\\': '\\', '"': '"', "'": "'", 'r': '\r'}
            if n in table:
                out.append(table[n]); i += 2
            else:
                out.append('\\' + n); i += 2
        else:
            out.append(c); i += 1
    return ''.join(out)

def indep_facts(v4):
    """Structural facts behind the footprint table of C19 (coq/Indep.v): does every generic class
    accessor hold its mutex around the lookup and the insertion in its registry map; does the
    notation keep ONE formatter / parser (shared mutable state behind every String() call);
    does the sorter class keep ONE ranking function bound to one collator."""
    import glob
    locked = []
    for f in sorted(glob.glob(os.path.join(v4, '*', '*.go'))):
        if f.endswith('_test.go'):
            continue
        src = read(f)
        for m in re.finditer(r'^var (\w+Class) = map\[string\]any\{\}', src, re.M):
            reg = m.group(1)
            stem = reg[:-len('Class')]
            acc = re.search(r'^func (\w+)\[[^\]]*\]\([^)]*\)[^{]*\{(.*?)^\}', src[m.end():], re.M | re.S)
            ok = False
            if acc:
                body = acc.group(2)
                uses = [u.start() for u in re.finditer(re.escape(reg) + r'\[', body)]
                lock = body.find(stem + 'Mutex.Lock()')
                unlock = body.rfind(stem + 'Mutex.Unlock()')
                deferred = re.search(re.escape(stem) + r'Mutex\.Lock\(\)\s*\n\s*defer ' + re.escape(stem) + r'Mutex\.Unlock\(\)', body)
                ok = bool(uses) and lock >= 0 and lock < min(uses) and ((unlock > max(uses)) or (deferred is not None and deferred.start() < min(uses)))
                # ONE critical section: a lookup and an insertion in two separate Lock/Unlock pairs is check-then-act
                ok = ok and body.count(stem + 'Mutex.Lock()') == 1 and body.count(stem + 'Mutex.Unlock()') == 1
                # nothing may touch the map outside the accessor
                outside = src[:m.start()] + src[m.end():m.end() + acc.start()] + src[m.end() + acc.end():]
                if re.search(re.escape(reg) + r'\b', outside):
                    ok = False
            locked.append((os.path.relpath(f, v4) + ':' + reg, ok))
    nota = read(os.path.join(v4, 'cdcn/notation.go'))
    nstruct = must(re.search(r'type notation_ struct \{(.*?)\n\}', nota, re.S), 'notation_ struct').group(1)
    nstruct = re.sub(r'//[^\n]*', '', nstruct)
    shares_fmt = bool(re.search(r'\bFormatterLike\b|\*formatter_\b', nstruct))
    shares_par = bool(re.search(r'\bParserLike\b|\*parser_\b', nstruct))
    sorter = read(os.path.join(v4, 'agent/sorter.go'))
    sstruct = must(re.search(r'type sorterClass_\[V any\] struct \{(.*?)\n\}', sorter, re.S), 'sorterClass_ struct').group(1)
    sstruct = re.sub(r'//[^\n]*', '', sstruct)
    shares_coll = bool(re.search(r'\bRankingFunction\[|\bCollatorLike\[|\*collator_\[', sstruct))
    # does a public call of a collator change the collator (depth counter kept in the instance)?
    coll = read(os.path.join(v4, 'agent/collator.go'))
    pub = re.findall(r'func \(v \*collator_\[V\]\) (CompareValues|RankValues)\([^)]*\)[^{]*\{(.*?)\n\}', coll, re.S)
    shares_depth = len(pub) != 2 or any(re.search(r'\bv\.(depth_|compareValues\(|rankValues\()', re.sub(r'//[^\n]*', '', body)) for _, body in pub)
    b = lambda x: 'true' if x else 'false'
    return [
        "Definition registry_locked : list (string * bool) := [%s]." % '; '.join('(%s, %s)' % (coq_string(n), b(v)) for n, v in locked),
        "Definition notation_shares_formatter : bool := %s." % b(shares_fmt),
        "Definition notation_shares_parser : bool := %s." % b(shares_par),
        "Definition sorter_shares_collator : bool := %s." % b(shares_coll),
        "Definition collator_shares_depth : bool := %s." % b(shares_depth),
    ]

def package_vars(v4):
    """Every package-level `var` of the library (non-test files) with a classification, for C19:
    the expected list is spelled out in coq/Indep.v and compared by computation, so that a NEW
    package-level variable (potential hidden shared mutable state) breaks a proof obligation.
    registry: map[string]any{} filled by a generic accessor; mutex; class-constants: pointer to a
    class struct none of whose methods assigns a field (class-MUTATED otherwise); map-constant: a
    map literal never assigned to in its package (map-MUTATED otherwise); test-hook: only in a
    file with the verif build tag; other: anything else."""
    import glob
    res = []
    for f in sorted(glob.glob(os.path.join(v4, '*.go')) + glob.glob(os.path.join(v4, '*', '*.go'))):
        if f.endswith('_test.go'):
            continue
        src = read(f)
        pkg_src = ''.join(read(g) for g in glob.glob(os.path.join(os.path.dirname(f), '*.go')) if not g.endswith('_test.go'))
        decls = []
        for m in re.finditer(r'^var (\w+)\b([^\n]*)', src, re.M):
            decls.append((m.group(1), m.group(2)))
        for m in re.finditer(r'^var \(\n(.*?)\n\)', src, re.M | re.S):
            for line in m.group(1).split('\n'):
                mm = re.match(r'\s*(\w+)\b(.*)', line)
                if mm and not line.strip().startswith('//'):
                    decls.append((mm.group(1), mm.group(2)))
        tagged = bool(re.search(r'^//go:build\s+verif\b', src, re.M))
        for name, rest in decls:
            rest = rest.strip()
            if tagged:
                kind = 'test-hook'
            elif re.match(r'=\s*map\[string\]any\{\}', rest):
                kind = 'registry'
            elif re.match(r'syn\.(RW)?Mutex\b', rest):
                kind = 'mutex'
            elif re.match(r'=\s*&(\w+Class_)\{', rest):
                cls = re.match(r'=\s*&(\w+Class_)\{', rest).group(1)
                mutated = False
                for mm in re.finditer(r'^func \((\w+) \*' + cls + r'\) \w+\([^{]*\{(.*?)^\}', pkg_src, re.M | re.S):
                    if re.search(r'\b' + mm.group(1) + r'\.\w+\s*(=[^=]|\+\+|--|\+=|-=)', mm.group(2)):
                        mutated = True
                if re.search(r'\b' + name + r'\.\w+\s*(=[^=]|\+\+|--|\+=|-=)', pkg_src):
                    mutated = True
                kind = 'class-MUTATED' if mutated else 'class-constants'
            elif re.match(r'=\s*map\[\w+\]\w+\{', rest):
                kind = 'map-MUTATED' if re.search(r'\b' + name + r'\[[^\]]*\]\s*(=[^=]|\+\+|--)', pkg_src) or re.search(r'delete\(' + name + r'\b', pkg_src) else 'map-constant'
            else:
                kind = 'other'
            res.append((os.path.relpath(f, v4) + ':' + name, kind))
    return ["Definition package_vars : list (string * string) := [\n  %s]." % ';\n  '.join('(%s, %s)' % (coq_string(n), coq_string(k)) for n, k in res)]

FOOT_STUB = """(* GENERATED by tools/genparams.py: tools/gofootprint could not be built or run - do not edit. *)
From Coq Require Import List String Bool.
Import ListNotations.
Open Scope string_scope.
Definition foot_tool_ok : bool := false.
Definition foot_tool_error : string := %s.
Definition foot_fields : list (string * string * string) := [].
Definition foot_class_mutable : list (string * string * string) := [].
Definition foot_foreign_writes : list (string * string * string) := [].
Definition foot_shared_edges : list (string * string) := [].
Definition foot_pkgvars : list (string * string) := [].
Definition foot_pkgvar_writers : list (string * string * string * string) := [].
Definition foot_pkgvar_unguarded : list (string * string * string) := [].
Definition foot_exported_vars : list string := [].
Definition foot_accessors : list (string * string * (bool * bool * bool * bool)) := [].
Definition foot_methods : list (string * string * string * (list string * list string * list string * list string)) := [].
Definition foot_escapes : list (string * string) := [].
Definition foot_api : list (string * string * string) := [].
Definition foot_storage_writes : list (string * string) := [].
Definition foot_field_sets : list (string * string * string) := [].
Definition foot_publish_once : list string := [].
Definition foot_verif_exported_vars : list string := [].
Definition foot_verif_pkgvar_unguarded : list (string * string * string) := [].
Definition foot_verif_pkgvars : list (string * string) := [].
"""

def footprint(root, outp):
    """Static footprint facts of C19 (coq/ParamsFoot.v, next to Params.v): tools/gofootprint (go/ast + go/types over the
    non-test files of v4/{agent,collection,cdcn} and v4/Module.go, once without and once with the build tag verif).
    The full report with source positions goes to build/footprint.json (used by the driver for replay files).
    A failure of the tool itself never breaks the common build: a stub with foot_tool_ok = false is written, which
    only the C19 obligations in coq/IndepStatic.v (compiled by ./check C19) reject."""
    import subprocess
    here = os.path.dirname(os.path.abspath(__file__))
    build = os.path.join(os.path.dirname(here), 'build')
    os.makedirs(build, exist_ok=True)
    foot = os.path.join(os.path.dirname(os.path.abspath(outp)), 'ParamsFoot.v')
    binp = os.path.join(build, 'gofootprint')
    env = dict(os.environ, GOFLAGS='-mod=mod', GOPROXY='off', GOSUMDB='off', GOTOOLCHAIN='local', CGO_ENABLED='0')
    err = None
    try:
        p = subprocess.run(['timeout', '300', 'go', 'build', '-o', binp, '.'], cwd=os.path.join(here, 'gofootprint'), env=env,
                           stdout=subprocess.PIPE, stderr=subprocess.STDOUT, text=True)
        if p.returncode != 0:
            err = 'go build of tools/gofootprint failed: ' + p.stdout[-400:]
        else:
            p = subprocess.run(['timeout', '300', binp, '-coq', foot, '-json', os.path.join(build, 'footprint.json'), os.path.join(root, 'v4')],
                               env=env, stdout=subprocess.PIPE, stderr=subprocess.STDOUT, text=True)
            if p.returncode != 0:
                err = 'tools/gofootprint failed: ' + p.stdout[-400:]
            else:
                print(p.stdout.strip().split('\n')[0])
    except OSError as e:
        err = 'tools/gofootprint could not be run: %s' % e
    if err is not None:
        text = FOOT_STUB % coq_string(' '.join(err.split()))
        old = read(foot) if os.path.exists(foot) else None
        if old != text:
            with open(foot, 'w', encoding='utf-8') as f:
                f.write(text)
        print('gofootprint: FAILED (stub written): ' + ' '.join(err.split())[:300])

def main():
    root, outp = sys.argv[1], sys.argv[2]
    v4 = os.path.join(root, 'v4')
    queue = read(os.path.join(v4, 'collection/queue.go'))
    stack = read(os.path.join(v4, 'collection/stack.go'))
    coll = read(os.path.join(v4, 'agent/collator.go'))
    fmtr = read(os.path.join(v4, 'cdcn/formatter.go'))
    pars = read(os.path.join(v4, 'cdcn/parser.go'))
    scan = read(os.path.join(v4, 'cdcn/scanner.go'))
    agentpkg = read(os.path.join(v4, 'agent/Package.go'))
    cdcnpkg = read(os.path.join(v4, 'cdcn/Package.go'))

    qcap = int(must(re.search(r'defaultCapacity_:\s*(\d+)', queue), 'queue defaultCapacity_').group(1))
    scap = int(must(re.search(r'defaultCapacity_:\s*(\d+)', stack), 'stack defaultCapacity_').group(1))
    cmax = int(must(re.search(r'defaultMaximum_:\s*(\d+)', coll), 'collator defaultMaximum_').group(1))
    fmax = int(must(re.search(r'defaultMaximum_:\s*(\d+)', fmtr), 'formatter defaultMaximum_').group(1))
    pq = int(must(re.search(r'queueSize_:\s*(\d+)', pars), 'parser queueSize_').group(1))
    ps = int(must(re.search(r'stackSize_:\s*(\d+)', pars), 'parser stackSize_').group(1))

    # order of token attempts in scanTokens
    body = must(re.search(r'func \(v \*scanner_\) scanTokens\(\) \{(.*?)\n\}', scan, re.S), 'scanTokens').group(1)
    order = re.findall(r'case v\.foundToken\((\w+)Token\)', body)
    if not order:
        sys.stderr.write("genparams: no foundToken cases\n"); sys.exit(3)

    # the regexp constants: name_ = "..." + other_ + "..."
    cblock = must(re.search(r'const \(\n(\s*base10_.*?)\n\)', scan, re.S), 'scanner const block').group(1)
    consts = {}
    raw = {}
    for line in cblock.split('\n'):
        m = re.match(r'\s*(\w+_)\s*=\s*(.*)$', line)
        if m:
            raw[m.group(1)] = m.group(2).strip()
    def expand(name, seen=()):
        if name in consts:
            return consts[name]
        if name in seen:
            sys.stderr.write("genparams: cyclic const %s\n" % name); sys.exit(3)
        expr = raw[name]
        parts = []
        # split on + outside string literals
        toks = re.findall(r'"(?:[^"\\]|\\.)*"|\w+_', expr)
        for t in toks:
            if t.startswith('"'):
                parts.append(go_unquote(t[1:-1]))
            else:
                parts.append(expand(t, seen + (name,)))
        consts[name] = ''.join(parts)
        return consts[name]
    for name in raw:
        expand(name)

    # enumerations
    ranks = re.findall(r'^\s*(\w+Rank)\b', must(re.search(r'const \(\n(\s*LesserRank Rank = iota.*?)\n\)', agentpkg, re.S), 'Rank enum').group(1), re.M)
    toks = re.findall(r'^\s*(\w+)Token\b', must(re.search(r'const \(\n(\s*ErrorToken TokenType = iota.*?)\n\)', cdcnpkg, re.S), 'TokenType enum').group(1), re.M)

    lines = []
    lines.append("(* GENERATED by tools/genparams.py from /repo's sources — do not edit. *)")
    lines.append("From Coq Require Import ZArith List String.")
    lines.append("Import ListNotations.")
    lines.append("Open Scope Z_scope.")
    lines.append("Open Scope string_scope.")
    lines.append("Definition queue_default_capacity : Z := %d." % qcap)
    lines.append("Definition stack_default_capacity : Z := %d." % scap)
    lines.append("Definition collator_default_maximum : Z := %d." % cmax)
    lines.append("Definition formatter_default_maximum : Z := %d." % fmax)
    lines.append("Definition parser_queue_size : Z := %d." % pq)
    lines.append("Definition parser_stack_size : Z := %d." % ps)
    lines.append("Definition scan_order : list string := [%s]." % '; '.join(coq_string(x) for x in order))
    lines.append("Definition rank_enum : list string := [%s]." % '; '.join(coq_string(x) for x in ranks))
    lines.append("Definition token_enum : list string := [%s]." % '; '.join(coq_string(x) for x in toks))
    wanted = ['boolean_', 'complex_', 'delimiter_', 'eol_', 'float_', 'hexadecimal_', 'integer_',
              'nil_', 'rune_', 'space_', 'string_', 'type_']
    items = []
    for w in wanted:
        if w not in consts:
            sys.stderr.write("genparams: missing regexp constant %s\n" % w); sys.exit(3)
        items.append("(%s, %s)" % (coq_string(w), coq_string(consts[w])))
    lines.append("Definition token_regexps : list (string * string) := [\n  %s]." % ';\n  '.join(items))
    lines += indep_facts(v4)
    lines += package_vars(v4)
    text = '\n'.join(lines) + '\n'
    old = None
    if os.path.exists(outp):
        old = read(outp)
    if old != text:
        with open(outp, 'w', encoding='utf-8') as f:
            f.write(text)
        print("genparams: wrote", outp)
    else:
        print("genparams: unchanged")
    footprint(root, outp)

if __name__ == '__main__':
    main()
