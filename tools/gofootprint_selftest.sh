#!/bin/sh
# Self-test of the static footprint extraction of C19 (not a registered check).
#   tools/gofootprint_selftest.sh            mutants through ./check C19, harmless edits through the static part only
#   FULL=1 tools/gofootprint_selftest.sh     everything through ./check C19 (about 3 minutes each)
#   STATIC=1 tools/gofootprint_selftest.sh   everything through the static part only (seconds each)
# It edits the library worktree $VERIF_REPO (default /repo) and restores it with `git checkout -- .` after every step:
# run it against a scratch worktree.  Results: build/selftest/footprint.txt (one line per edit) and build/selftest/<name>.log.
set -u
here=$(cd "$(dirname "$0")/.." && pwd)
repo=${VERIF_REPO:-/repo}
export GOFLAGS=-mod=mod GOPROXY=off GOSUMDB=off GOTOOLCHAIN=local VERIF_REPO="$repo"
out="$here/build/selftest"
mkdir -p "$out"
: > "$out/footprint.txt"
cd "$here" || exit 2
if [ -n "$(git -C "$repo" status --porcelain -- v4)" ]; then
  echo "selftest: $repo has local changes under v4, refusing to run" >&2
  exit 2
fi

restore() { git -C "$repo" checkout -- . ; }
trap restore EXIT INT TERM

static_only() {  # regenerate the tables, rebuild what depends on them, compile the late file; prints the words
  python3 - "$here" <<'EOF'
import importlib.machinery, importlib.util, json, os, subprocess, sys
root = sys.argv[1]
loader = importlib.machinery.SourceFileLoader('check', os.path.join(root, 'check'))
spec = importlib.util.spec_from_loader('check', loader)
drv = importlib.util.module_from_spec(spec)
sys.modules['check'] = drv
loader.exec_module(drv)
rc, out = drv.run([sys.executable, os.path.join(root, 'tools', 'genparams.py'), drv.REPO, os.path.join(drv.COQ, 'Params.v')])
print(out.strip())
rc, out = drv.run(['timeout', '3000', 'make', '-j8'], cwd=drv.COQ)
import footdiff
if rc != 0:
    import re
    m = re.search(r'File "\./(\w+\.v)", line (\d+)', out)
    print('STATIC: COMMON BUILD BROKEN at %s (an obligation of the common build that computes on Params.v; ./check reports it for every property); static differences:' % (m.group(1) + ' line ' + m.group(2) if m else '?'))
    for d in footdiff.differences(drv)[0]:
        print('  - ' + d['words'] + '  [lemma ' + d['lemma'] + ']')
    sys.exit(3)
res = footdiff.run_late(drv, 'C19', ['IndepStatic.v'])
if res['ok']:
    print('STATIC: ok (%.1fs)' % res['seconds'])
    sys.exit(0)
print('STATIC: FAILED lemmas=%s first=%s' % (','.join(res.get('failing_lemmas') or []), res['failures'][0]['first_failing_lemma']))
for w in res.get('difference_in_words') or []:
    print('  - ' + w)
sys.exit(1)
EOF
}

run_one() {  # name, expectation (raise|quiet), mode (full|static)
  name=$1; expect=$2; mode=$3
  log="$out/$name.log"
  if [ "$mode" = full ]; then
    timeout 1500 ./check C19 > "$log" 2>&1
    rc=$?
    viol=$(grep -c '^VIOLATION' "$log")
    words=""
    for r in $(grep '^VIOLATION' "$log" | sed 's/.*replay=\([^ ]*\).*/\1/'); do
      python3 - "$r" >> "$log" <<'EOF'
import json, sys
r = json.load(open(sys.argv[1]))
st = r.get('static_explanation') or r
print('--- static part of %s (kind=%s case=%s) ---' % (sys.argv[1], r.get('kind'), r.get('case')))
for k in ('lemma', 'failing_lemmas'):
    if r.get(k): print('%s: %s' % (k, r[k]))
if st.get('what'): print(st['what'])
for w in st.get('difference_in_words') or []:
    print('  - ' + w)
EOF
    done
    nstat=$(grep -c '^  - ' "$log")
    suffix=$(grep '^VIOLATION' "$log" | grep -c 'no-failing-input-found')
    summary="check exit=$rc violations=$viol (with no-failing-input-found: $suffix) static differences reported=$nstat"
  else
    static_only > "$log" 2>&1
    rc=$?
    nstat=$(grep -c '^  - ' "$log")
    summary="static exit=$rc static differences reported=$nstat $(grep '^STATIC' "$log" | head -1)"
  fi
  verdict=ok
  if [ "$expect" = raise ] && [ "$nstat" -eq 0 ]; then verdict=MISSED; fi
  if [ "$expect" = quiet ] && { [ "$rc" -ne 0 ] || [ "$nstat" -ne 0 ]; }; then verdict=FALSE-ALARM; fi
  echo "$name | expected: $expect | $summary | $verdict" | tee -a "$out/footprint.txt"
  grep '^  - ' "$log" | sed 's/^/      /' >> "$out/footprint.txt"
  restore
}

mode_mut=full; mode_harmless=static
[ "${FULL:-0}" = 1 ] && mode_harmless=full
[ "${STATIC:-0}" = 1 ] && mode_mut=static

# --- the seeded changes that must be reported
git -C "$repo" apply "$here/seeded/C19-A/patch.diff" && run_one C19-A raise $mode_mut
git -C "$repo" apply "$here/seeded/C19-B/patch.diff" && run_one C19-B raise $mode_mut
if git -C "$repo" apply --check "$here/seeded/C09-A/patch.diff" 2>/dev/null; then
  git -C "$repo" apply "$here/seeded/C09-A/patch.diff" && run_one C09-A raise $mode_mut
else
  # seeded/C09-A/patch.diff was made against a tree in which sorterClass_ still had defaultRanker_: the same change ported
  git -C "$repo" apply "$here/tools/gofootprint_selftest.d/C09-A-ported.diff" && run_one C09-A-ported raise $mode_mut
fi

# --- further changes of the same class (static part only: seconds each)
for m in mutant-accessor-returns-local mutant-formatter-pool mutant-set-class-collator; do
  git -C "$repo" apply "$here/tools/gofootprint_selftest.d/$m.diff" && run_one $m raise static
done

# --- harmless edits that must not raise anything
sed -i 's/\bbuffer\b/scratchCopy/g' "$repo/v4/agent/sorter.go" && run_one harmless-rename-local quiet $mode_harmless
git -C "$repo" apply "$here/tools/gofootprint_selftest.d/harmless-class-constant.diff" && run_one harmless-class-constant quiet $mode_harmless
git -C "$repo" apply "$here/tools/gofootprint_selftest.d/harmless-reader-method.diff" && run_one harmless-reader-method quiet $mode_harmless

# --- back to the unchanged tree
restore
static_only > "$out/unchanged.log" 2>&1
echo "unchanged tree | $(grep '^STATIC' "$out/unchanged.log" | head -1)" | tee -a "$out/footprint.txt"
if grep -q 'MISSED\|FALSE-ALARM' "$out/footprint.txt"; then exit 1; fi
exit 0
