#!/bin/sh
# Self-test of the static extractions of tools/gofootprint (not a registered check):
#   the footprint tables of C19 (late file IndepStatic.v) and the aliasing tables of C18 / C17 (late file AliasStatic.v).
#   tools/gofootprint_selftest.sh            seeded changes through ./check <property>, harmless edits through the static part only
#   FULL=1 tools/gofootprint_selftest.sh     everything through ./check
#   STATIC=1 tools/gofootprint_selftest.sh   everything through the static part only (seconds each)
#   PART=c19 | PART=c18 | PART=rename        only one of the parts (default: all)
# It edits the library worktree $VERIF_REPO (default /repo) and restores it with `git checkout -- .` after every step:
# run it against a scratch worktree.  Results: build/selftest/footprint.txt (one line per edit and property, then the
# differences in words) and build/selftest/<name>-<property>.log.
set -u
here=$(cd "$(dirname "$0")/.." && pwd)
repo=${VERIF_REPO:-/repo}
export GOFLAGS=-mod=mod GOPROXY=off GOSUMDB=off GOTOOLCHAIN=local VERIF_REPO="$repo"
out="$here/build/selftest"
mkdir -p "$out"
: > "$out/footprint.txt"
cd "$here" || exit 2
if [ -n "$(git -C "$repo" status --porcelain -- v4)" ]; then
  echo "selftest: $repo has local changes under v4, refusing to run" >&2
  exit 2
fi

restore() { git -C "$repo" checkout -- . ; }
trap restore EXIT INT TERM

static_only() {  # <late file>: regenerate the tables, rebuild what depends on them, compile the late file; prints the words
  python3 - "$here" "$1" <<'EOF'
import importlib.machinery, importlib.util, json, os, re, subprocess, sys
root, late = sys.argv[1], sys.argv[2]
loader = importlib.machinery.SourceFileLoader('check', os.path.join(root, 'check'))
spec = importlib.util.spec_from_loader('check', loader)
drv = importlib.util.module_from_spec(spec)
sys.modules['check'] = drv
loader.exec_module(drv)
rc, out = drv.run([sys.executable, os.path.join(root, 'tools', 'genparams.py'), drv.REPO, os.path.join(drv.COQ, 'Params.v')])
print(out.strip())
rc, out = drv.run(['timeout', '3000', 'make', '-k', '-j8'], cwd=drv.COQ)
import footdiff
if rc != 0:
    broken = sorted(set(re.findall(r'File "\./(\w+\.v)", line \d+', out)))
    print('(common build: %s no longer compile(s): an older obligation that computes on Params.v; reported through the stale files of the property)' % ', '.join(broken))
res = footdiff.run_late(drv, 'selftest', [late])
if res['ok']:
    print('STATIC: ok (%.1fs)' % res['seconds'])
    sys.exit(0)
print('STATIC: FAILED lemmas=%s first=%s' % (','.join(res.get('failing_lemmas') or []), res['failures'][0]['first_failing_lemma']))
for w in res.get('difference_in_words') or []:
    print('  - ' + w)
sys.exit(1)
EOF
}

run_one() {  # name, expectation (raise|quiet), mode (full|static), late file, properties...
  name=$1; expect=$2; mode=$3; late=$4; shift 4
  if [ "$mode" = full ]; then
    for prop in "$@"; do
      log="$out/$name-$prop.log"
      timeout 1500 ./check "$prop" > "$log" 2>&1
      rc=$?
      viol=$(grep -c '^VIOLATION' "$log")
      for r in $(grep '^VIOLATION' "$log" | sed 's/.*replay=\([^ ]*\).*/\1/'); do
        python3 - "$r" >> "$log" <<'EOF'
import json, re, sys
r = json.load(open(sys.argv[1]))
st = r.get('static_explanation') or r
print('--- static part of %s (kind=%s case=%s) ---' % (sys.argv[1], r.get('kind'), r.get('case')))
lem = r.get('failing_lemmas')
if not lem and st.get('what'):
    m = re.search(r'failing: ([^)]*)\)', st['what'])
    lem = m.group(1).split(', ') if m else None
if not lem:
    lem = sorted(set(re.findall(r'\[lemma (\w+)', ' '.join(st.get('difference_in_words') or []))))
print('LEMMAS: ' + ','.join(lem or []))
for w in st.get('difference_in_words') or []:
    print('  - ' + w)
EOF
      done
      nstat=$(grep '^  - ' "$log" | sort -u | wc -l)
      lemmas=$(grep '^LEMMAS: ' "$log" | head -1 | sed 's/^LEMMAS: //')
      suffix=$(grep '^VIOLATION' "$log" | grep -c 'no-failing-input-found')
      mism=$(grep -o '[0-9]* mismatches' "$log" | head -1)
      verdict=ok
      case "$prop" in
        C17|C18|C19)
          if [ "$expect" = raise ] && [ "$nstat" -eq 0 ]; then verdict=MISSED-STATICALLY; fi ;;
        *) verdict="(no static part: dynamic result only)" ;;
      esac
      if [ "$expect" = quiet ] && { [ "$rc" -ne 0 ] || [ "$nstat" -ne 0 ]; }; then verdict=FALSE-ALARM; fi
      echo "$name | ./check $prop exit=$rc | $mism | VIOLATION lines=$viol (no-failing-input-found: $suffix) | static differences=$nstat lemmas=$lemmas | expected: $expect | $verdict" | tee -a "$out/footprint.txt"
      grep '^  - ' "$log" | sort -u | sed 's/^/      /' >> "$out/footprint.txt"
    done
  else
    log="$out/$name-static.log"
    static_only "$late" > "$log" 2>&1
    rc=$?
    nstat=$(grep -c '^  - ' "$log")
    verdict=ok
    if [ "$expect" = raise ] && [ "$nstat" -eq 0 ]; then verdict=MISSED-STATICALLY; fi
    if [ "$expect" = quiet ] && { [ "$rc" -ne 0 ] || [ "$nstat" -ne 0 ]; }; then verdict=FALSE-ALARM; fi
    echo "$name | static part ($late) exit=$rc | static differences=$nstat $(grep '^STATIC' "$log" | head -1) | expected: $expect | $verdict" | tee -a "$out/footprint.txt"
    grep '^  - ' "$log" | sed 's/^/      /' >> "$out/footprint.txt"
  fi
  restore
}

mode_mut=full; mode_harmless=static
[ "${FULL:-0}" = 1 ] && mode_harmless=full
[ "${STATIC:-0}" = 1 ] && mode_mut=static
part=${PART:-all}

if [ "$part" = all ] || [ "$part" = c19 ]; then
  echo "== C19: footprint tables (IndepStatic.v)" | tee -a "$out/footprint.txt"
  # --- the seeded changes that must be reported
  git -C "$repo" apply "$here/seeded/C19-A/patch.diff" && run_one C19-A raise $mode_mut IndepStatic.v C19
  git -C "$repo" apply "$here/seeded/C19-B/patch.diff" && run_one C19-B raise $mode_mut IndepStatic.v C19
  if git -C "$repo" apply --check "$here/seeded/C09-A/patch.diff" 2>/dev/null; then
    git -C "$repo" apply "$here/seeded/C09-A/patch.diff" && run_one C09-A raise $mode_mut IndepStatic.v C19
  else
    # seeded/C09-A/patch.diff was made against a tree in which sorterClass_ still had defaultRanker_: the same change ported
    git -C "$repo" apply "$here/tools/gofootprint_selftest.d/C09-A-ported.diff" && run_one C09-A-ported raise $mode_mut IndepStatic.v C19
  fi
  # --- further changes of the same class (static part only: seconds each)
  for m in mutant-accessor-returns-local mutant-formatter-pool mutant-set-class-collator; do
    git -C "$repo" apply "$here/tools/gofootprint_selftest.d/$m.diff" && run_one $m raise static IndepStatic.v
  done
  # --- harmless edits that must not raise anything
  sed -i 's/\bbuffer\b/scratchCopy/g' "$repo/v4/agent/sorter.go" && run_one harmless-rename-local quiet $mode_harmless IndepStatic.v C19
  git -C "$repo" apply "$here/tools/gofootprint_selftest.d/harmless-class-constant.diff" && run_one harmless-class-constant quiet $mode_harmless IndepStatic.v C19
  git -C "$repo" apply "$here/tools/gofootprint_selftest.d/harmless-reader-method.diff" && run_one harmless-reader-method quiet $mode_harmless IndepStatic.v C19
fi

if [ "$part" = all ] || [ "$part" = c18 ]; then
  echo "== C18 / C17: aliasing tables (AliasStatic.v)" | tee -a "$out/footprint.txt"
  # seed and the properties to run: C18 always, and the seed's own property where it is another one
  for sp in "C18-A C18" "C18-B C18" "C15-B C18 C15" "C16-A C18 C16" "C01-A C18 C01" "C13-B C18 C13" "C14-B C18 C14" "C15-D C18 C15" \
            "C18-D C18" "C18-C C18" "C17-B C18 C17" "C17-D C18 C17" "C02-D C18 C02" "C09-C C18 C09" "C13-C C18 C13"; do
    set -- $sp
    seed=$1; shift
    git -C "$repo" apply "$here/seeded/$seed/patch.diff" && run_one "$seed" raise $mode_mut AliasStatic.v "$@"
  done
  for h in H01 H08 H09 H12 H14; do
    git -C "$repo" apply "$here/seeded/benign/$h/patch.diff" && run_one "benign-$h" quiet $mode_harmless AliasStatic.v C18
  done
fi

if [ "$part" = all ] || [ "$part" = rename ]; then
  echo "== renamings / reorderings / additions that must change no obligation (canonical identifiers)" | tee -a "$out/footprint.txt"
  for h in H04 H05 H06 H12 H13; do
    git -C "$repo" apply "$here/seeded/benign/$h/patch.diff" && run_one "benign-$h" quiet $mode_harmless AliasStatic.v C17 C18
    git -C "$repo" apply "$here/seeded/benign/$h/patch.diff" && run_one "benign-$h" quiet $mode_harmless IndepStatic.v C19
  done
fi

# --- back to the unchanged tree
restore
for late in IndepStatic.v AliasStatic.v; do
  static_only "$late" > "$out/unchanged-$late.log" 2>&1
  echo "unchanged tree | $late | $(grep '^STATIC' "$out/unchanged-$late.log" | head -1)" | tee -a "$out/footprint.txt"
done
if grep -q 'MISSED-STATICALLY\|FALSE-ALARM' "$out/footprint.txt"; then exit 1; fi
exit 0
