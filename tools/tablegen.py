"""The lemmas about the dispatch TABLES regenerated from the Go sources on every run (coq/GenModule.v by tools/gomodule from
v4/Module.go; coq/GenCollate.v by tools/gocollate from v4/agent/collator.go): the late files named by "table_proofs" in
tools/props.d/Cxx.json are compiled here, after the correspondence run of the property, not in the common build.  The generated
files are pure data and always compile; what can fail because the Go source changed is a lemma of a late file."""
import glob, json, os, re, time


def enclosing_lemma(path, line):
    name = None
    for i, l in enumerate(open(path).read().split('\n'), 1):
        m = re.match(r'\s*(Theorem|Lemma|Corollary|Example|Fact|Proposition)\s+(\w+)', l)
        if m:
            name = m.group(2)
        if i >= line:
            break
    return name


def provenance(coq):
    prov = []
    for gv in ('GenModule.v', 'GenCollate.v'):
        p = os.path.join(coq, gv)
        if os.path.exists(p):
            prov += ['%s: %s' % (gv, x) for x in re.findall(r'\(\* ([\w.]+, [\w./]+\.go:\d+) \*\)', open(p).read())]
    return prov


def flat(tp):
    return [f for e in tp for f in (e if isinstance(e, list) else [e])]


def table_check(drv, violation, pid, cfg, info, seed, tier, viol_so_far):
    coq = drv.COQ
    ev = dict(translators=dict(gomodule=info.get('gomodule'), gocollate=info.get('gocollate')), table_proofs=cfg['table_proofs'],
              provenance=provenance(coq))
    t0 = time.time()
    failed, out = None, ''
    outs = []

    def compile_one(f):
        return f, drv.coqc_cached(f)

    with drv.Lock():
        # an entry of "table_proofs" that is itself a list is a group of files without dependencies among them: compiled in parallel
        for entry in cfg['table_proofs']:
            group = entry if isinstance(entry, list) else [entry]
            if len(group) > 1:
                from concurrent.futures import ThreadPoolExecutor
                with ThreadPoolExecutor(max_workers=min(8, len(group))) as ex:
                    results = list(ex.map(compile_one, group))
            else:
                results = [compile_one(group[0])]
            for f, (rc, o) in results:
                if rc != 0 and failed is None:
                    failed, out = f, o
                if rc != 0:
                    vo = os.path.join(coq, f[:-2] + '.vo')
                    if os.path.exists(vo):
                        os.remove(vo)
                else:
                    outs.append((f, o))
            if failed is not None:
                break
    ev['table_proofs_s'] = round(time.time() - t0, 1)
    if failed is None:
        bad = []
        pa = []
        for f, o in outs:
            names = re.findall(r'Print Assumptions\s+(\w+)', open(os.path.join(coq, f)).read())
            pa.append('Print Assumptions of %s (in order %s): %s' % (f, ', '.join(names), ' | '.join(l.rstrip() for l in o.split('\n') if l.strip())))
            bad += [l for l in o.split('\n') if l.strip() and 'Closed under the global context' not in l]
        ev['print_assumptions'] = pa
        if bad:
            violation(drv, pid, dict(property=pid, seed=seed, tier=tier, case='tableproof', kind='proof-obligation',
                                     theorem_or_correspondence='%s compile but their theorems are not closed under the global context' % ', '.join(flat(cfg['table_proofs'])),
                                     output='\n'.join(bad)[-3000:]), 'no-failing-input-found')
            return 1, ev
        return 0, ev
    m = re.search(r'File "[^"]*?([\w.]+\.v)", line (\d+), characters', out)
    lemma = enclosing_lemma(os.path.join(coq, m.group(1)), int(m.group(2))) if m else None
    where = '%s:%s' % (m.group(1), m.group(2)) if m else failed
    ev['failed'] = dict(file=failed, lemma=lemma, at=where)
    common = dict(property=pid, seed=seed, tier=tier, kind='regenerated-table', lemma_that_no_longer_checks=lemma, at=where, coqc_output=out[-2500:],
                  provenance=ev['provenance'], rerun='./check %s' % pid,
                  explanation='the lemma named here states that the table regenerated from the current Go source (coq/GenModule.v / coq/GenCollate.v), with the meaning '
                              'given to it by the interpreter (coq/ModuleSem.v) or by the model\'s own tables, is the hand-written model the theorems of %s are about; it no longer checks' % pid)
    if viol_so_far == 0:
        violation(drv, pid, dict(common, case='tablegen',
                                 theorem_or_correspondence='the lemma %s of %s about the tables regenerated from the current source no longer checks; the correspondence run on the real code found no failing input in this run' % (lemma, failed)),
                  'no-failing-input-found')
        return 1, ev
    ev['explains_correspondence'] = True
    for rp in glob.glob(os.path.join(drv.BUILD, 'replay', pid + '-*.json')):
        try:
            r = json.load(open(rp))
            r['regenerated_table_explanation'] = {k: common[k] for k in ('lemma_that_no_longer_checks', 'at', 'explanation')}
            json.dump(r, open(rp, 'w'), indent=1)
        except Exception:
            pass
    return 0, ev
