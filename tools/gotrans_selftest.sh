#!/bin/sh
# Self-test of the Go -> MiniGo machinery (not a registered check): applies, one at a time, small edits to the
# library worktree $VERIF_REPO, runs ./check for the property, prints what was reported, and undoes the edit.
# usage: VERIF_REPO=<scratch worktree of the library> tools/gotrans_selftest.sh [out-file]
# The worktree must be clean; it is restored with "git checkout -- ." after each edit.
set -u
ROOT=$(cd "$(dirname "$0")/.." && pwd)
REPO=${VERIF_REPO:?set VERIF_REPO to a scratch worktree of the library}
OUT=${1:-$ROOT/build/gotrans_selftest.txt}
export GOFLAGS=-mod=mod GOPROXY=off GOSUMDB=off GOTOOLCHAIN=local
mkdir -p "$ROOT/build"
: > "$OUT"
if [ -n "$(cd "$REPO" && git status --porcelain)" ]; then echo "worktree $REPO is not clean" >&2; exit 2; fi

summarize() {  # property
  python3 - "$ROOT" "$1" <<'PY'
import glob, json, sys
root, pid = sys.argv[1], sys.argv[2]
for f in sorted(glob.glob('%s/build/replay/%s-*.json' % (root, pid))):
    e = json.load(open(f))
    if e.get('kind') in ('generated-code',) or e.get('stage') == 'gotrans' or e.get('case') in ('genproof', 'gentrans'):
        print('   replay %s: kind=%s lemma=%s at=%s' % (f.split('/')[-1], e.get('kind'), e.get('lemma_that_no_longer_checks'), e.get('at')))
        if e.get('failing_input'): print('     failing input: ' + e['failing_input'][:600])
        if e.get('translator_messages'): print('     translator: ' + '; '.join(e['translator_messages']))
        if e.get('theorem_or_correspondence'): print('     ' + e['theorem_or_correspondence'][:300])
PY
}

run_case() {  # name property edit-command
  name=$1; pid=$2; shift 2
  echo "=== $name (property $pid)" | tee -a "$OUT"
  (cd "$REPO" && "$@") || { echo "   edit failed" | tee -a "$OUT"; (cd "$REPO" && git checkout -- .); return; }
  (cd "$REPO" && git diff --stat | tail -1) | tee -a "$OUT"
  t0=$(date +%s)
  (cd "$ROOT" && timeout 1800 ./check "$pid") > "$ROOT/build/selftest_$pid.log" 2>&1
  rc=$?
  t1=$(date +%s)
  echo "   exit=$rc  seconds=$((t1 - t0))" | tee -a "$OUT"
  grep -E '^VIOLATION|^\(a proof about|no-failing-input-found' "$ROOT/build/selftest_$pid.log" | sed 's/^/   /' | tee -a "$OUT"
  summarize "$pid" | tee -a "$OUT"
  (cd "$REPO" && git checkout -- .)
}

run_case "(i) iterator_.ToSlot lower clamp rewritten (seeded/C17-A)" C17 git apply "$ROOT/seeded/C17-A/patch.diff"
run_case "(ii) array_.SetValues bound (seeded/C01-B)" C01 git apply "$ROOT/seeded/C01-B/patch.diff"
run_case "(iii) stack_.AddValue checks the capacity after inserting (seeded/C13-A)" C13 git apply "$ROOT/seeded/C13-A/patch.diff"
run_case "(iv) harmless rewrite: index - 1 -> -1 + index in array_.toZeroBased" C01 sed -i 's/\t\treturn index - 1$/\t\treturn -1 + index/' v4/collection/array.go
run_case "(v) outside the subset: a defer in iterator_.ToStart" C17 sed -i 's/^\tv.slot_ = 0$/\tdefer func() {}()\n\tv.slot_ = 0/' v4/agent/iterator.go
# leave the generated file and the proofs as they are on the unchanged tree
(cd "$ROOT" && build/gotrans "$REPO" coq/GenSrc.v build/gotrans.json >/dev/null 2>&1)
echo "written: $OUT"
