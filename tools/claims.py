"""Additional claimed properties (merged into MANIFEST.json by mkmanifest.py)."""
CLAIMED = {
 'C13': ("StackProofs.v: for every history the size never exceeds the capacity, push on a full stack and pop on an empty one panic and leave the stack unchanged, pop returns the most recently added value, constructors size the capacity to max(default, number of initial values); correspondence: pool histories with capacities 0..5,17 and default, initial arrays of 0..33 values, pushes past capacity, pops past empty",
         "invariant proof over histories + differential execution", '7 C13'),
 'C18': ("PoolFrame.v: frame theorem for the whole pool interpreter — a step changes no existing object other than its receiver, creates at most one new object, a failing call changes nothing; corollaries: products independent of sources and vice versa, iterator snapshots stable, receiver-aliased bulk ops equal the op on a copy (weak in the functional model: the assurance that the CODE copies comes from the correspondence, which observes every live object after every op and writes through both sides)",
         "frame proof over the pool model + differential execution built for aliasing", '7 C18'),
}
PENDING = {}
