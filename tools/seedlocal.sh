#!/bin/sh
# tools/seedlocal.sh <seeded id> <property> [--seed N] [--tier quick|thorough]
# Applies seeded/<id>/patch.diff to the library worktree $VERIF_REPO (never /repo), runs ./check <property>
# with the remaining arguments, prints the exit code, the wall time and the VIOLATION lines, and restores the worktree.
set -u
id="$1"; prop="$2"; shift 2
root="$(cd "$(dirname "$0")/.." && pwd)"
: "${VERIF_REPO:?set VERIF_REPO to your scratch worktree of the library}"
case "$VERIF_REPO" in /repo|/repo/) echo "refusing to touch /repo"; exit 2;; esac
if ! git -C "$VERIF_REPO" diff --quiet; then echo "seedlocal: $VERIF_REPO has uncommitted changes"; exit 2; fi
git -C "$VERIF_REPO" apply "$root/seeded/$id/patch.diff" || { echo "seedlocal: patch does not apply"; exit 2; }
t0=$(date +%s)
out="$(cd "$root" && timeout 1500 ./check "$prop" "$@" 2>&1)"; rc=$?
t1=$(date +%s)
git -C "$VERIF_REPO" checkout -- .
echo "$out" | grep -E "^VIOLATION|mismatches|further" | head -8
echo "seedlocal: id=$id property=$prop args=$* exit=$rc wall_s=$((t1-t0))"
exit $rc
