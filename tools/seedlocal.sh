#!/bin/sh
# tools/seedlocal.sh <seeded-id> <prop> [--seed N] [--tier quick|thorough]
#
# Applies seeded/<id>/patch.diff in the scratch library worktree $VERIF_REPO (never /repo), runs ./check <prop>
# against it and reverts the worktree.  Prints the VIOLATION lines, the exit code of the check and the wall time.
# Exit code: 0 when the seeded change was CAUGHT (the check exited 1), 1 when it was missed (check exited 0),
# 2 when the machinery could not run.
set -u
ROOT=$(cd "$(dirname "$0")/.." && pwd)
id=${1:?usage: seedlocal.sh <seeded-id> <prop> [--seed N] [--tier T]}
prop=${2:?usage: seedlocal.sh <seeded-id> <prop> [--seed N] [--tier T]}
shift 2
: "${VERIF_REPO:?set VERIF_REPO to your scratch worktree of the library}"
case "$(cd "$VERIF_REPO" && pwd -P)" in
  /repo|/repo/*) echo "seedlocal: refusing to touch /repo" >&2; exit 2 ;;
esac
export GOFLAGS=-mod=mod GOPROXY=off GOSUMDB=off GOTOOLCHAIN=local
patch="$ROOT/seeded/$id/patch.diff"
[ -f "$patch" ] || { echo "seedlocal: no $patch" >&2; exit 2; }
if [ -n "$(git -C "$VERIF_REPO" status --porcelain --untracked-files=no)" ]; then
  echo "seedlocal: $VERIF_REPO is not clean" >&2; exit 2
fi
git -C "$VERIF_REPO" apply "$patch" || { echo "seedlocal: patch does not apply" >&2; exit 2; }
trap 'git -C "$VERIF_REPO" checkout -- . ' EXIT INT TERM
t0=$(date +%s)
out=$(cd "$ROOT" && timeout 3000 ./check "$prop" "$@" 2>&1)
rc=$?
t1=$(date +%s)
echo "$out" | grep -E '^(VIOLATION|KNOWN-FINDING|C[0-9]+:)' | head -8
echo "seedlocal: id=$id prop=$prop args='$*' check_exit=$rc wall_s=$((t1 - t0))"
case $rc in
  1) exit 0 ;;
  0) exit 1 ;;
  *) echo "$out" | tail -20; exit 2 ;;
esac
