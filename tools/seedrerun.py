#!/usr/bin/env python3
"""seedrerun.py [-j N] [id ...]: re-run the quick check of every seeded change (seeded/<id>/patch.diff; all of them when no id is
given) against the CURRENT machinery, N at a time, each in its own scratch worktrees (/tmp/sr/<k>/verif = this commit of /verif,
/tmp/sr/<k>/repo = HEAD of /repo with the patch applied; VERIF_REPO points the check at it; /repo itself is never touched), and write
seeded/<id>/result.json.  A patch that no longer applies to the current library is recorded as such.  Not a registered check."""
import glob, json, os, subprocess, sys, time
from concurrent.futures import ThreadPoolExecutor
ROOT = os.path.abspath(os.path.join(os.path.dirname(os.path.abspath(__file__)), '..'))
ENV = dict(os.environ, GOFLAGS='-mod=mod', GOPROXY='off', GOSUMDB='off', GOTOOLCHAIN='local')


def sh(cmd, cwd=None, env=None, timeout=6000):
    p = subprocess.run(cmd, shell=True, cwd=cwd, env=env or ENV, stdout=subprocess.PIPE, stderr=subprocess.STDOUT, text=True, timeout=timeout)
    return p.returncode, p.stdout


def worker(k, ids):
    base = '/tmp/sr/%d' % k
    v, r = base + '/verif', base + '/repo'
    sh('rm -rf %s; mkdir -p %s' % (base, base))
    sh('git -C %s worktree prune; git -C /repo worktree prune' % ROOT)
    rc, out = sh('git -C %s worktree add -f --detach %s HEAD && git -C /repo worktree add -f --detach %s HEAD' % (ROOT, v, r))
    assert rc == 0, out
    env = dict(ENV, VERIF_REPO=r)
    rc, out = sh('./check setup', cwd=v, env=env)
    assert rc == 0, out[-2000:]
    for sid in ids:
        benign = sid[0] in 'HK'
        d = os.path.join(ROOT, 'seeded', 'benign', sid) if benign else os.path.join(ROOT, 'seeded', sid)
        meta = json.load(open(os.path.join(d, 'meta.json')))
        plist = (meta.get('touches_properties') or []) if benign else [meta['property']] + list(meta.get('also_check') or [])
        sh('git -C %s checkout -- . && git -C %s clean -fdq' % (r, r))
        rc, out = sh('git -C %s apply %s/patch.diff' % (r, d))
        res = {}
        for prop in plist:
            if rc != 0:
                res[prop] = dict(exit=None, violation_lines=[], wall_s=0, note='the patch no longer applies to the current library: ' + out.strip()[-300:])
                continue
            t0 = time.time()
            rc2, out2 = sh('./check %s --tier quick' % prop, cwd=v, env=env)
            lines = [l.replace(v, '/verif') for l in out2.split('\n') if l.startswith('VIOLATION') or l.startswith('KNOWN-FINDING')]
            res[prop] = dict(exit=rc2, violation_lines=lines[:4], wall_s=round(time.time() - t0, 1), tail=out2[-300:] if rc2 not in (0, 1) else '')
            print(sid, prop, res[prop]['exit'], len([l for l in res[prop]['violation_lines'] if l.startswith('VIOLATION')]),
                  len([l for l in res[prop]['violation_lines'] if l.startswith('VIOLATION') and 'no-failing-input-found' not in l]), res[prop]['wall_s'], flush=True)
        json.dump(res, open(os.path.join(d, 'result.json'), 'w'), indent=1)
    sh('git -C %s checkout -- .' % r)
    sh('git -C /repo worktree remove --force %s; git -C %s worktree remove --force %s; rm -rf %s' % (r, ROOT, v, base))


def main():
    args = sys.argv[1:]
    n = 4
    if args and args[0] == '-j':
        n = int(args[1]); args = args[2:]
    ids = args or sorted(os.path.basename(d) for d in glob.glob(os.path.join(ROOT, 'seeded', 'C*-[A-Z]')) + glob.glob(os.path.join(ROOT, 'seeded', 'benign', '[HK]*')))
    shares = [ids[k::n] for k in range(n)]
    with ThreadPoolExecutor(max_workers=n) as ex:
        list(ex.map(lambda a: worker(*a), enumerate(shares)))


if __name__ == '__main__':
    main()
