package main

// C07 / C08: equality by content vs identity of map KEYS between the two operands.
//
// rankMaps sorts the keys of both maps with the ranking and then walks the two sorted key lists in step; the
// value of each map must be looked up under that map's OWN key.  Two keys that rank Equal need not be the same
// Go map key: pointers to equal values, collections with equal contents (a collection is a pointer), and under
// `any` two integers of different dynamic width (int(1) / int64(1)).  A lookup of one map's key in the other map
// then finds nothing.  (This is not the documented boundary "one map holding two keys that rank Equal": here each
// map is fine on its own, the rank-equal but non-identical keys sit in DIFFERENT operands.)  Pairs built on purpose:
//
//   * pointer-keyed Go maps map[*PK]any, and map[any]any / Map[any,any] / Catalog[any,any] with *PK keys, built
//     independently twice (same pointees, different pointers);
//   * map[any]any / Map[any,any] / Catalog[any,any] whose corresponding keys differ only in dynamic width
//     (int/int64/int8/int16, uint/uint16/uint32/uint64, float32/float64 with values both represent exactly);
//   * map[any]any / Map[any,any] with ONE key that is a List (List[any] or List[int]) with equal contents in both
//     operands (only with the default depth limit; collection keys are outside the theorems' universe wf0 - map keys
//     are leaves there - so for them the correspondence and the laws are all there is);
//   each as "same contents" (RankValues must be Equal both ways; CompareValues is by key identity and is left to
//   the correspondence - the maps are different Go maps) and as "one value changed" (a difference: not Equal, not true).
//
// Relations reported to knownRelationLaws: "rank-equal" (Rank Equal both ways, Compare not judged), "equal", "differ".

import "fmt"

func pkNode(x int64) *node { return &node{kind: "pk", prim: x} }

// hasIdentityKeys: some Go map / Map in the value is keyed by pointers or collections (its keys are compared by
// identity by CompareValues' MapIndex and by content by RankValues: Compare <=> Rank Equal is not demanded there)
func hasIdentityKeys(n *node) bool {
	if isMapKind(n.kind) && n.kind != "catalog" {
		for _, k := range n.kids {
			if k.kind == "pk" || isSeqKind(k.kind) || isMapKind(k.kind) || k.kind == "assoc" {
				return true
			}
		}
	}
	for _, k := range n.kids {
		if hasIdentityKeys(k) {
			return true
		}
	}
	for _, k := range n.vals {
		if hasIdentityKeys(k) {
			return true
		}
	}
	return false
}

func genKeyIdentity(r *rng, maximum int) (na, nb *node, note string, relation string) {
	variant := r.intn(10)
	if variant >= 8 && maximum < 16 {
		variant = r.intn(8)
	}
	size := 1 + r.intn(3)
	vals := func(n int) []*node {
		out := make([]*node, n)
		for i := range out {
			if r.chance(1, 6) {
				out[i] = nilNode()
			} else {
				out[i] = smallLeaf(r)
			}
		}
		return out
	}
	relation = "rank-equal"
	switch {
	case variant < 4: // ---- pointer keys
		kind := []string{"pkmap", "pkmap", "gomap", "map", "catalog"}[r.intn(5)]
		na = &node{kind: kind, vals: vals(size)}
		base := int64(r.intn(3))
		for i := 0; i < size; i++ {
			na.kids = append(na.kids, pkNode(base+int64(i)*int64(1+r.intn(2))+int64(i)))
		}
		nb = cloneNode(na)
		note = "keyident:pointer-keys:" + kind
		if kind == "catalog" {
			relation = "equal" // associations are compared key by key through the pointers: by content
		}
	case variant < 8: // ---- keys that differ only in dynamic width
		kind := []string{"gomap", "map", "gomap", "catalog"}[r.intn(4)]
		fams := [][]string{{"int", "int64", "int8", "int16"}, {"uint", "uint64", "uint16", "uint32"}, {"float32", "float64"}}
		fam := fams[[]int{0, 0, 1, 2}[r.intn(4)]]
		k1 := fam[r.intn(len(fam))]
		k2 := fam[r.intn(len(fam))]
		for k2 == k1 {
			k2 = fam[r.intn(len(fam))]
		}
		mk := func(kind string, i int) *node {
			switch kind {
			case "float32":
				return &node{kind: kind, prim: float32(i) + 0.5}
			case "float64":
				return &node{kind: kind, prim: float64(i) + 0.5}
			case "uint", "uint64", "uint16", "uint32":
				return &node{kind: kind, prim: uint64(i)}
			}
			return &node{kind: kind, prim: int64(i)}
		}
		na = &node{kind: kind, vals: vals(size)}
		nb = &node{kind: kind}
		start := r.intn(4)
		changeAll := r.chance(1, 2)
		which := r.intn(size)
		for i := 0; i < size; i++ {
			na.kids = append(na.kids, mk(k1, start+i))
			if changeAll || i == which {
				nb.kids = append(nb.kids, mk(k2, start+i))
			} else {
				nb.kids = append(nb.kids, mk(k1, start+i))
			}
			nb.vals = append(nb.vals, cloneNode(na.vals[i]))
		}
		note = "keyident:width-of-keys:" + k1 + "/" + k2 + ":" + kind
	default: // ---- one key that is a List with equal contents
		kind := []string{"gomap", "map"}[r.intn(2)]
		var key *node
		if r.chance(1, 2) {
			key = &node{kind: "list", kids: []*node{{kind: "int", prim: int64(1)}, {kind: "int", prim: int64(2 + r.intn(2))}}}
		} else {
			key = &node{kind: "lint", kids: []*node{{kind: "int", prim: int64(1)}, {kind: "int", prim: int64(2 + r.intn(2))}}}
		}
		na = &node{kind: kind, kids: []*node{key}, vals: vals(1)}
		if r.chance(1, 2) {
			na.kids = append(na.kids, &node{kind: "string", prim: "k"})
			na.vals = append(na.vals, smallLeaf(r))
		}
		nb = cloneNode(na)
		note = "keyident:list-key:" + kind
	}
	// half of the time one value differs as well
	if r.chance(1, 2) {
		i := r.intn(len(nb.vals))
		for try := 0; try < 10; try++ {
			y := smallLeaf(r)
			old := nb.vals[i]
			// (a different value for the ranking too: int(1) is not a change of int64(1))
			if keyFamily(y.kind) != keyFamily(old.kind) || fmt.Sprint(y.prim) != fmt.Sprint(old.prim) {
				nb.vals[i] = y
				relation = "differ"
				note += ":value-changed"
				break
			}
		}
	}
	if r.chance(1, 2) {
		na, nb = nb, na
	}
	for lvl := 0; lvl < 2 && r.chance(1, 3); lvl++ {
		var w string
		na, nb, w = wrapPair(r, na, nb)
		note += " in " + w
	}
	return na, nb, note, relation
}
