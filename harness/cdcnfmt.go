package main

// C10 (format half): recursive generator over the canonical universe of the property, sequences
// of FormatValue calls on one notation / formatter (through Notation.FormatValue, String() of a
// collection, the module-level FormatValue and Formatter.FormatValue with a small maximum),
// failing calls mixed in, self-containing values in a child process; the observed texts, the
// oracle tables (strconv.FormatFloat 'G' text per float, strconv.IsPrint per non-ASCII rune) and
// the REAL round trip ParseSource(FormatValue(v)) are written as cases for coq/FormatRun.v.

import (
	"bufio"
	"encoding/json"
	"fmt"
	"math"
	"os"
	"os/exec"
	"path/filepath"
	"reflect"
	"runtime/debug"
	"sort"
	"strconv"
	"strings"
	"time"
	"unicode"
	"unicode/utf8"

	fw "github.com/craterdog/go-collection-framework/v4"
	age "github.com/craterdog/go-collection-framework/v4/agent"
	cdc "github.com/craterdog/go-collection-framework/v4/cdcn"
	col "github.com/craterdog/go-collection-framework/v4/collection"
)

func init() {
	generators["C10"] = genFmt
	if os.Getenv("VERIF_FMT_CHILD") != "" {
		fmtChildMain()
		os.Exit(0)
	}
}

// ---------- value descriptions ----------

type fnode struct {
	kind string // leaves: nil bool int int8 int16 int64 rune uint uint8 uint16 uint32 uint64 float32 float64 complex64 complex128 string
	//             over any: slice gomap array list set stack queue catalog map assoc nilslice nilmap
	//             typed: ints strs flts msi lint sstr cati mapsi
	//             failing: ptr (&PK)
	//             self-containing: cyc (variant / cycle length / siblings in prim)
	prim any
	kids []*fnode // items, or keys of a mapping / the key of an assoc
	vals []*fnode // values of a mapping / the value of an assoc
}

type fcycSpec struct {
	variant string // list slice catalog mixed
	length  int    // cycle length 1..3
}

type fgen struct {
	r       *rng
	budget  int             // remaining nodes
	keys    map[string]bool // key texts used in this value (association keys are unique per value)
	keyN    int
	noMulti bool // no Map / Go map with two or more entries (self-containing values)
	inSet   int  // > 0 below a Set: no typed collection there (the collator would compare its elements with those of an `any` collection member by member; the order of the Set then depends on element types the round trip does not keep: outside the one-type universe, as compatibleNodes for C07 / C08)
	mode    int  // 0: canonical dynamic types and the seven collection kinds only; 1: also narrower widths, Go slices / maps, typed collections; 2: anything (non-finite floats, invalid runes, bare associations)
	stats   *fstats
}

type fstats struct {
	floatClass map[string]int
	runeClass  map[string]int
	strClass   map[string]int
	leafKinds  map[string]int
	contKinds  map[string]int
	sizes      map[string]int
	nests      map[string]int
	entries    map[string]int
	outcomes   map[string]int
	rt         map[string]int
	floatsChk  int
	runesChk   int
}

func newFstats() *fstats {
	return &fstats{floatClass: map[string]int{}, runeClass: map[string]int{}, strClass: map[string]int{}, leafKinds: map[string]int{},
		contKinds: map[string]int{}, sizes: map[string]int{}, nests: map[string]int{}, entries: map[string]int{}, outcomes: map[string]int{}, rt: map[string]int{}}
}

var fLeafKinds = []string{"nil", "bool", "int", "int8", "int16", "int64", "rune", "uint", "uint8", "uint16", "uint32", "uint64", "float32", "float64", "complex64", "complex128", "string",
	"int64", "uint64", "float64", "float64", "float64", "rune", "rune", "string", "string", "complex128"}
var fKeyKinds = []string{"bool", "int", "int8", "int64", "int64", "rune", "uint8", "uint64", "float64", "float64", "string", "string", "string", "nil", "complex128", "float32"}
var fCanonLeafKinds = []string{"nil", "bool", "int64", "int64", "uint64", "float64", "float64", "float64", "complex128", "rune", "rune", "string", "string"}
var fCanonKeyKinds = []string{"bool", "int64", "int64", "uint64", "float64", "float64", "rune", "string", "string", "string", "nil", "complex128"}
var fCanonContKinds = []string{"array", "list", "set", "stack", "queue", "catalog", "map", "list", "catalog"}

func (g *fgen) leafKind() string {
	if g.mode == 0 {
		return fCanonLeafKinds[g.r.intn(len(fCanonLeafKinds))]
	}
	return fLeafKinds[g.r.intn(len(fLeafKinds))]
}
func (g *fgen) contKind() string {
	if g.mode == 0 {
		return fCanonContKinds[g.r.intn(len(fCanonContKinds))]
	}
	return fContKinds[g.r.intn(len(fContKinds))]
}

var fContKinds = []string{"slice", "gomap", "array", "list", "set", "stack", "queue", "catalog", "map", "list", "catalog", "array", "map", "set"}

// ---------- leaf generators, by class ----------

func (g *fgen) genFloat64() float64 {
	for {
		f := g.genFloat64Any()
		if g.mode == 2 || !(math.IsNaN(f) || math.IsInf(f, 0)) {
			return f
		}
	}
}

func (g *fgen) genFloat64Any() float64 {
	r := g.r
	cls := ""
	var f float64
	switch r.intn(15) {
	case 0:
		cls = "zero"
		f = 0
		if r.chance(1, 2) {
			f = math.Copysign(0, -1)
		}
	case 1:
		cls = "subnormal"
		switch r.intn(3) {
		case 0:
			f = 5e-324
		case 1:
			f = math.Float64frombits(0x000FFFFFFFFFFFFF)
		default:
			f = math.Float64frombits(1 + r.next()%0x000FFFFFFFFFFFFE)
		}
	case 2:
		cls = "small-integer"
		f = float64(r.intn(21) - 10)
	case 3:
		cls = "G-switch-boundary"
		f = []float64{99999, 100000, 999999, 1e6, 1000001, 1234567, 123456.7, 9007199254740992, 9007199254740994, 1e-4, 1e-5, 0.0001234, 0.00001234, 0.00009999, 1e20, 1e21, 1e22, 12345678}[r.intn(18)]
	case 4:
		cls = "power-of-ten"
		n := r.intn(632) - 323
		f, _ = strconv.ParseFloat(fmt.Sprintf("1e%d", n), 64)
	case 5, 6, 7:
		// d.ddd x 10^N with a chosen number of exponent digits
		nd := r.intn(17)
		m := fmt.Sprintf("%d", 1+r.intn(9))
		if nd > 0 {
			m += "."
			for i := 0; i < nd; i++ {
				m += fmt.Sprintf("%d", r.intn(10))
			}
		}
		var n int
		switch r.intn(4) {
		case 0:
			cls = "exp-1-digit"
			n = 6 + r.intn(4)
			if r.chance(1, 2) {
				n = -(5 + r.intn(5))
			}
		case 1:
			cls = "exp-2-digit"
			n = 10 + r.intn(90)
			if r.chance(1, 2) {
				n = -n
			}
		case 2:
			cls = "exp-3-digit"
			n = 100 + r.intn(208)
			if r.chance(1, 2) {
				n = -n
			}
		default:
			cls = "no-exponent"
			n = r.intn(10) - 4
		}
		f, _ = strconv.ParseFloat(fmt.Sprintf("%se%d", m, n), 64)
	case 8:
		cls = "extreme"
		f = []float64{math.MaxFloat64, 2.2250738585072014e-308, 2.2250738585072009e-308, math.MaxFloat64 / 2, 1.7976931348623155e308}[r.intn(5)]
	case 9:
		cls = "random-bits"
		f = math.Float64frombits(r.next())
		if math.IsNaN(f) || math.IsInf(f, 0) {
			f = 1.5
		}
	case 10:
		cls = "fraction"
		f = []float64{0.125, 0.1, 1.5, 2.25, 1.0 / 3, 0.5, 100.001, 3.14159}[r.intn(8)]
	case 11:
		cls = "non-finite"
		f = []float64{math.NaN(), math.Inf(1), math.Inf(-1)}[r.intn(3)]
	default:
		cls = "float32-valued"
		f = float64(math.Float32frombits(uint32(r.next())))
		if math.IsNaN(f) || math.IsInf(f, 0) {
			f = 0.1
		}
	}
	if r.chance(1, 3) && !math.IsNaN(f) {
		f = -f
	}
	g.stats.floatClass[cls]++
	return f
}

func (g *fgen) genRune() rune {
	for {
		x := g.genRuneAny()
		if g.mode == 2 || utf8.ValidRune(x) {
			return x
		}
	}
}

func (g *fgen) genRuneAny() rune {
	r := g.r
	var x rune
	cls := ""
	switch r.intn(12) {
	case 0:
		cls = "control"
		x = rune(r.intn(32))
	case 1:
		cls = "quote-backslash-del"
		x = []rune{'\'', '"', '\\', 0x7f, ' ', '~'}[r.intn(6)]
	case 2, 3:
		cls = "ascii-printable"
		x = rune(32 + r.intn(95))
	case 4:
		cls = "latin1"
		x = rune(0x80 + r.intn(0x80))
	case 5:
		cls = "bmp-special"
		x = []rune{0xa0, 0xad, 0x2028, 0x2029, 0xfeff, 0xfffd, 0xfffe, 0xffff, 0xe000, 0xf8ff, 0x200b, 0x3000, 0x0378, 0xd7ff}[r.intn(14)]
	case 6:
		cls = "bmp-random"
		x = rune(0x100 + r.intn(0xd800-0x100))
	case 7:
		cls = "astral"
		x = []rune{0x10000, 0x1f600, 0x10ffff, 0xe0001, 0x2fa1d, 0xf0000, 0x1f9ff}[r.intn(7)]
		if r.chance(1, 2) {
			x = rune(0x10000 + r.intn(0x100000))
		}
	case 8:
		cls = "surrogate"
		x = rune(0xd800 + r.intn(0x800))
	case 9:
		cls = "out-of-range"
		x = []rune{-1, math.MinInt32, math.MaxInt32, 0x110000, -65}[r.intn(5)]
	default:
		cls = "letter"
		x = []rune{'a', 'z', 'A', '0', 0xe9, 0xdf, 0x3bb, 0x4e2d, '\n', '\t'}[r.intn(10)]
	}
	g.stats.runeClass[cls]++
	return x
}

var fStrPieces = []string{"a", "bc", " ", "\"", "'", "\\", "\n", "\t", "\x00", "\x7f", "\a\b\f\r\v", "\u00e9", "\u00df", "\u4e2d", "\u00a0", "\u2028", "\u00ad", "\U0001f600", "\U0010ffff", "\ufffd",
	"\x80", "\xff", "\xc0\x80", "\xc3", "\xe2\x82", "\xed\xa0\x80", "\xf4\x90\x80\x80", "\xf0\x9f\x98", "\xc1\xbf", "\xe0\x80\x80", "\xfe", "\\n", "\\x41", "'\"'", "0x1f", "nil", ": ", "[", "](List)", "...", "1.5E+07"}

func (g *fgen) genString() string {
	r := g.r
	switch r.intn(8) {
	case 0:
		g.stats.strClass["empty"]++
		return ""
	case 1:
		g.stats.strClass["ascii-word"]++
		n := 1 + r.intn(12)
		b := make([]byte, n)
		for i := range b {
			b[i] = byte('a' + r.intn(26))
		}
		return string(b)
	case 2:
		g.stats.strClass["random-bytes"]++
		n := 1 + r.intn(10)
		b := make([]byte, n)
		for i := range b {
			b[i] = byte(r.next())
		}
		return string(b)
	case 3:
		g.stats.strClass["random-runes"]++
		n := 1 + r.intn(6)
		s := ""
		for i := 0; i < n; i++ {
			x := g.genRune()
			if x >= 0 && x <= 0x10ffff && !(x >= 0xd800 && x < 0xe000) {
				s += string(x)
			} else {
				s += "?"
			}
		}
		return s
	default:
		g.stats.strClass["pieces"]++
		n := 1 + r.intn(5)
		if r.chance(1, 10) {
			n = 20 + r.intn(20)
		}
		s := ""
		for i := 0; i < n; i++ {
			s += fStrPieces[r.intn(len(fStrPieces))]
		}
		return s
	}
}

func (g *fgen) genInt(kind string) int64 {
	r := g.r
	var lo, hi int64
	switch kind {
	case "int8":
		lo, hi = math.MinInt8, math.MaxInt8
	case "int16":
		lo, hi = math.MinInt16, math.MaxInt16
	default:
		lo, hi = math.MinInt64, math.MaxInt64
	}
	switch r.intn(6) {
	case 0:
		return []int64{lo, lo + 1, hi, hi - 1}[r.intn(4)]
	case 1:
		return int64(r.intn(21) - 10)
	case 2:
		x := int64(r.next())
		if kind == "int8" {
			x = int64(int8(x))
		} else if kind == "int16" {
			x = int64(int16(x))
		}
		return x
	case 3:
		if kind == "int8" || kind == "int16" {
			return int64(r.intn(100))
		}
		return []int64{math.MinInt32, math.MaxInt32, math.MaxInt32 + 1, math.MinInt32 - 1, 1 << 53, -(1 << 53), 999999999999999999, 1000000000000000000, -1000000000000000000}[r.intn(9)]
	default:
		x := int64(r.intn(100000))
		if r.chance(1, 2) {
			x = -x
		}
		if kind == "int8" {
			x = int64(int8(x))
		} else if kind == "int16" {
			x = int64(int16(x))
		}
		return x
	}
}

func (g *fgen) genUint(kind string) uint64 {
	r := g.r
	var hi uint64
	switch kind {
	case "uint8":
		hi = math.MaxUint8
	case "uint16":
		hi = math.MaxUint16
	case "uint32":
		hi = math.MaxUint32
	default:
		hi = math.MaxUint64
	}
	switch r.intn(5) {
	case 0:
		return []uint64{0, 1, hi, hi - 1}[r.intn(4)]
	case 1:
		return uint64(r.intn(17))
	case 2:
		return r.next() & hi
	case 3:
		return []uint64{9, 10, 15, 16, 255, 256, 0xabcdef, math.MaxInt64, math.MaxInt64 + 1, 1 << 32, 0xfffffffffffffff, 0x1000000000000000}[r.intn(12)] & hi
	default:
		return uint64(r.intn(100000)) & hi
	}
}

func (g *fgen) genLeaf(kind string) *fnode {
	r := g.r
	g.budget--
	g.stats.leafKinds[kind]++
	switch kind {
	case "nil":
		return &fnode{kind: kind}
	case "bool":
		return &fnode{kind: kind, prim: r.chance(1, 2)}
	case "int", "int8", "int16", "int64":
		return &fnode{kind: kind, prim: g.genInt(kind)}
	case "rune":
		return &fnode{kind: kind, prim: int64(g.genRune())}
	case "uint", "uint8", "uint16", "uint32", "uint64":
		return &fnode{kind: kind, prim: g.genUint(kind)}
	case "float64":
		return &fnode{kind: kind, prim: g.genFloat64()}
	case "float32":
		f := g.genFloat64()
		return &fnode{kind: kind, prim: float32(f)}
	case "complex128":
		return &fnode{kind: kind, prim: complex(g.genFloat64(), g.genFloat64())}
	case "complex64":
		return &fnode{kind: kind, prim: complex64(complex(g.genFloat64(), g.genFloat64()))}
	case "string":
		return &fnode{kind: kind, prim: g.genString()}
	}
	panic("genLeaf: " + kind)
}

func fmtAlone(v any) (s string, ok bool) {
	oc, _ := guard(func() { s = cdc.Formatter().Make().FormatValue(v) })
	return strings.TrimSuffix(s, "\n"), oc == ocRet
}

// a key whose text is new in this value (so that the order in which a Go map was walked can be
// read off the output)
// ---------- literals that END IN AN ESCAPE, and literal adjacency on one line ----------
// The class: a literal whose last character is written as an escape (or whose last digit belongs to an
// exponent / a hexadecimal number), standing directly before a delimiter ("]", ":", ",") and before another
// literal of the same kind on the same line.  In the formatter's layout two literals share a line only as the
// key and the value of an association, and a literal meets "]" only as the single item of an inline collection.
// A scanner whose string / rune / number expression reads one character too many or too few shows here
// (e.g. leftmost-longest instead of leftmost-first matching: "C:\\": "drive").
var fEscTails = []string{"\\", "\"", "'", "\n", "\t", "\x00", "\x7f", "\u00ad", "\u2028", "\U000e0001", "\xff", "\\\\", "\\\"", "\\n", "\\x41"}

func (g *fgen) genEscEndString() string {
	r := g.r
	g.stats.strClass["ends-in-escape"]++
	head := ""
	if r.chance(2, 3) {
		head = []string{"a", "C:", "x y", "\u00e9", "\\", "\"", "k" + fmt.Sprint(r.intn(1000))}[r.intn(7)]
	}
	return head + fEscTails[r.intn(len(fEscTails))]
}

// a literal of the class: a string or rune ending in an escape, a float with an exponent, an unsigned number
func (g *fgen) genEdgeLiteral() *fnode {
	r := g.r
	g.budget--
	switch r.intn(8) {
	case 0, 1, 2, 3:
		g.stats.leafKinds["string"]++
		return &fnode{kind: "string", prim: g.genEscEndString()}
	case 4, 5:
		g.stats.leafKinds["rune"]++
		g.stats.runeClass["written-as-escape"]++
		return &fnode{kind: "rune", prim: int64([]rune{'\\', '\'', '\n', '\t', 0, 0x7f, 0xad, 0x2028, 0xe0001, '"'}[r.intn(10)])}
	case 6:
		g.stats.leafKinds["float64"]++
		g.stats.floatClass["adjacency-exponent"]++
		return &fnode{kind: "float64", prim: []float64{1e21, 1.5e-7, -2.5e+100, 5e-324, 1e6, 1.7976931348623157e308}[r.intn(6)]}
	default:
		g.stats.leafKinds["uint64"]++
		return &fnode{kind: "uint64", prim: []uint64{0xff, 0xe, 0x1e5, 0xabcdef, 0}[r.intn(5)]}
	}
}

// a key of the class, unique in this value like every key
func (g *fgen) genEdgeKey() *fnode {
	for try := 0; try < 8; try++ {
		n := g.genEdgeLiteral()
		t, ok := fmtAlone(fbuild(n, nil))
		if ok && !g.keys[t] {
			g.keys[t] = true
			return n
		}
	}
	return g.genKey()
}

// what may stand on the line behind such a key, or alone between "[" and "]"
func (g *fgen) genEdgeValue() *fnode {
	r := g.r
	switch r.intn(6) {
	case 0, 1, 2:
		return g.genEdgeLiteral()
	case 3:
		return g.genLeaf("string")
	default:
		// a single-item inline collection: the literal stands directly before "]"
		g.budget--
		kind := []string{"list", "array", "set", "stack", "queue", "list"}[r.intn(6)]
		g.stats.contKinds[kind]++
		return &fnode{kind: kind, kids: []*fnode{g.genEdgeLiteral()}}
	}
}

// a collection of the class: associations "key: value" with both ends of the class (one line each, or inline
// for a single entry), or a single-item / multi-item sequence of such literals
func (g *fgen) genAdjacency() *fnode {
	r := g.r
	g.budget--
	if r.chance(3, 5) {
		kind := []string{"catalog", "map", "catalog"}[r.intn(3)]
		if g.mode >= 1 && r.chance(1, 5) {
			kind = "gomap"
		}
		g.stats.contKinds[kind]++
		n := &fnode{kind: kind}
		size := []int{1, 1, 2, 3}[r.intn(4)]
		if g.noMulti && kind != "catalog" {
			size = 1
		}
		for i := 0; i < size; i++ {
			n.kids = append(n.kids, g.genEdgeKey())
			n.vals = append(n.vals, g.genEdgeValue())
		}
		return n
	}
	kind := []string{"list", "array", "stack", "queue", "list"}[r.intn(5)]
	g.stats.contKinds[kind]++
	n := &fnode{kind: kind}
	for i := []int{1, 1, 1, 2, 3}[r.intn(5)]; i > 0; i-- {
		n.kids = append(n.kids, g.genEdgeValue())
	}
	return n
}

func (g *fgen) genKey() *fnode {
	for try := 0; try < 12; try++ {
		kind := fKeyKinds[g.r.intn(len(fKeyKinds))]
		if g.mode == 0 {
			kind = fCanonKeyKinds[g.r.intn(len(fCanonKeyKinds))]
		}
		n := g.genLeaf(kind)
		if kind == "float64" || kind == "float32" || kind == "complex128" {
			// NaN never equals itself: unusable as a key
			bad := false
			switch x := n.prim.(type) {
			case float64:
				bad = math.IsNaN(x)
			case float32:
				bad = math.IsNaN(float64(x))
			case complex128:
				bad = math.IsNaN(real(x)) || math.IsNaN(imag(x))
			}
			if bad {
				continue
			}
		}
		t, ok := fmtAlone(fbuild(n, nil))
		// 0.0 and -0.0 have different texts but are one key once both are float64
		t0 := strings.ReplaceAll(t, "-0.0", "0.0")
		if ok && !g.keys[t] && !g.keys[t0] {
			g.keys[t] = true
			g.keys[t0] = true
			return n
		}
	}
	for {
		g.keyN++
		s := fmt.Sprintf("k%d", g.keyN)
		if !g.keys[strconv.Quote(s)] {
			g.keys[strconv.Quote(s)] = true
			g.budget--
			return &fnode{kind: "string", prim: s}
		}
	}
}

var fSizes = []int{0, 0, 1, 1, 1, 2, 2, 2, 3, 3, 4, 5, 7, 15, 16, 17, 25, 40}

func (g *fgen) genSize(kind string, depth int) int {
	n := fSizes[g.r.intn(len(fSizes))]
	if depth > 0 && n > 6 && !g.r.chance(1, 4) {
		n = 2 + g.r.intn(3)
	}
	if (kind == "queue" || kind == "stack") && n > 16 {
		n = 16
	}
	if n > g.budget {
		n = g.budget
	}
	if n < 0 {
		n = 0
	}
	return n
}

// a value nested up to depth further collection levels
func (g *fgen) genValue(depth int) *fnode {
	r := g.r
	if depth <= 0 || g.budget <= 0 || r.chance(2, 5) {
		return g.genLeaf(g.leafKind())
	}
	if g.mode >= 1 && g.inSet == 0 && r.chance(1, 12) {
		return g.genTyped()
	}
	if r.chance(1, 10) {
		return g.genAdjacency()
	}
	if g.mode >= 1 && r.chance(1, 40) {
		g.budget--
		return &fnode{kind: []string{"nilslice", "nilmap"}[r.intn(2)]}
	}
	if g.mode == 2 && r.chance(1, 25) {
		g.budget--
		return &fnode{kind: "assoc", kids: []*fnode{g.genKey()}, vals: []*fnode{g.genValue(depth - 1)}}
	}
	return g.genContainer(g.contKind(), depth)
}

func (g *fgen) genContainer(kind string, depth int) *fnode {
	n := &fnode{kind: kind}
	g.budget--
	size := g.genSize(kind, depth)
	if g.noMulti && (kind == "map" || kind == "gomap") && size > 1 {
		size = 1
	}
	g.stats.contKinds[kind]++
	g.stats.sizes[fmt.Sprintf("%02d", size)]++
	switch kind {
	case "gomap", "map", "catalog":
		for i := 0; i < size; i++ {
			n.kids = append(n.kids, g.genKey())
			n.vals = append(n.vals, g.genValue(depth-1))
		}
	default:
		if kind == "set" {
			g.inSet++
		}
		for i := 0; i < size; i++ {
			n.kids = append(n.kids, g.genValue(depth-1))
		}
		if kind == "set" {
			g.inSet--
		}
	}
	return n
}

func (g *fgen) genTyped() *fnode {
	r := g.r
	kind := []string{"ints", "strs", "flts", "msi", "lint", "sstr", "cati", "mapsi"}[r.intn(8)]
	n := &fnode{kind: kind}
	g.budget--
	size := []int{0, 1, 2, 3, 5}[r.intn(5)]
	if g.noMulti && (kind == "msi" || kind == "mapsi") && size > 1 {
		size = 1
	}
	g.stats.contKinds[kind]++
	for i := 0; i < size; i++ {
		switch kind {
		case "ints", "lint":
			n.kids = append(n.kids, g.genLeaf("int"))
		case "strs", "sstr":
			n.kids = append(n.kids, g.genLeaf("string"))
		case "flts":
			n.kids = append(n.kids, g.genLeaf("float64"))
		default:
			var k *fnode
			for {
				k = g.genLeaf("string")
				t := strconv.Quote(k.prim.(string))
				if !g.keys[t] {
					g.keys[t] = true
					break
				}
			}
			n.kids = append(n.kids, k)
			n.vals = append(n.vals, g.genLeaf("int"))
		}
	}
	return n
}

// a chain of collections nested deeper than (or up to) the limit, mixing single-item and
// multi-item levels
func (g *fgen) genChain(levels int) *fnode {
	r := g.r
	if levels <= 0 {
		return g.genLeaf(g.leafKind())
	}
	kind := []string{"slice", "array", "list", "set", "stack", "queue", "catalog", "map", "gomap", "list"}[r.intn(10)]
	if g.mode == 0 {
		kind = g.contKind()
	}
	n := &fnode{kind: kind}
	g.budget--
	g.stats.contKinds[kind]++
	if kind == "set" {
		g.inSet++
	}
	inner := g.genChain(levels - 1)
	if kind == "set" {
		g.inSet--
	}
	sibs := []int{0, 0, 1, 2}[r.intn(4)]
	if g.noMulti && (kind == "map" || kind == "gomap") {
		sibs = 0
	}
	pos := r.intn(sibs + 1)
	for i := 0; i <= sibs; i++ {
		var item *fnode
		if i == pos {
			item = inner
		} else {
			item = g.genLeaf([]string{"int64", "string", "float64", "bool"}[r.intn(4)])
		}
		switch kind {
		case "catalog", "map", "gomap":
			n.kids = append(n.kids, g.genKey())
			n.vals = append(n.vals, item)
		default:
			n.kids = append(n.kids, item)
		}
	}
	return n
}

// plant something the formatter rejects somewhere in the value: a pointer to a struct (taken
// for a collection: "[" is written, then the reflective call panics) or an association key that
// is not an intrinsic
func (g *fgen) plantBad(n *fnode) *fnode {
	r := g.r
	bad := func() *fnode {
		switch r.intn(4) {
		case 0:
			return &fnode{kind: "ptr", prim: r.intn(5)}
		case 1:
			return &fnode{kind: "assoc", kids: []*fnode{{kind: "list", kids: []*fnode{g.genLeaf("int64")}}}, vals: []*fnode{g.genLeaf("int64")}}
		case 2:
			return &fnode{kind: "catalog", kids: []*fnode{g.genKey(), {kind: "ptr", prim: 1}, g.genKey()}, vals: []*fnode{g.genLeaf("int64"), g.genLeaf("string"), g.genLeaf("bool")}}
		default:
			return &fnode{kind: "assoc", kids: []*fnode{{kind: "assoc", kids: []*fnode{g.genLeaf("int64")}, vals: []*fnode{g.genLeaf("int64")}}}, vals: []*fnode{g.genLeaf("nil")}}
		}
	}
	// walk down a random path through ordered containers and replace / append an item
	cur := n
	for {
		switch cur.kind {
		case "slice", "array", "list", "stack", "queue":
			if len(cur.kids) > 0 && r.chance(1, 2) {
				next := cur.kids[r.intn(len(cur.kids))]
				switch next.kind {
				case "slice", "array", "list", "stack", "queue", "catalog":
					cur = next
					continue
				}
			}
			b := bad()
			if len(cur.kids) == 0 || (r.chance(1, 2) && len(cur.kids) < 16) {
				cur.kids = append(cur.kids, b)
			} else {
				cur.kids[r.intn(len(cur.kids))] = b
			}
			return n
		case "catalog":
			b := bad()
			if len(cur.vals) == 0 || len(cur.vals) < 16 && r.chance(1, 2) {
				cur.kids = append(cur.kids, g.genKey())
				cur.vals = append(cur.vals, b)
			} else {
				cur.vals[r.intn(len(cur.vals))] = b
			}
			return n
		default:
			// not an ordered container: wrap both in a list
			return &fnode{kind: "list", kids: []*fnode{n, bad()}}
		}
	}
}

func fHasBad(n *fnode) bool {
	if n.kind == "ptr" {
		return true
	}
	if n.kind == "assoc" || n.kind == "catalog" || n.kind == "map" || n.kind == "gomap" {
		for _, k := range n.kids {
			switch k.kind {
			case "list", "assoc", "ptr":
				return true
			}
		}
	}
	for _, k := range n.kids {
		if fHasBad(k) {
			return true
		}
	}
	for _, k := range n.vals {
		if fHasBad(k) {
			return true
		}
	}
	return false
}

func fNesting(n *fnode) int {
	m := 0
	for _, k := range n.kids {
		if d := fNesting(k); d > m {
			m = d
		}
	}
	for _, k := range n.vals {
		if d := fNesting(k); d > m {
			m = d
		}
	}
	switch n.kind {
	case "assoc":
		return m
	case "nil", "bool", "int", "int8", "int16", "int64", "rune", "uint", "uint8", "uint16", "uint32", "uint64", "float32", "float64", "complex64", "complex128", "string", "ptr":
		return 0
	case "cyc":
		return 99
	}
	return m + 1
}

func fCount(n *fnode) int {
	c := 1
	for _, k := range n.kids {
		c += fCount(k)
	}
	for _, k := range n.vals {
		c += fCount(k)
	}
	return c
}

func fHasMultiMap(n *fnode) bool {
	switch n.kind {
	case "map", "gomap", "msi", "mapsi":
		if len(n.kids) > 1 {
			return true
		}
	}
	for _, k := range n.kids {
		if fHasMultiMap(k) {
			return true
		}
	}
	for _, k := range n.vals {
		if fHasMultiMap(k) {
			return true
		}
	}
	return false
}

// ---------- building the Go value ----------

var fPKs = []*PK{{X: 0}, {X: 1}, {X: 2}, {X: 3}, {X: 4}}

func fbuild(n *fnode, env map[*fnode]any) any {
	N := sharedNotation
	kids := func() []any {
		out := make([]any, len(n.kids))
		for i, c := range n.kids {
			out[i] = fbuild(c, env)
		}
		return out
	}
	switch n.kind {
	case "nil":
		return nil
	case "bool", "string", "float32", "float64", "complex64", "complex128":
		return n.prim
	case "int":
		return int(n.prim.(int64))
	case "int8":
		return int8(n.prim.(int64))
	case "int16":
		return int16(n.prim.(int64))
	case "int64":
		return n.prim.(int64)
	case "rune":
		return rune(n.prim.(int64))
	case "uint":
		return uint(n.prim.(uint64))
	case "uint8":
		return uint8(n.prim.(uint64))
	case "uint16":
		return uint16(n.prim.(uint64))
	case "uint32":
		return uint32(n.prim.(uint64))
	case "uint64":
		return n.prim.(uint64)
	case "ptr":
		return fPKs[n.prim.(int)]
	case "slice":
		return kids()
	case "nilslice":
		return []any(nil)
	case "nilmap":
		return map[any]any(nil)
	case "array":
		return col.Array[any](N).MakeFromArray(kids())
	case "list":
		return col.List[any](N).MakeFromArray(kids())
	case "set":
		s := col.Set[any](N).Make()
		for _, k := range kids() {
			// the collator cannot rank every pair of values (e.g. a typed slice against a slice
			// of any): such an item is left out
			guard(func() { s.AddValue(k) })
		}
		return s
	case "stack":
		return col.Stack[any](N).MakeFromArray(kids())
	case "queue":
		return col.Queue[any](N).MakeFromArray(kids())
	case "assoc":
		return col.Association[any, any](N).Make(fbuild(n.kids[0], env), fbuild(n.vals[0], env))
	case "gomap":
		m := map[any]any{}
		for i := range n.kids {
			m[fbuild(n.kids[i], env)] = fbuild(n.vals[i], env)
		}
		return m
	case "map":
		m := col.Map[any, any](N).Make()
		for i := range n.kids {
			m.SetValue(fbuild(n.kids[i], env), fbuild(n.vals[i], env))
		}
		return m
	case "catalog":
		c := col.Catalog[any, any](N).Make()
		for i := range n.kids {
			c.SetValue(fbuild(n.kids[i], env), fbuild(n.vals[i], env))
		}
		return c
	case "ints", "lint":
		out := make([]int, len(n.kids))
		for i, c := range n.kids {
			out[i] = int(c.prim.(int64))
		}
		if n.kind == "lint" {
			return col.List[int](N).MakeFromArray(out)
		}
		return out
	case "strs", "sstr":
		out := make([]string, len(n.kids))
		for i, c := range n.kids {
			out[i] = c.prim.(string)
		}
		if n.kind == "sstr" {
			return col.Set[string](N).MakeFromArray(out)
		}
		return out
	case "flts":
		out := make([]float64, len(n.kids))
		for i, c := range n.kids {
			out[i] = c.prim.(float64)
		}
		return out
	case "msi", "mapsi", "cati":
		m := map[string]int{}
		c := col.Catalog[string, int](N).Make()
		for i := range n.kids {
			m[n.kids[i].prim.(string)] = int(n.vals[i].prim.(int64))
			c.SetValue(n.kids[i].prim.(string), int(n.vals[i].prim.(int64)))
		}
		switch n.kind {
		case "mapsi":
			return col.Map[string, int](N).MakeFromMap(m)
		case "cati":
			return c
		}
		return m
	case "cyc":
		return fbuildCyc(n, env)
	}
	panic("fbuild: unknown kind " + n.kind)
}

// self-containing values: the cycle runs through `length` collections; n.kids are siblings
// stored next to the back reference in the outermost collection
func fbuildCyc(n *fnode, env map[*fnode]any) any {
	N := sharedNotation
	spec := n.prim.(fcycSpec)
	sibs := make([]any, len(n.kids))
	for i, c := range n.kids {
		sibs[i] = fbuild(c, env)
	}
	switch spec.variant {
	case "slice":
		// Go slices: s[0] = s (through intermediate slices for longer cycles)
		root := make([]any, 1+len(sibs))
		copy(root[1:], sibs)
		var cur any = root
		for i := 1; i < spec.length; i++ {
			cur = []any{cur}
		}
		root[0] = cur
		return root
	case "catalog":
		root := col.Catalog[any, any](N).Make()
		var cur any = root
		for i := 1; i < spec.length; i++ {
			c := col.Catalog[any, any](N).Make()
			c.SetValue("in", cur)
			cur = c
		}
		root.SetValue("self", cur)
		for i, s := range sibs {
			root.SetValue(fmt.Sprintf("s%d", i), s)
		}
		return root
	case "mixed":
		// list -> Go map (one entry) -> array-backed slice -> list
		root := col.List[any](N).Make()
		var cur any = root
		if spec.length >= 2 {
			cur = map[any]any{"m": cur}
		}
		if spec.length >= 3 {
			cur = []any{cur}
		}
		for _, s := range sibs {
			root.AppendValue(s)
		}
		root.AppendValue(cur)
		return root
	default:
		root := col.List[any](N).Make()
		var cur any = root
		for i := 1; i < spec.length; i++ {
			l := col.List[any](N).Make()
			l.AppendValue(cur)
			cur = l
		}
		root.AppendValue(cur)
		for _, s := range sibs {
			root.AppendValue(s)
		}
		return root
	}
}

// ---------- encoding (entries of Go maps in the order the text shows) ----------

type fenc struct {
	text   string // the text the formatter returned ("" when it panicked)
	lines  map[string]int
	limit  int // cut-off for self-containing values (collection levels)
	floats map[uint64]string
	runes  map[rune]bool
}

func newFenc(text string, limit int, floats map[uint64]string, runes map[rune]bool) *fenc {
	e := &fenc{text: text, limit: limit, floats: floats, runes: runes, lines: map[string]int{}}
	for i, ln := range strings.Split(text, "\n") {
		ln = strings.TrimLeft(ln, " ")
		// a key line reads  key ": " value  or, for a single-entry collection,  "[" key ": " ...
		if j := strings.Index(ln, ": "); j >= 0 {
			if _, ok := e.lines[ln]; !ok {
				e.lines[ln] = i
			}
		}
	}
	return e
}

// index of the first line that starts with this key text followed by ": "
func (e *fenc) keyLine(kt string) int {
	best := math.MaxInt32
	for ln, i := range e.lines {
		if strings.HasPrefix(ln, kt+": ") && i < best {
			best = i
		}
	}
	return best
}

func (e *fenc) noteFloat(f float64) {
	e.floats[math.Float64bits(f)] = strconv.FormatFloat(f, 'G', -1, 64)
}
func (e *fenc) noteRune(r rune) {
	if r >= 128 {
		e.runes[r] = true
	}
}

func (e *fenc) enc(v any, level int) string {
	if v == nil {
		return "VNil"
	}
	switch a := v.(type) {
	case float32:
		e.noteFloat(float64(a))
		return encVal(v)
	case float64:
		e.noteFloat(a)
		return encVal(v)
	case complex64:
		e.noteFloat(float64(real(a)))
		e.noteFloat(float64(imag(a)))
		return encVal(v) // with the collator oracle fields (cmplx.Abs, cmplx.Phase): RoundTripRun.v ranks Set members
	case complex128:
		e.noteFloat(real(a))
		e.noteFloat(imag(a))
		return encVal(v)
	case int32:
		e.noteRune(a)
		if !utf8.ValidRune(a) {
			e.noteRune(utf8.RuneError)
		}
		return encVal(v)
	case string:
		for _, r := range a {
			e.noteRune(r)
		}
		return "(VStr " + fEncByteString(a) + ")"
	case bool, int, int8, int16, int64, uint, uint8, uint16, uint32, uint64:
		return encVal(v)
	case *PK:
		return fmt.Sprintf("(VPtr %d %s)", a.X+1, zlit(int64(a.X)))
	}
	rv := reflect.ValueOf(v)
	ts := rv.Type().String()
	if strings.HasPrefix(ts, "*collection.association_") {
		k := rv.MethodByName("GetKey").Call(nil)[0].Interface()
		x := rv.MethodByName("GetValue").Call(nil)[0].Interface()
		return "(VAssoc " + e.enc(k, level) + " " + e.enc(x, level) + ")"
	}
	if level >= e.limit {
		return "VNil" // below the cut-off of a self-containing value: never printed
	}
	elems := func(arr reflect.Value) string {
		items := make([]string, arr.Len())
		for i := range items {
			items[i] = e.enc(arr.Index(i).Interface(), level+1)
		}
		return encList(items)
	}
	switch rv.Kind() {
	case reflect.Slice:
		if strings.HasPrefix(ts, "collection.array_") {
			return "(VSeq KArray " + elems(rv) + ")"
		}
		if rv.IsNil() {
			return "VNilSlice"
		}
		return "(VSeq KSlice " + elems(rv) + ")"
	case reflect.Map:
		if rv.IsNil() {
			return "VNilMap"
		}
		kind := "MGoMap"
		if strings.HasPrefix(ts, "collection.map_") {
			kind = "MMap"
		}
		type kv struct {
			k, v any
			kt   string
			line int
		}
		var kvs []kv
		it := rv.MapRange()
		for it.Next() {
			p := kv{k: it.Key().Interface(), v: it.Value().Interface()}
			p.kt, _ = fmtAlone(p.k)
			p.line = e.keyLine(p.kt)
			kvs = append(kvs, p)
		}
		sort.SliceStable(kvs, func(i, j int) bool {
			if kvs[i].line != kvs[j].line {
				return kvs[i].line < kvs[j].line
			}
			return kvs[i].kt < kvs[j].kt
		})
		ks := make([]string, len(kvs))
		vs := make([]string, len(kvs))
		for i, p := range kvs {
			ks[i], vs[i] = e.enc(p.k, level+1), e.enc(p.v, level+1)
		}
		return "(VMapping " + kind + " " + encList(ks) + " " + encList(vs) + ")"
	case reflect.Ptr, reflect.Interface:
		if strings.HasPrefix(ts, "*collection.catalog_") {
			arr := rv.MethodByName("AsArray").Call(nil)[0]
			ks := make([]string, arr.Len())
			vs := make([]string, arr.Len())
			for i := 0; i < arr.Len(); i++ {
				a := arr.Index(i)
				ks[i] = e.enc(a.MethodByName("GetKey").Call(nil)[0].Interface(), level+1)
				vs[i] = e.enc(a.MethodByName("GetValue").Call(nil)[0].Interface(), level+1)
			}
			return "(VMapping MCatalog " + encList(ks) + " " + encList(vs) + ")"
		}
		kind := ""
		switch {
		case strings.HasPrefix(ts, "*collection.list_"):
			kind = "KList"
		case strings.HasPrefix(ts, "*collection.set_"):
			kind = "KSet"
		case strings.HasPrefix(ts, "*collection.stack_"):
			kind = "KStack"
		case strings.HasPrefix(ts, "*collection.queue_"):
			kind = "KQueue"
		}
		if kind != "" {
			return "(VSeq " + kind + " " + elems(rv.MethodByName("AsArray").Call(nil)[0]) + ")"
		}
	}
	panic(fmt.Sprintf("fenc: unsupported value of type %T", v))
}

// texts and byte strings as (segs [S_ "printable ascii"; U_ [other; code; points]; ...])
func fEncSegs(units []int32, keepNewline bool) string {
	var parts []string
	var run strings.Builder
	var nums []string
	flushRun := func() {
		if run.Len() > 0 {
			parts = append(parts, "S_ \""+run.String()+"\"")
			run.Reset()
		}
	}
	flushNums := func() {
		if len(nums) > 0 {
			parts = append(parts, "U_ "+encList(nums))
			nums = nil
		}
	}
	for _, u := range units {
		if (u >= 32 && u < 127) || (keepNewline && u == 10) {
			flushNums()
			if u == '"' {
				run.WriteString("\"\"")
			} else {
				run.WriteByte(byte(u))
			}
		} else {
			flushRun()
			nums = append(nums, fmt.Sprintf("%d", u))
		}
	}
	flushRun()
	flushNums()
	return "(segs " + encList(parts) + ")"
}

func fEncText(s string) string {
	var units []int32
	for _, r := range s {
		units = append(units, r)
	}
	return fEncSegs(units, true)
}

func fEncByteString(s string) string {
	units := make([]int32, len(s))
	for i := 0; i < len(s); i++ {
		units[i] = int32(s[i])
	}
	return fEncSegs(units, false)
}

func fEncRunes(s string) string {
	var items []string
	for _, r := range s {
		items = append(items, fmt.Sprintf("%d", r))
	}
	return encList(items)
}

// ---------- one case: a formatter and a sequence of calls ----------

type fcallDesc struct {
	node  *fnode
	entry string // notation | string | module | formatter
}

type fcaseDesc struct {
	mode    string // fresh (a new notation), shared (the notation the collection classes are bound to), small (a formatter with a small maximum)
	maximum int
	calls   []fcallDesc
	child   bool
}

type fcallObs struct {
	Done    bool   `json:"done"`
	Outcome int    `json:"outcome"` // 0 returned, 1 panicked, 2 crashed / did not return
	Text    string `json:"text"`
	Msg     string `json:"msg"`
	RT      int    `json:"rt"`
	RTEq    bool   `json:"rteq"`
	RTTxt   bool   `json:"rttxt"`
	RTNote  string `json:"rtnote"`
}

func genFcase(seed uint64, stats *fstats) *fcaseDesc {
	r := newRng(seed)
	c := &fcaseDesc{mode: "fresh", maximum: cdc.Formatter().DefaultMaximum()}
	switch x := r.intn(10); {
	case x < 2:
		c.mode = "shared"
	case x < 4:
		c.mode = "small"
		c.maximum = []int{0, 1, 2, 3, 5}[r.intn(5)]
	}
	c.child = r.chance(1, 8)
	ncalls := 1 + r.intn(5)
	for k := 0; k < ncalls; k++ {
		g := &fgen{r: r, budget: 60 + r.intn(120), keys: map[string]bool{}, stats: stats}
		if r.chance(1, 12) {
			g.budget = 500
		}
		switch x := r.intn(20); {
		case x < 9:
			g.mode = 0
		case x < 14:
			g.mode = 1
		default:
			g.mode = 2
		}
		var n *fnode
		switch x := r.intn(20); {
		case c.child && (k == 0 || x < 8):
			g.noMulti = true
			spec := fcycSpec{variant: []string{"list", "list", "slice", "catalog", "mixed"}[r.intn(5)], length: 1 + r.intn(3)}
			n = &fnode{kind: "cyc", prim: spec}
			for s := []int{0, 0, 1, 2}[r.intn(4)]; s > 0; s-- {
				n.kids = append(n.kids, g.genValue(r.intn(2)))
			}
		case x < 2:
			n = g.genLeaf(g.leafKind())
		case x < 5:
			n = g.genAdjacency()
		case x < 8:
			// flat collection of leaves, sizes across 0 / 1 / 2 / 16 / 17 / 40
			n = g.genContainer(g.contKind(), 0)
		case x < 14:
			n = g.genContainer(g.contKind(), 1+r.intn(4))
		case x < 17:
			n = g.genChain(3 + r.intn(9))
		case x < 18 && g.mode >= 1:
			n = g.genTyped()
		case x < 19:
			n = &fnode{kind: "assoc", kids: []*fnode{g.genKey()}, vals: []*fnode{g.genValue(2)}}
		default:
			n = g.genValue(7)
		}
		if n.kind != "cyc" && r.chance(1, 4) {
			n = g.plantBad(n)
		}
		entry := "notation"
		switch c.mode {
		case "small":
			entry = "formatter"
		default:
			switch x := r.intn(10); {
			case x < 2 && fIsStringer(n):
				entry = "string"
			case x < 3:
				entry = "module"
			}
		}
		c.calls = append(c.calls, fcallDesc{node: n, entry: entry})
	}
	return c
}

func fIsStringer(n *fnode) bool {
	switch n.kind {
	case "array", "list", "set", "stack", "queue", "catalog", "map", "assoc", "lint", "sstr", "cati", "mapsi":
		return true
	case "cyc":
		v := n.prim.(fcycSpec).variant
		return v != "slice"
	}
	return false
}

// runs f with a watchdog; ok = false when it did not return in time (the goroutine is left behind)
func fWithTimeout(d time.Duration, f func()) (oc outcome, msg string, ok bool) {
	done := make(chan struct{})
	go func() {
		defer close(done)
		oc, msg = guard(f)
	}()
	select {
	case <-done:
		return oc, msg, true
	case <-time.After(d):
		return ocHang, "timeout", false
	}
}

var fCollator = age.Collator[any]().Make()

func fSortedLines(s string) string {
	ls := strings.Split(s, "\n")
	for i := range ls {
		ls[i] = strings.TrimLeft(ls[i], " ")
	}
	sort.Strings(ls)
	return strings.Join(ls, "\n")
}

// the real round trip on the text a call returned
func fRoundTrip(v any, text string, multiMap bool) (rt int, eq, txt bool, note string) {
	rv := reflect.ValueOf(v)
	isColl := false
	if v != nil {
		switch rv.Kind() {
		case reflect.Slice, reflect.Map:
			isColl = true
		case reflect.Ptr, reflect.Interface:
			isColl = !rv.MethodByName("GetKey").IsValid()
		}
	}
	if !isColl {
		return 1, false, false, "not a collection"
	}
	var parsed any
	oc, msg, ok := fWithTimeout(5*time.Second, func() { parsed = cdc.Notation().Make().ParseSource(text) })
	if !ok {
		return 5, false, false, "ParseSource did not return"
	}
	if oc != ocRet {
		if i := strings.Index(msg, "\n"); i > 0 {
			msg = msg[:i]
		}
		return 2, false, false, "ParseSource panicked: " + msg
	}
	oc, msg, ok = fWithTimeout(5*time.Second, func() { eq = fCollator.CompareValues(v, parsed) })
	if !ok || oc != ocRet {
		eq = false
		note = "CompareValues failed: " + msg
		fCollator = age.Collator[any]().Make()
	}
	var text2 string
	oc, _, ok = fWithTimeout(5*time.Second, func() { text2 = cdc.Formatter().Make().FormatValue(parsed) })
	if ok && oc == ocRet {
		txt = text2 == text || (multiMap && fSortedLines(text2) == fSortedLines(text))
	}
	if !eq && note == "" {
		note = "parsed value compares unequal"
	}
	if !txt {
		note += fmt.Sprintf("; second text %.60q", text2)
	}
	return 0, eq, txt, note
}

type fexec struct {
	notation  col.NotationLike
	formatter cdc.FormatterLike
}

func newFexec(c *fcaseDesc) *fexec {
	x := &fexec{}
	switch c.mode {
	case "shared":
		x.notation = sharedNotation
	case "small":
		x.formatter = cdc.Formatter().MakeWithMaximum(c.maximum)
	default:
		x.notation = cdc.Notation().Make()
	}
	return x
}

func (x *fexec) call(c *fcaseDesc, d fcallDesc, v any) fcallObs {
	var text string
	f := func() {
		switch d.entry {
		case "string":
			text = v.(fmt.Stringer).String()
		case "module":
			text = fw.FormatValue(v)
		case "formatter":
			text = x.formatter.FormatValue(v)
		default:
			text = x.notation.FormatValue(v)
		}
	}
	oc, msg, ok := fWithTimeout(20*time.Second, f)
	o := fcallObs{Done: true, RT: 1}
	switch {
	case !ok:
		o.Outcome = 2
		o.Msg = "did not return"
	case oc != ocRet:
		o.Outcome = 1
		if i := strings.Index(msg, "\n"); i > 0 {
			msg = msg[:i]
		}
		o.Msg = msg
	default:
		o.Text = text
		o.RT, o.RTEq, o.RTTxt, o.RTNote = fRoundTrip(v, text, fHasMultiMap(d.node))
	}
	return o
}

// the child: regenerates the case from its seed, executes it and reports every completed call
// on stdout (a stack overflow kills this process; the parent sees which call never completed)
func fmtChildMain() {
	debug.SetMaxStack(128 << 20)
	seed, _ := strconv.ParseUint(os.Getenv("VERIF_FMT_CHILD"), 10, 64)
	fmtBindClasses()
	c := genFcase(seed, newFstats())
	x := newFexec(c)
	w := bufio.NewWriter(os.Stdout)
	for _, d := range c.calls {
		v := fbuild(d.node, nil)
		o := x.call(c, d, v)
		b, _ := json.Marshal(o)
		w.Write(b)
		w.WriteString("\n")
		w.Flush()
	}
}

func fRunChild(seed uint64, ncalls int) []fcallObs {
	cmd := exec.Command(os.Args[0])
	cmd.Env = append(os.Environ(), fmt.Sprintf("VERIF_FMT_CHILD=%d", seed))
	cmd.Stderr = nil
	out, _ := cmd.StdoutPipe()
	res := make([]fcallObs, 0, ncalls)
	if err := cmd.Start(); err != nil {
		for len(res) < ncalls {
			res = append(res, fcallObs{Outcome: 2, Msg: "child could not start: " + err.Error(), RT: 1})
		}
		return res
	}
	timer := time.AfterFunc(90*time.Second, func() { cmd.Process.Kill() })
	sc := bufio.NewScanner(out)
	sc.Buffer(make([]byte, 1<<20), 1<<28)
	for sc.Scan() {
		var o fcallObs
		if json.Unmarshal(sc.Bytes(), &o) == nil && o.Done {
			res = append(res, o)
		}
	}
	err := cmd.Wait()
	timer.Stop()
	why := "child process died"
	if err != nil {
		why += " (" + err.Error() + ")"
	}
	for len(res) < ncalls {
		res = append(res, fcallObs{Outcome: 2, Msg: why, RT: 1})
	}
	return res
}

// every collection class this generator uses must be bound to sharedNotation, so that String()
// goes through the same formatter as sharedNotation.FormatValue (the class keeps the notation
// it was first created with)
func fmtBindClasses() error {
	N := sharedNotation
	ok := col.Array[any](N).Notation() == N && col.List[any](N).Notation() == N && col.Set[any](N).Notation() == N &&
		col.Stack[any](N).Notation() == N && col.Queue[any](N).Notation() == N && col.Catalog[any, any](N).Notation() == N &&
		col.Map[any, any](N).Notation() == N && col.Association[any, any](N).Notation() == N && col.List[int](N).Notation() == N &&
		col.Set[string](N).Notation() == N && col.Catalog[string, int](N).Notation() == N && col.Map[string, int](N).Notation() == N
	if !ok {
		return fmt.Errorf("a collection class is already bound to another notation")
	}
	return nil
}

func fShortText(s string) string {
	q := strconv.Quote(s)
	if len(q) > 160 {
		q = q[:150] + "...\""
	}
	return q
}

func genFmt(prop string, seed uint64, tier, outDir string, count int) error {
	if err := fmtBindClasses(); err != nil {
		return err
	}
	r := newRng(seed ^ hashString(prop))
	if count == 0 {
		count = 300
		if tier == "thorough" {
			count = 4000
		}
	}
	stats := newFstats()
	meta := genMeta{Property: prop, Seed: seed, Tier: tier, OpHist: map[string]int{}, OutHist: map[string]int{}, TypeHist: map[string]int{}, LenHist: map[string]int{}}
	var cases []string
	seen := map[string]bool{}
	for i := 0; i < count; i++ {
		cseed := r.next()
		c := genFcase(cseed, stats)
		vals := make([]any, len(c.calls))
		for k, d := range c.calls {
			vals[k] = fbuild(d.node, nil)
		}
		var obs []fcallObs
		if c.child {
			obs = fRunChild(cseed, len(c.calls))
		} else {
			x := newFexec(c)
			for k, d := range c.calls {
				obs = append(obs, x.call(c, d, vals[k]))
			}
		}
		floats := map[uint64]string{}
		runes := map[rune]bool{}
		var calls, human []string
		nontrivial := false
		for k, d := range c.calls {
			o := obs[k]
			e := newFenc(o.Text, c.maximum+3, floats, runes)
			ev := e.enc(vals[k], 0)
			var ob, res string
			switch o.Outcome {
			case 0:
				ob = "(OText " + fEncText(o.Text) + ")"
				res = fShortText(o.Text)
				stats.outcomes["returned"]++
			case 1:
				ob = "OPanic"
				res = "panic: " + fShortText(o.Msg)
				stats.outcomes["panicked"]++
			default:
				ob = "OCrash"
				res = "CRASH: " + o.Msg
				stats.outcomes["crashed"]++
				meta.Hangs++
			}
			rtn := map[int]string{0: "parsed", 1: "not attempted", 2: "ParseSource panicked", 5: "ParseSource hung"}[o.RT]
			if o.RT == 0 {
				rtn = fmt.Sprintf("parsed equal=%v sametext=%v", o.RTEq, o.RTTxt)
			}
			stats.rt[rtn]++
			calls = append(calls, fmt.Sprintf("FCall %s %s %d %v %v", ev, ob, o.RT, o.RTEq, o.RTTxt))
			desc := fmt.Sprintf("%s kind=%s nodes=%d nesting=%d", d.entry, d.node.kind, fCount(d.node), fNesting(d.node))
			if d.node.kind == "cyc" {
				sp := d.node.prim.(fcycSpec)
				desc += fmt.Sprintf(" self-containing %s cycle=%d siblings=%d", sp.variant, sp.length, len(d.node.kids))
			}
			if fHasBad(d.node) {
				desc += " (holds a value the formatter rejects)"
			}
			evs := ev
			if len(evs) > 400 {
				evs = evs[:400] + "..."
			}
			line := fmt.Sprintf("FormatValue[%s; mode %s max %d] => %s   value: %s", desc, c.mode, c.maximum, res, evs)
			if o.RT != 1 {
				line += "   round trip: " + rtn
				if o.RTNote != "" && (o.RT != 0 || !o.RTEq || !o.RTTxt) {
					line += " (" + o.RTNote + ")"
				}
			}
			human = append(human, line)
			meta.OpHist[d.entry]++
			meta.TypeHist[d.node.kind]++
			stats.entries[c.mode]++
			stats.nests[fmt.Sprintf("%02d", fNesting(d.node))]++
			meta.Steps++
			if fCount(d.node) >= 3 {
				nontrivial = true
			}
		}
		// oracle tables of the case, each entry checked here against the facts the proofs assume
		var fkeys []uint64
		for b := range floats {
			fkeys = append(fkeys, b)
		}
		sort.Slice(fkeys, func(i, j int) bool { return fkeys[i] < fkeys[j] })
		var ft []string
		for _, b := range fkeys {
			t := floats[b]
			f := math.Float64frombits(b)
			if back, err := strconv.ParseFloat(t, 64); !(math.IsNaN(f) && math.IsNaN(back)) && (err != nil || math.Float64bits(back) != b) {
				return fmt.Errorf("oracle check failed: ParseFloat(%q) does not give back bits %#x", t, b)
			}
			stats.floatsChk++
			ft = append(ft, fmt.Sprintf("(%d, %s)", b, fEncText(t)))
		}
		var rkeys []int
		for x := range runes {
			rkeys = append(rkeys, int(x))
		}
		sort.Ints(rkeys)
		var pt []string
		for _, x := range rkeys {
			p := strconv.IsPrint(rune(x))
			if p != unicode.IsPrint(rune(x)) {
				return fmt.Errorf("oracle check failed: strconv.IsPrint and unicode.IsPrint differ on %#x", x)
			}
			stats.runesChk++
			pt = append(pt, fmt.Sprintf("(%d, %v)", x, p))
		}
		cases = append(cases, fmt.Sprintf("{| fc_max := %d; fc_ftext := %s; fc_print := %s; fc_calls := [\n  %s] |}", c.maximum, encList(ft), encList(pt), strings.Join(calls, ";\n  ")))
		key := strings.Join(human, "|")
		if nontrivial && !seen[key] {
			seen[key] = true
			meta.Distinct++
		}
		meta.LenHist[fmt.Sprintf("calls=%d", len(c.calls))]++
		meta.Traces = append(meta.Traces, human)
	}
	meta.Cases = len(cases)
	meta.OutHist = stats.outcomes
	meta.Rule = "each case is one notation (fresh / the one the collection classes are bound to) or one formatter with maximum 0..5, and 1..5 FormatValue calls (Notation.FormatValue, String(), module-level FormatValue) on values from the recursive generator over the canonical universe (float64 by magnitude class, integer boundaries of every width, rune and string classes incl. invalid UTF-8, the seven collection kinds + Go slices/maps + typed collections, sizes 0..40, nesting 0..11, bare associations), one call in four holding a value the formatter rejects, one case in eight self-containing (cycle length 1..3, with siblings) run in a child process; a case counts as distinct and non-trivial when one of its values has at least 3 nodes and its call/result trace differs from every other case"
	for i := 0; i < 3 && i < len(cases); i++ {
		meta.Samples = append(meta.Samples, meta.Traces[i*len(cases)/3])
	}
	meta.Extra = map[string]any{
		"float_classes": stats.floatClass, "rune_classes": stats.runeClass, "string_classes": stats.strClass, "leaf_kinds": stats.leafKinds,
		"container_kinds": stats.contKinds, "container_sizes": stats.sizes, "nesting": stats.nests, "modes": stats.entries, "round_trip": stats.rt,
		"oracle_floats_checked(ParseFloat(text)==bits)": stats.floatsChk, "oracle_runes_checked(strconv.IsPrint==unicode.IsPrint)": stats.runesChk,
		"map_order": "entries of a Map / Go map are listed in the order their key lines appear in the observed text; the text itself is compared exactly",
	}
	meta.Explain = "Definition the_case := nth {case} cases empty_case.\nDefinition Report := Eval vm_compute in (call_report the_case {step}, oracle_report the_case {step}, rt_report the_case {step}).\nPrint Report.\n"
	shardSize := 50
	for s := 0; s*shardSize < len(cases); s++ {
		lo, hi := s*shardSize, (s+1)*shardSize
		if hi > len(cases) {
			hi = len(cases)
		}
		name := fmt.Sprintf("cases_%03d.v", s)
		var sb strings.Builder
		sb.WriteString("From Coq Require Import String.\nFrom Verif Require Import Base Value Formatter FormatSpec FormatRun RoundTripRun.\nOpen Scope string_scope.\nOpen Scope Z_scope.\nDefinition cases : list fcase := [\n")
		sb.WriteString(strings.Join(cases[lo:hi], ";\n"))
		sb.WriteString("].\nDefinition M := Eval vm_compute in fmismatches_rt cases.\nPrint M.\n")
		if err := os.WriteFile(filepath.Join(outDir, name), []byte(sb.String()), 0o644); err != nil {
			return err
		}
		meta.Shards = append(meta.Shards, name)
		meta.ShardSizes = append(meta.ShardSizes, hi-lo)
	}
	return writeMeta(outDir, &meta)
}
