package main

import (
	"fmt"
	"math"
	"math/cmplx"
	"reflect"
	"sort"
	"strings"
)

// ---------- PRNG: one splitmix64 state per run, every random choice derives from it ----------

type rng struct{ s uint64 }

// the seed is scrambled so that nearby seeds do not give shifted copies of one stream
func newRng(seed uint64) *rng {
	z := seed + 0x632BE59BD9B4E019
	z = (z ^ (z >> 30)) * 0xBF58476D1CE4E5B9
	z = (z ^ (z >> 27)) * 0x94D049BB133111EB
	z = z ^ (z >> 31)
	z = (z ^ (z >> 33)) * 0xFF51AFD7ED558CCD
	z = (z ^ (z >> 33)) * 0xC4CEB9FE1A85EC53
	return &rng{s: z ^ (z >> 33)}
}

func (r *rng) next() uint64 {
	r.s += 0x9E3779B97F4A7C15
	z := r.s
	z = (z ^ (z >> 30)) * 0xBF58476D1CE4E5B9
	z = (z ^ (z >> 27)) * 0x94D049BB133111EB
	return z ^ (z >> 31)
}
func (r *rng) intn(n int) int {
	if n <= 0 {
		return 0
	}
	return int(r.next() % uint64(n))
}
func (r *rng) chance(num, den int) bool { return r.intn(den) < num }
func (r *rng) pick(xs []int) int        { return xs[r.intn(len(xs))] }
func (r *rng) fork() *rng               { return newRng(r.next()) }

// ---------- pointer keys: distinct keys with structurally equal content ----------

type PK struct{ X int }

var pkIds = map[*PK]int{}
var pkList []*PK

func newPK(x int) *PK {
	p := &PK{X: x}
	pkIds[p] = len(pkIds) + 1
	pkList = append(pkList, p)
	return p
}

// ---------- Gallina encoding of Go values as terms of type val ----------

func zlit(z int64) string {
	if z < 0 {
		return fmt.Sprintf("(%d)", z)
	}
	return fmt.Sprintf("%d", z)
}
func ulit(z uint64) string { return fmt.Sprintf("%d", z) }

func encFloatBits(f float64) string { return ulit(math.Float64bits(f)) }

func encList(items []string) string { return "[" + strings.Join(items, "; ") + "]" }

func encBytes(s string) string {
	items := make([]string, len(s))
	for i := 0; i < len(s); i++ {
		items[i] = fmt.Sprintf("%d", s[i])
	}
	return encList(items)
}

var encDepthLimit = -1
var encDepthCur = 0

// encVal encodes any supported Go value (typed or under `any`) as a Gallina term of type val.
func encVal(v any) string {
	if v == nil {
		return "VNil"
	}
	switch a := v.(type) {
	case bool:
		if a {
			return "(VBool true)"
		}
		return "(VBool false)"
	case int:
		return "(VInt 0 " + zlit(int64(a)) + ")"
	case int8:
		return "(VInt 8 " + zlit(int64(a)) + ")"
	case int16:
		return "(VInt 16 " + zlit(int64(a)) + ")"
	case int64:
		return "(VInt 64 " + zlit(a) + ")"
	case int32:
		return "(VRune " + zlit(int64(a)) + ")"
	case uint:
		return "(VUint 0 " + ulit(uint64(a)) + ")"
	case uint8:
		return "(VByte " + ulit(uint64(a)) + ")"
	case uint16:
		return "(VUint 16 " + ulit(uint64(a)) + ")"
	case uint32:
		return "(VUint 32 " + ulit(uint64(a)) + ")"
	case uint64:
		return "(VUint 64 " + ulit(a) + ")"
	case float32:
		return "(VFloat 32 " + encFloatBits(float64(a)) + ")"
	case float64:
		return "(VFloat 64 " + encFloatBits(a) + ")"
	case complex64:
		c := complex128(a)
		n := complex(real(c)+0, imag(c)+0) // the oracle fields are taken on the value with negative zeros normalized
		return fmt.Sprintf("(VComplex 64 %s %s %s %s)", encFloatBits(real(c)), encFloatBits(imag(c)), encFloatBits(cmplx.Abs(n)), encFloatBits(cmplx.Phase(n)))
	case complex128:
		n := complex(real(a)+0, imag(a)+0)
		return fmt.Sprintf("(VComplex 128 %s %s %s %s)", encFloatBits(real(a)), encFloatBits(imag(a)), encFloatBits(cmplx.Abs(n)), encFloatBits(cmplx.Phase(n)))
	case string:
		return "(VStr " + encBytes(a) + ")"
	case *PK:
		if a == nil {
			return "VNil"
		}
		return fmt.Sprintf("(VPtr %d %s)", pkIds[a], zlit(int64(a.X)))
	}
	// containers: optional cut-off for self-containing values
	if encDepthLimit >= 0 {
		if encDepthCur >= encDepthLimit {
			return "VNil"
		}
		encDepthCur++
		defer func() { encDepthCur-- }()
	}
	rv := reflect.ValueOf(v)
	ts := rv.Type().String()
	switch rv.Kind() {
	case reflect.Slice:
		if strings.HasPrefix(ts, "collection.array_") {
			return "(VSeq KArray " + encElems(rv) + ")"
		}
		if rv.IsNil() {
			return "VNilSlice"
		}
		return "(VSeq KSlice " + encElems(rv) + ")"
	case reflect.Map:
		if rv.IsNil() {
			return "VNilMap"
		}
		kind := "MGoMap"
		if strings.HasPrefix(ts, "collection.map_") {
			kind = "MMap"
		}
		type kv struct{ k, v string }
		var kvs []kv
		it := rv.MapRange()
		for it.Next() {
			kvs = append(kvs, kv{encVal(it.Key().Interface()), encVal(it.Value().Interface())})
		}
		sort.Slice(kvs, func(i, j int) bool { return kvs[i].k < kvs[j].k })
		ks := make([]string, len(kvs))
		vs := make([]string, len(kvs))
		for i, p := range kvs {
			ks[i], vs[i] = p.k, p.v
		}
		return "(VMapping " + kind + " " + encList(ks) + " " + encList(vs) + ")"
	case reflect.Ptr, reflect.Interface:
		if rv.IsNil() {
			return "VNil"
		}
		switch {
		case strings.HasPrefix(ts, "*collection.association_"):
			k := rv.MethodByName("GetKey").Call(nil)[0].Interface()
			x := rv.MethodByName("GetValue").Call(nil)[0].Interface()
			return "(VAssoc " + encVal(k) + " " + encVal(x) + ")"
		case strings.HasPrefix(ts, "*collection.catalog_"):
			arr := rv.MethodByName("AsArray").Call(nil)[0]
			ks := make([]string, arr.Len())
			vs := make([]string, arr.Len())
			for i := 0; i < arr.Len(); i++ {
				a := arr.Index(i)
				ks[i] = encVal(a.MethodByName("GetKey").Call(nil)[0].Interface())
				vs[i] = encVal(a.MethodByName("GetValue").Call(nil)[0].Interface())
			}
			return "(VMapping MCatalog " + encList(ks) + " " + encList(vs) + ")"
		}
		kind := ""
		switch {
		case strings.HasPrefix(ts, "*collection.list_"):
			kind = "KList"
		case strings.HasPrefix(ts, "*collection.set_"):
			kind = "KSet"
		case strings.HasPrefix(ts, "*collection.stack_"):
			kind = "KStack"
		case strings.HasPrefix(ts, "*collection.queue_"):
			kind = "KQueue"
		}
		if kind != "" {
			arr := rv.MethodByName("AsArray").Call(nil)[0]
			return "(VSeq " + kind + " " + encElems(arr) + ")"
		}
	}
	panic(fmt.Sprintf("encVal: unsupported value of type %T", v))
}

func encElems(rv reflect.Value) string {
	items := make([]string, rv.Len())
	for i := 0; i < rv.Len(); i++ {
		items[i] = encVal(rv.Index(i).Interface())
	}
	return encList(items)
}

// ---------- running a call with panic capture and a watchdog ----------

type outcome int

const (
	ocRet outcome = iota
	ocPanic
	ocHang
)

// guard runs f, mapping a panic to ocPanic.
func guard(f func()) (oc outcome, msg string) {
	defer func() {
		if e := recover(); e != nil {
			oc = ocPanic
			msg = fmt.Sprint(e)
		}
	}()
	f()
	return ocRet, ""
}
