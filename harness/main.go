package main

// verif harness: drives the real library (built from /repo's working tree with -tags verif)
// and writes the observed behaviour as Gallina terms for the Coq correspondence check.
//
//   harness gen <property> -seed N -tier quick|thorough -out DIR [-count N]

import (
	"flag"
	"fmt"
	"os"

	cdc "github.com/craterdog/go-collection-framework/v4/cdcn"
	col "github.com/craterdog/go-collection-framework/v4/collection"
)

var sharedNotation col.NotationLike = cdc.Notation().Make()

func main() {
	if len(os.Args) < 3 {
		fmt.Fprintln(os.Stderr, "usage: harness gen <property> [flags]")
		os.Exit(2)
	}
	cmd, prop := os.Args[1], os.Args[2]
	fs := flag.NewFlagSet(cmd, flag.ExitOnError)
	seed := fs.Uint64("seed", 1, "PRNG seed")
	tier := fs.String("tier", "quick", "quick|thorough")
	out := fs.String("out", ".", "output directory")
	count := fs.Int("count", 0, "number of cases (0 = tier default)")
	fs.Parse(os.Args[3:])
	if err := os.MkdirAll(*out, 0o755); err != nil {
		fmt.Fprintln(os.Stderr, err)
		os.Exit(2)
	}
	var err error
	switch cmd {
	case "gen":
		err = gen(prop, *seed, *tier, *out, *count)
	default:
		err = fmt.Errorf("unknown command %q", cmd)
	}
	if err != nil {
		fmt.Fprintln(os.Stderr, "harness:", err)
		os.Exit(2)
	}
}

// generators of the non-pool properties register themselves here from an init() function
// of their own file (so that adding a property adds files and edits none)
var generators = map[string]func(prop string, seed uint64, tier, out string, count int) error{}

func gen(prop string, seed uint64, tier, out string, count int) error {
	if g, ok := generators[prop]; ok {
		return g(prop, seed, tier, out, count)
	}
	if _, ok := profiles[prop]; ok {
		if count == 0 {
			count = 300
			if tier == "thorough" {
				count = 3000
			}
		}
		return genPool(prop, seed, tier, out, count)
	}
	return fmt.Errorf("no generator for property %s", prop)
}
