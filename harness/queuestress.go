package main

// Uncontrolled stress of ONE queue (C04, C05) and of Fork/Split/Join pipelines (C06) with many
// goroutines, meant to be run through the -race build of the harness (build/harness_race):
//
//   harness_race gen C04stress|C05stress|C06stress -seed N -tier quick|thorough -out DIR [-count trials]
//
// or, from Go, genQueueStress("C04"|"C05"|"C06", seed, tier, outDir, count).  Nothing here is
// compared with the Coq model: the trials check the properties' own predicates on the real code
// under the Go scheduler - values conserved (nothing lost, duplicated or invented), the order of
// every producer preserved, bounds of the observers, every goroutine finished - and collect the
// race detector's reports.  Trials run in child processes (a batch per child) so that a lost
// wake-up (a goroutine that never returns) kills only that child: the trial is then reported
// with all_finished=false.  The result is written to DIR/queuestress.json.

import (
	"bufio"
	"bytes"
	"context"
	"encoding/json"
	"fmt"
	"os"
	"os/exec"
	"path/filepath"
	"sort"
	"strings"
	"sync"
	"sync/atomic"
	"time"

	col "github.com/craterdog/go-collection-framework/v4/collection"
)

func init() {
	for _, p := range []string{"C04", "C05", "C06"} {
		generators[p+"stress"] = genQueueStress
	}
	if len(os.Args) >= 3 && os.Args[1] == "queuestresschild" {
		os.Exit(queueStressChild(os.Args[2]))
	}
}

type qsTrial struct {
	Id        int    `json:"id"`
	Kind      string `json:"kind"` // oneq | construct | fork | split | splitjoin
	Seed      uint64 `json:"seed"`
	Capacity  int    `json:"capacity"`
	Producers int    `json:"producers"`
	Consumers int    `json:"consumers"`
	PerProd   int    `json:"per_producer"`
	Observers int    `json:"observers"`
	Clearers  int    `json:"clearers"` // goroutines calling RemoveAll now and then
	Fan       int    `json:"fan"`
	Length    int    `json:"length"`
	Elem      string `json:"elem,omitempty"` // pipelines: element type of the queues (concelem.go); every 5th position of the stream is the zero value, a quarter of the trials stream only zero values
	ProdPace  string `json:"producer_pace"`  // fast | slow | bursty
	ConsPace  string `json:"consumer_pace"`
}

type qsResult struct {
	Id         int      `json:"id"`
	Finished   bool     `json:"all_finished"`
	Conserved  bool     `json:"values_conserved"`
	Ordered    bool     `json:"order_preserved"`
	BoundsOk   bool     `json:"observer_bounds_ok"`
	ClosedOk   bool     `json:"closed_and_drained_ok"`
	Added      int      `json:"added"`
	Delivered  int      `json:"delivered"`
	Discarded  int      `json:"discarded_by_removeall"`
	Panics     []string `json:"panics,omitempty"`
	Problems   []string `json:"problems,omitempty"`
	Goroutines int      `json:"goroutines"`
	Millis     int64    `json:"ms"`
}

func (t qsTrial) String() string {
	switch t.Kind {
	case "oneq":
		return fmt.Sprintf("one queue cap=%d: %d producers x %d values (%s), %d consumers (%s), %d observers, %d RemoveAll callers, closer",
			t.Capacity, t.Producers, t.PerProd, t.ProdPace, t.Consumers, t.ConsPace, t.Observers, t.Clearers)
	case "construct":
		return fmt.Sprintf("constructors with %d initial values (default capacity 16) and with capacity %d", t.Length, t.Capacity)
	}
	return fmt.Sprintf("%s over Queue[%s] cap=%d fan-out=%d stream length=%d (zero values inside) feeder %s readers %s", t.Kind, elemName(t.Elem), t.Capacity, t.Fan, t.Length, t.ProdPace, t.ConsPace)
}

func qsPace(r *rng, pace string, i int) {
	switch pace {
	case "slow":
		if r.intn(4) == 0 {
			time.Sleep(time.Duration(5+r.intn(60)) * time.Microsecond)
		}
	case "bursty":
		if i%64 == 63 {
			time.Sleep(time.Duration(200+r.intn(1500)) * time.Microsecond)
		}
	}
}

// qsGo runs f in a goroutine, records a panic, counts the goroutine as finished when f returns
func qsGo(wg *sync.WaitGroup, mu *sync.Mutex, res *qsResult, name string, f func()) {
	wg.Add(1)
	go func() {
		defer wg.Done()
		defer func() {
			if e := recover(); e != nil {
				mu.Lock()
				res.Panics = append(res.Panics, fmt.Sprintf("%s: %v", name, e))
				mu.Unlock()
			}
		}()
		f()
	}()
}

// checks a received sequence against per-producer order: value = producer*1e7 + index
func qsOrder(seq []int, what string, problems *[]string) bool {
	last := map[int]int{}
	ok := true
	for _, v := range seq {
		p, i := v/10000000, v%10000000
		if l, seen := last[p]; seen && i <= l {
			ok = false
			if len(*problems) < 8 {
				*problems = append(*problems, fmt.Sprintf("%s received value %d of producer %d after value %d", what, i, p, l))
			}
		}
		last[p] = i
	}
	return ok
}

func qsRunOneQueue(t qsTrial) qsResult {
	res := qsResult{Id: t.Id, Conserved: true, Ordered: true, BoundsOk: true, ClosedOk: true}
	r := newRng(t.Seed)
	q := col.Queue[int](sharedNotation).MakeWithCapacity(uint(t.Capacity))
	var mu sync.Mutex
	var all, prods sync.WaitGroup
	var done int32 // set when the queue has been closed and the consumers are gone
	received := make([][]int, t.Consumers)
	valid := func(v int) bool {
		p, i := v/10000000, v%10000000
		return p >= 0 && p < t.Producers && i >= 0 && i < t.PerProd
	}
	problem := func(s string) {
		mu.Lock()
		if len(res.Problems) < 8 {
			res.Problems = append(res.Problems, s)
		}
		mu.Unlock()
	}
	badBounds := func(s string) { // called from the observer goroutines
		mu.Lock()
		res.BoundsOk = false
		if len(res.Problems) < 8 {
			res.Problems = append(res.Problems, s)
		}
		mu.Unlock()
	}
	for p := 0; p < t.Producers; p++ {
		p, lr := p, r.fork()
		prods.Add(1)
		qsGo(&all, &mu, &res, fmt.Sprintf("producer %d", p), func() {
			defer prods.Done()
			for i := 0; i < t.PerProd; i++ {
				q.AddValue(p*10000000 + i)
				qsPace(lr, t.ProdPace, i)
			}
		})
	}
	var cons sync.WaitGroup
	for c := 0; c < t.Consumers; c++ {
		c, lr := c, r.fork()
		cons.Add(1)
		qsGo(&all, &mu, &res, fmt.Sprintf("consumer %d", c), func() {
			defer cons.Done()
			for i := 0; ; i++ {
				v, ok := q.RemoveHead()
				if !ok {
					return
				}
				received[c] = append(received[c], v)
				qsPace(lr, t.ConsPace, i)
			}
		})
	}
	qsGo(&all, &mu, &res, "closer", func() {
		prods.Wait()
		q.CloseQueue()
	})
	for o := 0; o < t.Observers; o++ {
		o, lr := o, r.fork()
		qsGo(&all, &mu, &res, fmt.Sprintf("observer %d", o), func() {
			for atomic.LoadInt32(&done) == 0 {
				switch lr.intn(3) {
				case 0:
					if n := q.GetSize(); n < 0 || n > t.Capacity {
						badBounds(fmt.Sprintf("GetSize() = %d with capacity %d", n, t.Capacity))
					}
				case 1:
					_ = q.IsEmpty()
				case 2:
					a := q.AsArray()
					for _, v := range a {
						if !valid(v) {
							badBounds(fmt.Sprintf("AsArray() shows %d, never added", v))
						}
					}
					var pr []string
					if !qsOrder(a, "AsArray()", &pr) {
						badBounds(strings.Join(pr, "; "))
					}
				}
				time.Sleep(time.Duration(5+lr.intn(100)) * time.Microsecond)
			}
		})
	}
	for k := 0; k < t.Clearers; k++ {
		k, lr := k, r.fork()
		qsGo(&all, &mu, &res, fmt.Sprintf("RemoveAll caller %d", k), func() {
			for atomic.LoadInt32(&done) == 0 {
				time.Sleep(time.Duration(50+lr.intn(2000)) * time.Microsecond)
				q.RemoveAll()
			}
		})
	}
	cons.Wait()
	atomic.StoreInt32(&done, 1)
	all.Wait()
	res.Finished = true
	res.Goroutines = t.Producers + t.Consumers + t.Observers + t.Clearers + 1
	// after close + drain
	if v, ok := q.RemoveHead(); ok {
		res.ClosedOk = false
		problem(fmt.Sprintf("RemoveHead on the closed, drained queue returned (%d, true)", v))
	}
	if n := q.GetSize(); n != 0 {
		res.ClosedOk = false
		problem(fmt.Sprintf("GetSize() = %d after close and drain", n))
	}
	if a := q.AsArray(); len(a) != 0 {
		res.ClosedOk = false
		problem(fmt.Sprintf("AsArray() has %d values after close and drain", len(a)))
	}
	// conservation and order
	seen := map[int]int{}
	for c := range received {
		for _, v := range received[c] {
			seen[v]++
			if !valid(v) {
				res.Conserved = false
				problem(fmt.Sprintf("consumer %d received %d, never added", c, v))
			}
		}
		var pr []string
		if !qsOrder(received[c], fmt.Sprintf("consumer %d", c), &pr) {
			res.Ordered = false
			for _, s := range pr {
				problem(s)
			}
		}
		res.Delivered += len(received[c])
	}
	for v, n := range seen {
		if n > 1 {
			res.Conserved = false
			problem(fmt.Sprintf("value %d delivered %d times", v, n))
		}
	}
	res.Added = t.Producers * t.PerProd
	res.Discarded = res.Added - res.Delivered
	if t.Clearers == 0 && res.Delivered != res.Added {
		res.Conserved = false
		problem(fmt.Sprintf("%d values added, %d delivered, no RemoveAll", res.Added, res.Delivered))
	}
	if res.Discarded < 0 {
		res.Conserved = false
	}
	if len(res.Panics) > 0 {
		res.Conserved = false
	}
	return res
}

func qsRunConstruct(t qsTrial) qsResult {
	res := qsResult{Id: t.Id, Conserved: true, Ordered: true, BoundsOk: true, ClosedOk: true}
	vals := make([]int, t.Length)
	for i := range vals {
		vals[i] = i
	}
	check := func(name string, q col.QueueLike[int]) {
		a := q.AsArray()
		if len(a) != len(vals) || q.GetSize() != len(vals) {
			res.Conserved = false
			res.Problems = append(res.Problems, fmt.Sprintf("%s of %d values: size %d, %d in AsArray", name, len(vals), q.GetSize(), len(a)))
		}
		for i := range a {
			if i < len(vals) && a[i] != vals[i] {
				res.Ordered = false
			}
		}
		if int(q.GetCapacity()) < len(vals) {
			res.BoundsOk = false
			res.Problems = append(res.Problems, fmt.Sprintf("%s of %d values: capacity %d", name, len(vals), q.GetCapacity()))
		}
		// every initial value can be consumed, then the closed queue reports ok=false
		q.CloseQueue()
		for i := range vals {
			v, ok := q.RemoveHead()
			if !ok || v != vals[i] {
				res.Conserved = false
			}
		}
		if _, ok := q.RemoveHead(); ok {
			res.ClosedOk = false
		}
	}
	func() {
		defer func() {
			if e := recover(); e != nil {
				res.Panics = append(res.Panics, fmt.Sprint(e))
				res.Conserved = false
			}
		}()
		check("MakeFromArray", col.Queue[int](sharedNotation).MakeFromArray(vals))
		check("MakeFromSequence", col.Queue[int](sharedNotation).MakeFromSequence(col.List[int](sharedNotation).MakeFromArray(vals)))
	}()
	res.Added, res.Delivered = 2*len(vals), 2*len(vals)
	res.Finished = true
	res.Goroutines = 1
	return res
}

// the pipelines run over the element types of concelem.go; position i of the stream carries code 10+i, except that
// every fifth position (and, in a quarter of the trials, every position) carries the zero value of the type
func qsRunPipe(t qsTrial) qsResult {
	switch t.Elem {
	case "string":
		return qsRunPipeT(t, stringCodec())
	case "ptr":
		return qsRunPipeT(t, ptrCodec())
	case "any":
		return qsRunPipeT(t, anyCodec())
	case "slice":
		return qsRunPipeT(t, sliceCodec())
	}
	return qsRunPipeT(t, intCodec())
}

func qsRunPipeT[V any](t qsTrial, cd elemCodec[V]) qsResult {
	res := qsResult{Id: t.Id, Conserved: true, Ordered: true, BoundsOk: true, ClosedOk: true}
	r := newRng(t.Seed)
	allZero := t.Seed%4 == 0
	codeAt := func(i int) int {
		if allZero || i%5 == 2 {
			return 0
		}
		return 10 + i
	}
	codes := make([]int, t.Length)
	for i := range codes {
		codes[i] = codeAt(i)
	}
	enc, dec := cd.table(append([]int{0}, codes...))
	class := col.Queue[V](sharedNotation)
	input := class.MakeWithCapacity(uint(t.Capacity))
	group := &sync.WaitGroup{}
	var mu sync.Mutex
	var all sync.WaitGroup
	problem := func(s string) {
		mu.Lock()
		if len(res.Problems) < 8 {
			res.Problems = append(res.Problems, s)
		}
		mu.Unlock()
	}
	var outs []col.QueueLike[V]
	switch t.Kind {
	case "fork":
		outs = class.Fork(group, input, uint(t.Fan)).AsArray()
	case "split":
		outs = class.Split(group, input, uint(t.Fan)).AsArray()
	case "splitjoin":
		mid := class.Split(group, input, uint(t.Fan))
		outs = []col.QueueLike[V]{class.Join(group, mid)}
	}
	fr := r.fork()
	qsGo(&all, &mu, &res, "feeder", func() {
		for i := 0; i < t.Length; i++ {
			input.AddValue(enc(codes[i]))
			qsPace(fr, t.ProdPace, i)
		}
		input.CloseQueue()
	})
	got := make([][]int, len(outs))
	for o := range outs {
		o, lr := o, r.fork()
		pace := t.ConsPace
		if pace == "mixed" {
			pace = []string{"fast", "slow", "bursty"}[o%3]
		}
		qsGo(&all, &mu, &res, fmt.Sprintf("reader %d", o), func() {
			for i := 0; ; i++ {
				v, ok := outs[o].RemoveHead()
				if !ok {
					return
				}
				got[o] = append(got[o], dec(v))
				qsPace(lr, pace, i)
			}
		})
	}
	all.Wait()
	group.Wait() // the helper goroutines: the caller's wait group returns to zero
	res.Finished = true
	res.Goroutines = 1 + len(outs)
	res.Added = t.Length
	for o := range outs {
		res.Delivered += len(got[o])
		if v, ok := outs[o].RemoveHead(); ok {
			res.ClosedOk = false
			problem(fmt.Sprintf("output %d delivered %s after closure", o, codeName(t.Elem, dec(v))))
		}
		var want []int
		switch t.Kind {
		case "fork", "splitjoin":
			for i := 0; i < t.Length; i++ {
				want = append(want, codes[i])
			}
		case "split":
			for i := o; i < t.Length; i += t.Fan {
				want = append(want, codes[i])
			}
		}
		if len(got[o]) != len(want) {
			res.Conserved = false
			problem(fmt.Sprintf("output %d received %d values, expected %d", o, len(got[o]), len(want)))
		}
		for i := range got[o] {
			if i < len(want) && got[o][i] != want[i] {
				// same multiset in another order, or wrong values?
				a, b := append([]int(nil), got[o]...), append([]int(nil), want...)
				sort.Ints(a)
				sort.Ints(b)
				same := len(a) == len(b)
				for k := 0; same && k < len(a); k++ {
					same = a[k] == b[k]
				}
				if same {
					res.Ordered = false
				} else {
					res.Conserved = false
				}
				problem(fmt.Sprintf("output %d position %d: %s, expected %s", o, i, codeName(t.Elem, got[o][i]), codeName(t.Elem, want[i])))
				break
			}
		}
	}
	if len(res.Panics) > 0 {
		res.Conserved = false
	}
	return res
}

func queueStressChild(specPath string) int {
	b, err := os.ReadFile(specPath)
	if err != nil {
		fmt.Fprintln(os.Stderr, err)
		return 2
	}
	var trials []qsTrial
	if err := json.Unmarshal(b, &trials); err != nil {
		fmt.Fprintln(os.Stderr, err)
		return 2
	}
	w := bufio.NewWriter(os.Stdout)
	for _, t := range trials {
		fmt.Fprintf(w, "START %d\n", t.Id)
		w.Flush()
		t0 := time.Now()
		// a watchdog per trial: a lost wake-up must not stop the remaining trials
		done := make(chan qsResult, 1)
		go func(t qsTrial) {
			switch t.Kind {
			case "oneq":
				done <- qsRunOneQueue(t)
			case "construct":
				done <- qsRunConstruct(t)
			default:
				done <- qsRunPipe(t)
			}
		}(t)
		select {
		case res := <-done:
			res.Millis = time.Since(t0).Milliseconds()
			out, _ := json.Marshal(res)
			fmt.Fprintf(w, "RESULT %s\n", out)
		case <-time.After(qsTrialLimit):
			fmt.Fprintf(w, "HANG %d\n", t.Id)
		}
		w.Flush()
	}
	return 0
}

// a trial moves at most a few tens of thousands of values: seconds under the race detector
const qsTrialLimit = 25 * time.Second

type qsSummary struct {
	Property      string         `json:"property"`
	Seed          uint64         `json:"seed"`
	Tier          string         `json:"tier"`
	RaceDetector  bool           `json:"race_detector"`
	Trials        int            `json:"trials"`
	Ok            bool           `json:"ok"`
	Races         int            `json:"races_found"`
	RaceFrames    []string       `json:"race_frames,omitempty"`
	Conserved     bool           `json:"values_conserved"`
	Ordered       bool           `json:"order_per_producer_preserved"`
	AllFinished   bool           `json:"all_goroutines_finished"`
	BoundsOk      bool           `json:"observer_bounds_ok"`
	ClosedOk      bool           `json:"closed_and_drained_ok"`
	ValuesAdded   int            `json:"values_added"`
	Delivered     int            `json:"values_delivered"`
	Discarded     int            `json:"values_discarded_by_removeall"`
	MaxGoroutines int            `json:"max_goroutines_on_one_queue"`
	MaxLength     int            `json:"max_stream_length"`
	Histogram     map[string]int `json:"histogram"`
	Failures      []any          `json:"failures,omitempty"`
	Seconds       float64        `json:"seconds"`
}

func genQueueStress(prop string, seed uint64, tier, outDir string, count int) error {
	prop = strings.TrimSuffix(prop, "stress")
	t0 := time.Now()
	if count == 0 {
		count = 40
		if tier == "thorough" {
			count = 400
		}
	}
	thorough := tier == "thorough"
	r := newRng(seed ^ hashString(prop+"stress"))
	paces := []string{"fast", "slow", "bursty"}
	var trials []qsTrial
	for i := 0; i < count; i++ {
		t := qsTrial{Id: i, Seed: r.next(), ProdPace: paces[r.intn(3)], ConsPace: paces[r.intn(3)]}
		switch prop {
		case "C06":
			t.Kind = []string{"fork", "split", "splitjoin"}[i%3]
			t.Elem = concElems[(i/3)%len(concElems)]
			t.Capacity = []int{1, 2, 3, 8, 64}[r.intn(5)]
			t.Fan = 2 + r.intn(7)
			lens := []int{0, 1, 2, 7, 100, 500, 2000}
			if thorough {
				lens = append(lens, 5000, 20000)
			}
			t.Length = lens[r.intn(len(lens))]
			if t.Length > 2000 && (t.ProdPace == "slow" || t.ConsPace == "slow") {
				t.ConsPace, t.ProdPace = "bursty", "fast"
			}
			if r.chance(1, 3) {
				t.ConsPace = "mixed"
			}
		default:
			if prop == "C05" && i%8 == 7 {
				t.Kind = "construct"
				t.Capacity = 1 + r.intn(3)
				t.Length = r.intn(4*16 + 2)
				break
			}
			t.Kind = "oneq"
			t.Capacity = []int{1, 1, 2, 3, 8, 16, 64}[r.intn(7)]
			t.Producers = 1 + r.intn(8)
			t.Consumers = 1 + r.intn(8)
			per := []int{1, 10, 100, 400}
			if thorough {
				per = append(per, 2000)
			}
			t.PerProd = per[r.intn(len(per))]
			t.Observers = r.intn(3)
			if r.chance(1, 3) {
				t.Clearers = 1 + r.intn(2)
			}
			if prop == "C05" {
				// the blocking situations: a tiny queue with a slow side
				if r.chance(1, 2) {
					t.Capacity = 1
				}
				if i%2 == 0 {
					t.ConsPace = "slow"
				} else {
					t.ProdPace = "slow"
				}
			}
			if t.PerProd >= 400 && (t.ProdPace == "slow" || t.ConsPace == "slow") && t.Producers > 4 {
				t.Producers = 4
			}
		}
		trials = append(trials, t)
	}

	dir := filepath.Join(outDir, "queuestress")
	if err := os.MkdirAll(dir, 0o755); err != nil {
		return err
	}
	sum := qsSummary{Property: prop, Seed: seed, Tier: tier, RaceDetector: raceBuilt(), Trials: len(trials), Conserved: true, Ordered: true,
		AllFinished: true, BoundsOk: true, ClosedOk: true, Histogram: map[string]int{}}
	results := make([]*qsResult, len(trials))
	batch := 8
	type job struct{ lo, hi int }
	var jobs []job
	for lo := 0; lo < len(trials); lo += batch {
		hi := lo + batch
		if hi > len(trials) {
			hi = len(trials)
		}
		jobs = append(jobs, job{lo, hi})
	}
	var mu sync.Mutex
	var wg sync.WaitGroup
	sem := make(chan struct{}, 4)
	hung := map[int]string{}
	var harnessErr error
	for j, jb := range jobs {
		wg.Add(1)
		sem <- struct{}{}
		go func(j int, jb job) {
			defer wg.Done()
			defer func() { <-sem }()
			spec := filepath.Join(dir, fmt.Sprintf("batch%03d.json", j))
			b, _ := json.Marshal(trials[jb.lo:jb.hi])
			_ = os.WriteFile(spec, b, 0o644)
			logp := filepath.Join(dir, fmt.Sprintf("race%03d", j))
			ctx, cancel := context.WithTimeout(context.Background(), 300*time.Second)
			defer cancel()
			cmd := exec.CommandContext(ctx, os.Args[0], "queuestresschild", spec)
			cmd.Env = append(os.Environ(), "GORACE=halt_on_error=0 exitcode=0 log_path="+logp)
			var stdout, stderr bytes.Buffer
			cmd.Stdout, cmd.Stderr = &stdout, &stderr
			err := cmd.Run()
			mu.Lock()
			defer mu.Unlock()
			started := -1
			for _, ln := range strings.Split(stdout.String(), "\n") {
				switch {
				case strings.HasPrefix(ln, "START "):
					fmt.Sscanf(ln, "START %d", &started)
				case strings.HasPrefix(ln, "HANG "):
					var id int
					fmt.Sscanf(ln, "HANG %d", &id)
					hung[id] = fmt.Sprintf("the trial did not finish within %v: some goroutine never returned", qsTrialLimit)
					started = -1
				case strings.HasPrefix(ln, "RESULT "):
					var res qsResult
					if e := json.Unmarshal([]byte(ln[7:]), &res); e == nil && res.Id >= 0 && res.Id < len(results) {
						results[res.Id] = &res
						started = -1
					}
				}
			}
			if started >= 0 && results[started] == nil {
				why := "the child process did not finish within 300 s: some goroutine never returned"
				if ctx.Err() == nil && err != nil {
					msg := stderr.String()
					if len(msg) > 400 {
						msg = msg[:400]
					}
					why = fmt.Sprintf("the child process died (%v): %s", err, msg)
				}
				hung[started] = why
			} else if err != nil && ctx.Err() == nil && harnessErr == nil && started < 0 {
				harnessErr = fmt.Errorf("queue stress child failed: %v: %s", err, lastBytes(stderr.String(), 400))
			}
			rr := parseRaceLogs(logp)
			sum.Races += rr.Count
			for _, f := range rr.Frames {
				if len(sum.RaceFrames) < 12 {
					sum.RaceFrames = append(sum.RaceFrames, f)
				}
			}
		}(j, jb)
	}
	wg.Wait()
	if harnessErr != nil {
		return harnessErr
	}
	notRun := 0
	for i, t := range trials {
		sum.Histogram["kind="+t.Kind]++
		res := results[i]
		if res == nil {
			if why, ok := hung[i]; ok {
				sum.AllFinished = false
				sum.Failures = append(sum.Failures, map[string]any{"trial": i, "program": t.String(), "spec": t, "all_finished": false, "detail": why})
			} else {
				notRun++ // trials after the death of their child process
			}
			continue
		}
		sum.ValuesAdded += res.Added
		sum.Delivered += res.Delivered
		sum.Discarded += res.Discarded
		if res.Goroutines > sum.MaxGoroutines {
			sum.MaxGoroutines = res.Goroutines
		}
		if t.Length > sum.MaxLength {
			sum.MaxLength = t.Length
		}
		sum.Conserved = sum.Conserved && res.Conserved
		sum.Ordered = sum.Ordered && res.Ordered
		sum.BoundsOk = sum.BoundsOk && res.BoundsOk
		sum.ClosedOk = sum.ClosedOk && res.ClosedOk
		sum.AllFinished = sum.AllFinished && res.Finished
		if !(res.Conserved && res.Ordered && res.BoundsOk && res.ClosedOk && res.Finished) || len(res.Panics) > 0 {
			sum.Failures = append(sum.Failures, map[string]any{"trial": i, "program": t.String(), "spec": t, "result": res})
		}
	}
	sum.Histogram["not_run_child_died"] = notRun
	sum.Ok = sum.Races == 0 && sum.Conserved && sum.Ordered && sum.AllFinished && sum.BoundsOk && sum.ClosedOk && len(sum.Failures) == 0
	sum.Seconds = time.Since(t0).Seconds()
	b, _ := json.MarshalIndent(sum, "", " ")
	if err := os.WriteFile(filepath.Join(outDir, "queuestress.json"), b, 0o644); err != nil {
		return err
	}
	fmt.Printf("queuestress %s: %d trials, race detector %v, races %d, conserved %v, order %v, finished %v, bounds %v, closed %v, %d values, %.1fs -> ok=%v\n",
		prop, sum.Trials, sum.RaceDetector, sum.Races, sum.Conserved, sum.Ordered, sum.AllFinished, sum.BoundsOk, sum.ClosedOk, sum.ValuesAdded, sum.Seconds, sum.Ok)
	return nil
}
