module verifharness

go 1.22

require github.com/craterdog/go-collection-framework/v4 v4.0.0

replace github.com/craterdog/go-collection-framework/v4 => /repo/v4
