package main

// The pool interpreter over the real library: the Go mirror of coq/Pool.v.
// A history is generated and executed op by op; after every op every live object is
// observed and the objects whose observation changed are recorded (the "diff").

import (
	"crypto/rand"
	"fmt"
	"io"
	"math/big"
	"reflect"
	"sort"
	"strings"
	"time"

	age "github.com/craterdog/go-collection-framework/v4/agent"
	cdc "github.com/craterdog/go-collection-framework/v4/cdcn"
	col "github.com/craterdog/go-collection-framework/v4/collection"
)

type okind int

const (
	kSlice okind = iota
	kASlice
	kGoMap
	kArr
	kLst
	kSet
	kStk
	kQue
	kCat
	kMap
	kIter
	kIterA
	kDead
)

type pobj struct {
	kind okind
	v    any
	coll int // collator id of a Set; limBase+m: the default order with maximum traversal depth m
	dig  string
	seen bool // observed at least once
	nan  bool // holds keys that are not equal to themselves (NaN): never drawn by the ordinary ops, observed without key lookups
}

const limBase = 100

var hangTimeout = 3 * time.Second

// deterministic stream standing in for crypto/rand.Reader so that shuffles can be predicted
type detReader struct{ r *rng }

func (d *detReader) Read(p []byte) (int, error) {
	for i := range p {
		p[i] = byte(d.r.next())
	}
	return len(p), nil
}

var curReader *detReader

func installReader(r *rng) {
	curReader = &detReader{r: r.fork()}
	rand.Reader = curReader
}

// predictShuffle returns the indices ShuffleValues will draw for n values
func predictShuffle(n int) []int {
	clone := &detReader{r: &rng{s: curReader.r.s}}
	var rd io.Reader = clone
	out := make([]int, n)
	for i := 0; i < n; i++ {
		x, err := rand.Int(rd, big.NewInt(int64(n)))
		if err != nil {
			panic(err)
		}
		out[i] = int(x.Int64())
	}
	return out
}

// ---------- custom collators and rankers (mirrors of Pool.v: ranker) ----------

type customCollator[V any] struct {
	id   int
	base age.CollatorLike[V]
}

func (c *customCollator[V]) GetClass() age.CollatorClassLike[V] { return age.Collator[V]() }
func (c *customCollator[V]) GetDepth() int                      { return 0 }
func (c *customCollator[V]) GetMaximum() int                    { return c.base.GetMaximum() }
func (c *customCollator[V]) CompareValues(a, b V) bool          { return c.base.CompareValues(a, b) }
func (c *customCollator[V]) RankValues(a, b V) age.Rank         { return rankWith(c.id, c.base, a, b) }

func floorDiv(x, d int64) int64 {
	q := x / d
	if (x%d != 0) && ((x < 0) != (d < 0)) {
		q--
	}
	return q
}

func asInt(v any) (int64, bool) {
	switch a := v.(type) {
	case int:
		return int64(a), true
	case int64:
		return a, true
	case int8:
		return int64(a), true
	case int16:
		return int64(a), true
	}
	return 0, false
}

func cmpInt(a, b int64) age.Rank {
	if a < b {
		return age.LesserRank
	}
	if a > b {
		return age.GreaterRank
	}
	return age.EqualRank
}

func rankWith[V any](id int, base age.CollatorLike[V], a, b V) age.Rank {
	switch id {
	case 0:
		return base.RankValues(a, b)
	case 1:
		return base.RankValues(b, a)
	case 2:
		x, okx := asInt(any(a))
		y, oky := asInt(any(b))
		if okx && oky {
			return cmpInt(floorDiv(x, 4), floorDiv(y, 4))
		}
		s, oks := any(a).(string)
		t, okt := any(b).(string)
		if oks && okt {
			return cmpInt(int64(len(s)), int64(len(t)))
		}
		return base.RankValues(a, b)
	case 3:
		return age.EqualRank
	case 4:
		return age.LesserRank
	case 5:
		return age.GreaterRank
	default:
		x, okx := asInt(any(a))
		y, oky := asInt(any(b))
		if okx && oky {
			m := (((x%97+97)%97)*31 + ((y%97+97)%97)*17 + 7) % 3
			switch m {
			case 0:
				return age.LesserRank
			case 1:
				return age.EqualRank
			default:
				return age.GreaterRank
			}
		}
		return age.EqualRank
	}
}

// ---------- the sequence runner (any element type) ----------

type seqRunner[V any] struct {
	r        *rng
	pool     []*pobj
	zero     V
	genv     func(r *rng) V
	isInt    bool // element type int: the inconsistent ranker applies
	steps    []string
	nOps     int
	hung     bool
	notation col.NotationLike
	opHist   map[string]int
	outHist  map[string]int
	maxPool  int
	sizeHist map[int]int
	trace    []string                  // human-readable ops for samples / replay
	sorters  map[int]age.SorterLike[V] // sorter instances kept for the whole history (key: ranker id, -1 = default)
	modeState[V]
}

// sortVia sorts collection object i through a sorter INSTANCE that lives as long as the history:
// the instance for ranker rk is created on first use and reused later, and other sorters (the
// default one and one with a different ranker) are created in between, so that a sorter made
// earlier must have kept its own ranker.  The observable result is that of SortValuesWithRanker.
func (s *seqRunner[V]) sortVia(so interface {
	col.Sequential[V]
	col.Updatable[V]
}, rk int) {
	if s.sorters == nil {
		s.sorters = map[int]age.SorterLike[V]{}
	}
	base := age.Collator[V]().Make()
	mk := func(id int) age.SorterLike[V] {
		if id < 0 {
			return age.Sorter[V]().Make()
		}
		return age.Sorter[V]().MakeWithRanker(func(a, b V) age.Rank { return rankWith(id, base, a, b) })
	}
	target, ok := s.sorters[rk]
	if !ok {
		target = mk(rk)
		s.sorters[rk] = target
	}
	// decoys, made after the target and never used
	_ = mk((rk + 2) % 5)
	_ = mk(-1)
	if so.GetSize() == 0 {
		return
	}
	arr := so.AsArray()
	target.SortValues(arr)
	so.SetValues(1, col.Array[V](s.notation).MakeFromArray(arr))
}

func newSeqRunner[V any](r *rng, genv func(r *rng) V, isInt bool) *seqRunner[V] {
	var zero V
	return &seqRunner[V]{r: r, zero: zero, genv: genv, isInt: isInt, notation: cdc.Notation().Make(),
		opHist: map[string]int{}, outHist: map[string]int{}, sizeHist: map[int]int{}, maxPool: 9}
}

// hashableSeq: every value of sequence object i can be a Go map key.  Under K = any a value of an
// unhashable dynamic type (a Go slice or map) makes every Go map operation panic ("hash of unhashable
// type"), for the library's Map and Catalog exactly as for a Go map; such values are not keys of the
// properties' key universes and the model does not represent hashability, so they are not used as keys.
func (s *seqRunner[V]) hashableSeq(i int) bool {
	for _, v := range s.seqOf(i).AsArray() {
		if x := any(v); x != nil && !reflect.TypeOf(x).Comparable() {
			return false
		}
	}
	return true
}

func (s *seqRunner[V]) add(kind okind, v any, coll int) {
	s.pool = append(s.pool, &pobj{kind: kind, v: v, coll: coll, dig: ""})
}

func (s *seqRunner[V]) ofKind(kinds ...okind) []int {
	var out []int
	for i, o := range s.pool {
		if o.nan {
			continue
		}
		for _, k := range kinds {
			if o.kind == k {
				out = append(out, i)
			}
		}
	}
	return out
}

func (s *seqRunner[V]) seqOf(i int) col.Sequential[V] {
	o := s.pool[i]
	switch o.kind {
	case kArr:
		return o.v.(col.ArrayLike[V])
	case kLst:
		return o.v.(col.ListLike[V])
	case kSet:
		return o.v.(col.SetLike[V])
	case kStk:
		return o.v.(col.StackLike[V])
	case kQue:
		return o.v.(col.QueueLike[V])
	}
	return nil
}

func (s *seqRunner[V]) sizeOf(i int) int {
	o := s.pool[i]
	switch o.kind {
	case kSlice:
		return len(o.v.([]V))
	case kArr, kLst, kSet, kStk, kQue:
		return s.seqOf(i).GetSize()
	}
	return 0
}

var seqKinds = []okind{kArr, kLst, kSet, kStk, kQue}

func encVals[V any](vs []V) string {
	items := make([]string, len(vs))
	for i, v := range vs {
		items[i] = encVal(any(v))
	}
	return encList(items)
}

func walkIter[V any](it age.IteratorLike[V]) []V {
	slot := it.GetSlot()
	n := it.GetSize()
	it.ToStart()
	out := make([]V, 0, n)
	for i := 0; i < n; i++ {
		out = append(out, it.GetNext())
	}
	it.ToSlot(slot)
	return out
}

// digestSeq observes one object; returns "" for kinds it does not know (handled by the assoc runner)
func (s *seqRunner[V]) digestSeq(o *pobj) string {
	switch o.kind {
	case kSlice:
		return "OSlice " + encVals(o.v.([]V))
	case kArr:
		a := o.v.(col.ArrayLike[V])
		arr := viewSeq[V](a, a, s.curView)
		if a.GetSize() != len(arr) || a.IsEmpty() != (len(arr) == 0) {
			return "ODead"
		}
		return "OArr " + encVals(arr)
	case kLst:
		a := o.v.(col.ListLike[V])
		arr := viewSeq[V](a, a, s.curView)
		if a.GetSize() != len(arr) || a.IsEmpty() != (len(arr) == 0) {
			return "ODead"
		}
		return "OLst " + encVals(arr)
	case kSet:
		a := o.v.(col.SetLike[V])
		arr := viewSeq[V](a, a, s.curView)
		if a.GetSize() != len(arr) || a.IsEmpty() != (len(arr) == 0) {
			return "ODead"
		}
		if o.coll >= limBase {
			return fmt.Sprintf("OSetL %d %s", o.coll-limBase, encVals(arr))
		}
		return fmt.Sprintf("OSet %d %s", o.coll, encVals(arr))
	case kStk:
		a := o.v.(col.StackLike[V])
		arr := viewSeq[V](a, nil, s.curView)
		if a.GetSize() != len(arr) || a.IsEmpty() != (len(arr) == 0) {
			return "ODead"
		}
		return fmt.Sprintf("OStk %d %s", a.GetCapacity(), encVals(arr))
	case kQue:
		a := o.v.(col.QueueLike[V])
		arr := viewSeq[V](a, nil, s.curView)
		if a.GetSize() != len(arr) || a.IsEmpty() != (len(arr) == 0) {
			return "ODead"
		}
		return fmt.Sprintf("OQue %d %s", a.GetCapacity(), encVals(arr))
	case kIter:
		it := o.v.(age.IteratorLike[V])
		slot := it.GetSlot() // read before the walk: restoring the slot through ToSlot must not hide a bad one
		hn, hp := it.HasNext(), it.HasPrevious()
		snap := walkIter(it)
		if it.GetSlot() != slot || hn != (slot < len(snap)) || hp != (slot > 0) {
			return fmt.Sprintf("OIter %s %s %d", encVal(any(s.zero)), encVals(snap), 1000000+slot) // inconsistent iterator
		}
		return fmt.Sprintf("OIter %s %s %d", encVal(any(s.zero)), encVals(snap), slot)
	case kDead:
		return "ODead"
	}
	return ""
}

type digester interface{ digest(o *pobj) string }

// record executes f under panic capture and a watchdog, then observes the pool.
// f returns the encoded result (a Gallina term of type ret) for a normal return.
func (s *seqRunner[V]) record(d digester, name, opEnc, human string, f func() string) {
	s.opHist[name]++
	type res struct {
		oc  outcome
		ret string
	}
	ch := make(chan res, 1)
	go func() {
		var ret string
		oc, _ := guard(func() { ret = f() })
		ch <- res{oc, ret}
	}()
	var rr res
	select {
	case rr = <-ch:
	case <-time.After(hangTimeout):
		rr = res{ocHang, ""}
		s.hung = true
	}
	retEnc := rr.ret
	switch rr.oc {
	case ocPanic:
		retEnc = "RPanic"
		if s.panicRet != "" {
			retEnc = s.panicRet
		}
		s.outHist["panic"]++
	case ocHang:
		retEnc = "RHang"
		s.outHist["hang"]++
	default:
		s.outHist["return"]++
	}
	var diffs, skips []string
	if !s.hung {
		all := s.observeAllNow()
		for i, o := range s.pool {
			if !all && !s.observeThis(o) {
				skips = append(skips, fmt.Sprintf("%d%%nat", i))
				continue
			}
			s.curView = s.pickView(o)
			var dg string
			oc, _ := guard(func() { dg = d.digest(o) })
			if oc != ocRet {
				dg = "ODead"
			}
			if dg != o.dig || !o.seen {
				diffs = append(diffs, fmt.Sprintf("(%d%%nat, %s)", i, dg))
				o.dig = dg
			}
			o.seen = true
		}
		s.curView = 0
	}
	s.steps = append(s.steps, fmt.Sprintf("{| ps_op := %s; ps_ret := %s; ps_diff := %s; ps_skip := %s |}", opEnc, retEnc, encList(diffs), encList(skips)))
	tr := human + " => " + retEnc
	if len(skips) > 0 {
		tr += fmt.Sprintf("   [not observed: %s]", strings.ReplaceAll(strings.Join(skips, " "), "%nat", ""))
	}
	s.trace = append(s.trace, tr)
	s.nOps++
	s.remember(name, opEnc, human, f, rr.oc)
}

func (s *seqRunner[V]) digest(o *pobj) string { return s.digestSeq(o) }

// boundary-biased choices
func (s *seqRunner[V]) genIndex(n int) int {
	if s.hintIndex != nil {
		x := *s.hintIndex
		s.hintIndex = nil
		return x
	}
	cands := []int{-n - 1, -n, -1, 0, 1, n, n + 1, 2, -2, n - 1, -(n - 1)}
	if s.r.chance(6, 10) && n > 0 {
		x := 1 + s.r.intn(n)
		if s.r.chance(1, 3) {
			x = -x
		}
		return x
	}
	return cands[s.r.intn(len(cands))]
}
func (s *seqRunner[V]) genSlot(n int) int {
	if s.hintSlotEnd {
		return n
	}
	if s.r.chance(7, 10) {
		return s.r.intn(n + 1)
	}
	return []int{0, n, n + 1, n + 2, 1}[s.r.intn(5)]
}
func (s *seqRunner[V]) genSize() int {
	if len(s.sizeBias) > 0 && s.r.chance(2, 5) {
		return s.sizeBias[s.r.intn(len(s.sizeBias))]
	}
	if s.r.chance(1, 2) {
		return s.r.intn(5)
	}
	return []int{0, 1, 2, 3, 4, 7, 8, 9, 15, 16, 17, 20, 31, 32, 33}[s.r.intn(15)]
}
func (s *seqRunner[V]) genVals(n int) []V {
	out := make([]V, n)
	for i := range out {
		out[i] = s.genv(s.r)
	}
	return out
}

// a value that often already occurs in the given object (to hit duplicates and members)
func (s *seqRunner[V]) genValNear(i int) V {
	if s.forceVal != nil {
		return *s.forceVal
	}
	if i >= 0 && s.r.chance(1, 2) {
		var arr []V
		if s.pool[i].kind == kSlice {
			arr = s.pool[i].v.([]V)
		} else if sq := s.seqOf(i); sq != nil {
			arr = sq.AsArray()
		}
		if len(arr) > 0 {
			return arr[s.r.intn(len(arr))]
		}
	}
	return s.genv(s.r)
}

func (s *seqRunner[V]) full() bool { return len(s.pool) >= s.maxPool }

// doSeqOp generates and executes one op of the named family; false if not applicable now.
func (s *seqRunner[V]) doSeqOp(d digester, name string) bool {
	r := s.r
	s.lastPicks = nil
	pick := s.pickObj
	switch name {
	case "NewSlice":
		if s.full() {
			return false
		}
		vs := s.genVals(s.genSize())
		if s.nextSlice != nil {
			vs, s.nextSlice = s.nextSlice, nil
		}
		s.record(d, name, "NewSlice "+encVals(vs), fmt.Sprintf("slice %v", vs), func() string {
			s.add(kSlice, vs, 0)
			return "RNew"
		})
	case "SliceSet":
		i := pick(kSlice)
		if i < 0 {
			return false
		}
		sl := s.pool[i].v.([]V)
		if len(sl) == 0 {
			return false
		}
		k := r.intn(len(sl))
		v := s.gv()
		s.record(d, name, fmt.Sprintf("SliceSet %d %d %s", i, k, encVal(any(v))), fmt.Sprintf("#%d[%d] = %v", i, k, v), func() string {
			sl[k] = v
			return "RUnit"
		})
	case "MakeArr":
		if s.full() {
			return false
		}
		n := s.genSize()
		s.record(d, name, fmt.Sprintf("MakeArr %d", n), fmt.Sprintf("Array.Make(%d)", n), func() string {
			s.add(kArr, col.Array[V](s.notation).Make(uint(n)), 0)
			return "RNew"
		})
	case "MakeEmpty":
		if s.full() {
			return false
		}
		k := []okind{kLst, kSet, kStk, kQue}[r.intn(4)]
		s.makeEmpty(d, k)
	case "MakeCap":
		if s.full() {
			return false
		}
		capv := []int{0, 1, 2, 3, 4, 5, 17}[r.intn(7)]
		if r.chance(1, 2) {
			s.record(d, name, fmt.Sprintf("MakeCap CStack %d", capv), fmt.Sprintf("Stack.MakeWithCapacity(%d)", capv), func() string {
				o := col.Stack[V](s.notation).MakeWithCapacity(uint(capv))
				s.add(kStk, o, 0)
				return "RNew"
			})
		} else {
			s.record(d, name, fmt.Sprintf("MakeCap CQueue %d", capv), fmt.Sprintf("Queue.MakeWithCapacity(%d)", capv), func() string {
				o := col.Queue[V](s.notation).MakeWithCapacity(uint(capv))
				s.add(kQue, o, 0)
				return "RNew"
			})
		}
	case "MakeSetColl":
		if s.full() {
			return false
		}
		c := r.intn(3)
		s.record(d, name, fmt.Sprintf("MakeSetColl %d", c), fmt.Sprintf("Set.MakeWithCollator(#%d)", c), func() string {
			var cl age.CollatorLike[V] = &customCollator[V]{id: c, base: age.Collator[V]().Make()}
			if c == 0 {
				cl = age.Collator[V]().Make()
			}
			s.add(kSet, col.Set[V](s.notation).MakeWithCollator(cl), c)
			return "RNew"
		})
	case "FromArray":
		if s.full() {
			return false
		}
		i := pick(kSlice)
		if i < 0 {
			return false
		}
		k := seqKinds[r.intn(len(seqKinds))]
		s.fromArray(d, k, i)
	case "FromSeq":
		if s.full() {
			return false
		}
		i := pick(seqKinds...)
		if i < 0 {
			return false
		}
		k := seqKinds[r.intn(len(seqKinds))]
		s.fromSeq(d, k, i)
	case "Concat":
		if s.full() {
			return false
		}
		a, b := pick(kLst), pick(kLst)
		if a < 0 {
			return false
		}
		s.record(d, name, fmt.Sprintf("Concat %d %d", a, b), fmt.Sprintf("List.Concatenate(#%d,#%d)", a, b), func() string {
			o := col.List[V](s.notation).Concatenate(s.pool[a].v.(col.ListLike[V]), s.pool[b].v.(col.ListLike[V]))
			s.add(kLst, o, 0)
			return "RNew"
		})
	case "SAnd", "SOr", "SSans", "SXor":
		if s.full() {
			return false
		}
		a, b := pick(kSet), pick(kSet)
		if a < 0 {
			return false
		}
		s.record(d, name, fmt.Sprintf("%s %d %d", name, a, b), fmt.Sprintf("Set.%s(#%d,#%d)", name[1:], a, b), func() string {
			cl := col.Set[V](s.notation)
			x, y := s.pool[a].v.(col.SetLike[V]), s.pool[b].v.(col.SetLike[V])
			var o col.SetLike[V]
			switch name {
			case "SAnd":
				o = cl.And(x, y)
			case "SOr":
				o = cl.Or(x, y)
			case "SSans":
				o = cl.Sans(x, y)
			default:
				o = cl.Xor(x, y)
			}
			s.add(kSet, o, s.pool[a].coll)
			return "RNew"
		})
	case "GetValue":
		i := pick(kArr, kLst, kSet)
		if i < 0 {
			return false
		}
		idx := s.genIndex(s.sizeOf(i))
		s.record(d, name, fmt.Sprintf("GetValue %d %s", i, zlit(int64(idx))), fmt.Sprintf("#%d.GetValue(%d)", i, idx), func() string {
			var v V
			switch s.pool[i].kind {
			case kArr:
				v = s.pool[i].v.(col.ArrayLike[V]).GetValue(idx)
			case kLst:
				v = s.pool[i].v.(col.ListLike[V]).GetValue(idx)
			default:
				v = s.pool[i].v.(col.SetLike[V]).GetValue(idx)
			}
			return "RVal " + encVal(any(v))
		})
	case "GetValues":
		if s.full() {
			return false
		}
		i := pick(kArr, kLst, kSet)
		if i < 0 {
			return false
		}
		n := s.sizeOf(i)
		a, b := s.genRange(n)
		s.record(d, name, fmt.Sprintf("GetValues %d %s %s", i, zlit(int64(a)), zlit(int64(b))), fmt.Sprintf("#%d.GetValues(%d,%d)", i, a, b), func() string {
			var v col.Sequential[V]
			switch s.pool[i].kind {
			case kArr:
				v = s.pool[i].v.(col.ArrayLike[V]).GetValues(a, b)
			case kLst:
				v = s.pool[i].v.(col.ListLike[V]).GetValues(a, b)
			default:
				v = s.pool[i].v.(col.SetLike[V]).GetValues(a, b)
			}
			s.add(kArr, v.(col.ArrayLike[V]), 0)
			return "RNew"
		})
	case "SetValue":
		i := pick(kArr, kLst)
		if i < 0 {
			return false
		}
		idx := s.genIndex(s.sizeOf(i))
		v := s.gv()
		s.record(d, name, fmt.Sprintf("SetValue %d %s %s", i, zlit(int64(idx)), encVal(any(v))), fmt.Sprintf("#%d.SetValue(%d,%v)", i, idx, v), func() string {
			if s.pool[i].kind == kArr {
				s.pool[i].v.(col.ArrayLike[V]).SetValue(idx, v)
			} else {
				s.pool[i].v.(col.ListLike[V]).SetValue(idx, v)
			}
			return "RUnit"
		})
	case "SetValues":
		i := pick(kArr, kLst)
		src := pick(seqKinds...)
		if i < 0 || src < 0 {
			return false
		}
		if r.chance(1, 4) {
			src = i
		}
		idx := s.genIndex(s.sizeOf(i))
		s.record(d, name, fmt.Sprintf("SetValues %d %s %d", i, zlit(int64(idx)), src), fmt.Sprintf("#%d.SetValues(%d,#%d)", i, idx, src), func() string {
			if s.pool[i].kind == kArr {
				s.pool[i].v.(col.ArrayLike[V]).SetValues(idx, s.seqOf(src))
			} else {
				s.pool[i].v.(col.ListLike[V]).SetValues(idx, s.seqOf(src))
			}
			return "RUnit"
		})
	case "InsertValue":
		i := pick(kLst)
		if i < 0 {
			return false
		}
		slot := s.genSlot(s.sizeOf(i))
		v := s.gv()
		s.record(d, name, fmt.Sprintf("InsertValue %d %d %s", i, slot, encVal(any(v))), fmt.Sprintf("#%d.InsertValue(%d,%v)", i, slot, v), func() string {
			s.pool[i].v.(col.ListLike[V]).InsertValue(uint(slot), v)
			return "RUnit"
		})
	case "InsertValues":
		i := pick(kLst)
		src := pick(seqKinds...)
		if i < 0 || src < 0 {
			return false
		}
		if r.chance(1, 4) {
			src = i
		}
		slot := s.genSlot(s.sizeOf(i))
		s.record(d, name, fmt.Sprintf("InsertValues %d %d %d", i, slot, src), fmt.Sprintf("#%d.InsertValues(%d,#%d)", i, slot, src), func() string {
			s.pool[i].v.(col.ListLike[V]).InsertValues(uint(slot), s.seqOf(src))
			return "RUnit"
		})
	case "AppendValue":
		i := pick(kLst)
		if i < 0 || s.sizeOf(i) > 40 {
			return false
		}
		v := s.gv()
		s.record(d, name, fmt.Sprintf("AppendValue %d %s", i, encVal(any(v))), fmt.Sprintf("#%d.AppendValue(%v)", i, v), func() string {
			s.pool[i].v.(col.ListLike[V]).AppendValue(v)
			return "RUnit"
		})
	case "AppendValues":
		i := pick(kLst)
		src := pick(seqKinds...)
		if i < 0 || src < 0 || s.sizeOf(i) > 40 {
			return false
		}
		if r.chance(1, 4) {
			src = i
		}
		s.record(d, name, fmt.Sprintf("AppendValues %d %d", i, src), fmt.Sprintf("#%d.AppendValues(#%d)", i, src), func() string {
			s.pool[i].v.(col.ListLike[V]).AppendValues(s.seqOf(src))
			return "RUnit"
		})
	case "RemoveValue":
		i := pick(kLst)
		if i < 0 {
			return false
		}
		idx := s.genIndex(s.sizeOf(i))
		s.record(d, name, fmt.Sprintf("RemoveValue %d %s", i, zlit(int64(idx))), fmt.Sprintf("#%d.RemoveValue(%d)", i, idx), func() string {
			v := s.pool[i].v.(col.ListLike[V]).RemoveValue(idx)
			return "RVal " + encVal(any(v))
		})
	case "RemoveValues":
		if s.full() {
			return false
		}
		i := pick(kLst)
		if i < 0 {
			return false
		}
		n := s.sizeOf(i)
		a, b := s.genRange(n)
		s.record(d, name, fmt.Sprintf("RemoveValues %d %s %s", i, zlit(int64(a)), zlit(int64(b))), fmt.Sprintf("#%d.RemoveValues(%d,%d)", i, a, b), func() string {
			v := s.pool[i].v.(col.ListLike[V]).RemoveValues(a, b)
			s.add(kArr, v.(col.ArrayLike[V]), 0)
			return "RNew"
		})
	case "RemoveAll":
		i := pick(kLst, kSet, kStk, kQue)
		if i < 0 {
			return false
		}
		s.record(d, name, fmt.Sprintf("RemoveAll %d", i), fmt.Sprintf("#%d.RemoveAll()", i), func() string {
			switch s.pool[i].kind {
			case kLst:
				s.pool[i].v.(col.ListLike[V]).RemoveAll()
			case kSet:
				s.pool[i].v.(col.SetLike[V]).RemoveAll()
			case kStk:
				s.pool[i].v.(col.StackLike[V]).RemoveAll()
			default:
				s.pool[i].v.(col.QueueLike[V]).RemoveAll()
			}
			return "RUnit"
		})
	case "ContainsValue", "GetIndex":
		i := pick(kLst, kSet)
		if i < 0 {
			return false
		}
		v := s.genValNear(i)
		s.noteQuery(i, v)
		s.record(d, name, fmt.Sprintf("%s %d %s", name, i, encVal(any(v))), fmt.Sprintf("#%d.%s(%v)", i, name, v), func() string {
			var sr col.Searchable[V]
			if s.pool[i].kind == kLst {
				sr = s.pool[i].v.(col.ListLike[V])
			} else {
				sr = s.pool[i].v.(col.SetLike[V])
			}
			if name == "GetIndex" {
				return fmt.Sprintf("RInt %d", sr.GetIndex(v))
			}
			return fmt.Sprintf("RBool %v", sr.ContainsValue(v))
		})
	case "ContainsAny", "ContainsAll":
		i := pick(kLst, kSet)
		src := pick(seqKinds...)
		if i < 0 || src < 0 {
			return false
		}
		s.record(d, name, fmt.Sprintf("%s %d %d", name, i, src), fmt.Sprintf("#%d.%s(#%d)", i, name, src), func() string {
			var sr col.Searchable[V]
			if s.pool[i].kind == kLst {
				sr = s.pool[i].v.(col.ListLike[V])
			} else {
				sr = s.pool[i].v.(col.SetLike[V])
			}
			if name == "ContainsAny" {
				return fmt.Sprintf("RBool %v", sr.ContainsAny(s.seqOf(src)))
			}
			return fmt.Sprintf("RBool %v", sr.ContainsAll(s.seqOf(src)))
		})
	case "SortValues", "ReverseValues":
		i := pick(kArr, kLst)
		if i < 0 {
			return false
		}
		viaSorter := r.chance(1, 3)
		s.record(d, name, fmt.Sprintf("%s %d", name, i), fmt.Sprintf("#%d.%s()", i, name), func() string {
			var so col.Sortable[V]
			if s.pool[i].kind == kArr {
				so = s.pool[i].v.(col.ArrayLike[V])
			} else {
				so = s.pool[i].v.(col.ListLike[V])
			}
			if name == "SortValues" {
				if viaSorter {
					if s.pool[i].kind == kArr {
						s.sortVia(s.pool[i].v.(col.ArrayLike[V]), -1)
					} else {
						s.sortVia(s.pool[i].v.(col.ListLike[V]), -1)
					}
				} else {
					so.SortValues()
				}
			} else {
				so.ReverseValues()
			}
			return "RUnit"
		})
	case "SortWith":
		i := pick(kArr, kLst)
		if i < 0 {
			return false
		}
		rk := r.intn(6)
		if s.isInt && r.chance(1, 4) {
			rk = 6
		}
		viaSorter := r.chance(1, 3)
		s.record(d, name, fmt.Sprintf("SortWith %d %d", i, rk), fmt.Sprintf("#%d.SortValuesWithRanker(#%d)", i, rk), func() string {
			var so col.Sortable[V]
			if s.pool[i].kind == kArr {
				so = s.pool[i].v.(col.ArrayLike[V])
			} else {
				so = s.pool[i].v.(col.ListLike[V])
			}
			if viaSorter && rk != 6 {
				if s.pool[i].kind == kArr {
					s.sortVia(s.pool[i].v.(col.ArrayLike[V]), rk)
				} else {
					s.sortVia(s.pool[i].v.(col.ListLike[V]), rk)
				}
				return "RUnit"
			}
			base := age.Collator[V]().Make()
			so.SortValuesWithRanker(func(a, b V) age.Rank { return rankWith(rk, base, a, b) })
			return "RUnit"
		})
	case "ShuffleValues":
		i := pick(kArr, kLst)
		if i < 0 {
			return false
		}
		idxs := predictShuffle(s.sizeOf(i))
		items := make([]string, len(idxs))
		for k, x := range idxs {
			items[k] = fmt.Sprintf("%d%%nat", x)
		}
		s.record(d, name, fmt.Sprintf("ShuffleValues %d %s", i, encList(items)), fmt.Sprintf("#%d.ShuffleValues()", i), func() string {
			if s.pool[i].kind == kArr {
				s.pool[i].v.(col.ArrayLike[V]).ShuffleValues()
			} else {
				s.pool[i].v.(col.ListLike[V]).ShuffleValues()
			}
			return "RUnit"
		})
	case "AddValue", "DelValue":
		i := pick(kSet)
		if i < 0 || (name == "AddValue" && s.sizeOf(i) > 40) {
			return false
		}
		v := s.genValNear(i)
		s.record(d, name, fmt.Sprintf("%s %d %s", name, i, encVal(any(v))), fmt.Sprintf("#%d.%s(%v)", i, name, v), func() string {
			if name == "AddValue" {
				s.pool[i].v.(col.SetLike[V]).AddValue(v)
			} else {
				s.pool[i].v.(col.SetLike[V]).RemoveValue(v)
			}
			return "RUnit"
		})
	case "AddValues", "DelValues":
		i := pick(kSet)
		src := pick(seqKinds...)
		if i < 0 || src < 0 || (name == "AddValues" && s.sizeOf(i) > 40) || s.pool[i].coll >= limBase {
			return false
		}
		if r.chance(1, 4) {
			src = i
		}
		s.record(d, name, fmt.Sprintf("%s %d %d", name, i, src), fmt.Sprintf("#%d.%s(#%d)", i, name, src), func() string {
			if name == "AddValues" {
				s.pool[i].v.(col.SetLike[V]).AddValues(s.seqOf(src))
			} else {
				s.pool[i].v.(col.SetLike[V]).RemoveValues(s.seqOf(src))
			}
			return "RUnit"
		})
	case "Push":
		i := pick(kStk, kQue)
		if i < 0 {
			return false
		}
		if s.pool[i].kind == kQue {
			q := s.pool[i].v.(col.QueueLike[V])
			if q.GetSize() >= int(q.GetCapacity()) {
				return false // would block
			}
		}
		v := s.gv()
		s.record(d, name, fmt.Sprintf("Push %d %s", i, encVal(any(v))), fmt.Sprintf("#%d.AddValue(%v)", i, v), func() string {
			if s.pool[i].kind == kStk {
				s.pool[i].v.(col.StackLike[V]).AddValue(v)
			} else {
				s.pool[i].v.(col.QueueLike[V]).AddValue(v)
			}
			return "RUnit"
		})
	case "Pop":
		i := pick(kStk, kQue)
		if i < 0 {
			return false
		}
		if s.pool[i].kind == kQue && s.pool[i].v.(col.QueueLike[V]).GetSize() == 0 {
			return false // would block
		}
		s.record(d, name, fmt.Sprintf("Pop %d", i), fmt.Sprintf("#%d.RemoveTop/Head()", i), func() string {
			if s.pool[i].kind == kStk {
				return "RVal " + encVal(any(s.pool[i].v.(col.StackLike[V]).RemoveTop()))
			}
			v, ok := s.pool[i].v.(col.QueueLike[V]).RemoveHead()
			if !ok {
				return "RBad"
			}
			return "RVal " + encVal(any(v))
		})
	case "GetCapacity":
		i := pick(kStk, kQue)
		if i < 0 {
			return false
		}
		s.record(d, name, fmt.Sprintf("GetCapacity %d", i), fmt.Sprintf("#%d.GetCapacity()", i), func() string {
			if s.pool[i].kind == kStk {
				return fmt.Sprintf("RInt %d", s.pool[i].v.(col.StackLike[V]).GetCapacity())
			}
			return fmt.Sprintf("RInt %d", s.pool[i].v.(col.QueueLike[V]).GetCapacity())
		})
	case "AsArray":
		if s.full() {
			return false
		}
		i := pick(seqKinds...)
		if i < 0 {
			return false
		}
		s.record(d, name, fmt.Sprintf("AsArray %d []", i), fmt.Sprintf("#%d.AsArray()", i), func() string {
			s.add(kSlice, s.seqOf(i).AsArray(), 0)
			return "RNew"
		})
	case "GetIterator":
		if s.full() {
			return false
		}
		i := pick(seqKinds...)
		if i < 0 {
			return false
		}
		if r.chance(1, 4) {
			// prefer an empty collection when there is one (iterators over nothing are a boundary of their own)
			for _, j := range s.ofKind(seqKinds...) {
				if s.seqOf(j).GetSize() == 0 {
					i = j
					break
				}
			}
		}
		s.record(d, name, fmt.Sprintf("GetIterator %d []", i), fmt.Sprintf("#%d.GetIterator()", i), func() string {
			s.add(kIter, s.seqOf(i).GetIterator(), 0)
			return "RNew"
		})
	case "GetSize", "IsEmpty":
		i := pick(seqKinds...)
		if i < 0 {
			return false
		}
		s.record(d, name, fmt.Sprintf("%s %d", name, i), fmt.Sprintf("#%d.%s()", i, name), func() string {
			if name == "GetSize" {
				return fmt.Sprintf("RInt %d", s.seqOf(i).GetSize())
			}
			return fmt.Sprintf("RBool %v", s.seqOf(i).IsEmpty())
		})
	case "IterMove":
		i := pick(kIter)
		if i < 0 {
			return false
		}
		it := s.pool[i].v.(age.IteratorLike[V])
		s.iterMove(d, i, func() int { return it.GetSize() }, func(m string, k int) string {
			switch m {
			case "INext":
				return "RVal " + encVal(any(it.GetNext()))
			case "IPrev":
				return "RVal " + encVal(any(it.GetPrevious()))
			case "IHasNext":
				return fmt.Sprintf("RBool %v", it.HasNext())
			case "IHasPrev":
				return fmt.Sprintf("RBool %v", it.HasPrevious())
			case "IToStart":
				it.ToStart()
				return "RUnit"
			case "IToEnd":
				it.ToEnd()
				return "RUnit"
			case "IToSlot":
				it.ToSlot(k)
				return "RUnit"
			case "IGetSlot":
				return fmt.Sprintf("RInt %d", it.GetSlot())
			case "IGetSize":
				return fmt.Sprintf("RInt %d", it.GetSize())
			default:
				return fmt.Sprintf("RBool %v", it.IsEmpty())
			}
		})
	default:
		return s.doModeOp(d, name)
	}
	return true
}

var iterMoves = []string{"INext", "INext", "INext", "IPrev", "IPrev", "IHasNext", "IHasPrev", "IToStart", "IToEnd", "IToSlot", "IToSlot", "IGetSlot", "IGetSize", "IIsEmpty"}

func (s *seqRunner[V]) iterMove(d digester, i int, size func() int, f func(m string, k int) string) {
	m := iterMoves[s.r.intn(len(iterMoves))]
	k := 0
	enc := fmt.Sprintf("%s %d", m, i)
	if m == "IToSlot" {
		n := size()
		if s.r.chance(1, 2) {
			// boundary slots: both ends of the clamp, both signs, also on an empty sequence
			k = []int{-n - 2, -n - 1, -n, -1, 0, 1, n, n + 1, n + 2, -1, -2}[s.r.intn(11)]
		} else {
			k = s.r.intn(2*n+5) - n - 2
		}
		enc = fmt.Sprintf("IToSlot %d %s", i, zlit(int64(k)))
	}
	s.record(d, m, enc, fmt.Sprintf("#%d.%s(%d)", i, m, k), func() string { return f(m, k) })
}

func ckindName(k okind) string {
	switch k {
	case kArr:
		return "CArray"
	case kLst:
		return "CList"
	case kSet:
		return "CSet"
	case kStk:
		return "CStack"
	case kQue:
		return "CQueue"
	case kCat:
		return "CCatalog"
	default:
		return "CMap"
	}
}

func (s *seqRunner[V]) makeEmpty(d digester, k okind) {
	s.record(d, "MakeEmpty", "MakeEmpty "+ckindName(k), ckindName(k)+".Make()", func() string {
		switch k {
		case kLst:
			s.add(kLst, col.List[V](s.notation).Make(), 0)
		case kSet:
			s.add(kSet, col.Set[V](s.notation).Make(), 0)
		case kStk:
			s.add(kStk, col.Stack[V](s.notation).Make(), 0)
		case kQue:
			s.add(kQue, col.Queue[V](s.notation).Make(), 0)
		}
		return "RNew"
	})
}

func (s *seqRunner[V]) fromArray(d digester, k okind, i int) {
	s.record(d, "FromArray", fmt.Sprintf("FromArray %s %d", ckindName(k), i), fmt.Sprintf("%s.MakeFromArray(#%d)", ckindName(k), i), func() string {
		sl := s.pool[i].v.([]V)
		switch k {
		case kArr:
			s.add(kArr, col.Array[V](s.notation).MakeFromArray(sl), 0)
		case kLst:
			s.add(kLst, col.List[V](s.notation).MakeFromArray(sl), 0)
		case kSet:
			s.add(kSet, col.Set[V](s.notation).MakeFromArray(sl), 0)
		case kStk:
			s.add(kStk, col.Stack[V](s.notation).MakeFromArray(sl), 0)
		case kQue:
			s.add(kQue, col.Queue[V](s.notation).MakeFromArray(sl), 0)
		}
		return "RNew"
	})
}

func (s *seqRunner[V]) fromSeq(d digester, k okind, i int) {
	s.record(d, "FromSeq", fmt.Sprintf("FromSeq %s %d []", ckindName(k), i), fmt.Sprintf("%s.MakeFromSequence(#%d)", ckindName(k), i), func() string {
		sq := s.seqOf(i)
		switch k {
		case kArr:
			s.add(kArr, col.Array[V](s.notation).MakeFromSequence(sq), 0)
		case kLst:
			s.add(kLst, col.List[V](s.notation).MakeFromSequence(sq), 0)
		case kSet:
			s.add(kSet, col.Set[V](s.notation).MakeFromSequence(sq), 0)
		case kStk:
			s.add(kStk, col.Stack[V](s.notation).MakeFromSequence(sq), 0)
		case kQue:
			s.add(kQue, col.Queue[V](s.notation).MakeFromSequence(sq), 0)
		}
		return "RNew"
	})
}

// ---------- the associative runner (comparable element type; K = V) ----------

type assocRunner[V comparable] struct {
	*seqRunner[V]
	genk func(r *rng) V
}

func (a *assocRunner[V]) kvs(m map[V]V) string {
	type kv struct{ k, v string }
	var xs []kv
	for k, v := range m {
		xs = append(xs, kv{encVal(any(k)), encVal(any(v))})
	}
	sort.Slice(xs, func(i, j int) bool { return xs[i].k < xs[j].k })
	items := make([]string, len(xs))
	for i, x := range xs {
		items[i] = "(" + x.k + ", " + x.v + ")"
	}
	return encList(items)
}

func encAssocs[V comparable](as []col.AssociationLike[V, V]) string {
	items := make([]string, len(as))
	for i, x := range as {
		items[i] = "(" + encVal(any(x.GetKey())) + ", " + encVal(any(x.GetValue())) + ")"
	}
	return encList(items)
}
func encAssocVals[V comparable](as []col.AssociationLike[V, V]) string {
	items := make([]string, len(as))
	for i, x := range as {
		if x == nil {
			items[i] = "VNil"
		} else {
			items[i] = "(VAssoc " + encVal(any(x.GetKey())) + " " + encVal(any(x.GetValue())) + ")"
		}
	}
	return encList(items)
}

func (a *assocRunner[V]) digest(o *pobj) string {
	switch o.kind {
	case kASlice:
		return "OSlice " + encAssocVals(o.v.([]col.AssociationLike[V, V]))
	case kGoMap:
		return "OGoMap " + a.kvs(o.v.(map[V]V))
	case kCat:
		c := o.v.(col.CatalogLike[V, V])
		arr := viewAssocs[V](c, a.curView)
		if c.GetSize() != len(arr) || c.IsEmpty() != (len(arr) == 0) {
			return "ODead"
		}
		// the key view, the pair view and the lookup must describe the same associations
		keys := c.GetKeys().AsArray()
		if len(keys) != len(arr) {
			return "ODead"
		}
		for i, x := range arr {
			if o.nan {
				// a key that is not equal to itself cannot be read back: the key view must still list the same key
				if encVal(any(keys[i])) != encVal(any(x.GetKey())) {
					return "ODead"
				}
				continue
			}
			if any(keys[i]) != any(x.GetKey()) {
				return "ODead"
			}
			if encVal(any(c.GetValue(x.GetKey()))) != encVal(any(x.GetValue())) {
				return "ODead"
			}
		}
		return "OCat " + encAssocs(arr)
	case kMap:
		m := o.v.(col.MapLike[V, V])
		arr := viewAssocs[V](m, a.curView)
		if m.GetSize() != len(arr) || m.IsEmpty() != (len(arr) == 0) {
			return "ODead"
		}
		tmp := map[V]V{}
		for _, x := range arr {
			tmp[x.GetKey()] = x.GetValue()
		}
		if len(tmp) != len(arr) {
			return "ODead"
		}
		return "OMap " + a.kvs(tmp)
	case kIterA:
		it := o.v.(age.IteratorLike[col.AssociationLike[V, V]])
		slot := it.GetSlot()
		hn, hp := it.HasNext(), it.HasPrevious()
		snap := walkIter(it)
		if it.GetSlot() != slot || hn != (slot < len(snap)) || hp != (slot > 0) {
			return fmt.Sprintf("OIter VNil %s %d", encAssocVals(snap), 1000000+slot)
		}
		return fmt.Sprintf("OIter VNil %s %d", encAssocVals(snap), slot)
	}
	return a.digestSeq(o)
}

func (a *assocRunner[V]) genKey(i int) V {
	if a.forceKey != nil {
		return *a.forceKey
	}
	if a.hintFreshKey && i >= 0 {
		// a key that is NOT present in object i (an append at the end of an insertion-ordered catalog)
		for try := 0; try < 8; try++ {
			k := a.genk(a.r)
			if !a.hasKey(i, k) {
				return k
			}
		}
	}
	// often a key that is present in object i
	if i >= 0 && a.r.chance(3, 5) {
		var ks []V
		switch a.pool[i].kind {
		case kCat:
			ks = a.pool[i].v.(col.CatalogLike[V, V]).GetKeys().AsArray()
		case kMap:
			ks = a.pool[i].v.(col.MapLike[V, V]).GetKeys().AsArray()
		}
		if len(ks) > 0 {
			// Go map order is random: order the candidates so that the draw is a function of the PRNG only
			sort.Slice(ks, func(x, y int) bool { return encVal(any(ks[x])) < encVal(any(ks[y])) })
			return ks[a.r.intn(len(ks))]
		}
	}
	return a.genk(a.r)
}

func keysEnc[V comparable](ks []V) string {
	items := make([]string, len(ks))
	for i, k := range ks {
		items[i] = encVal(any(k))
	}
	return encList(items)
}

func (a *assocRunner[V]) assocSeq(i int) col.Sequential[col.AssociationLike[V, V]] {
	switch a.pool[i].kind {
	case kCat:
		return a.pool[i].v.(col.CatalogLike[V, V])
	case kMap:
		return a.pool[i].v.(col.MapLike[V, V])
	}
	return nil
}

func (a *assocRunner[V]) doOp(name string) bool {
	s := a.seqRunner
	r := s.r
	s.ownAssoc = true
	s.lastPicks = nil
	defer func() { s.ownAssoc = false }()
	pick := s.pickObj
	switch name {
	case "NewASlice":
		if s.full() {
			return false
		}
		n := s.genSize()
		if n > 9 {
			n = n % 10
		}
		if s.nextKeys != nil {
			n = len(s.nextKeys)
		}
		as := make([]col.AssociationLike[V, V], n)
		for i := range as {
			if s.nextKeys != nil {
				as[i] = col.Association[V, V](s.notation).Make(s.nextKeys[i], s.nextVals[i])
				continue
			}
			as[i] = col.Association[V, V](s.notation).Make(a.genk(r), s.genv(r))
		}
		s.nextKeys, s.nextVals = nil, nil
		s.record(a, name, "NewSlice "+encAssocVals(as), fmt.Sprintf("assocs %s", encAssocs(as)), func() string {
			s.add(kASlice, as, 0)
			return "RNew"
		})
	case "NewGoMap":
		if s.full() {
			return false
		}
		n := s.genSize()
		if n > 9 {
			n = n % 10
		}
		m := map[V]V{}
		var items []string
		for i := 0; i < n; i++ {
			k, v := a.genk(r), s.genv(r)
			m[k] = v
			items = append(items, "("+encVal(any(k))+", "+encVal(any(v))+")")
		}
		s.record(a, name, "NewGoMap "+encList(items), fmt.Sprintf("gomap %v", m), func() string {
			s.add(kGoMap, m, 0)
			return "RNew"
		})
	case "GoMapSet":
		i := pick(kGoMap)
		if i < 0 {
			return false
		}
		m := s.pool[i].v.(map[V]V)
		k, v := a.genk(r), s.genv(r)
		if r.chance(1, 3) {
			s.record(a, "GoMapDel", fmt.Sprintf("GoMapDel %d %s", i, encVal(any(k))), fmt.Sprintf("delete(#%d,%v)", i, k), func() string {
				delete(m, k)
				return "RUnit"
			})
		} else {
			s.record(a, name, fmt.Sprintf("GoMapSet %d %s %s", i, encVal(any(k)), encVal(any(v))), fmt.Sprintf("#%d[%v]=%v", i, k, v), func() string {
				m[k] = v
				return "RUnit"
			})
		}
	case "MakeEmptyA":
		if s.full() {
			return false
		}
		if r.chance(1, 2) {
			s.record(a, "MakeEmpty", "MakeEmpty CCatalog", "Catalog.Make()", func() string {
				s.add(kCat, col.Catalog[V, V](s.notation).Make(), 0)
				return "RNew"
			})
		} else {
			s.record(a, "MakeEmpty", "MakeEmpty CMap", "Map.Make()", func() string {
				s.add(kMap, col.Map[V, V](s.notation).Make(), 0)
				return "RNew"
			})
		}
	case "FromArrayA":
		if s.full() {
			return false
		}
		i := pick(kASlice)
		if i < 0 {
			return false
		}
		as := s.pool[i].v.([]col.AssociationLike[V, V])
		if r.chance(1, 2) || s.hintCat {
			s.record(a, "FromArray", fmt.Sprintf("FromArray CCatalog %d", i), fmt.Sprintf("Catalog.MakeFromArray(#%d)", i), func() string {
				s.add(kCat, col.Catalog[V, V](s.notation).MakeFromArray(as), 0)
				return "RNew"
			})
		} else {
			s.record(a, "FromArray", fmt.Sprintf("FromArray CMap %d", i), fmt.Sprintf("Map.MakeFromArray(#%d)", i), func() string {
				s.add(kMap, col.Map[V, V](s.notation).MakeFromArray(as), 0)
				return "RNew"
			})
		}
	case "FromSeqA":
		if s.full() {
			return false
		}
		i := pick(kCat, kMap)
		if i < 0 {
			return false
		}
		toCat := r.chance(1, 2)
		var made any
		var oc outcome
		kname := "CMap"
		if toCat {
			kname = "CCatalog"
		}
		// the oracle order is learnt from the result, so execute first
		oc, _ = guard(func() {
			if toCat {
				made = col.Catalog[V, V](s.notation).MakeFromSequence(a.assocSeq(i))
			} else {
				made = col.Map[V, V](s.notation).MakeFromSequence(a.assocSeq(i))
			}
		})
		okeys := "[]"
		if oc == ocRet && toCat && s.pool[i].kind == kMap {
			okeys = keysEnc(made.(col.CatalogLike[V, V]).GetKeys().AsArray())
		} else if oc == ocRet && s.pool[i].kind == kMap {
			okeys = keysEnc(s.pool[i].v.(col.MapLike[V, V]).GetKeys().AsArray())
		}
		s.record(a, "FromSeq", fmt.Sprintf("FromSeq %s %d %s", kname, i, okeys), fmt.Sprintf("%s.MakeFromSequence(#%d)", kname, i), func() string {
			if oc != ocRet {
				panic("constructor panicked")
			}
			if toCat {
				s.add(kCat, made, 0)
			} else {
				s.add(kMap, made, 0)
			}
			return "RNew"
		})
	case "FromMap":
		if s.full() {
			return false
		}
		i := pick(kGoMap)
		if i < 0 {
			return false
		}
		m := s.pool[i].v.(map[V]V)
		if r.chance(1, 2) {
			c := col.Catalog[V, V](s.notation).MakeFromMap(m)
			okeys := keysEnc(c.GetKeys().AsArray())
			s.record(a, name, fmt.Sprintf("FromMap CCatalog %d %s", i, okeys), fmt.Sprintf("Catalog.MakeFromMap(#%d)", i), func() string {
				s.add(kCat, c, 0)
				return "RNew"
			})
		} else {
			c := col.Map[V, V](s.notation).MakeFromMap(m)
			okeys := keysEnc(c.GetKeys().AsArray())
			s.record(a, name, fmt.Sprintf("FromMap CMap %d %s", i, okeys), fmt.Sprintf("Map.MakeFromMap(#%d)", i), func() string {
				s.add(kMap, c, 0)
				return "RNew"
			})
		}
	case "Merge":
		if s.full() {
			return false
		}
		x, y := pick(kCat), pick(kCat)
		if x < 0 {
			return false
		}
		s.record(a, name, fmt.Sprintf("Merge %d %d", x, y), fmt.Sprintf("Catalog.Merge(#%d,#%d)", x, y), func() string {
			c := col.Catalog[V, V](s.notation).Merge(s.pool[x].v.(col.CatalogLike[V, V]), s.pool[y].v.(col.CatalogLike[V, V]))
			s.add(kCat, c, 0)
			return "RNew"
		})
	case "Extract":
		if s.full() {
			return false
		}
		x := pick(kCat)
		ks := pick(kArr, kLst, kSet, kStk, kQue)
		if x < 0 || ks < 0 || !s.hashableSeq(ks) {
			return false
		}
		s.record(a, name, fmt.Sprintf("Extract %d %d", x, ks), fmt.Sprintf("Catalog.Extract(#%d,#%d)", x, ks), func() string {
			c := col.Catalog[V, V](s.notation).Extract(s.pool[x].v.(col.CatalogLike[V, V]), s.seqOf(ks))
			s.add(kCat, c, 0)
			return "RNew"
		})
	case "AGet", "ARemove":
		i := pick(kCat, kMap)
		if i < 0 {
			return false
		}
		k := a.genKey(i)
		s.record(a, name, fmt.Sprintf("%s %d %s", name, i, encVal(any(k))), fmt.Sprintf("#%d.%s(%v)", i, name, k), func() string {
			var as col.Associative[V, V]
			if s.pool[i].kind == kCat {
				as = s.pool[i].v.(col.CatalogLike[V, V])
			} else {
				as = s.pool[i].v.(col.MapLike[V, V])
			}
			if name == "AGet" {
				return "RVal " + encVal(any(as.GetValue(k)))
			}
			return "RVal " + encVal(any(as.RemoveValue(k)))
		})
	case "ASet":
		i := pick(kCat, kMap)
		if i < 0 {
			return false
		}
		k := a.genKey(i)
		v := s.gv()
		s.record(a, name, fmt.Sprintf("ASet %d %s %s", i, encVal(any(k)), encVal(any(v))), fmt.Sprintf("#%d.SetValue(%v,%v)", i, k, v), func() string {
			if s.pool[i].kind == kCat {
				s.pool[i].v.(col.CatalogLike[V, V]).SetValue(k, v)
			} else {
				s.pool[i].v.(col.MapLike[V, V]).SetValue(k, v)
			}
			return "RUnit"
		})
	case "AKeys":
		if s.full() {
			return false
		}
		i := pick(kCat, kMap)
		if i < 0 {
			return false
		}
		var res col.Sequential[V]
		oc, _ := guard(func() {
			if s.pool[i].kind == kCat {
				res = s.pool[i].v.(col.CatalogLike[V, V]).GetKeys()
			} else {
				res = s.pool[i].v.(col.MapLike[V, V]).GetKeys()
			}
		})
		okeys := "[]"
		if oc == ocRet && s.pool[i].kind == kMap {
			okeys = keysEnc(res.AsArray())
		}
		s.record(a, name, fmt.Sprintf("AKeys %d %s", i, okeys), fmt.Sprintf("#%d.GetKeys()", i), func() string {
			if oc != ocRet {
				panic("GetKeys panicked")
			}
			if s.pool[i].kind == kCat {
				s.add(kLst, res.(col.ListLike[V]), 0)
			} else {
				s.add(kArr, res.(col.ArrayLike[V]), 0)
			}
			return "RNew"
		})
	case "AGetValues", "ARemoveValues":
		if s.full() {
			return false
		}
		i := pick(kCat, kMap)
		ks := pick(kArr, kLst, kSet, kStk, kQue)
		if i < 0 || ks < 0 || !s.hashableSeq(ks) {
			return false
		}
		s.record(a, name, fmt.Sprintf("%s %d %d", name, i, ks), fmt.Sprintf("#%d.%s(#%d)", i, name, ks), func() string {
			var as col.Associative[V, V]
			if s.pool[i].kind == kCat {
				as = s.pool[i].v.(col.CatalogLike[V, V])
			} else {
				as = s.pool[i].v.(col.MapLike[V, V])
			}
			var res col.Sequential[V]
			if name == "AGetValues" {
				res = as.GetValues(s.seqOf(ks))
			} else {
				res = as.RemoveValues(s.seqOf(ks))
			}
			if s.pool[i].kind == kCat {
				s.add(kLst, res.(col.ListLike[V]), 0)
			} else {
				s.add(kArr, res.(col.ArrayLike[V]), 0)
			}
			return "RNew"
		})
	case "ARemoveAll":
		i := pick(kCat, kMap)
		if i < 0 {
			return false
		}
		s.record(a, "RemoveAll", fmt.Sprintf("RemoveAll %d", i), fmt.Sprintf("#%d.RemoveAll()", i), func() string {
			if s.pool[i].kind == kCat {
				s.pool[i].v.(col.CatalogLike[V, V]).RemoveAll()
			} else {
				s.pool[i].v.(col.MapLike[V, V]).RemoveAll()
			}
			return "RUnit"
		})
	case "ASort", "AReverse", "ASortWith", "AShuffle":
		i := pick(kCat)
		if i < 0 {
			return false
		}
		c := s.pool[i].v.(col.CatalogLike[V, V])
		switch name {
		case "ASort":
			s.record(a, "SortValues", fmt.Sprintf("SortValues %d", i), fmt.Sprintf("#%d.SortValues()", i), func() string { c.SortValues(); return "RUnit" })
		case "AReverse":
			s.record(a, "ReverseValues", fmt.Sprintf("ReverseValues %d", i), fmt.Sprintf("#%d.ReverseValues()", i), func() string { c.ReverseValues(); return "RUnit" })
		case "ASortWith":
			rk := r.intn(6)
			s.record(a, "SortWith", fmt.Sprintf("SortWith %d %d", i, rk), fmt.Sprintf("#%d.SortValuesWithRanker(#%d)", i, rk), func() string {
				base := age.Collator[col.AssociationLike[V, V]]().Make()
				c.SortValuesWithRanker(func(x, y col.AssociationLike[V, V]) age.Rank { return rankWith(rk, base, x, y) })
				return "RUnit"
			})
		default:
			idxs := predictShuffle(c.GetSize())
			items := make([]string, len(idxs))
			for k, x := range idxs {
				items[k] = fmt.Sprintf("%d%%nat", x)
			}
			s.record(a, "ShuffleValues", fmt.Sprintf("ShuffleValues %d %s", i, encList(items)), fmt.Sprintf("#%d.ShuffleValues()", i), func() string { c.ShuffleValues(); return "RUnit" })
		}
	case "AAsArray":
		if s.full() {
			return false
		}
		i := pick(kCat, kMap)
		if i < 0 {
			return false
		}
		var arr []col.AssociationLike[V, V]
		oc, _ := guard(func() { arr = a.assocSeq(i).AsArray() })
		okeys := "[]"
		if oc == ocRet && s.pool[i].kind == kMap {
			ks := make([]V, len(arr))
			for j, x := range arr {
				ks[j] = x.GetKey()
			}
			okeys = keysEnc(ks)
		}
		s.record(a, "AsArray", fmt.Sprintf("AsArray %d %s", i, okeys), fmt.Sprintf("#%d.AsArray()", i), func() string {
			if oc != ocRet {
				panic("AsArray panicked")
			}
			s.add(kASlice, arr, 0)
			return "RNew"
		})
	case "AGetIterator":
		if s.full() {
			return false
		}
		i := pick(kCat, kMap)
		if i < 0 {
			return false
		}
		var it age.IteratorLike[col.AssociationLike[V, V]]
		oc, _ := guard(func() { it = a.assocSeq(i).GetIterator() })
		okeys := "[]"
		if oc == ocRet && s.pool[i].kind == kMap {
			snap := walkIter(it)
			ks := make([]V, len(snap))
			for j, x := range snap {
				ks[j] = x.GetKey()
			}
			okeys = keysEnc(ks)
		}
		s.record(a, "GetIterator", fmt.Sprintf("GetIterator %d %s", i, okeys), fmt.Sprintf("#%d.GetIterator()", i), func() string {
			if oc != ocRet {
				panic("GetIterator panicked")
			}
			s.add(kIterA, it, 0)
			return "RNew"
		})
	case "AGetSize":
		i := pick(kCat, kMap)
		if i < 0 {
			return false
		}
		s.record(a, "GetSize", fmt.Sprintf("GetSize %d", i), fmt.Sprintf("#%d.GetSize()", i), func() string {
			return fmt.Sprintf("RInt %d", a.assocSeq(i).GetSize())
		})
	case "IterMoveA":
		i := pick(kIterA)
		if i < 0 {
			return false
		}
		it := s.pool[i].v.(age.IteratorLike[col.AssociationLike[V, V]])
		encA := func(x col.AssociationLike[V, V]) string {
			if x == nil {
				return "RVal VNil"
			}
			return "RVal (VAssoc " + encVal(any(x.GetKey())) + " " + encVal(any(x.GetValue())) + ")"
		}
		s.iterMove(a, i, func() int { return it.GetSize() }, func(m string, k int) string {
			switch m {
			case "INext":
				return encA(it.GetNext())
			case "IPrev":
				return encA(it.GetPrevious())
			case "IHasNext":
				return fmt.Sprintf("RBool %v", it.HasNext())
			case "IHasPrev":
				return fmt.Sprintf("RBool %v", it.HasPrevious())
			case "IToStart":
				it.ToStart()
				return "RUnit"
			case "IToEnd":
				it.ToEnd()
				return "RUnit"
			case "IToSlot":
				it.ToSlot(k)
				return "RUnit"
			case "IGetSlot":
				return fmt.Sprintf("RInt %d", it.GetSlot())
			case "IGetSize":
				return fmt.Sprintf("RInt %d", it.GetSize())
			default:
				return fmt.Sprintf("RBool %v", it.IsEmpty())
			}
		})
	default:
		if ok, handled := a.doAssocModeOp(name); handled {
			return ok
		}
		s.ownAssoc = false
		return s.doSeqOp(a, name)
	}
	return true
}

// plain sequence runner as an opDoer
type plainRunner[V any] struct{ *seqRunner[V] }

func (p *plainRunner[V]) doOp(name string) bool { return p.doSeqOp(p.seqRunner, name) }

type opDoer interface {
	doOp(name string) bool
	base() *runnerBase
	configure(prop string)
	tryMacro() bool
	finish()
	modesUsed() map[string]int
}

type runnerBase struct {
	steps   *[]string
	trace   *[]string
	hung    *bool
	zeroEnc string
	opHist  map[string]int
	outHist map[string]int
}

func (s *seqRunner[V]) base() *runnerBase {
	return &runnerBase{steps: &s.steps, trace: &s.trace, hung: &s.hung, zeroEnc: encVal(any(s.zero)), opHist: s.opHist, outHist: s.outHist}
}

var _ = strings.Join

func (s *seqRunner[V]) modesUsed() map[string]int { return s.modes }
