package main

import "os"

// The driver passes VERIF_MARKER: a file into which a generator writes the input it is about to give to the
// library.  When a change of the library makes it crash in a way no recover() can stop (a runtime error inside a
// goroutine the library started itself, a fatal error of the runtime), the process dies, and the driver reads the
// marker to report that input as the concrete failing input instead of "the machinery could not run".
var markerPath = os.Getenv("VERIF_MARKER")

func markCase(s string) {
	if markerPath != "" {
		_ = os.WriteFile(markerPath, []byte(s), 0o644)
	}
}
