package main

// Generator modes of the pool histories (round 3): observation policies, repeated identical calls,
// size-related bulk arguments, failing class-function calls followed by the same function, aliasing
// probes after every call that returns a new collection, writes through returned element objects,
// sorter instances on the caller's arrays with lengths around the sorter's structural constants.
// Each history (case) draws its modes from the PRNG; the modes it used are recorded in the meta file.

import (
	"fmt"
	"math"
	"sort"

	age "github.com/craterdog/go-collection-framework/v4/agent"
	col "github.com/craterdog/go-collection-framework/v4/collection"
)

const (
	obsFull    = iota // every live object after every step, through AsArray (the policy of rounds 1-2)
	obsFullMix        // every live object after every step, each through a view drawn per object and step
	obsSampled        // each collection / iterator with probability 1/3 per step, view drawn per object and step
	obsDelayed        // no collection or iterator for 2..7 steps, then every object (views drawn), and so on
)

var obsNames = []string{"obs:full", "obs:fullmix", "obs:sampled", "obs:delayed"}

// one remembered call: everything needed to issue the IDENTICAL call again later
type qrec struct {
	name, opEnc, human string
	f                  func() string
	obj                int // receiver (or -1)
	hasVal             bool
	val                any
}

type modeState[V any] struct {
	outer     opDoer
	prop      string
	obsPolicy int
	obsCount  int
	forceObs  bool
	curView   int // 0 AsArray, 1 GetIterator walk, 2 index / key walk

	force        []int // receivers / operands of the next op, in the order the op picks them (-1: draw)
	lastPicks    []int
	forceVal     *V
	forceKey     *V
	nextSlice    []V
	hintRange    int // 0 none, 1 tail (k, -1), 2 head (1, k), 3 whole
	hintSlotEnd  bool
	hintIndex    *int
	hintFreshKey bool
	hintCat      bool
	panicRet     string // what a panic of the next recorded call means in the model (RPartial for a bulk call that panics part way)
	nextKeys     []V
	nextVals     []V
	tied         bool             // the value / key generators draw rank-equal distinct values (values:tied)
	tiedVal      func(r *rng) V   // a value from a small domain in which distinct Go values rank Equal (nil: none)
	sizeBias     []int

	queries    []qrec
	pendObj    int
	pendVal    any
	pendHas    bool
	ownAssoc   bool // the op being recorded belongs to the associative runner (closures over precomputed oracles)
	modes      map[string]int
	macroP     int // a macro replaces a plain op with probability macroP/12
	macros     []weighted
	creators   []string
	genDeep    func(r *rng) V // a value nested two levels deep (nil: the element type has none)
	genShallow func(r *rng) V // a value on which a collator with maximum 1 never panics
	assocMacro func(name string) bool
	lastF      string
}

func (s *seqRunner[V]) mode(name string) { s.modes[name]++ }

// ---------- choosing objects ----------

func (s *seqRunner[V]) pickObj(kinds ...okind) int {
	if len(s.force) > 0 {
		f := s.force[0]
		s.force = s.force[1:]
		if f >= 0 && f < len(s.pool) {
			for _, k := range kinds {
				if s.pool[f].kind == k {
					s.lastPicks = append(s.lastPicks, f)
					return f
				}
			}
		}
	}
	c := s.ofKind(kinds...)
	if len(c) == 0 {
		s.lastPicks = append(s.lastPicks, -1)
		return -1
	}
	x := c[s.r.intn(len(c))]
	s.lastPicks = append(s.lastPicks, x)
	return x
}

// do executes the named op with forced receivers / operands
func (s *seqRunner[V]) do(name string, force ...int) bool {
	s.force = force
	s.lastPicks = nil
	ok := s.outer.doOp(name)
	s.force = nil
	return ok
}

func (s *seqRunner[V]) gv() V {
	if s.forceVal != nil {
		return *s.forceVal
	}
	return s.genv(s.r)
}

func (s *seqRunner[V]) genRange(n int) (int, int) {
	h := s.hintRange
	if h == 0 && s.r.chance(1, 4) {
		h = 1 + s.r.intn(3)
	}
	k := 1
	if n > 0 {
		k = 1 + s.r.intn(n)
	}
	switch h {
	case 1:
		if s.r.chance(1, 2) {
			return k, -1
		}
		return k, n
	case 2:
		return 1, k
	case 3:
		if s.r.chance(1, 2) {
			return 1, -1
		}
		return 1, n
	}
	return s.genIndex(n), s.genIndex(n)
}

// ---------- observation policies ----------

func (s *seqRunner[V]) observeAllNow() bool {
	if s.forceObs {
		return true
	}
	switch s.obsPolicy {
	case obsFull, obsFullMix:
		return true
	case obsDelayed:
		s.obsCount--
		if s.obsCount <= 0 {
			s.obsCount = 2 + s.r.intn(6)
			return true
		}
	}
	return false
}

func (s *seqRunner[V]) observeThis(o *pobj) bool {
	if !o.seen {
		return true // a created object is observed in the step that creates it
	}
	switch o.kind {
	case kSlice, kASlice, kGoMap, kDead:
		return true // caller-owned: looking at them calls nothing
	}
	if s.obsPolicy == obsSampled {
		return s.r.chance(1, 3)
	}
	return false
}

func (s *seqRunner[V]) pickView(o *pobj) int {
	if s.obsPolicy == obsFull {
		return 0
	}
	if o.nan {
		return s.r.intn(2) // never the key walk: a NaN key cannot be looked up
	}
	return s.r.intn(3)
}

// viewSeq reads a sequence through one of its views
func viewSeq[V any](sq col.Sequential[V], acc col.Accessible[V], view int) []V {
	switch {
	case view == 1:
		it := sq.GetIterator()
		n := it.GetSize()
		out := make([]V, 0, n)
		for i := 0; i < n && it.HasNext(); i++ {
			out = append(out, it.GetNext())
		}
		return out
	case view == 2 && acc != nil:
		n := sq.GetSize()
		out := make([]V, n)
		for i := 0; i < n; i++ {
			out[i] = acc.GetValue(i + 1)
		}
		return out
	}
	return sq.AsArray()
}

type assocView[V comparable] interface {
	col.Sequential[col.AssociationLike[V, V]]
	GetKeys() col.Sequential[V]
	GetValue(key V) V
}

func viewAssocs[V comparable](c assocView[V], view int) []col.AssociationLike[V, V] {
	switch view {
	case 1:
		it := c.GetIterator()
		n := it.GetSize()
		out := make([]col.AssociationLike[V, V], 0, n)
		for i := 0; i < n && it.HasNext(); i++ {
			out = append(out, it.GetNext())
		}
		return out
	case 2:
		keys := c.GetKeys().AsArray()
		out := make([]col.AssociationLike[V, V], len(keys))
		for i, k := range keys {
			out[i] = col.Association[V, V](sharedNotation).Make(k, c.GetValue(k))
		}
		return out
	}
	return c.AsArray()
}

// ---------- remembered calls ----------

var repeatable = map[string]bool{
	"GetValue": true, "GetValues": true, "ContainsValue": true, "GetIndex": true, "ContainsAny": true, "ContainsAll": true,
	"GetSize": true, "IsEmpty": true, "GetCapacity": true, "AsArray": true, "GetIterator": true, "FromSeq": true,
	"SAnd": true, "SOr": true, "SSans": true, "SXor": true, "Concat": true, "SortValues": true, "ReverseValues": true, "SortWith": true,
	"SetValue": true, "RemoveValue": true, "RemoveValues": true, "DelValue": true, "AddValue": true,
	"INext": true, "IPrev": true, "IHasNext": true, "IHasPrev": true, "IToStart": true, "IToEnd": true, "IToSlot": true, "IGetSlot": true, "IGetSize": true, "IIsEmpty": true,
	"SortSlice": true,
}
var repeatableAssoc = map[string]bool{
	"AGet": true, "ARemove": true, "AGetValues": true, "ARemoveValues": true, "Merge": true, "Extract": true, "GetSize": true, "ASet": true,
	"SortValues": true, "ReverseValues": true,
}
var creates = map[string]bool{
	"GetValues": true, "AsArray": true, "GetIterator": true, "FromSeq": true, "SAnd": true, "SOr": true, "SSans": true, "SXor": true, "Concat": true,
	"RemoveValues": true, "AGetValues": true, "ARemoveValues": true, "Merge": true, "Extract": true,
}

func (s *seqRunner[V]) noteQuery(obj int, v V) { s.pendObj, s.pendVal, s.pendHas = obj, any(v), true }

func (s *seqRunner[V]) remember(name, opEnc, human string, f func() string, oc outcome) {
	obj, val, has := s.pendObj, s.pendVal, s.pendHas
	s.pendHas = false
	if oc == ocHang {
		return
	}
	ok := repeatable[name]
	if s.ownAssoc {
		ok = repeatableAssoc[name]
	}
	if !ok {
		return
	}
	q := qrec{name: name, opEnc: opEnc, human: human, f: f, obj: -1}
	if has {
		q.obj, q.val, q.hasVal = obj, val, true
	} else if len(s.lastPicks) > 0 && s.lastPicks[0] >= 0 {
		q.obj = s.lastPicks[0] // the receiver
	}
	s.queries = append(s.queries, q)
	if len(s.queries) > 8 {
		s.queries = s.queries[1:]
	}
}

// ---------- values with a known position in the default order ----------

// biggerThan returns a value that the default collator ranks after x
func biggerThan[V any](x V, r *rng, genv func(r *rng) V) (V, bool) {
	c := age.Collator[V]().Make()
	var y any
	switch a := any(x).(type) {
	case int:
		if a < math.MaxInt64-8 {
			y = a + 1 + r.intn(3)
		}
	case int64:
		if a < math.MaxInt64-8 {
			y = a + 1 + int64(r.intn(3))
		}
	case string:
		y = a + string(rune('a'+r.intn(3)))
	case float64:
		if !math.IsNaN(a) && !math.IsInf(a, 0) {
			if a+1 > a {
				y = a + 1
			} else {
				y = a * 2
			}
		}
	case int32:
		if a < math.MaxInt32-8 {
			y = a + 1
		}
	case []int:
		y = append(append([]int{}, a...), r.intn(3))
	case [][]int:
		y = append(append([][]int{}, a...), nil)
	}
	if y != nil {
		if v, ok := y.(V); ok {
			var oc outcome
			var rk age.Rank
			oc, _ = guard(func() { rk = c.RankValues(v, x) })
			if oc == ocRet && rk == age.GreaterRank {
				return v, true
			}
		}
	}
	for try := 0; try < 12; try++ {
		v := genv(r)
		var rk age.Rank
		oc, _ := guard(func() { rk = c.RankValues(v, x) })
		if oc == ocRet && rk == age.GreaterRank {
			return v, true
		}
	}
	return x, false
}

// ascending returns up to n distinct values in strictly ascending default order
func (s *seqRunner[V]) ascending(n int) []V {
	c := age.Collator[V]().Make()
	var vs []V
	oc, _ := guard(func() {
		cand := s.genVals(3*n + 3)
		age.Sorter[V]().Make().SortValues(cand)
		for _, v := range cand {
			if len(vs) == 0 || c.RankValues(vs[len(vs)-1], v) == age.LesserRank {
				vs = append(vs, v)
			}
		}
	})
	if oc != ocRet {
		return nil
	}
	for len(vs) < n && len(vs) > 0 {
		v, ok := biggerThan(vs[len(vs)-1], s.r, s.genv)
		if !ok {
			break
		}
		vs = append(vs, v)
	}
	if len(vs) > n {
		vs = vs[:n]
	}
	return vs
}

func (s *seqRunner[V]) contents(i int) []V {
	if i < 0 || i >= len(s.pool) {
		return nil
	}
	if s.pool[i].kind == kSlice {
		return s.pool[i].v.([]V)
	}
	if sq := s.seqOf(i); sq != nil {
		return sq.AsArray()
	}
	return nil
}

// ---------- the new ops (mirrors of Pool.v: MakeSetLim, SortSlice, NilCall; AssocSet is in the associative runner) ----------

var sorterSizes = []int{15, 16, 17, 18, 20, 24, 31, 32, 33, 48, 63, 64, 65, 66, 80, 96, 127, 128, 129}

func cfunOf(name string) string { return "F" + name[1:] } // SAnd -> FAnd

func (s *seqRunner[V]) doModeOp(d digester, name string) bool {
	r := s.r
	switch name {
	case "MakeSetLim":
		if s.full() {
			return false
		}
		m := []int{1, 1, 1, 0, 2}[r.intn(5)]
		s.record(d, name, fmt.Sprintf("MakeSetLim %d", m), fmt.Sprintf("Set.MakeWithCollator(Collator.MakeWithMaximum(%d))", m), func() string {
			s.add(kSet, col.Set[V](s.notation).MakeWithCollator(age.Collator[V]().MakeWithMaximum(m)), limBase+m)
			return "RNew"
		})
	case "SortSlice":
		i := s.pickObj(kSlice)
		if i < 0 {
			return false
		}
		rk := r.intn(4)
		if r.chance(1, 2) {
			rk = 0
		}
		if s.sorters == nil {
			s.sorters = map[int]age.SorterLike[V]{}
		}
		s.record(d, name, fmt.Sprintf("SortSlice %d %d", i, rk), fmt.Sprintf("sorter#%d.SortValues(#%d)", rk, i), func() string {
			// the sorter INSTANCE for ranker rk lives as long as the history; it sorts the caller's Go array in place
			target, ok := s.sorters[rk+100]
			if !ok {
				base := age.Collator[V]().Make()
				if rk == 0 {
					target = age.Sorter[V]().Make()
				} else {
					target = age.Sorter[V]().MakeWithRanker(func(a, b V) age.Rank { return rankWith(rk, base, a, b) })
				}
				s.sorters[rk+100] = target
			}
			target.SortValues(s.pool[i].v.([]V))
			return "RUnit"
		})
	case "NilSet":
		// a Set class function with a nil interface as one operand
		a := s.pickObj(kSet)
		if a < 0 || s.full() {
			return false
		}
		f := []string{"SAnd", "SOr", "SSans", "SXor"}[r.intn(4)]
		nilFirst := r.chance(1, 3)
		s.lastF = f
		s.record(d, "NilCall", fmt.Sprintf("NilCall %s %d %v", cfunOf(f), a, nilFirst), fmt.Sprintf("Set.%s(#%d, nil) nilFirst=%v", f[1:], a, nilFirst), func() string {
			cl := col.Set[V](s.notation)
			var x, y col.SetLike[V] = s.pool[a].v.(col.SetLike[V]), nil
			if nilFirst {
				x, y = y, x
			}
			var o col.SetLike[V]
			switch f {
			case "SAnd":
				o = cl.And(x, y)
			case "SOr":
				o = cl.Or(x, y)
			case "SSans":
				o = cl.Sans(x, y)
			default:
				o = cl.Xor(x, y)
			}
			if o == nil {
				return "RBad" // neither a panic nor a Set
			}
			s.add(kSet, o, s.pool[a].coll)
			return "RNew"
		})
	case "NilList":
		a := s.pickObj(kLst)
		if a < 0 || s.full() {
			return false
		}
		nilFirst := r.chance(1, 3)
		s.lastF = "Concat"
		s.record(d, "NilCall", fmt.Sprintf("NilCall FConcat %d %v", a, nilFirst), fmt.Sprintf("List.Concatenate(#%d, nil) nilFirst=%v", a, nilFirst), func() string {
			var x, y col.ListLike[V] = s.pool[a].v.(col.ListLike[V]), nil
			if nilFirst {
				x, y = y, x
			}
			o := col.List[V](s.notation).Concatenate(x, y)
			if o == nil {
				return "RBad"
			}
			s.add(kLst, o, 0)
			return "RNew"
		})
	case "Flush":
		// the last step of a history: every object is observed (through every view in turn)
		var cands []int
		for i, o := range s.pool {
			switch o.kind {
			case kArr, kLst, kSet, kStk, kQue, kCat, kMap:
				cands = append(cands, i)
			}
		}
		if len(cands) == 0 {
			return false
		}
		i := cands[r.intn(len(cands))]
		s.forceObs = true
		s.record(d, "GetSize", fmt.Sprintf("GetSize %d", i), fmt.Sprintf("#%d.GetSize()  (final observation of every object)", i), func() string {
			return fmt.Sprintf("RInt %d", s.pool[i].v.(interface{ GetSize() int }).GetSize())
		})
		s.forceObs = false
	default:
		return false
	}
	return true
}

// ---------- macros ----------

func (s *seqRunner[V]) tryMacro() bool {
	if s.macroP == 0 || len(s.macros) == 0 || !s.r.chance(s.macroP, 12) {
		return false
	}
	name := pickWeighted(s.r, s.macros)
	before := len(s.steps)
	var ok bool
	switch name {
	case "requery":
		ok = s.macroRequery()
	case "aliasprobe":
		ok = s.macroAliasProbe()
	case "ascbuild":
		ok = s.macroAscBuild()
	case "nilcall":
		ok = s.macroNilCall()
	case "limcall":
		ok = s.macroLimCall()
	case "sortslice":
		ok = s.macroSortSlice()
	case "bulkvals":
		ok = s.macroBulkVals()
	case "tiedvalues":
		ok = s.macroTiedValues()
	default:
		if s.assocMacro != nil {
			ok = s.assocMacro(name)
		}
	}
	if len(s.steps) > before {
		s.mode("macro:" + name)
		return true
	}
	_ = ok
	return false
}

// mutate object i by one op of its kind (values biased towards v when given)
func (s *seqRunner[V]) mutateObj(i int, v *V) bool {
	r := s.r
	s.forceVal = v
	if v != nil && r.chance(1, 3) {
		s.forceVal = nil
	}
	defer func() { s.forceVal = nil }()
	var names []string
	switch s.pool[i].kind {
	case kLst:
		names = []string{"SetValue", "SetValue", "InsertValue", "RemoveValue", "AppendValue", "ReverseValues", "SortValues"}
	case kArr:
		names = []string{"SetValue", "SetValue", "ReverseValues", "SortValues"}
	case kSet:
		names = []string{"AddValue", "DelValue", "AddValue"}
	case kStk, kQue:
		names = []string{"Push", "Pop"}
	case kCat, kMap:
		names = []string{"ASet", "ARemove", "ASet"}
	case kSlice:
		names = []string{"SliceSet"}
	default:
		return false
	}
	return s.do(names[r.intn(len(names))], i)
}

// the same call again, after 0..2 mutations of its receiver that tend to keep the remembered answer in place
func (s *seqRunner[V]) macroRequery() bool {
	fresh := false
	if s.r.chance(1, 2) || len(s.queries) == 0 {
		fresh = s.freshQuery()
	}
	if len(s.queries) == 0 || s.hung {
		return false
	}
	q := s.queries[s.r.intn(len(s.queries))]
	if fresh || s.r.chance(1, 2) {
		q = s.queries[len(s.queries)-1]
	}
	if q.obj >= 0 {
		var vp *V
		if q.hasVal {
			if v, ok := q.val.(V); ok {
				vp = &v
			}
		}
		k := s.r.intn(3)
		if fresh && k == 0 {
			k = 1
		}
		for ; k > 0 && !s.hung; k-- {
			if vp != nil && s.r.chance(2, 3) && s.plantEarlier(q.obj, *vp) {
				continue
			}
			s.mutateObj(q.obj, vp)
		}
	} else if s.r.chance(1, 2) {
		// any op in between
		s.outer.doOp(pickWeighted(s.r, profiles[s.prop].ops))
	}
	if creates[q.name] && s.full() {
		return false
	}
	if s.hung {
		return true
	}
	s.ownAssoc = false
	s.record(s.outer.(digester), q.name, q.opEnc, q.human+"  (again)", q.f)
	return true
}

// freshQuery issues a read-only call on a drawn object, so that it can be issued again later
func (s *seqRunner[V]) freshQuery() bool {
	r := s.r
	var cands []int
	for i, o := range s.pool {
		if o.nan {
			continue
		}
		switch o.kind {
		case kArr, kLst, kSet, kStk, kQue, kCat, kMap:
			cands = append(cands, i)
		}
	}
	if len(cands) == 0 {
		return false
	}
	i := cands[r.intn(len(cands))]
	var names []string
	switch s.pool[i].kind {
	case kLst, kSet:
		names = []string{"GetIndex", "GetIndex", "GetIndex", "GetIndex", "ContainsValue", "GetValue", "GetIterator", "AsArray"}
	case kArr:
		names = []string{"GetValue", "GetIterator", "AsArray"}
	case kStk, kQue:
		names = []string{"GetIterator", "GetIterator", "AsArray", "GetSize"}
	case kCat, kMap:
		names = []string{"AGet", "AGet", "AGetSize"}
	}
	var ok []string
	for _, n := range names {
		if hasOp(s.prop, n) && !(creates[n] && s.full()) {
			ok = append(ok, n)
		}
	}
	if len(ok) == 0 {
		return false
	}
	name := ok[r.intn(len(ok))]
	if name == "GetIndex" || name == "ContainsValue" {
		// a value that occurs in the object, preferably not at its first position
		if arr := s.contents(i); len(arr) > 0 {
			v := arr[r.intn(len(arr))]
			if len(arr) > 1 && r.chance(2, 3) {
				v = arr[1+r.intn(len(arr)-1)]
			}
			s.forceVal = &v
			defer func() { s.forceVal = nil }()
		}
	}
	return s.do(name, i)
}

// plantEarlier writes v at a position before its first occurrence in list / array i (the first occurrence stays)
func (s *seqRunner[V]) plantEarlier(i int, v V) bool {
	if k := s.pool[i].kind; k != kLst && k != kArr {
		return false
	}
	arr := s.contents(i)
	c := age.Collator[V]().Make()
	first := -1
	oc, _ := guard(func() {
		for p, x := range arr {
			if c.CompareValues(x, v) {
				first = p
				break
			}
		}
	})
	if oc != ocRet || first < 1 {
		return false
	}
	j := 1 + s.r.intn(first) // ordinal index in 1..first, i.e. before ordinal first+1
	s.hintIndex = &j
	s.forceVal = &v
	ok := s.do("SetValue", i)
	s.hintIndex, s.forceVal = nil, nil
	return ok
}

// endAppend appends one value at the END of object i (a value ranking after every value of i and of j for a Set)
func (s *seqRunner[V]) endAppend(i, j int) bool {
	if i < 0 || i >= len(s.pool) {
		return false
	}
	defer func() { s.forceVal, s.hintSlotEnd, s.hintFreshKey = nil, false, false }()
	switch s.pool[i].kind {
	case kLst:
		if s.r.chance(3, 5) || !hasOp(s.prop, "InsertValue") {
			return s.do("AppendValue", i)
		}
		s.hintSlotEnd = true
		return s.do("InsertValue", i)
	case kSet:
		if s.pool[i].coll != 0 {
			return s.do("AddValue", i)
		}
		arr := s.contents(i)
		if other := s.contents(j); len(other) > 0 && j != i && s.pool[j].kind == kSet {
			c := age.Collator[V]().Make()
			if len(arr) == 0 {
				arr = other
			} else if oc, _ := guard(func() {
				if c.RankValues(other[len(other)-1], arr[len(arr)-1]) == age.GreaterRank {
					arr = other
				}
			}); oc != ocRet {
				return false
			}
		}
		if len(arr) == 0 {
			return s.do("AddValue", i)
		}
		v, ok := biggerThan(arr[len(arr)-1], s.r, s.genv)
		if !ok {
			return s.do("AddValue", i)
		}
		s.forceVal = &v
		return s.do("AddValue", i)
	case kStk, kQue:
		return s.do("Push", i)
	case kCat, kMap:
		s.hintFreshKey = true
		return s.do("ASet", i)
	case kArr:
		return s.do("SetValue", i)
	case kSlice:
		return s.do("SliceSet", i)
	}
	return false
}

var creatorNames = map[string]bool{
	"FromSeq": true, "FromArray": true, "GetValues": true, "RemoveValues": true, "SAnd": true, "SOr": true, "SSans": true, "SXor": true,
	"Concat": true, "Merge": true, "Extract": true, "AKeys": true, "AGetValues": true, "ARemoveValues": true, "FromSeqA": true, "FromArrayA": true,
	"FromMap": true, "AsArray": true, "AAsArray": true,
}

// after a call that returns a new object built from an operand: appends at the end on both sides (and on a
// second product of the same operand), so that a backing array shared with spare capacity shows
func (s *seqRunner[V]) macroAliasProbe() bool {
	if len(s.creators) == 0 || len(s.pool)+1 > s.maxPool {
		return false
	}
	r := s.r
	// the operand first, then a call that builds a new object from an operand of that kind
	byKind := map[okind][]string{
		kSlice: {"FromArray"}, kASlice: {"FromArrayA"}, kGoMap: {"FromMap"},
		kArr: {"GetValues", "FromSeq", "AsArray"},
		kLst: {"GetValues", "RemoveValues", "Concat", "FromSeq", "AsArray"},
		kSet: {"SAnd", "SOr", "SSans", "SXor", "GetValues", "FromSeq", "AsArray"},
		kStk: {"FromSeq", "AsArray"}, kQue: {"FromSeq", "AsArray"},
		kCat: {"Merge", "Extract", "AKeys", "AGetValues", "ARemoveValues", "FromSeqA", "AAsArray"},
		kMap: {"AKeys", "AGetValues", "ARemoveValues", "FromSeqA", "AAsArray"},
	}
	have := map[string]bool{}
	for _, c := range s.creators {
		have[c] = true
	}
	options := func(k okind) []weighted {
		var ws []weighted
		for _, c := range byKind[k] {
			if !have[c] {
				continue
			}
			w := 1
			switch c {
			case "GetValues", "RemoveValues", "AGetValues", "ARemoveValues", "AKeys", "SAnd", "SOr", "SSans", "SXor", "Concat", "Merge", "Extract":
				w = 4 // range-returning calls and class functions
			case "FromSeq", "FromSeqA":
				w = 2
			}
			ws = append(ws, weighted{c, w})
		}
		return ws
	}
	var cands []int
	for i, o := range s.pool {
		if o.nan {
			continue
		}
		if len(options(o.kind)) > 0 {
			cands = append(cands, i)
			switch o.kind {
			case kArr, kLst, kSet, kStk, kQue, kCat, kMap:
				cands = append(cands, i, i) // collections three times as often as the caller's Go arrays / maps
			}
		}
	}
	if len(cands) == 0 {
		return false
	}
	op0 := cands[r.intn(len(cands))]
	// one time in three the class function is drawn first and an operand of its kind is found or built
	var classFns []string
	for _, c := range []string{"SAnd", "SOr", "SSans", "SXor", "Concat", "Merge"} {
		if have[c] {
			classFns = append(classFns, c)
		}
	}
	forced := ""
	if len(classFns) > 0 && r.chance(1, 3) {
		f := classFns[r.intn(len(classFns))]
		k := map[string]okind{"Concat": kLst, "Merge": kCat}[f]
		if f[0] == 'S' {
			k = kSet
		}
		var own []int
		for _, i := range s.ofKind(k) {
			if s.pool[i].coll < limBase {
				own = append(own, i)
			}
		}
		if len(own) == 0 && k != kCat && len(s.pool)+4 <= s.maxPool {
			s.nextSlice = s.genVals(2 + r.intn(5))
			if s.do("NewSlice") {
				s.fromArray(s.outer.(digester), k, len(s.pool)-1)
				if !s.hung && s.pool[len(s.pool)-1].kind == k {
					own = []int{len(s.pool) - 1}
				}
			}
			s.nextSlice = nil
		}
		if s.hung {
			return true
		}
		if len(own) > 0 {
			op0, forced = own[r.intn(len(own))], f
		}
	}
	// the operand's last insertions are at its end (spare capacity, if the implementation grows by append)
	if r.chance(2, 3) {
		for k := 1 + r.intn(3); k > 0 && !s.hung; k-- {
			s.endAppend(op0, -1)
		}
		if s.hung {
			return true
		}
	}
	name := pickWeighted(r, options(s.pool[op0].kind))
	if forced != "" {
		name = forced
	}
	if creates[name] || true {
		if s.full() {
			return true
		}
	}
	// the other operand of a class function: drawn, or (1/4) an EMPTY collection of the kind, or (1/8) the same object
	second := -1
	switch name {
	case "SAnd", "SOr", "SSans", "SXor", "Concat", "Merge":
		x := r.intn(8)
		if forced != "" {
			x = r.intn(4) // the degenerate operands half of the time and a quarter of the time
		}
		switch {
		case x < 2:
			second = s.emptyOf(s.pool[op0].kind)
		case x == 2:
			second = op0
		}
		if s.hung || s.full() {
			return true
		}
		if second >= 0 && r.chance(1, 3) && name != "SXor" {
			op0, second = second, op0 // the degenerate operand first
		}
	}
	s.hintRange = []int{0, 1, 1, 1, 2, 3}[r.intn(6)]
	n0 := len(s.pool)
	ok := s.do(name, op0, second)
	s.hintRange = 0
	if !ok || len(s.pool) == n0 || s.hung {
		return ok
	}
	res := len(s.pool) - 1
	var ops []int
	for _, x := range s.lastPicks {
		if x >= 0 && x < n0 {
			ops = append(ops, x)
		}
	}
	src := -1
	if len(ops) > 0 {
		src = ops[0]
		if len(ops) > 1 && r.chance(1, 4) {
			src = ops[1]
		}
	}
	// 2..4 follow-ups in a drawn order: an append at the end of the product, of the operand, or a second
	// product of the same operands followed by an append at its end; the operand is appended to at least once
	appendable := func(i int) bool {
		if i < 0 {
			return false
		}
		switch s.pool[i].kind {
		case kLst, kSet, kStk, kQue, kCat, kMap:
			return true
		}
		return false
	}
	didSrc := false
	for k := 2 + r.intn(3); k > 0 && !s.hung; k-- {
		switch x := r.intn(5); {
		case x < 2 && appendable(src):
			s.endAppend(src, res)
			didSrc = true
		case x < 4:
			s.endAppend(res, src)
		default:
			if len(s.pool) < s.maxPool {
				n1 := len(s.pool)
				s.hintRange = 1
				s.do(name, s.lastPicks...)
				s.hintRange = 0
				if len(s.pool) > n1 && !s.hung {
					s.endAppend(len(s.pool)-1, src)
				}
			}
		}
	}
	if !didSrc && appendable(src) && !s.hung {
		s.endAppend(src, res)
	}
	return true
}

// emptyOf returns an empty collection of the kind: one of the pool, or a new one when there is room for it and the product
func (s *seqRunner[V]) emptyOf(k okind) int {
	for _, i := range s.ofKind(k) {
		if s.pool[i].v.(interface{ GetSize() int }).GetSize() == 0 && s.pool[i].coll < limBase {
			return i
		}
	}
	if len(s.pool)+2 > s.maxPool {
		return -1
	}
	switch k {
	case kLst, kSet:
		s.makeEmpty(s.outer.(digester), k)
		return len(s.pool) - 1
	case kCat:
		if s.do("MakeEmptyA") && s.pool[len(s.pool)-1].kind == kCat {
			return len(s.pool) - 1
		}
	}
	return -1
}

// shapedSeq builds a sequence of L values related to a collection's values: a drawn permutation of them (repeated when
// L exceeds their number), then a duplicate, a stranger at the front, in the middle, at the end (each independently;
// one time in six none of them: the control)
func shapedSeq[V any](r *rng, present []V, stranger func() V, L int) []V {
	n := len(present)
	if L < 1 {
		L = 1
	}
	out := make([]V, L)
	perm := make([]int, n)
	for k := range perm {
		perm[k] = k
	}
	for k := n - 1; k > 0; k-- {
		j := r.intn(k + 1)
		perm[k], perm[j] = perm[j], perm[k]
	}
	for p := range out {
		if n == 0 {
			out[p] = stranger()
		} else {
			out[p] = present[perm[p%n]]
		}
	}
	dup := func() {
		if L < 2 {
			return
		}
		// one time in two the repeat displaces an EARLIER position (it comes before some value's first mention)
		p1, p2 := r.intn(L), r.intn(L)
		if p1 == p2 {
			p2 = (p1 + 1) % L
		}
		if r.chance(1, 2) && p1 > p2 {
			p1, p2 = p2, p1
		}
		out[p1] = out[p2]
	}
	strangerAt := func(where int) {
		switch {
		case where == 0 || L < 3 && where == 1:
			out[0] = stranger()
		case where == 1:
			out[1+r.intn(L-2)] = stranger()
		default:
			out[L-1] = stranger()
		}
	}
	where := func() int { return []int{0, 0, 1, 1, 2}[r.intn(5)] } // front and middle more often than the end
	switch r.intn(8) {
	case 0: // the control: exactly the values, in a drawn order
	case 1, 2: // repeats only
		dup()
		if r.chance(1, 3) {
			dup()
		}
	case 3, 4, 5: // one or two strangers: at the front, in the middle, at the end
		strangerAt(where())
		if r.chance(1, 2) {
			strangerAt(where())
		}
		if r.chance(1, 4) {
			dup()
		}
	default:
		for w := 0; w < 3; w++ {
			if r.chance(1, 2) {
				strangerAt(w)
			}
		}
		if r.chance(1, 2) {
			dup()
		}
	}
	return out
}

func shapedLen(r *rng, n int) int {
	return []int{n, n, n, n, n + 1, n + 1, n - 1, n + 2, 1, 2, r.intn(n + 3)}[r.intn(11)]
}

// a bulk call on a Set / List whose value sequence has a length related to the size of the collection, made of its
// members (with repeats) and strangers at chosen positions
func (s *seqRunner[V]) macroBulkVals() bool {
	r := s.r
	if len(s.pool)+2 > s.maxPool {
		return false
	}
	var ops []string
	for _, n := range []string{"ContainsAll", "ContainsAll", "ContainsAny", "AddValues", "DelValues", "AppendValues", "InsertValues", "SetValues"} {
		if hasOp(s.prop, n) {
			ops = append(ops, n)
		}
	}
	if len(ops) == 0 {
		return false
	}
	op := ops[r.intn(len(ops))]
	var cands []int
	switch op {
	case "AddValues", "DelValues":
		for _, i := range s.ofKind(kSet) {
			if s.pool[i].coll < limBase {
				cands = append(cands, i)
			}
		}
	case "AppendValues", "InsertValues":
		cands = s.ofKind(kLst)
	case "SetValues":
		cands = s.ofKind(kLst, kArr)
	default:
		cands = s.ofKind(kLst, kSet)
	}
	if len(cands) == 0 {
		return false
	}
	i := cands[r.intn(len(cands))]
	present := s.contents(i)
	vals := shapedSeq(r, present, func() V { return s.genv(r) }, shapedLen(r, len(present)))
	s.nextSlice = vals
	if !s.do("NewSlice") {
		s.nextSlice = nil
		return false
	}
	sl := len(s.pool) - 1
	kind := []okind{kLst, kLst, kArr, kQue}[r.intn(4)]
	s.fromArray(s.outer.(digester), kind, sl)
	if s.hung {
		return true
	}
	s.do(op, i, len(s.pool)-1)
	return true
}

// a collection built in ascending order (its last insertions are at the end), of a size that is not a growth point
func (s *seqRunner[V]) macroAscBuild() bool {
	if len(s.pool)+2 > s.maxPool {
		return false
	}
	n := []int{3, 5, 6, 7, 3, 5, 9, 10, 11, 13}[s.r.intn(10)]
	vs := s.ascending(n)
	if len(vs) == 0 {
		return false
	}
	s.nextSlice = vs
	if !s.do("NewSlice") {
		s.nextSlice = nil
		return false
	}
	sl := len(s.pool) - 1
	k := seqKinds[s.r.intn(len(seqKinds))]
	s.fromArray(s.outer.(digester), k, sl)
	return true
}

// a class function called with a nil operand (it panics), then the same function on ordinary operands
func (s *seqRunner[V]) macroNilCall() bool {
	var name string
	nl, ns, nc := len(s.ofKind(kLst)), len(s.ofKind(kSet)), len(s.ofKind(kCat))
	var opts []string
	if nl > 0 && hasOp(s.prop, "Concat") {
		opts = append(opts, "NilList")
	}
	if ns > 0 && (hasOp(s.prop, "SAnd") || hasOp(s.prop, "SOr")) {
		opts = append(opts, "NilSet")
	}
	if nc > 0 && hasOp(s.prop, "Merge") {
		opts = append(opts, "NilCat")
	}
	if len(opts) == 0 {
		return false
	}
	name = opts[s.r.intn(len(opts))]
	// prefer a non-empty operand: what was gathered before the panic is what a later call could show
	var pref []int
	kind := map[string]okind{"NilList": kLst, "NilSet": kSet, "NilCat": kCat}[name]
	for _, i := range s.ofKind(kind) {
		if s.pool[i].v.(interface{ GetSize() int }).GetSize() > 0 {
			pref = append(pref, i)
		}
	}
	s.lastF = ""
	var ok bool
	if len(pref) > 0 && s.r.chance(3, 4) {
		ok = s.do(name, pref[s.r.intn(len(pref))])
	} else {
		ok = s.do(name)
	}
	if !ok || s.hung {
		return ok
	}
	if s.lastF != "" && s.r.chance(4, 5) {
		s.do(s.lastF)
	}
	return true
}

func hasOp(prop, name string) bool {
	for _, o := range profiles[prop].ops {
		if o.name == name {
			return true
		}
	}
	return false
}

// a class function over a Set whose collator has a small maximum depth and values nested deeper: it panics
// midway, after some members were handled; then the same function on two ordinary Sets
func (s *seqRunner[V]) macroLimCall() bool {
	if s.genDeep == nil || len(s.pool)+3 > s.maxPool {
		return false
	}
	r := s.r
	d := s.outer.(digester)
	_ = d
	if !s.do("MakeSetLim") {
		return false
	}
	b := len(s.pool) - 1
	add := func(i int, v V) {
		if s.hung {
			return
		}
		s.forceVal = &v
		s.do("AddValue", i)
		s.forceVal = nil
	}
	shared := []V{s.genShallow(r), s.genShallow(r)}
	deepB := s.genDeep(r)
	for _, v := range shared {
		add(b, v)
	}
	add(b, deepB)
	if r.chance(1, 2) {
		add(b, s.genShallow(r))
	}
	// the ordinary operand: the same shallow members and other deep ones
	s.makeEmpty(s.outer.(digester), kSet)
	a := len(s.pool) - 1
	for _, v := range shared {
		if r.chance(3, 4) {
			add(a, v)
		}
	}
	for k := 1 + r.intn(2); k > 0; k-- {
		add(a, s.genDeep(r))
	}
	if r.chance(1, 2) {
		add(a, s.genShallow(r))
	}
	if s.hung || s.full() {
		return true
	}
	f := []string{"SAnd", "SAnd", "SOr", "SSans", "SXor"}[r.intn(5)]
	if r.chance(2, 3) {
		s.do(f, a, b)
	} else {
		s.do(f, b, a)
	}
	if s.hung {
		return true
	}
	switch r.intn(4) {
	case 0:
		s.do([]string{"ContainsAll", "ContainsAny"}[r.intn(2)], b, a)
	case 1:
		add(b, s.genDeep(r))
	}
	// the same function again, on ordinary operands (any Sets of the pool, the ordinary operand first)
	if !s.full() && !s.hung {
		s.do(f, a)
	}
	return true
}

// sorter instances on the caller's arrays, lengths around 16*k and powers of two
func (s *seqRunner[V]) macroSortSlice() bool {
	r := s.r
	var big []int
	for _, i := range s.ofKind(kSlice) {
		if len(s.pool[i].v.([]V)) > 16 {
			big = append(big, i)
		}
	}
	if len(big) == 0 || (r.chance(1, 4) && !s.full()) {
		if s.full() {
			return false
		}
		n := sorterSizes[r.intn(len(sorterSizes))]
		s.nextSlice = s.genVals(n)
		if !s.do("NewSlice") {
			s.nextSlice = nil
			return false
		}
		big = append(big, len(s.pool)-1)
	}
	i := big[r.intn(len(big))]
	s.do("SortSlice", i)
	for k := r.intn(3); k > 0 && !s.hung; k-- {
		switch r.intn(3) {
		case 0:
			s.do("SliceSet", i)
		case 1:
			s.do("SortSlice", big[r.intn(len(big))])
		default:
			s.do("SliceSet", i)
			s.do("SortSlice", i)
		}
	}
	return true
}

// ---------- per-case configuration ----------

var macroTable = map[string][]weighted{
	"C01": {{"tiedvalues", 2}, {"requery", 8}, {"aliasprobe", 3}, {"ascbuild", 1}, {"nilcall", 1}, {"bulkvals", 2}},
	"C02": {{"tiedvalues", 4}, {"requery", 3}, {"aliasprobe", 3}, {"ascbuild", 2}, {"nilcall", 1}, {"limcall", 2}, {"bulkvals", 4}},
	"C03": {{"badkey", 4}, {"nankeys", 3}, {"tiedvalues", 4}, {"requery", 2}, {"bulkkeys", 6}, {"aliasprobe", 2}, {"assocwrite", 2}},
	"C09": {{"tiedvalues", 7}, {"sortslice", 7}, {"requery", 1}},
	"C13": {{"requery", 4}, {"aliasprobe", 2}},
	"C14": {{"badkey", 4}, {"nankeys", 2}, {"tiedvalues", 3}, {"requery", 2}, {"bulkkeys", 7}, {"aliasprobe", 2}, {"assocwrite", 2}},
	"C15": {{"tiedvalues", 2}, {"nilcall", 2}, {"limcall", 8}, {"aliasprobe", 8}, {"ascbuild", 3}, {"requery", 1}},
	"C16": {{"badkey", 2}, {"nankeys", 1}, {"tiedvalues", 2}, {"nilcall", 4}, {"aliasprobe", 3}, {"bulkkeys", 4}, {"assocwrite", 1}, {"requery", 1}},
	"C17": {{"requery", 3}, {"assocwrite", 2}, {"aliasprobe", 1}},
	"C18": {{"badkey", 1}, {"nankeys", 1}, {"tiedvalues", 1}, {"aliasprobe", 9}, {"assocwrite", 5}, {"ascbuild", 2}, {"nilcall", 1}, {"bulkkeys", 1}, {"requery", 1}, {"bulkvals", 2}},
}

func (s *seqRunner[V]) configure(prop string) {
	r := s.r
	s.prop = prop
	s.modes = map[string]int{}
	x := r.intn(20)
	switch {
	case x < 7:
		s.obsPolicy = obsFull
	case x < 10:
		s.obsPolicy = obsFullMix
	case x < 15:
		s.obsPolicy = obsSampled
	default:
		s.obsPolicy = obsDelayed
	}
	s.obsCount = 1 + r.intn(4)
	s.mode(obsNames[s.obsPolicy])
	if s.tied {
		s.mode("values:tied")
	}
	s.macros = macroTable[prop]
	switch y := r.intn(10); {
	case y < 2:
		s.macroP = 0
	case y < 6:
		s.macroP = 4
	default:
		s.macroP = 8
	}
	if s.macroP > 0 {
		s.maxPool = 12
		if r.chance(1, 3) {
			s.maxPool = 15
		}
	}
	if prop == "C09" {
		s.sizeBias = sorterSizes
	}
	for _, o := range profiles[prop].ops {
		if creatorNames[o.name] {
			s.creators = append(s.creators, o.name)
		}
	}
	sort.Strings(s.creators)
}

// finish: the final observation of every object (for the policies that skip observations)
func (s *seqRunner[V]) finish() {
	if s.hung || s.obsPolicy == obsFull || s.obsPolicy == obsFullMix {
		return
	}
	s.outer.doOp("Flush")
}

// ---------- the associative runner's part ----------

func (a *assocRunner[V]) keysOf(i int) []V {
	var ks []V
	switch a.pool[i].kind {
	case kCat:
		ks = a.pool[i].v.(col.CatalogLike[V, V]).GetKeys().AsArray()
	case kMap:
		ks = a.pool[i].v.(col.MapLike[V, V]).GetKeys().AsArray()
	}
	sort.Slice(ks, func(x, y int) bool { return encVal(any(ks[x])) < encVal(any(ks[y])) })
	return ks
}

func (a *assocRunner[V]) hasKey(i int, k V) bool {
	for _, x := range a.keysOf(i) {
		if x == k {
			return true
		}
	}
	return false
}

func (a *assocRunner[V]) doAssocModeOp(name string) (ok bool, handled bool) {
	s := a.seqRunner
	r := s.r
	switch name {
	case "AssocSet":
		i := s.pickObj(kASlice)
		if i < 0 {
			return false, true
		}
		arr := s.pool[i].v.([]col.AssociationLike[V, V])
		var idx []int
		for k, x := range arr {
			if x != nil {
				idx = append(idx, k)
			}
		}
		if len(idx) == 0 {
			return false, true
		}
		k := idx[r.intn(len(idx))]
		v := s.gv()
		s.record(a, name, fmt.Sprintf("AssocSet %d %d %s", i, k, encVal(any(v))), fmt.Sprintf("#%d[%d].SetValue(%v)  (the association object)", i, k, v), func() string {
			arr[k].SetValue(v)
			return "RUnit"
		})
		return true, true
	case "ABadKey":
		// a single call or a bulk lookup with an UNHASHABLE key (a Go slice under any): the Go runtime panics at the
		// map lookup, nothing has changed
		bad, okBad := any([]int{1 + r.intn(3)}).(V)
		i := s.pickObj(kCat, kMap)
		if !okBad || i < 0 {
			return false, true
		}
		which := r.intn(4)
		if which == 3 && s.full() {
			which = 0
		}
		present := a.keysOf(i)
		v := s.gv()
		s.record(a, name, fmt.Sprintf("ABadKey %d", i), fmt.Sprintf("#%d.%s(unhashable key)", i, []string{"GetValue", "SetValue", "RemoveValue", "GetValues"}[which]), func() string {
			var as col.Associative[V, V]
			if s.pool[i].kind == kCat {
				as = s.pool[i].v.(col.CatalogLike[V, V])
			} else {
				as = s.pool[i].v.(col.MapLike[V, V])
			}
			switch which {
			case 0:
				as.GetValue(bad)
			case 1:
				as.SetValue(bad, v)
			case 2:
				as.RemoveValue(bad)
			default:
				ks := append(append([]V{}, present...), bad)
				as.GetValues(col.List[V](s.notation).MakeFromArray(ks))
			}
			return "RBad" // it must not return
		})
		return true, true
	case "ARemoveValuesBad":
		// RemoveValues(present and absent keys ++ [unhashable key] ++ more keys): the keys before the unhashable one
		// are removed, one by one, from the key index AND the order; then the lookup panics
		bad, okBad := any([]int{1 + r.intn(3)}).(V)
		i := s.pickObj(kCat, kMap)
		if !okBad || i < 0 {
			return false, true
		}
		present := a.keysOf(i)
		absent := func() V { return a.genk(r) }
		before := shapedSeq(r, present, absent, 1+r.intn(len(present)+1))
		if r.chance(1, 6) {
			before = nil // the unhashable key first: nothing is removed
		}
		after := shapedSeq(r, present, absent, 1+r.intn(2))
		all := append(append(append([]V{}, before...), bad), after...)
		s.panicRet = "RPartial"
		s.record(a, name, fmt.Sprintf("ARemoveValuesBad %d %s", i, keysEnc(before)), fmt.Sprintf("#%d.RemoveValues(%v ++ [unhashable] ++ %v)", i, before, after), func() string {
			var as col.Associative[V, V]
			if s.pool[i].kind == kCat {
				as = s.pool[i].v.(col.CatalogLike[V, V])
			} else {
				as = s.pool[i].v.(col.MapLike[V, V])
			}
			as.RemoveValues(col.List[V](s.notation).MakeFromArray(all))
			return "RBad" // it must not return
		})
		s.panicRet = ""
		return true, true
	case "NilCat":
		x := s.pickObj(kCat)
		if x < 0 || s.full() {
			return false, true
		}
		f := "Merge"
		if hasOp(s.prop, "Extract") && r.chance(1, 2) {
			f = "Extract"
		}
		nilFirst := r.chance(1, 3)
		s.lastF = f
		s.record(a, "NilCall", fmt.Sprintf("NilCall F%s %d %v", f, x, nilFirst), fmt.Sprintf("Catalog.%s(#%d, nil) nilFirst=%v", f, x, nilFirst), func() string {
			cl := col.Catalog[V, V](s.notation)
			c := s.pool[x].v.(col.CatalogLike[V, V])
			var o col.CatalogLike[V, V]
			switch {
			case f == "Merge" && nilFirst:
				o = cl.Merge(nil, c)
			case f == "Merge":
				o = cl.Merge(c, nil)
			case nilFirst:
				o = cl.Extract(nil, c.GetKeys())
			default:
				o = cl.Extract(c, nil)
			}
			if o == nil {
				return "RBad"
			}
			s.add(kCat, o, 0)
			return "RNew"
		})
		return true, true
	}
	return false, false
}

func (a *assocRunner[V]) macro(name string) bool {
	switch name {
	case "bulkkeys":
		return a.macroBulkKeys()
	case "assocwrite":
		return a.macroAssocWrite()
	case "tiedkeys":
		return a.macroTiedKeys()
	case "badkey":
		return a.macroBadKey()
	case "nankeys":
		return a.macroNaNKeys()
	}
	return false
}

// a bulk call whose key sequence has a length related to the size of the collection (= size, size±1, ...)
// with duplicates and absent keys at the front, in the middle and at the end
func (a *assocRunner[V]) macroBulkKeys() bool {
	s := a.seqRunner
	r := s.r
	if len(s.pool)+3 > s.maxPool {
		return false
	}
	var ops []string
	for _, n := range []string{"AGetValues", "AGetValues", "ARemoveValues", "ARemoveValues", "Extract"} {
		if hasOp(s.prop, n) {
			ops = append(ops, n)
		}
	}
	if len(ops) == 0 {
		return false
	}
	op := ops[r.intn(len(ops))]
	var cands []int
	if op == "Extract" {
		cands = s.ofKind(kCat)
	} else {
		cands = s.ofKind(kCat, kMap)
	}
	// the property's own kind three times in four
	if pk, ok := map[string]okind{"C14": kMap, "C03": kCat}[s.prop]; ok && op != "Extract" && r.chance(3, 4) {
		if own := s.ofKind(pk); len(own) > 0 {
			cands = own
		}
	}
	if len(cands) == 0 {
		return false
	}
	i := cands[r.intn(len(cands))]
	// a collection of fewer than three associations is grown first (the shapes need a front, a middle and an end)
	for k := 0; k < 3 && a.assocSeq(i).GetSize() < 3 && !s.hung && r.chance(4, 5); k++ {
		s.hintFreshKey = true
		s.do("ASet", i)
		s.hintFreshKey = false
	}
	if s.hung {
		return true
	}
	present := a.keysOf(i)
	n := len(present)
	absent := func() V {
		for try := 0; try < 10; try++ {
			k := a.genk(r)
			if !a.hasKey(i, k) {
				return k
			}
		}
		return a.genk(r)
	}
	keys := shapedSeq(r, present, absent, shapedLen(r, n))
	s.nextSlice = keys
	if !s.do("NewSlice") {
		s.nextSlice = nil
		return false
	}
	sl := len(s.pool) - 1
	kind := kLst
	if r.chance(1, 3) {
		kind = kArr
	}
	s.fromArray(a, kind, sl)
	if s.hung {
		return true
	}
	ks := len(s.pool) - 1
	s.do(op, i, ks)
	return true
}

// write through an association object handed out by AsArray, then read the collection again
func (a *assocRunner[V]) macroAssocWrite() bool {
	s := a.seqRunner
	r := s.r
	if len(s.pool)+2 > s.maxPool {
		return false
	}
	var cands []int
	for _, i := range s.ofKind(kCat, kMap) {
		if a.assocSeq(i).GetSize() > 0 {
			cands = append(cands, i)
		}
	}
	if len(cands) == 0 || (r.chance(1, 4) && len(s.pool)+4 <= s.maxPool) {
		// build one from a Go array of associations
		if len(s.pool)+4 > s.maxPool || !s.do("NewASlice") {
			return false
		}
		sl := len(s.pool) - 1
		if len(s.pool[sl].v.([]col.AssociationLike[V, V])) == 0 || !s.do("FromArrayA", sl) || s.hung {
			return true
		}
		if k := s.pool[len(s.pool)-1].kind; (k == kCat || k == kMap) && a.assocSeq(len(s.pool)-1).GetSize() > 0 {
			cands = []int{len(s.pool) - 1}
		} else {
			return true
		}
	}
	i := cands[r.intn(len(cands))]
	if !s.do("AAsArray", i) || s.hung {
		return false
	}
	sl := len(s.pool) - 1
	if s.pool[sl].kind != kASlice {
		return true
	}
	for k := 1 + r.intn(2); k > 0 && !s.hung; k-- {
		s.do("AssocSet", sl)
	}
	if s.hung {
		return true
	}
	follow := []string{"AGet", "AAsArray", "AGetIterator", "FromSeqA"}
	if hasOp(s.prop, "Merge") && s.pool[i].kind == kCat {
		follow = append(follow, "Merge")
	}
	f := follow[r.intn(len(follow))]
	if f != "AGet" && s.full() {
		f = "AGet"
	}
	s.do(f, i)
	return true
}

// ---------- rank-equal distinct values (round 4: mode tiedvalues) ----------

// genTied draws from a small domain in which DISTINCT Go values rank Equal under the default collator: the same number
// as int / int8 / int16 / int64 (all "integer"), as uint / uint16 / uint32 / uint64 ("unsigned"), as float32 / float64
// ("float").  CompareValues and Go's == tell them apart, RankValues does not.
func genTied(r *rng) any {
	k := r.intn(3)
	switch r.intn(12) {
	case 0, 10:
		return int(k)
	case 1:
		return int8(k)
	case 2:
		return int16(k)
	case 3, 11:
		return int64(k)
	case 4:
		return uint(k)
	case 5:
		return uint16(k)
	case 6:
		return uint32(k)
	case 7:
		return uint64(k)
	case 8:
		return float32(k) + 0.5
	default:
		return float64(k) + 0.5
	}
}

// tiedGroup returns n values of which at least two are distinct but rank Equal, in a drawn order
func (s *seqRunner[V]) tiedGroup(n int) []V {
	r := s.r
	c := age.Collator[V]().Make()
	out := make([]V, 0, n)
	for len(out) < n {
		out = append(out, s.tiedVal(r))
	}
	// make sure of one tie between distinct values: redraw the second value until it ranks Equal to the first and differs
	for try := 0; try < 40 && n >= 2; try++ {
		v := s.tiedVal(r)
		tie := false
		guard(func() { tie = c.RankValues(out[0], v) == age.EqualRank && !c.CompareValues(out[0], v) })
		if tie {
			out[1+r.intn(n-1)] = v
			break
		}
	}
	for k := n - 1; k > 0; k-- {
		j := r.intn(k + 1)
		out[k], out[j] = out[j], out[k]
	}
	return out
}

// Sets built by constructors from inputs that hold rank-equal distinct values, beside the same values added one by
// one; searches for the tied values; Catalogs whose keys tie, then sorted / reversed
func (s *seqRunner[V]) macroTiedValues() bool {
	if s.tiedVal == nil {
		return false
	}
	r := s.r
	d := s.outer.(digester)
	if s.assocMacro != nil && (hasOp(s.prop, "ASort") || hasOp(s.prop, "AKeys")) && r.chance(3, 5) {
		if s.assocMacro("tiedkeys") {
			return true
		}
	}
	if len(s.pool)+3 > s.maxPool {
		return false
	}
	vals := s.tiedGroup(3 + r.intn(5))
	s.nextSlice = vals
	if !s.do("NewSlice") {
		s.nextSlice = nil
		return false
	}
	sl := len(s.pool) - 1
	wantSet := hasOp(s.prop, "AddValue") || hasOp(s.prop, "SAnd")
	kind := kLst
	if wantSet && r.chance(2, 3) {
		kind = kSet
	}
	s.fromArray(d, kind, sl) // MakeFromArray
	if s.hung {
		return true
	}
	a := len(s.pool) - 1
	steps := 1 + r.intn(3)
	for ; steps > 0 && !s.hung; steps-- {
		switch r.intn(5) {
		case 0: // MakeFromSequence of a Set from what was just built
			if !s.full() && wantSet {
				s.fromSeq(d, kSet, a)
			}
		case 1: // the same values added one by one to an empty Set
			if len(s.pool)+1 <= s.maxPool && wantSet {
				s.makeEmpty(d, kSet)
				e := len(s.pool) - 1
				for _, v := range vals {
					if s.hung {
						break
					}
					v := v
					s.forceVal = &v
					s.do("AddValue", e)
					s.forceVal = nil
				}
			}
		case 2: // searches for a tied value
			v := s.tiedVal(r)
			s.forceVal = &v
			s.do([]string{"GetIndex", "ContainsValue"}[r.intn(2)], a)
			s.forceVal = nil
		case 3:
			if hasOp(s.prop, "ContainsAll") {
				s.do([]string{"ContainsAll", "ContainsAny"}[r.intn(2)], a)
			} else if hasOp(s.prop, "SortValues") {
				s.do("SortValues", a)
			}
		default:
			if hasOp(s.prop, "SortWith") {
				s.do("SortWith", a)
			} else {
				v := s.tiedVal(r)
				s.forceVal = &v
				s.do("AddValue", a)
				s.forceVal = nil
			}
		}
	}
	return true
}

// a Catalog (or Map) whose keys hold rank-equal distinct keys, values in a drawn order; then SortValues,
// SortValuesWithRanker, ReverseValues, GetKeys, bulk lookups
func (a *assocRunner[V]) macroTiedKeys() bool {
	s := a.seqRunner
	r := s.r
	if s.tiedVal == nil || len(s.pool)+2 > s.maxPool {
		return false
	}
	n := 2 + r.intn(5)
	cand := s.tiedGroup(n + 2)
	var keys []V
	for _, k := range cand { // distinct map keys only (a repeated key would just overwrite)
		dup := false
		for _, x := range keys {
			if x == k {
				dup = true
			}
		}
		if !dup && len(keys) < n {
			keys = append(keys, k)
		}
	}
	if len(keys) < 2 {
		return false
	}
	vals := make([]V, len(keys))
	for i := range vals {
		if r.chance(1, 2) {
			vals[i] = s.tiedVal(r)
		} else {
			vals[i] = s.genv(r)
		}
	}
	if r.chance(1, 2) {
		// values in DESCENDING order: associations whose keys tie are then out of order whatever the order of the keys
		guard(func() {
			age.Sorter[V]().Make().SortValues(vals)
			for i, j := 0, len(vals)-1; i < j; i, j = i+1, j-1 {
				vals[i], vals[j] = vals[j], vals[i]
			}
		})
	}
	s.nextKeys, s.nextVals = keys, vals
	if !s.do("NewASlice") {
		s.nextKeys, s.nextVals = nil, nil
		return false
	}
	sl := len(s.pool) - 1
	s.hintCat = r.chance(4, 5)
	ok := s.do("FromArrayA", sl)
	s.hintCat = false
	if !ok || s.hung {
		return true
	}
	c := len(s.pool) - 1
	var follow []string
	for _, f := range []string{"ASort", "ASort", "ASortWith", "AReverse", "AKeys", "AGet", "ASet", "AShuffle"} {
		if hasOp(s.prop, f) {
			follow = append(follow, f)
		}
	}
	first := true
	for k := 1 + r.intn(3); k > 0 && !s.hung && len(follow) > 0; k-- {
		f := follow[r.intn(len(follow))]
		if first && hasOp(s.prop, "ASort") && r.chance(1, 2) {
			f = "ASort"
		}
		first = false
		if f == "AKeys" && s.full() {
			continue
		}
		if f == "AGet" || f == "ASet" {
			key := keys[r.intn(len(keys))]
			s.forceKey = &key
		}
		s.do(f, c)
		s.forceKey = nil
	}
	return true
}

// ---------- round 5: a bulk METHOD that panics part way; keys that are not equal to themselves ----------

// a bulk removal that panics at an unhashable key after it removed the keys before it, then every view of the
// collection (the observation) and calls that need key index and order to agree: SetValue / GetValue of a removed key
func (a *assocRunner[V]) macroBadKey() bool {
	s := a.seqRunner
	r := s.r
	if _, ok := any([]int{1}).(V); !ok {
		return false
	}
	var cands []int
	for _, i := range s.ofKind(kCat, kMap) {
		cands = append(cands, i)
		if pk, ok := map[string]okind{"C14": kMap, "C03": kCat, "C16": kCat}[s.prop]; ok && s.pool[i].kind == pk {
			cands = append(cands, i, i)
		}
	}
	if len(cands) == 0 {
		return false
	}
	i := cands[r.intn(len(cands))]
	for k := 0; k < 3 && a.assocSeq(i).GetSize() < 3 && !s.hung && r.chance(4, 5); k++ {
		s.hintFreshKey = true
		s.do("ASet", i)
		s.hintFreshKey = false
	}
	if s.hung {
		return true
	}
	before := a.keysOf(i)
	if r.chance(1, 4) {
		s.do("ABadKey", i)
		return true
	}
	s.do("ARemoveValuesBad", i)
	// afterwards: the removed keys again (SetValue must not add a second association, GetValue reads zero)
	for k := 1 + r.intn(3); k > 0 && !s.hung && len(before) > 0; k-- {
		key := before[r.intn(len(before))]
		s.forceKey = &key
		s.do([]string{"ASet", "AGet", "ARemove", "ASet"}[r.intn(4)], i)
		s.forceKey = nil
	}
	if !s.hung && !s.full() && r.chance(1, 2) {
		s.do("AKeys", i)
	}
	return true
}

// MakeFromMap (Catalog and Map) of a Go map that holds one or two NaN keys with non-zero values: the size and the
// multiset of pairs seen through AsArray / iteration must be the Go map's (a NaN key cannot be looked up)
func (a *assocRunner[V]) macroNaNKeys() bool {
	s := a.seqRunner
	r := s.r
	nan, ok := any(math.NaN()).(V)
	if !ok || len(s.pool)+2 > s.maxPool {
		return false
	}
	m := map[V]V{}
	var items []string
	put := func(k, v V) {
		m[k] = v
		items = append(items, "("+encVal(any(k))+", "+encVal(any(v))+")")
	}
	nonzero := func() V {
		for try := 0; try < 10; try++ {
			v := s.genv(r)
			if encVal(any(v)) != encVal(any(s.zero)) {
				return v
			}
		}
		return s.genv(r)
	}
	for k := r.intn(3); k > 0; k-- {
		put(a.genk(r), s.genv(r))
	}
	for k := 1 + r.intn(2); k > 0; k-- {
		put(nan, nonzero())
	}
	if r.chance(1, 2) {
		put(a.genk(r), s.genv(r))
	}
	s.record(a, "NewGoMap", "NewGoMap "+encList(items), fmt.Sprintf("gomap with NaN keys %v", m), func() string {
		s.add(kGoMap, m, 0)
		s.pool[len(s.pool)-1].nan = true
		return "RNew"
	})
	src := len(s.pool) - 1
	for k := 1 + r.intn(2); k > 0 && !s.hung && !s.full(); k-- {
		toCat := r.chance(2, 3)
		if s.prop == "C14" {
			toCat = r.chance(1, 3)
		}
		var made any
		var pairs []col.AssociationLike[V, V]
		oc, _ := guard(func() {
			if toCat {
				c := col.Catalog[V, V](s.notation).MakeFromMap(m)
				made, pairs = c, c.AsArray()
			} else {
				c := col.Map[V, V](s.notation).MakeFromMap(m)
				made, pairs = c, c.AsArray()
			}
		})
		kname := "CMap"
		if toCat {
			kname = "CCatalog"
		}
		s.record(a, "FromMapV", fmt.Sprintf("FromMapV %s %d %s", kname, src, encAssocs(pairs)), fmt.Sprintf("%s.MakeFromMap(#%d)  (NaN keys)", kname, src), func() string {
			if oc != ocRet {
				panic("constructor panicked")
			}
			if toCat {
				s.add(kCat, made, 0)
			} else {
				s.add(kMap, made, 0)
			}
			s.pool[len(s.pool)-1].nan = true
			return "RNew"
		})
		if s.hung {
			return true
		}
		c := len(s.pool) - 1
		switch r.intn(4) {
		case 0:
			s.do("AGetSize", c)
		case 1:
			s.forceKey = &nan
			s.do("AGet", c) // the zero value: no lookup finds a NaN key
			s.forceKey = nil
		case 2:
			if toCat {
				s.do("AReverse", c)
			}
		}
	}
	return true
}
