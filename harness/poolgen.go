package main

// History generation for the pool model: element-type universes, per-property op
// profiles, and the writer of cases.v / cases.json.

import (
	"encoding/json"
	"fmt"
	"math"
	"os"
	"path/filepath"
	"sort"
	"strings"

	col "github.com/craterdog/go-collection-framework/v4/collection"
)

type weighted struct {
	name string
	w    int
}

type profile struct {
	types  []string
	setup  []string // ops tried once each at the start
	ops    []weighted
	minLen int
	maxLen int
}

var listOps = []weighted{
	{"NewSlice", 3}, {"SliceSet", 2}, {"MakeArr", 2}, {"MakeEmpty", 2}, {"FromArray", 4}, {"FromSeq", 3}, {"Concat", 2},
	{"GetValue", 4}, {"GetValues", 4}, {"SetValue", 4}, {"SetValues", 5}, {"InsertValue", 5}, {"InsertValues", 6},
	{"AppendValue", 4}, {"AppendValues", 4}, {"RemoveValue", 4}, {"RemoveValues", 5}, {"RemoveAll", 1},
	{"ContainsValue", 2}, {"ContainsAny", 2}, {"ContainsAll", 2}, {"GetIndex", 3},
	{"SortValues", 2}, {"ReverseValues", 2}, {"AsArray", 2}, {"GetIterator", 1}, {"IterMove", 2}, {"GetSize", 1}, {"IsEmpty", 1},
}
var setOps = []weighted{
	{"NewSlice", 3}, {"MakeEmpty", 2}, {"MakeSetColl", 4}, {"FromArray", 4}, {"FromSeq", 3},
	{"AddValue", 12}, {"AddValues", 5}, {"DelValue", 8}, {"DelValues", 4}, {"RemoveAll", 1},
	{"ContainsValue", 4}, {"ContainsAny", 2}, {"ContainsAll", 2}, {"GetIndex", 5}, {"GetValue", 4}, {"GetValues", 3},
	{"AsArray", 2}, {"GetIterator", 1}, {"IterMove", 2}, {"GetSize", 1}, {"SAnd", 1}, {"SOr", 1}, {"SSans", 1}, {"SXor", 1},
}
var setAlgebraOps = []weighted{
	{"NewSlice", 4}, {"MakeSetColl", 2}, {"FromArray", 6}, {"FromSeq", 1},
	{"SAnd", 6}, {"SOr", 6}, {"SSans", 6}, {"SXor", 6}, {"AddValue", 4}, {"DelValue", 3}, {"AddValues", 1}, {"RemoveAll", 1},
	{"ContainsValue", 1}, {"AsArray", 1},
}
var catalogOps = []weighted{
	{"NewASlice", 2}, {"NewGoMap", 2}, {"GoMapSet", 1}, {"MakeEmptyA", 3}, {"FromArrayA", 3}, {"FromSeqA", 2}, {"FromMap", 2},
	{"ASet", 14}, {"AGet", 5}, {"ARemove", 8}, {"AKeys", 2}, {"AGetValues", 2}, {"ARemoveValues", 3}, {"ARemoveAll", 1},
	{"ASort", 2}, {"AReverse", 2}, {"ASortWith", 1}, {"AShuffle", 2}, {"AAsArray", 2}, {"AGetIterator", 1}, {"IterMoveA", 2}, {"AGetSize", 1},
	{"NewSlice", 2}, {"FromArray", 2}, {"Merge", 1}, {"Extract", 1},
}
var mapOps = catalogOps
var mergeOps = []weighted{
	{"NewASlice", 3}, {"MakeEmptyA", 1}, {"FromArrayA", 5}, {"ASet", 6}, {"ARemove", 2},
	{"Merge", 8}, {"Extract", 8}, {"NewSlice", 4}, {"FromArray", 5}, {"Concat", 8}, {"AppendValue", 2}, {"SetValue", 1},
	{"AGet", 1}, {"AKeys", 1}, {"AAsArray", 1},
}
var stackOps = []weighted{
	{"NewSlice", 3}, {"MakeEmpty", 2}, {"MakeCap", 5}, {"FromArray", 4}, {"FromSeq", 3},
	{"Push", 16}, {"Pop", 10}, {"RemoveAll", 1}, {"GetCapacity", 2}, {"AsArray", 2}, {"GetIterator", 1}, {"IterMove", 2}, {"GetSize", 2}, {"IsEmpty", 1},
}
var iterOps = []weighted{
	{"NewSlice", 2}, {"MakeArr", 1}, {"MakeEmpty", 4}, {"FromArray", 5}, {"FromSeq", 2},
	{"NewASlice", 1}, {"MakeEmptyA", 1}, {"FromArrayA", 3}, {"ASet", 9}, {"ARemove", 1}, {"AGetIterator", 6}, {"IterMoveA", 14},
	{"GetIterator", 8}, {"IterMove", 30},
	{"SetValue", 2}, {"InsertValue", 2}, {"AppendValue", 2}, {"RemoveValue", 2}, {"RemoveAll", 1}, {"SortValues", 1}, {"ReverseValues", 1},
	{"AddValue", 2}, {"DelValue", 1}, {"Push", 3}, {"Pop", 2}, {"SliceSet", 1}, {"ASort", 1}, {"AReverse", 1},
}
var aliasOps = []weighted{
	{"NewSlice", 5}, {"SliceSet", 10}, {"NewASlice", 2}, {"NewGoMap", 3}, {"GoMapSet", 5},
	{"MakeEmpty", 1}, {"FromArray", 8}, {"FromSeq", 4}, {"FromArrayA", 3}, {"FromMap", 4}, {"FromSeqA", 2},
	{"AsArray", 8}, {"AAsArray", 3}, {"GetValues", 4}, {"RemoveValues", 3}, {"AKeys", 3}, {"AGetValues", 2}, {"ARemoveValues", 2},
	{"Concat", 2}, {"SOr", 1}, {"SAnd", 1}, {"Merge", 1}, {"Extract", 1},
	{"SetValue", 4}, {"SetValues", 5}, {"InsertValues", 5}, {"AppendValues", 5}, {"AddValues", 4}, {"DelValues", 3},
	{"AppendValue", 2}, {"AddValue", 2}, {"Push", 2}, {"Pop", 1}, {"ASet", 3}, {"ARemove", 1}, {"SortValues", 1}, {"ReverseValues", 1},
	{"AssocSet", 3}, {"InsertValue", 2},
}
var sortOps = []weighted{
	{"NewSlice", 4}, {"FromArray", 6}, {"MakeArr", 1}, {"NewASlice", 2}, {"FromArrayA", 3},
	{"SortValues", 8}, {"SortWith", 12}, {"ReverseValues", 6}, {"ShuffleValues", 6}, {"ASort", 3}, {"ASortWith", 3}, {"AReverse", 3}, {"AShuffle", 3},
	{"AppendValue", 3}, {"SetValue", 2}, {"ASet", 2}, {"SortSlice", 10}, {"SliceSet", 4},
}

var profiles = map[string]profile{
	"C01": {types: []string{"int", "string", "float64", "[]int", "any"}, setup: []string{"NewSlice", "FromArray", "MakeEmpty", "MakeArr"}, ops: listOps, minLen: 4, maxLen: 40},
	"C02": {types: []string{"int", "string", "[]int", "any", "setint", "int", "[][]int"}, setup: []string{"NewSlice", "MakeSetColl", "MakeEmpty"}, ops: setOps, minLen: 4, maxLen: 60},
	"C03": {types: []string{"string", "int", "rune", "float64", "any", "*PK"}, setup: []string{"MakeEmptyA", "NewASlice", "NewSlice"}, ops: catalogOps, minLen: 4, maxLen: 50},
	"C09": {types: []string{"int", "string", "any", "int", "any"}, setup: []string{"NewSlice", "FromArray"}, ops: sortOps, minLen: 3, maxLen: 25},
	"C13": {types: []string{"int", "string", "any"}, setup: []string{"NewSlice", "MakeCap", "MakeEmpty"}, ops: stackOps, minLen: 4, maxLen: 60},
	"C14": {types: []string{"string", "int", "rune", "any"}, setup: []string{"MakeEmptyA", "NewASlice", "NewGoMap", "NewSlice"}, ops: mapOps, minLen: 4, maxLen: 50},
	"C15": {types: []string{"int", "string", "[]int", "any", "setint", "[][]int"}, setup: []string{"NewSlice", "NewSlice", "FromArray", "FromArray"}, ops: setAlgebraOps, minLen: 4, maxLen: 25},
	"C16": {types: []string{"int", "string", "any"}, setup: []string{"NewASlice", "NewASlice", "FromArrayA", "FromArrayA", "NewSlice", "FromArray"}, ops: mergeOps, minLen: 4, maxLen: 25},
	"C17": {types: []string{"int", "string", "any"}, setup: []string{"NewSlice", "FromArray", "GetIterator"}, ops: iterOps, minLen: 4, maxLen: 50},
	"C18": {types: []string{"int", "string", "any", "[]int"}, setup: []string{"NewSlice", "FromArray", "AsArray"}, ops: aliasOps, minLen: 4, maxLen: 40},
}

// kinds of objects a profile should bias MakeEmpty / FromArray towards
var kindBias = map[string][]okind{
	"C01": {kLst, kLst, kLst, kArr, kArr, kSet, kStk, kQue},
	"C02": {kSet, kSet, kSet, kSet, kLst, kArr},
	"C13": {kStk, kStk, kStk, kStk, kLst, kQue},
	"C15": {kSet, kSet, kSet, kSet, kSet, kLst},
	"C16": {kLst, kLst, kLst, kArr, kSet},
	"C09": {kArr, kArr, kLst, kLst},
}

// ---------- value generators ----------

var smallStrings = []string{"", "a", "b", "ab", "abc", "b\xff", "aa", "ba", "z", "\x00", "é", "abd"}
var floatVals = []float64{0, 1.5, -2.25, 1e300, -1e-300, math.Inf(1), math.Inf(-1), 5e-324, 3, -3, 0.1, 2.5, 1e-7, 123456789.125}

func genInt(wide bool) func(r *rng) int {
	return func(r *rng) int {
		if !wide {
			return r.intn(6)
		}
		switch r.intn(8) {
		case 0:
			return math.MaxInt64 - r.intn(2)
		case 1:
			return math.MinInt64 + r.intn(2)
		case 2:
			return -r.intn(40)
		default:
			return r.intn(40) - 5
		}
	}
}
func genString(wide bool) func(r *rng) string {
	return func(r *rng) string {
		if !wide {
			return smallStrings[r.intn(5)]
		}
		return smallStrings[r.intn(len(smallStrings))]
	}
}
func genFloat(r *rng) float64 {
	f := floatVals[r.intn(len(floatVals))]
	if f == 0 && r.chance(1, 4) {
		return math.Copysign(0, -1)
	}
	return f
}
func genFloatKey(r *rng) float64 { return floatVals[r.intn(len(floatVals))] }
func genIntSlice(r *rng) []int {
	switch r.intn(8) {
	case 0:
		return nil
	case 1:
		return []int{}
	}
	n := 1 + r.intn(3)
	out := make([]int, n)
	for i := range out {
		out[i] = r.intn(3)
	}
	return out
}
func genRune(r *rng) rune {
	return []rune{0, 'a', 'b', 'z', '\n', 0x10FFFF, -1, 0xD800, 'é', '7'}[r.intn(10)]
}
func genAnyKey(r *rng) any {
	switch r.intn(7) {
	case 0:
		return int64(r.intn(4))
	case 1:
		return smallStrings[r.intn(5)]
	case 2:
		return floatVals[r.intn(5)]
	case 3:
		return r.chance(1, 2)
	case 4:
		return rune('a' + r.intn(3))
	case 5:
		return uint64(r.intn(3))
	default:
		return int64(r.intn(4))
	}
}
func genAny(depth int) func(r *rng) any {
	return func(r *rng) any {
		n := 12
		if depth <= 0 {
			n = 9
		}
		switch r.intn(n) {
		case 0:
			return nil
		case 1, 2:
			return int64(r.intn(5) - 1)
		case 3:
			return smallStrings[r.intn(6)]
		case 4:
			return genFloat(r)
		case 5:
			return r.chance(1, 2)
		case 6:
			return rune('a' + r.intn(3))
		case 7:
			return uint64(r.intn(3))
		case 8:
			return complex(float64(r.intn(3)), float64(r.intn(3)-1))
		case 9:
			not := sharedNotation
			vs := make([]any, r.intn(3))
			for i := range vs {
				vs[i] = genAny(depth - 1)(r)
			}
			return col.List[any](not).MakeFromArray(vs)
		case 10:
			not := sharedNotation
			vs := make([]any, r.intn(3))
			for i := range vs {
				vs[i] = int64(r.intn(4))
			}
			return col.Set[any](not).MakeFromArray(vs)
		default:
			return []int{r.intn(3), r.intn(3)}[:r.intn(3)]
		}
	}
}
func genSetInt(r *rng) col.SetLike[int] {
	if r.chance(1, 10) {
		return nil
	}
	n := r.intn(4)
	vs := make([]int, n)
	for i := range vs {
		vs[i] = r.intn(4)
	}
	return col.Set[int](sharedNotation).MakeFromArray(vs)
}

var pkPool []*PK

func genPK(r *rng) *PK {
	if len(pkPool) < 6 || r.chance(1, 10) {
		p := newPK(r.intn(2))
		pkPool = append(pkPool, p)
		return p
	}
	if r.chance(1, 12) {
		return nil
	}
	return pkPool[len(pkPool)-1-r.intn(6)]
}
func genPKKey(r *rng) *PK {
	for {
		p := genPK(r)
		if p != nil {
			return p
		}
	}
}

// ---------- one history ----------

type histResult struct {
	modes   map[string]int
	zeroEnc string
	steps   []string
	trace   []string
	typ     string
	hung    bool
	ops     map[string]int
	outs    map[string]int
}

func genIntSlice2(r *rng) [][]int {
	switch r.intn(10) {
	case 0:
		return nil
	case 1:
		return [][]int{}
	case 2:
		return [][]int{nil}
	case 3:
		return [][]int{{}}
	}
	n := 1 + r.intn(2)
	out := make([][]int, n)
	for i := range out {
		out[i] = genIntSlice(r)
	}
	return out
}

// values on which a collator with maximum depth 1 never panics / always has two levels to traverse
func shallowIntSlice2(r *rng) [][]int {
	return [][][]int{nil, {}, {nil}, {nil, nil}, {}}[r.intn(5)]
}
func deepIntSlice2(r *rng) [][]int {
	out := [][]int{{r.intn(4)}}
	if r.chance(1, 3) {
		out = append(out, []int{r.intn(3), r.intn(3)})
	}
	return out
}
func shallowAny(r *rng) any {
	switch r.intn(4) {
	case 0:
		return int64(r.intn(4))
	case 1:
		return smallStrings[r.intn(4)]
	case 2:
		return col.List[any](sharedNotation).Make()
	default:
		return nil
	}
}
func deepAny(r *rng) any {
	inner := col.List[any](sharedNotation).MakeFromArray([]any{int64(r.intn(4))})
	vs := []any{inner}
	if r.chance(1, 3) {
		vs = append(vs, int64(r.intn(3)))
	}
	return col.List[any](sharedNotation).MakeFromArray(vs)
}

func makeDoer(typ string, r *rng, hashableOnly bool) opDoer {
	d := makeDoer0(typ, r, hashableOnly)
	switch x := d.(type) {
	case *assocRunner[int]:
		x.outer, x.assocMacro = x, x.macro
	case *assocRunner[string]:
		x.outer, x.assocMacro = x, x.macro
	case *assocRunner[float64]:
		x.outer, x.assocMacro = x, x.macro
	case *assocRunner[rune]:
		x.outer, x.assocMacro = x, x.macro
	case *assocRunner[any]:
		x.outer, x.assocMacro = x, x.macro
		if !hashableOnly {
			x.genShallow, x.genDeep = shallowAny, deepAny
		}
		x.tiedVal = genTied
		if r.chance(1, 2) {
			// values:tied — four values in five (and the keys) come from the small domain of rank-equal distinct values
			x.tied = true
			gv, gk := x.genv, x.genk
			x.genv = func(r *rng) any {
				if r.chance(4, 5) {
					return genTied(r)
				}
				return gv(r)
			}
			x.genk = func(r *rng) any {
				if r.chance(4, 5) {
					return genTied(r)
				}
				return gk(r)
			}
		}
	case *assocRunner[*PK]:
		x.outer, x.assocMacro = x, x.macro
		x.tiedVal = genPKKey // distinct pointers to equal structs rank Equal and are different map keys
	case *plainRunner[[]int]:
		x.outer = x
	case *plainRunner[[][]int]:
		x.outer = x
		x.genShallow, x.genDeep = shallowIntSlice2, deepIntSlice2
	case *plainRunner[col.SetLike[int]]:
		x.outer = x
	default:
		panic("makeDoer: unknown runner")
	}
	return d
}

func makeDoer0(typ string, r *rng, hashableOnly bool) opDoer {
	wide := r.chance(1, 2)
	switch typ {
	case "int":
		s := newSeqRunner[int](r, genInt(wide), true)
		return &assocRunner[int]{seqRunner: s, genk: genInt(wide)}
	case "string":
		s := newSeqRunner[string](r, genString(wide), false)
		return &assocRunner[string]{seqRunner: s, genk: genString(wide)}
	case "float64":
		s := newSeqRunner[float64](r, genFloat, false)
		return &assocRunner[float64]{seqRunner: s, genk: genFloatKey}
	case "rune":
		s := newSeqRunner[rune](r, genRune, false)
		return &assocRunner[rune]{seqRunner: s, genk: genRune}
	case "any":
		gv := genAny(1)
		if hashableOnly {
			// every value may end up in a key sequence: keep them valid Go map keys
			gv = func(r *rng) any {
				if r.chance(1, 8) {
					return nil
				}
				return genAnyKey(r)
			}
		}
		s := newSeqRunner[any](r, gv, false)
		return &assocRunner[any]{seqRunner: s, genk: genAnyKey}
	case "*PK":
		s := newSeqRunner[*PK](r, genPK, false)
		return &assocRunner[*PK]{seqRunner: s, genk: genPKKey}
	case "[]int":
		s := newSeqRunner[[]int](r, genIntSlice, false)
		return &plainRunner[[]int]{s}
	case "[][]int":
		s := newSeqRunner[[][]int](r, genIntSlice2, false)
		return &plainRunner[[][]int]{s}
	case "setint":
		s := newSeqRunner[col.SetLike[int]](r, genSetInt, false)
		return &plainRunner[col.SetLike[int]]{s}
	}
	panic("unknown element type " + typ)
}

func pickWeighted(r *rng, ops []weighted) string {
	total := 0
	for _, o := range ops {
		total += o.w
	}
	x := r.intn(total)
	for _, o := range ops {
		if x < o.w {
			return o.name
		}
		x -= o.w
	}
	return ops[0].name
}

func runHistory(prop string, p profile, typ string, r *rng) histResult {
	d := makeDoer(typ, r, prop == "C03" || prop == "C14" || prop == "C16")
	d.configure(prop)
	b := d.base()
	n := p.minLen + r.intn(p.maxLen-p.minLen+1)
	if r.chance(1, 3) {
		n = p.minLen + r.intn(8)
	}
	for _, name := range p.setup {
		if *b.hung {
			break
		}
		d.doOp(name)
	}
	for len(*b.steps) < n && !*b.hung {
		if d.tryMacro() {
			continue
		}
		ok := false
		for try := 0; try < 30 && !ok; try++ {
			ok = d.doOp(pickWeighted(r, p.ops))
		}
		if !ok {
			break
		}
	}
	d.finish()
	return histResult{modes: d.modesUsed(), zeroEnc: b.zeroEnc, steps: *b.steps, trace: *b.trace, typ: typ, hung: *b.hung, ops: b.opHist, outs: b.outHist}
}

// ---------- writing the case files ----------

const poolHeader = "From Verif Require Import Base Value Seq Coll Pool PoolRun.\nOpen Scope Z_scope.\n"

func writePoolShard(path string, hs []histResult) error {
	var sb strings.Builder
	sb.WriteString(poolHeader)
	sb.WriteString("Definition cases : list hist := [\n")
	for i, h := range hs {
		if i > 0 {
			sb.WriteString(";\n")
		}
		sb.WriteString("{| h_zero := " + h.zeroEnc + "; h_steps := [\n  ")
		sb.WriteString(strings.Join(h.steps, ";\n  "))
		sb.WriteString("] |}")
	}
	sb.WriteString("].\nDefinition M := Eval vm_compute in mismatches cases.\nPrint M.\n")
	return os.WriteFile(path, []byte(sb.String()), 0o644)
}

type genMeta struct {
	Property    string           `json:"property"`
	Seed        uint64           `json:"seed"`
	Tier        string           `json:"tier"`
	Cases       int              `json:"cases"`
	Steps       int              `json:"steps"`
	Distinct    int              `json:"distinct_nontrivial"`
	Rule        string           `json:"rule"`
	Shards      []string         `json:"shards"`
	ShardSizes  []int            `json:"shard_sizes"`
	OpHist      map[string]int   `json:"op_histogram"`
	OutHist     map[string]int   `json:"outcome_histogram"`
	TypeHist    map[string]int   `json:"type_histogram"`
	LenHist     map[string]int   `json:"length_histogram"`
	Samples     [][]string       `json:"samples"`
	Traces      [][]string       `json:"traces"`
	Extra       map[string]any   `json:"extra,omitempty"`
	Hangs       int              `json:"hangs"`
	FindingHits map[string][]int `json:"finding_hits,omitempty"`
	Explain     string           `json:"explain_template,omitempty"`
}

func mergeHist(dst, src map[string]int) {
	for k, v := range src {
		dst[k] += v
	}
}

func genPool(prop string, seed uint64, tier string, outDir string, count int) error {
	p, ok := profiles[prop]
	if !ok {
		return fmt.Errorf("no pool profile for %s", prop)
	}
	if bias, ok := kindBias[prop]; ok {
		seqKinds = bias
	} else {
		seqKinds = []okind{kArr, kLst, kSet, kStk, kQue}
	}
	r := newRng(seed ^ hashString(prop))
	installReader(r)
	meta := genMeta{Property: prop, Seed: seed, Tier: tier, OpHist: map[string]int{}, OutHist: map[string]int{}, TypeHist: map[string]int{}, LenHist: map[string]int{}}
	var all []histResult
	seen := map[string]bool{}
	modeCases := map[string]int{}
	modeSteps := map[string]int{}
	var caseModes [][]string
	for i := 0; i < count; i++ {
		typ := p.types[i%len(p.types)]
		h := runHistory(prop, p, typ, r.fork())
		all = append(all, h)
		meta.Steps += len(h.steps)
		meta.TypeHist[typ]++
		var ms []string
		for _, k := range sortedKeys(h.modes) {
			ms = append(ms, k)
			modeCases[k]++
			modeSteps[k] += h.modes[k]
		}
		caseModes = append(caseModes, ms)
		mergeHist(meta.OpHist, h.ops)
		mergeHist(meta.OutHist, h.outs)
		meta.LenHist[fmt.Sprintf("%02d-%02d", len(h.steps)/10*10, len(h.steps)/10*10+9)]++
		if h.hung {
			meta.Hangs++
		}
		key := strings.Join(h.trace, "|")
		if len(h.steps) >= 3 && !seen[key] {
			seen[key] = true
			meta.Distinct++
		}
		meta.Traces = append(meta.Traces, h.trace)
	}
	meta.Cases = len(all)
	meta.Extra = map[string]any{
		"mode_cases":      modeCases,
		"macro_instances": modeSteps,
		"case_modes":      caseModes,
		"modes":           "values:tied = the case's `any` values and keys come mostly from a small domain in which distinct Go values rank Equal (the same number as int / int8 / int16 / int64, as uint / uint16 / uint32 / uint64, as float32 / float64); tiedvalues = macro: Sets built by MakeFromArray / MakeFromSequence from such inputs beside the same values added one by one, searches for tied values, Catalogs with tied keys then SortValues / SortValuesWithRanker / ReverseValues. obs:* = observation policy of the case (full: every object after every step through AsArray; fullmix: every object, view drawn per object and step among AsArray / iterator walk / index-or-key walk; sampled: each collection or iterator with probability 1/3 per step; delayed: none for 2..7 steps, then all; created objects and caller-owned Go arrays / maps are always observed; a final step observes everything). macro:* = number of cases that ran the macro at least once (macro_instances: how often): requery (the identical call again after 0..2 mutations of its receiver), aliasprobe (appends at the end of a product and of its operand after any call that returns a new object), ascbuild (collections built in ascending order, sizes that are not growth points), nilcall (a class function with a nil operand, then the same function again), limcall (class functions over a Set whose collator has a small maximum depth and nested values), bulkkeys (key sequences of length = size, size±1 with duplicates and absent keys in every position), assocwrite (SetValue on an association object handed out by AsArray, then the collection is read again), sortslice (sorter instances kept for the history sorting the caller's arrays of length 15..129)",
	}
	meta.Rule = "histories are generated op by op from the seeded PRNG against the live pool (boundary-biased sizes, indices, slots; receiver-aliased operands); a history counts as distinct and non-trivial when it has at least 3 ops and its op/result trace differs from every other history of the run"
	for i := 0; i < 3 && i < len(all); i++ {
		meta.Samples = append(meta.Samples, all[i*len(all)/3].trace)
	}
	shardSize := 60
	for s := 0; s*shardSize < len(all); s++ {
		lo, hi := s*shardSize, (s+1)*shardSize
		if hi > len(all) {
			hi = len(all)
		}
		name := fmt.Sprintf("cases_%03d.v", s)
		if err := writePoolShard(filepath.Join(outDir, name), all[lo:hi]); err != nil {
			return err
		}
		meta.Shards = append(meta.Shards, name)
		meta.ShardSizes = append(meta.ShardSizes, hi-lo)
	}
	return writeMeta(outDir, &meta)
}

func writeMeta(outDir string, meta *genMeta) error {
	b, err := json.MarshalIndent(meta, "", " ")
	if err != nil {
		return err
	}
	return os.WriteFile(filepath.Join(outDir, "cases.json"), b, 0o644)
}

func hashString(s string) uint64 {
	var h uint64 = 1469598103934665603
	for i := 0; i < len(s); i++ {
		h ^= uint64(s[i])
		h *= 1099511628211
	}
	return h
}

func sortedKeys(m map[string]int) []string {
	ks := make([]string, 0, len(m))
	for k := range m {
		ks = append(ks, k)
	}
	sort.Strings(ks)
	return ks
}
