package main

// C20 — the universal (module-level) constructors of v4/Module.go.
//
// One case = one call of a module-level constructor.  For every cell of the matrix
// {Array, List, Set, Stack, Queue, Catalog, Map, Association} x argument form x element/key
// type x size x notation position the harness
//   * calls the module-level constructor (panic -> Panic, watchdog -> Hang),
//   * calls the corresponding class-level constructor on the same data,
//   * calls ParseSource directly on the text of a source form,
// and writes the argument list (encoded by observing the argument objects), the three
// observed results and the element types as a Gallina term.  Coq evaluates the facade model
// on the argument list (code 1 = model and module-level result differ) and, independently of
// the model, compares the observed module-level result with the observed class-level result
// (code 2) and with the contents of the parsed collection (code 3).  The same two predicates
// are also evaluated here in Go and written into the trace and the meta data.

import (
	"fmt"
	"os"
	"path/filepath"
	"reflect"
	"sort"
	"strconv"
	"strings"
	"time"

	mod "github.com/craterdog/go-collection-framework/v4"
	age "github.com/craterdog/go-collection-framework/v4/agent"
	cdc "github.com/craterdog/go-collection-framework/v4/cdcn"
	col "github.com/craterdog/go-collection-framework/v4/collection"
)

func init() { generators["C20"] = genFacade }

var facadeTimeout = 1200 * time.Millisecond

// facadeWatch runs f in its own goroutine: a panic is ocPanic, no answer within the timeout is ocHang
// (the goroutine is abandoned; it is parked on a channel and costs nothing).
func facadeWatch(f func()) (outcome, string) {
	type res struct {
		oc  outcome
		msg string
	}
	done := make(chan res, 1)
	go func() {
		oc, msg := guard(f)
		done <- res{oc, msg}
	}()
	select {
	case r := <-done:
		return r.oc, r.msg
	case <-time.After(facadeTimeout):
		return ocHang, "no answer within the watchdog period"
	}
}

// ---------- typed generators ----------

type facadeGen[T any] struct {
	name   string // Go type name
	ety    string // constructor of Facade.ety
	gen    func(r *rng) T
	genKey func(r *rng) T // never nil
	lit    func(v T) string
}

func facadeLit(v any) string {
	switch a := v.(type) {
	case nil:
		return "nil"
	case int64:
		return fmt.Sprintf("%d", a)
	case uint64:
		return fmt.Sprintf("0x%x", a)
	case float64:
		s := strconv.FormatFloat(a, 'f', -1, 64)
		if !strings.Contains(s, ".") {
			s += ".0"
		}
		return s
	case string:
		return `"` + a + `"`
	case int32:
		return "'" + string(rune(a)) + "'"
	case bool:
		if a {
			return "true"
		}
		return "false"
	}
	panic(fmt.Sprintf("litAny: %T", v))
}

var facadeWords = []string{"", "a", "b", "ab", "abc", "k1", "k2", "zeta", "alpha", "beta", "gamma", "x y", "Q", "abd", "ba", "c", "d", "e", "f", "g", "h", "i0", "j", "kk", "l", "m"}

func facadeInt64(r *rng) int64 {
	switch r.intn(12) {
	case 0:
		return 9223372036854775807 - int64(r.intn(2))
	case 1:
		return -9223372036854775807 + int64(r.intn(2))
	default:
		return int64(r.intn(46)) - 6
	}
}
func facadeUint64(r *rng) uint64 {
	if r.intn(12) == 0 {
		return 18446744073709551615 - uint64(r.intn(2))
	}
	return uint64(r.intn(40))
}
func facadeFloat64(r *rng) float64 { return float64(r.intn(90)-20) / 4 }
func facadeString(r *rng) string   { return facadeWords[r.intn(len(facadeWords))] }
func facadeRune(r *rng) int32      { return int32('a' + r.intn(26)) }
func facadeBool(r *rng) bool       { return r.intn(2) == 0 }
func facadeAnyKey(r *rng) any {
	switch r.intn(6) {
	case 0:
		return facadeInt64(r)
	case 1:
		return facadeUint64(r)
	case 2:
		return facadeFloat64(r)
	case 3:
		return facadeString(r)
	case 4:
		return facadeRune(r)
	default:
		return facadeBool(r)
	}
}
func facadeAny(r *rng) any {
	if r.intn(24) == 0 {
		return nil
	}
	return facadeAnyKey(r)
}

var (
	facadeGInt64   = facadeGen[int64]{"int64", "TInt64", facadeInt64, facadeInt64, func(v int64) string { return facadeLit(v) }}
	facadeGUint64  = facadeGen[uint64]{"uint64", "TUint64", facadeUint64, facadeUint64, func(v uint64) string { return facadeLit(v) }}
	facadeGFloat64 = facadeGen[float64]{"float64", "TFloat64", facadeFloat64, facadeFloat64, func(v float64) string { return facadeLit(v) }}
	facadeGString  = facadeGen[string]{"string", "TString", facadeString, facadeString, func(v string) string { return facadeLit(v) }}
	facadeGRune    = facadeGen[int32]{"rune", "TRune", facadeRune, facadeRune, func(v int32) string { return facadeLit(v) }}
	facadeGBool    = facadeGen[bool]{"bool", "TBool", facadeBool, facadeBool, func(v bool) string { return facadeLit(v) }}
	facadeGAny     = facadeGen[any]{"any", "TAny", facadeAny, facadeAnyKey, facadeLit}
)

// ---------- everything the generator needs about one element type, behind `any` ----------

type facadeSeqOps struct {
	name, ety string
	gen       func(r *rng) any
	slice     func(vs []any) any                // []V
	seq       func(kind string, vs []any) any   // a Sequential[V] built by a class-level constructor
	collator  func(id int) any                  // CollatorLike[V]
	collID    func(set any, passed any) int     // id of the passed collator when the set owns exactly that object, else 0
	module    func(kind string, args []any) any // the module-level constructor
	class     func(kind, form string, n col.NotationLike, data any, size uint, coll any, vals []any) any
	wrongData []any // data arguments of a neighbouring type (never accepted)
}

func facadeToSlice[V any](vs []any) []V {
	s := make([]V, len(vs))
	for i, v := range vs {
		if v != nil {
			s[i] = v.(V)
		}
	}
	return s
}

func facadeMakeSeqOps[V any](g facadeGen[V]) *facadeSeqOps {
	o := &facadeSeqOps{name: g.name, ety: g.ety}
	o.gen = func(r *rng) any { return g.gen(r) }
	o.slice = func(vs []any) any { return facadeToSlice[V](vs) }
	o.seq = func(kind string, vs []any) any {
		s := facadeToSlice[V](vs)
		n := cdc.Notation().Make()
		switch kind {
		case "Array":
			return col.Array[V](n).MakeFromArray(s)
		case "List":
			return col.List[V](n).MakeFromArray(s)
		case "Set":
			return col.Set[V](n).MakeFromArray(s)
		case "Stack":
			return col.Stack[V](n).MakeFromArray(s)
		case "Queue":
			return col.Queue[V](n).MakeFromArray(s)
		}
		panic("seq kind " + kind)
	}
	o.collator = func(id int) any {
		var c age.CollatorLike[V] = &customCollator[V]{id: id, base: age.Collator[V]().Make()}
		return c
	}
	o.collID = func(set any, passed any) int {
		s, ok := set.(col.SetLike[V])
		if !ok || passed == nil {
			return 0
		}
		if c, ok := s.GetCollator().(*customCollator[V]); ok && any(c) == passed {
			return c.id
		}
		return 0
	}
	o.module = func(kind string, args []any) any {
		switch kind {
		case "Array":
			return mod.Array[V](args...)
		case "List":
			return mod.List[V](args...)
		case "Set":
			return mod.Set[V](args...)
		case "Stack":
			return mod.Stack[V](args...)
		case "Queue":
			return mod.Queue[V](args...)
		}
		panic("module kind " + kind)
	}
	o.class = func(kind, form string, n col.NotationLike, data any, size uint, coll any, vals []any) any {
		switch kind {
		case "Array":
			c := col.Array[V](n)
			switch form {
			case "size":
				return c.Make(size)
			case "slice":
				return c.MakeFromArray(data.([]V))
			case "seq":
				return c.MakeFromSequence(data.(col.Sequential[V]))
			}
		case "List":
			c := col.List[V](n)
			switch form {
			case "none":
				return c.Make()
			case "slice":
				return c.MakeFromArray(data.([]V))
			case "seq":
				return c.MakeFromSequence(data.(col.Sequential[V]))
			}
		case "Set":
			c := col.Set[V](n)
			switch form {
			case "none":
				return c.Make()
			case "slice":
				return c.MakeFromArray(data.([]V))
			case "seq":
				return c.MakeFromSequence(data.(col.Sequential[V]))
			case "coll":
				return c.MakeWithCollator(coll.(age.CollatorLike[V]))
			case "coll+data":
				s := c.MakeWithCollator(coll.(age.CollatorLike[V]))
				for _, v := range facadeToSlice[V](vals) {
					s.AddValue(v)
				}
				return s
			}
		case "Stack":
			c := col.Stack[V](n)
			switch form {
			case "none":
				return c.Make()
			case "size":
				return c.MakeWithCapacity(size)
			case "slice":
				return c.MakeFromArray(data.([]V))
			case "seq":
				return c.MakeFromSequence(data.(col.Sequential[V]))
			}
		case "Queue":
			c := col.Queue[V](n)
			switch form {
			case "none":
				return c.Make()
			case "size":
				return c.MakeWithCapacity(size)
			case "slice":
				return c.MakeFromArray(data.([]V))
			case "seq":
				return c.MakeFromSequence(data.(col.Sequential[V]))
			}
		}
		return nil // no class-level counterpart
	}
	return o
}

type facadePairOps struct {
	kname, vname, kety, vety string
	genK, genV               func(r *rng) any
	gomap                    func(ks, vs []any) any
	aslice                   func(ks, vs []any) any
	aseq                     func(kind string, ks, vs []any) any
	module                   func(kind string, args []any) any
	class                    func(kind, form string, n col.NotationLike, data any, k, v any) any
}

func facadeMakePairOps[K comparable, V any](gk facadeGen[K], gv facadeGen[V]) *facadePairOps {
	o := &facadePairOps{kname: gk.name, vname: gv.name, kety: gk.ety, vety: gv.ety}
	o.genK = func(r *rng) any { return gk.genKey(r) }
	o.genV = func(r *rng) any { return gv.gen(r) }
	mkAssocs := func(ks, vs []any) []col.AssociationLike[K, V] {
		kk, vv := facadeToSlice[K](ks), facadeToSlice[V](vs)
		c := col.Association[K, V](cdc.Notation().Make())
		out := make([]col.AssociationLike[K, V], len(kk))
		for i := range kk {
			out[i] = c.Make(kk[i], vv[i])
		}
		return out
	}
	o.gomap = func(ks, vs []any) any {
		kk, vv := facadeToSlice[K](ks), facadeToSlice[V](vs)
		m := map[K]V{}
		for i := range kk {
			m[kk[i]] = vv[i]
		}
		return m
	}
	o.aslice = func(ks, vs []any) any { return mkAssocs(ks, vs) }
	o.aseq = func(kind string, ks, vs []any) any {
		as := mkAssocs(ks, vs)
		n := cdc.Notation().Make()
		switch kind {
		case "Array":
			return col.Array[col.AssociationLike[K, V]](n).MakeFromArray(as)
		case "List":
			return col.List[col.AssociationLike[K, V]](n).MakeFromArray(as)
		case "Catalog":
			return col.Catalog[K, V](n).MakeFromArray(as)
		case "Map":
			return col.Map[K, V](n).MakeFromArray(as)
		}
		panic("aseq kind " + kind)
	}
	o.module = func(kind string, args []any) any {
		switch kind {
		case "Catalog":
			return mod.Catalog[K, V](args...)
		case "Map":
			return mod.Map[K, V](args...)
		case "Association":
			return mod.Association[K, V](args...)
		}
		panic("module kind " + kind)
	}
	o.class = func(kind, form string, n col.NotationLike, data any, k, v any) any {
		switch kind {
		case "Catalog":
			c := col.Catalog[K, V](n)
			switch form {
			case "none":
				return c.Make()
			case "gomap":
				return c.MakeFromMap(data.(map[K]V))
			case "aslice":
				return c.MakeFromArray(data.([]col.AssociationLike[K, V]))
			case "aseq":
				return c.MakeFromSequence(data.(col.Sequential[col.AssociationLike[K, V]]))
			}
		case "Map":
			c := col.Map[K, V](n)
			switch form {
			case "none":
				return c.Make()
			case "gomap":
				return c.MakeFromMap(data.(map[K]V))
			case "aslice":
				return c.MakeFromArray(data.([]col.AssociationLike[K, V]))
			case "aseq":
				return c.MakeFromSequence(data.(col.Sequential[col.AssociationLike[K, V]]))
			}
		case "Association":
			if form == "kv" {
				return col.Association[K, V](n).Make(facadeToSlice[K]([]any{k})[0], facadeToSlice[V]([]any{v})[0])
			}
		}
		return nil
	}
	return o
}

var facadeSeqTable []*facadeSeqOps
var facadePairTable []*facadePairOps

func facadeAddPairsFor[K comparable](gk facadeGen[K]) {
	facadePairTable = append(facadePairTable,
		facadeMakePairOps(gk, facadeGInt64), facadeMakePairOps(gk, facadeGUint64), facadeMakePairOps(gk, facadeGFloat64), facadeMakePairOps(gk, facadeGString),
		facadeMakePairOps(gk, facadeGRune), facadeMakePairOps(gk, facadeGBool), facadeMakePairOps(gk, facadeGAny))
}

func facadeTables() {
	if facadeSeqTable != nil {
		return
	}
	facadeSeqTable = []*facadeSeqOps{facadeMakeSeqOps(facadeGInt64), facadeMakeSeqOps(facadeGUint64), facadeMakeSeqOps(facadeGFloat64), facadeMakeSeqOps(facadeGString),
		facadeMakeSeqOps(facadeGRune), facadeMakeSeqOps(facadeGBool), facadeMakeSeqOps(facadeGAny)}
	facadeAddPairsFor(facadeGInt64)
	facadeAddPairsFor(facadeGUint64)
	facadeAddPairsFor(facadeGFloat64)
	facadeAddPairsFor(facadeGString)
	facadeAddPairsFor(facadeGRune)
	facadeAddPairsFor(facadeGBool)
	facadeAddPairsFor(facadeGAny)
}

// ---------- observation of results ----------

// facadeEncValSafe: a value outside the universe (e.g. a notation object stored as a key) is written as
// an opaque pointer that no model result ever equals
func facadeEncValSafe(v any) (s string) {
	defer func() {
		if e := recover(); e != nil {
			s = "(VPtr (-1) 0)"
		}
	}()
	return encVal(v)
}

func facadeAsArray(rv reflect.Value) reflect.Value { return rv.MethodByName("AsArray").Call(nil)[0] }

type facadeKV struct{ k, v string }

func facadePairsOf(rv reflect.Value, sorted bool) []facadeKV {
	var out []facadeKV
	if rv.Kind() == reflect.Map {
		it := rv.MapRange()
		for it.Next() {
			out = append(out, facadeKV{facadeEncValSafe(it.Key().Interface()), facadeEncValSafe(it.Value().Interface())})
		}
	} else {
		arr := facadeAsArray(rv)
		for i := 0; i < arr.Len(); i++ {
			a := arr.Index(i)
			out = append(out, facadeKV{facadeEncValSafe(a.MethodByName("GetKey").Call(nil)[0].Interface()), facadeEncValSafe(a.MethodByName("GetValue").Call(nil)[0].Interface())})
		}
	}
	if sorted {
		sort.Slice(out, func(i, j int) bool { return out[i].k < out[j].k })
	}
	return out
}

func facadeEncPairs(ps []facadeKV) string {
	items := make([]string, len(ps))
	for i, p := range ps {
		items[i] = "(" + p.k + ", " + p.v + ")"
	}
	return encList(items)
}

// observation of a returned collection: the Gallina term of type fres (Facade.v), its kind and its contents
type facadeObs struct {
	term      string
	kind      string
	contents  []string // element (or pair) encodings in order; maps sorted by key encoding
	keys      []string // key encodings in order (catalog / map)
	unordered bool
}

func facadeObserve(x any, collID int) facadeObs {
	rv := reflect.ValueOf(x)
	ts := rv.Type().String()
	elems := func(arr reflect.Value) []string {
		out := make([]string, arr.Len())
		for i := range out {
			out[i] = facadeEncValSafe(arr.Index(i).Interface())
		}
		return out
	}
	switch {
	case strings.HasPrefix(ts, "collection.array_"):
		c := elems(rv)
		return facadeObs{term: "(FObj (OArr " + encList(c) + "))", kind: "Array", contents: c}
	case strings.HasPrefix(ts, "*collection.list_"):
		c := elems(facadeAsArray(rv))
		return facadeObs{term: "(FObj (OLst " + encList(c) + "))", kind: "List", contents: c}
	case strings.HasPrefix(ts, "*collection.set_"):
		c := elems(facadeAsArray(rv))
		return facadeObs{term: fmt.Sprintf("(FObj (OSet %d%%nat %s))", collID, encList(c)), kind: "Set", contents: c}
	case strings.HasPrefix(ts, "*collection.stack_"):
		c := elems(facadeAsArray(rv))
		cap := rv.MethodByName("GetCapacity").Call(nil)[0].Uint()
		return facadeObs{term: fmt.Sprintf("(FObj (OStk %d%%nat %s))", cap, encList(c)), kind: "Stack", contents: c}
	case strings.HasPrefix(ts, "*collection.queue_"):
		c := elems(facadeAsArray(rv))
		cap := rv.MethodByName("GetCapacity").Call(nil)[0].Uint()
		return facadeObs{term: fmt.Sprintf("(FObj (OQue %d%%nat %s))", cap, encList(c)), kind: "Queue", contents: c}
	case strings.HasPrefix(ts, "*collection.catalog_"):
		ps := facadePairsOf(rv, false)
		o := facadeObs{term: "(FObj (OCat " + facadeEncPairs(ps) + "))", kind: "Catalog"}
		for _, p := range ps {
			o.contents = append(o.contents, "("+p.k+", "+p.v+")")
			o.keys = append(o.keys, p.k)
		}
		return o
	case strings.HasPrefix(ts, "collection.map_"):
		ps := facadePairsOf(rv, true)
		o := facadeObs{term: "(FObj (OMap " + facadeEncPairs(ps) + "))", kind: "Map", unordered: true}
		for _, p := range ps {
			o.contents = append(o.contents, "("+p.k+", "+p.v+")")
			o.keys = append(o.keys, p.k)
		}
		return o
	case strings.HasPrefix(ts, "*collection.association_"):
		k := facadeEncValSafe(rv.MethodByName("GetKey").Call(nil)[0].Interface())
		v := facadeEncValSafe(rv.MethodByName("GetValue").Call(nil)[0].Interface())
		return facadeObs{term: "(FAssoc " + k + " " + v + ")", kind: "Association", contents: []string{k, v}}
	}
	panic("observe: unsupported result type " + ts)
}

// a call's observed result
type facadeRes struct {
	oc  outcome
	msg string
	ob  facadeObs
	raw any
}

func (f facadeRes) term() string {
	switch f.oc {
	case ocRet:
		return "(Ret " + f.ob.term + ")"
	case ocPanic:
		return "Panic"
	}
	return "Hang"
}
func (f facadeRes) human() string {
	switch f.oc {
	case ocRet:
		return f.ob.term
	case ocPanic:
		m := f.msg
		if len(m) > 90 {
			m = m[:90] + "..."
		}
		return "panic: " + strings.TrimSpace(m)
	}
	return "hang (no answer within the watchdog period)"
}

// call runs a constructor under the watchdog and observes what it returned
func facadeCall(f func() any, collOf func(any) int) facadeRes {
	var x any
	oc, msg := facadeWatch(func() { x = f() })
	r := facadeRes{oc: oc, msg: msg}
	if oc == ocRet {
		if x == nil {
			return facadeRes{oc: ocPanic, msg: "nil result"}
		}
		id := 0
		if collOf != nil {
			id = collOf(x)
		}
		r.ob = facadeObserve(x, id)
	}
	return r
}

func facadeSortedCopy(xs []string) []string {
	out := append([]string(nil), xs...)
	sort.Strings(out)
	return out
}
func facadeDedupe(xs []string) []string {
	var out []string
	for i, x := range xs {
		if i == 0 || x != xs[i-1] {
			out = append(out, x)
		}
	}
	return out
}
func facadeSameStrings(a, b []string) bool {
	if len(a) != len(b) {
		return false
	}
	for i := range a {
		if a[i] != b[i] {
			return false
		}
	}
	return true
}

// ---------- one generated case ----------

type facadeCase struct {
	kind, tk, tv string // Facade.fkind / ety constructors
	call         string // human-readable call
	args         []string
	mod          facadeRes
	cls          *facadeRes
	parsed       *facadeRes // result of ParseSource on the source text (nil when there is no source form to compare)
	cmpSrc       bool
	cform        string // the class-level call as a Facade.cform term ("" = none)
	form         string
	size         int
	predClass    string // "", "ok", "VIOLATED: ..."
	predSource   string
	malformed    bool
}

func (c *facadeCase) gallina() string {
	cls := "None"
	if c.cls != nil {
		cls = "(Some " + c.cls.term() + ")"
	}
	b := "false"
	if c.cmpSrc {
		b = "true"
	}
	form := "None"
	if c.cform != "" && c.cls != nil {
		form = "(Some " + c.cform + ")"
	}
	return fmt.Sprintf("{| fc_kind := %s; fc_tk := %s; fc_tv := %s;\n   fc_args := %s;\n   fc_mod := %s;\n   fc_cls := %s;\n   fc_form := %s;\n   fc_src := %s |}",
		c.kind, c.tk, c.tv, encList(c.args), c.mod.term(), cls, form, b)
}

func (c *facadeCase) trace() []string {
	t := []string{c.call, "module-level result: " + c.mod.human()}
	if c.cls != nil {
		t = append(t, "class-level result:  "+c.cls.human()+"   [predicate module = class: "+c.predClass+"]")
	} else {
		t = append(t, "class-level result:  (no class-level counterpart for this call)")
	}
	if c.parsed != nil {
		t = append(t, "ParseSource result:  "+c.parsed.human()+"   [predicate module contents = parsed contents: "+c.predSource+"]")
	} else {
		t = append(t, "ParseSource result:  (no source argument)")
	}
	return t
}

// the sizes straddle the default capacities the library has TODAY (read from the classes, not written down here:
// no property fixes the number, so a changed defaultCapacity_ must move the boundary cases with it)
var facadeSizes = func() []int {
	s, q := int(col.Stack[int](cdc.Notation().Make()).DefaultCapacity()), int(col.Queue[int](cdc.Notation().Make()).DefaultCapacity())
	sizes := []int{0, 1, 2, s - 1, s, s + 1, s + 4, 3, 5, 8}
	if q != s {
		sizes = append(sizes, q-1, q, q+1, q+4)
	}
	for i, n := range sizes {
		if n < 0 {
			sizes[i] = 0
		}
	}
	return sizes
}()

func facadeGoLit(v any) string {
	switch a := v.(type) {
	case nil:
		return "nil"
	case string:
		return strconv.Quote(a)
	case int32:
		return "'" + string(rune(a)) + "'"
	}
	return fmt.Sprint(v)
}
func facadeGoLits(vs []any) string {
	items := make([]string, len(vs))
	for i, v := range vs {
		items[i] = facadeGoLit(v)
	}
	return strings.Join(items, ", ")
}

func facadeEncAnys(vs []any) []string {
	out := make([]string, len(vs))
	for i, v := range vs {
		out[i] = encVal(v)
	}
	return out
}

// the CDCN text of a sequence of items
func facadeSourceText(items []string, assoc bool, kind string, multiline bool) string {
	if len(items) == 0 {
		if assoc {
			return "[:](" + kind + ")"
		}
		return "[ ](" + kind + ")"
	}
	if multiline {
		return "[\n    " + strings.Join(items, "\n    ") + "\n](" + kind + ")"
	}
	return "[" + strings.Join(items, ", ") + "](" + kind + ")"
}

// the parsed collection of a source text, as the model's AString argument and for the predicate
func facadeParseSource(text string) (facadeRes, string) {
	var x any
	oc, msg := facadeWatch(func() { x = cdc.Notation().Make().ParseSource(text) })
	r := facadeRes{oc: oc, msg: msg}
	if oc != ocRet {
		return r, "PPanic"
	}
	if x == nil {
		return facadeRes{oc: ocPanic, msg: "nil"}, "PPanic"
	}
	r.ob = facadeObserve(x, 0)
	r.raw = x
	return r, "(PColl " + encVal(x) + ")"
}

// arranges the notation argument
func facadeWithNotation(pos int, n col.NotationLike, args []any, encs []string, lits []string) ([]any, []string, []string) {
	switch pos {
	case 1:
		return append([]any{n}, args...), append([]string{"ANotation"}, encs...), append([]string{"notation"}, lits...)
	case 2:
		return append(args, n), append(encs, "ANotation"), append(lits, "notation")
	}
	return args, encs, lits
}

type facadeSeqCell struct {
	kind, form, srcKind string
}

var facadeSeqCells = func() []facadeSeqCell {
	var cs []facadeSeqCell
	srcKinds := []string{"Array", "List", "Set", "Stack", "Queue"}
	for _, k := range []string{"Array", "List", "Set", "Stack", "Queue"} {
		cs = append(cs, facadeSeqCell{k, "none", ""}, facadeSeqCell{k, "slice", ""}, facadeSeqCell{k, "source", ""}, facadeSeqCell{k, "source", ""})
		for _, s := range srcKinds {
			cs = append(cs, facadeSeqCell{k, "seq", s})
		}
		if k == "Array" || k == "Stack" || k == "Queue" {
			cs = append(cs, facadeSeqCell{k, "sizeU", ""}, facadeSeqCell{k, "sizeI", ""})
		}
		if k == "Set" {
			cs = append(cs, facadeSeqCell{k, "coll", ""}, facadeSeqCell{k, "coll+slice", ""}, facadeSeqCell{k, "coll+seq", "List"}, facadeSeqCell{k, "coll+seq", "Set"}, facadeSeqCell{k, "coll+source", ""})
		}
	}
	return cs
}()

type facadePairCell struct {
	kind, form, srcKind string
}

var facadePairCells = func() []facadePairCell {
	var cs []facadePairCell
	for _, k := range []string{"Catalog", "Map"} {
		cs = append(cs, facadePairCell{k, "none", ""}, facadePairCell{k, "gomap", ""}, facadePairCell{k, "aslice", ""}, facadePairCell{k, "source", ""}, facadePairCell{k, "source", ""})
		for _, s := range []string{"Array", "List", "Catalog", "Map"} {
			cs = append(cs, facadePairCell{k, "aseq", s})
		}
	}
	return cs
}()

func facadeGenVals(o func(r *rng) any, n int, r *rng) []any {
	vs := make([]any, n)
	for i := range vs {
		vs[i] = o(r)
	}
	// repeat some values so that sets and catalogs meet duplicates
	if n >= 3 && r.chance(1, 2) {
		vs[r.intn(n)] = vs[r.intn(n)]
	}
	return vs
}

func facadeSizeArg(form string, n int) (any, string, string) {
	if form == "sizeI" {
		return n, fmt.Sprintf("(AInt %d)", n), fmt.Sprintf("int(%d)", n)
	}
	return uint(n), fmt.Sprintf("(AUint %d)", n), fmt.Sprintf("uint(%d)", n)
}

// class-vs-module predicate, evaluated on the implementation
func facadePredClass(m, c facadeRes, unorderedOK bool) string {
	if m.oc != c.oc {
		return fmt.Sprintf("VIOLATED: module-level call %s, class-level call %s", facadeOcName(m.oc), facadeOcName(c.oc))
	}
	if m.oc != ocRet {
		return "ok (both " + facadeOcName(m.oc) + ")"
	}
	if m.ob.term == c.ob.term {
		return "ok"
	}
	if unorderedOK && m.ob.kind == c.ob.kind && facadeSameStrings(facadeSortedCopy(m.ob.contents), facadeSortedCopy(c.ob.contents)) {
		return "ok (order unspecified: built from an unordered Go map)"
	}
	return "VIOLATED: results differ"
}

func facadePredSource(m, p facadeRes, asSet bool) string {
	if p.oc != ocRet {
		if m.oc == ocRet {
			return "VIOLATED: ParseSource fails but the constructor returns"
		}
		return "ok (ParseSource fails, so does the constructor)"
	}
	if m.oc != ocRet {
		return "VIOLATED: ParseSource returns a collection, the constructor " + facadeOcName(m.oc) + "s"
	}
	a, b := m.ob.contents, p.ob.contents
	if asSet || m.ob.unordered || p.ob.unordered {
		a, b = facadeSortedCopy(a), facadeSortedCopy(b)
	}
	if asSet { // a set built from the source of another kind of sequence keeps one of each value
		a, b = facadeDedupe(a), facadeDedupe(b)
	}
	if facadeSameStrings(a, b) {
		return "ok"
	}
	return "VIOLATED: contents or order differ"
}

func facadeOcName(o outcome) string {
	switch o {
	case ocRet:
		return "return"
	case ocPanic:
		return "panic"
	}
	return "hang"
}

func facadePick[T any](r *rng, xs []T) T { return xs[r.intn(len(xs))] }

// ---------- sequence kinds ----------

func facadeRunSeq(o *facadeSeqOps, cell facadeSeqCell, n int, npos int, r *rng, malformed int) *facadeCase {
	c := &facadeCase{kind: "F" + cell.kind, tk: o.ety, tv: o.ety, form: cell.form, size: n}
	vals := facadeGenVals(o.gen, n, r)
	notation := cdc.Notation().Make()
	var args []any
	var encs, lits []string
	var classForm string
	var classData any
	var collArg, collCls any
	var srcText string
	collID := 0
	var dataOrder []any
	boxed := func(arr reflect.Value) []any {
		out := make([]any, arr.Len())
		for i := range out {
			out[i] = arr.Index(i).Interface()
		}
		return out
	}
	addSlice := func(vs []any) {
		s := o.slice(vs)
		args = append(args, s)
		encs = append(encs, "(ASlice "+encList(facadeEncAnys(vs))+")")
		lits = append(lits, "[]"+o.name+"{"+facadeGoLits(vs)+"}")
		classData = s
	}
	addSeq := func(kind string, vs []any) {
		s := o.seq(kind, vs)
		arr := facadeAsArray(reflect.ValueOf(s))
		items := make([]string, arr.Len())
		for i := range items {
			items[i] = encVal(arr.Index(i).Interface())
		}
		dataOrder = boxed(arr)
		args = append(args, s)
		encs = append(encs, "(ASeq K"+kind+" "+encList(items)+")")
		lits = append(lits, kind+"["+o.name+"]{"+facadeGoLits(vs)+"}")
		classData = s
	}
	addSource := func(vs []any, kind string) {
		items := make([]string, len(vs))
		for i, v := range vs {
			items[i] = facadeLit(v)
		}
		srcText = facadeSourceText(items, false, kind, r.chance(1, 5))
		p, enc := facadeParseSource(srcText)
		c.parsed = &p
		if p.oc == ocRet && p.raw != nil {
			if m := reflect.ValueOf(p.raw).MethodByName("AsArray"); m.IsValid() {
				dataOrder = boxed(m.Call(nil)[0])
			}
		}
		args = append(args, srcText)
		encs = append(encs, "(AString "+encBytes(srcText)+" "+enc+")")
		lits = append(lits, strconv.Quote(srcText))
	}
	addColl := func() {
		collID = 1 + r.intn(2)
		collArg = o.collator(collID)
		collCls = o.collator(collID)
		args = append(args, collArg)
		encs = append(encs, fmt.Sprintf("(ACollator %d%%nat)", collID))
		lits = append(lits, fmt.Sprintf("collator#%d", collID))
	}
	switch cell.form {
	case "none":
		classForm = "none"
	case "sizeU", "sizeI":
		a, e, l := facadeSizeArg(cell.form, n)
		args, encs, lits = append(args, a), append(encs, e), append(lits, l)
		classForm = "size"
	case "slice":
		addSlice(vals)
		classForm = "slice"
	case "seq":
		addSeq(cell.srcKind, vals)
		classForm = "seq"
	case "source":
		k := cell.kind
		if malformed == 0 && r.chance(1, 8) {
			k = facadePick(r, []string{"Array", "List", "Set", "Stack", "Queue"}) // a sequence of another kind is still a Sequential[any]
		}
		addSource(vals, k)
		c.cmpSrc = true
	case "coll":
		addColl()
		classForm = "coll"
	case "coll+slice":
		if r.chance(1, 2) {
			addColl()
			addSlice(vals)
		} else {
			addSlice(vals)
			addColl()
		}
		classForm = "coll+data"
	case "coll+seq":
		addColl()
		addSeq(cell.srcKind, vals)
		classForm = "coll+data"
	case "coll+source":
		addColl()
		addSource(vals, "Set")
		classForm = "coll+data"
	}
	// malformed calls: a second data argument, an argument of an unknown type, a source whose items have another type
	switch malformed {
	case 1: // two data arguments (the priority of the final switch decides)
		extra := facadeGenVals(o.gen, facadePick(r, []int{0, 1, 2, 3}), r)
		branch := r.intn(4)
		// a capacity next to data, for the kinds that have one: the capacities sit around the number of values, so that
		// a constructor that fills the new queue/stack with the values WITHOUT sizing it blocks (Queue) or overflows (Stack)
		capData := (cell.kind == "Queue" || cell.kind == "Stack") && (cell.form == "slice" || cell.form == "seq" || cell.form == "source")
		if capData && r.chance(2, 3) {
			branch = 3
		}
		switch branch {
		case 0:
			addSlice(extra)
		case 1:
			addSeq(facadePick(r, []string{"Array", "List", "Stack"}), extra)
		case 2:
			addSource(extra, cell.kind)
		default:
			sizes := []int{0, 1, 4}
			if capData {
				sizes = []int{1, 2, n - 1, n, n + 1, 1}
				for i := range sizes {
					if sizes[i] < 1 {
						sizes[i] = 1
					}
				}
			}
			a, e, l := facadeSizeArg(facadePick(r, []string{"sizeU", "sizeI"}), facadePick(r, sizes))
			args, encs, lits = append(args, a), append(encs, e), append(lits, l)
		}
		if r.chance(1, 2) && len(args) >= 2 {
			k := len(args) - 1
			args[0], args[k] = args[k], args[0]
			encs[0], encs[k] = encs[k], encs[0]
			lits[0], lits[k] = lits[k], lits[0]
		}
		classForm, c.cmpSrc = "", false
	case 2: // an argument no case accepts
		var bad any
		var lit string
		switch r.intn(5) {
		case 0:
			bad, lit = []int8{1, 2}, "[]int8{1, 2}"
		case 1:
			bad, lit = col.List[int8](notation).MakeFromArray([]int8{1}), "List[int8]{1}"
		case 2:
			bad, lit = nil, "nil"
		case 3:
			bad, lit = 2.5, "float64(2.5)"
		default:
			bad, lit = struct{ X int }{3}, "struct{X int}{3}"
		}
		args, encs, lits = append(args, bad), append(encs, "AOther"), append(lits, lit)
		classForm, c.cmpSrc = "", false
	case 3: // a source whose text does not parse, or whose items are not of the element type
		args, encs, lits = nil, nil, nil
		var text string
		switch r.intn(4) {
		case 0:
			text = "[1, 2(List)"
		case 1:
			text = `["a": 1, "b": 2](Catalog)`
		case 2:
			text = "[(1.0+2.0i), nil](" + cell.kind + ")"
		default:
			text = "[1, \"x\", 'c', true, 0x1f, 2.5](" + cell.kind + ")"
		}
		p, enc := facadeParseSource(text)
		c.parsed = &p
		args = append(args, text)
		encs = append(encs, "(AString "+encBytes(text)+" "+enc+")")
		lits = append(lits, strconv.Quote(text))
		classForm, c.cmpSrc = "", false
		c.parsed = nil
	}
	if malformed != 0 {
		c.malformed = true
		c.form = fmt.Sprintf("malformed-%d", malformed)
	}
	args, encs, lits = facadeWithNotation(npos, notation, args, encs, lits)
	c.args = encs
	c.call = fmt.Sprintf("%s[%s](%s)", cell.kind, o.name, strings.Join(lits, ", "))
	c.mod = facadeCall(func() any { return o.module(cell.kind, args) }, func(x any) int { return o.collID(x, collArg) })
	if classForm != "" && !(cell.kind == "Array" && classForm == "none") {
		clsVals := vals
		if classForm == "coll+data" && dataOrder != nil {
			clsVals = dataOrder // "the same data": the items in the order in which the data argument yields them
		}
		res := facadeCall(func() any {
			return o.class(cell.kind, classForm, cdc.Notation().Make(), classData, uint(n), collCls, clsVals)
		}, func(x any) int { return o.collID(x, collCls) })
		c.cls = &res
		c.predClass = facadePredClass(c.mod, res, false)
		switch classForm {
		case "none":
			c.cform = "CMake"
		case "size":
			c.cform = fmt.Sprintf("(CSize %d%%nat)", n)
		case "slice":
			c.cform = "(CFromArray " + encList(facadeEncAnys(vals)) + ")"
		case "seq":
			c.cform = "(CFromSeq " + encList(facadeEncAnys(dataOrder)) + ")"
		case "coll":
			c.cform = fmt.Sprintf("(CWithCollator %d%%nat [])", collID)
		case "coll+data":
			c.cform = fmt.Sprintf("(CWithCollator %d%%nat %s)", collID, encList(facadeEncAnys(clsVals)))
		}
	}
	if c.cmpSrc && c.parsed != nil {
		c.predSource = facadePredSource(c.mod, *c.parsed, cell.kind == "Set")
	} else if c.parsed != nil {
		c.predSource = "not compared (the set is ordered by the given collator)"
		if c.malformed {
			c.predSource = "not compared (malformed call)"
		}
	}
	return c
}

// ---------- catalog / map / association ----------

func facadeRunPair(o *facadePairOps, cell facadePairCell, n int, npos int, r *rng, malformed int) *facadeCase {
	c := &facadeCase{kind: "F" + cell.kind, tk: o.kety, tv: o.vety, form: cell.form, size: n}
	ks, vs := facadeGenVals(o.genK, n, r), facadeGenVals(o.genV, n, r)
	notation := cdc.Notation().Make()
	var args []any
	var encs, lits []string
	var classForm string
	var classData any
	unordered := false
	dataPairs := "[]"
	pairLits := func(ks, vs []any) string {
		items := make([]string, len(ks))
		for i := range ks {
			items[i] = facadeGoLit(ks[i]) + ": " + facadeGoLit(vs[i])
		}
		return strings.Join(items, ", ")
	}
	encKV := func(ks, vs []any) string {
		items := make([]string, len(ks))
		for i := range ks {
			items[i] = "(" + encVal(ks[i]) + ", " + encVal(vs[i]) + ")"
		}
		return encList(items)
	}
	// the encodings of unordered arguments carry the key order the RESULT shows (an oracle
	// for Go's map iteration order, filled in after the call)
	oracleAt := -1
	addGoMap := func(ks, vs []any) {
		m := o.gomap(ks, vs)
		ps := facadePairsOf(reflect.ValueOf(m), true)
		args = append(args, m)
		dataPairs = facadeEncPairs(ps)
		encs = append(encs, "(AGoMap "+facadeEncPairs(ps)+" @ORACLE@)")
		oracleAt = len(encs) - 1
		lits = append(lits, "map["+o.kname+"]"+o.vname+"{"+pairLits(ks, vs)+"}")
		classData = m
		unordered = true
	}
	addASlice := func(ks, vs []any) {
		s := o.aslice(ks, vs)
		args = append(args, s)
		dataPairs = encKV(ks, vs)
		encs = append(encs, "(AAssocSlice "+encKV(ks, vs)+")")
		lits = append(lits, "[]Association["+o.kname+","+o.vname+"]{"+pairLits(ks, vs)+"}")
		classData = s
	}
	addASeq := func(kind string, ks, vs []any) {
		s := o.aseq(kind, ks, vs)
		rv := reflect.ValueOf(s)
		isMap := kind == "Map"
		ps := facadePairsOf(rv, isMap)
		dataPairs = facadeEncPairs(ps)
		args = append(args, s)
		if isMap {
			encs = append(encs, "(AAssocSeq "+facadeEncPairs(ps)+" @ORACLE@)")
			oracleAt = len(encs) - 1
			unordered = true
		} else {
			encs = append(encs, "(AAssocSeq "+facadeEncPairs(ps)+" [])")
		}
		lits = append(lits, kind+"["+o.kname+","+o.vname+"]{"+pairLits(ks, vs)+"}")
		classData = s
	}
	addSource := func(ks, vs []any, kind string) {
		items := make([]string, len(ks))
		for i := range ks {
			items[i] = facadeLit(ks[i]) + ": " + facadeLit(vs[i])
		}
		text := facadeSourceText(items, true, kind, r.chance(1, 5))
		p, enc := facadeParseSource(text)
		c.parsed = &p
		args = append(args, text)
		encs = append(encs, "(AString "+encBytes(text)+" "+enc+")")
		lits = append(lits, strconv.Quote(text))
	}
	switch cell.form {
	case "none":
		classForm = "none"
	case "gomap":
		addGoMap(ks, vs)
		classForm = "gomap"
	case "aslice":
		addASlice(ks, vs)
		classForm = "aslice"
	case "aseq":
		addASeq(cell.srcKind, ks, vs)
		classForm = "aseq"
	case "source":
		k := cell.kind
		if malformed == 0 && cell.kind == "Map" && r.chance(1, 6) {
			k = "Catalog" // a parsed catalog is a sequence of associations too (the other direction has no specified order)
		}
		addSource(ks, vs, k)
		c.cmpSrc = true
	}
	switch malformed {
	case 1:
		m := facadePick(r, []int{0, 1, 2, 3})
		eks, evs := facadeGenVals(o.genK, m, r), facadeGenVals(o.genV, m, r)
		switch r.intn(4) {
		case 0:
			addASlice(eks, evs)
		case 1:
			addASeq(facadePick(r, []string{"Array", "List", "Catalog"}), eks, evs)
		case 2:
			if oracleAt < 0 && cell.kind == "Map" { // (one oracle per call; a catalog's order would need the winner's)
				addGoMap(eks, evs)
			} else {
				addASlice(eks, evs)
			}
		default:
			addSource(eks, evs, cell.kind)
		}
		if r.chance(1, 2) && len(args) >= 2 {
			k := len(args) - 1
			args[0], args[k] = args[k], args[0]
			encs[0], encs[k] = encs[k], encs[0]
			lits[0], lits[k] = lits[k], lits[0]
			if oracleAt == 0 {
				oracleAt = k
			} else if oracleAt == k {
				oracleAt = 0
			}
		}
		classForm, c.cmpSrc = "", false
	case 2:
		var bad any
		var lit string
		switch r.intn(5) {
		case 0:
			bad, lit = map[int8]int8{1: 2}, "map[int8]int8{1: 2}"
		case 1:
			bad, lit = col.List[int8](notation).MakeFromArray([]int8{1}), "List[int8]{1}"
		case 2:
			bad, lit = nil, "nil"
		case 3:
			bad, lit = 7, "int(7)"
		default:
			bad, lit = uint(7), "uint(7)"
		}
		args, encs, lits = append(args, bad), append(encs, "AOther"), append(lits, lit)
		classForm, c.cmpSrc = "", false
	case 3:
		args, encs, lits = nil, nil, nil
		oracleAt = -1
		var text string
		switch r.intn(3) {
		case 0:
			text = "[1, 2](List)"
		case 1:
			text = `["a": 1, "b": (Catalog)`
		default:
			text = `["a": 1, 2: "b", 'c': true, 2.5: 0x1f, true: 'd', 0x2: 2.5](` + cell.kind + ")"
		}
		_, enc := facadeParseSource(text)
		args = append(args, text)
		encs = append(encs, "(AString "+encBytes(text)+" "+enc+")")
		lits = append(lits, strconv.Quote(text))
		classForm, c.cmpSrc = "", false
		c.parsed = nil
	}
	if malformed != 0 {
		c.malformed = true
		c.form = fmt.Sprintf("malformed-%d", malformed)
		if c.parsed != nil {
			c.parsed = nil
		}
	}
	args, encs, lits = facadeWithNotation(npos, notation, args, encs, lits)
	if npos == 1 && oracleAt >= 0 {
		oracleAt++
	}
	c.call = fmt.Sprintf("%s[%s,%s](%s)", cell.kind, o.kname, o.vname, strings.Join(lits, ", "))
	c.mod = facadeCall(func() any { return o.module(cell.kind, args) }, nil)
	if oracleAt >= 0 {
		oracle := "[]"
		if c.mod.oc == ocRet && cell.kind == "Catalog" {
			oracle = encList(c.mod.ob.keys)
		}
		encs[oracleAt] = strings.Replace(encs[oracleAt], "@ORACLE@", oracle, 1)
	}
	c.args = encs
	if classForm != "" {
		res := facadeCall(func() any { return o.class(cell.kind, classForm, cdc.Notation().Make(), classData, nil, nil) }, nil)
		c.cls = &res
		c.predClass = facadePredClass(c.mod, res, unordered)
		// unordered data: the class-level call iterates in an order of its own, taken from ITS result
		oracle := "[]"
		if res.oc == ocRet && cell.kind == "Catalog" {
			oracle = encList(res.ob.keys)
		}
		switch classForm {
		case "none":
			c.cform = "CMake"
		case "gomap":
			c.cform = "(CFromMap (ordered " + dataPairs + " " + oracle + "))"
		case "aslice":
			c.cform = "(CFromAssocArray " + dataPairs + ")"
		case "aseq":
			if unordered {
				c.cform = "(CFromAssocSeq (ordered " + dataPairs + " " + oracle + "))"
			} else {
				c.cform = "(CFromAssocSeq " + dataPairs + ")"
			}
		}
	}
	if c.cmpSrc && c.parsed != nil {
		c.predSource = facadePredSource(c.mod, *c.parsed, false)
	}
	return c
}

func facadeRunAssoc(o *facadePairOps, npos int, r *rng, malformed int) *facadeCase {
	c := &facadeCase{kind: "FAssociation", tk: o.kety, tv: o.vety, form: "kv", size: 2}
	k, v := o.genK(r), o.genV(r)
	for v == nil {
		v = o.genV(r)
	}
	notation := cdc.Notation().Make()
	args := []any{k, v}
	encs := []string{"(AVal " + encVal(k) + ")", "(AVal " + encVal(v) + ")"}
	lits := []string{o.kname + "(" + facadeGoLit(k) + ")", o.vname + "(" + facadeGoLit(v) + ")"}
	classForm := "kv"
	switch malformed {
	case 1: // one argument only / three arguments
		if r.chance(1, 2) {
			args, encs, lits = args[:1], encs[:1], lits[:1]
		} else {
			x := o.genK(r)
			args, encs, lits = append(args, x), append(encs, "(AVal "+encVal(x)+")"), append(lits, o.kname+"("+facadeGoLit(x)+")")
		}
		classForm = ""
	case 2: // an argument of another type (a Go int, a pointer, nil)
		var bad any
		var enc, lit string
		switch r.intn(3) {
		case 0:
			bad, enc, lit = 7, "(AInt 7)", "int(7)"
		case 1:
			p := newPK(3)
			bad, enc, lit = p, "(AVal "+encVal(p)+")", "&PK{3}"
		default:
			bad, enc, lit = nil, "AOther", "nil"
		}
		i := r.intn(2)
		args[i], encs[i], lits[i] = bad, enc, lit
		classForm = ""
	case 3: // value first, key second (decided by the types when they differ)
		args[0], args[1] = args[1], args[0]
		encs[0], encs[1] = encs[1], encs[0]
		lits[0], lits[1] = lits[1], lits[0]
		classForm = ""
	}
	if malformed != 0 {
		c.malformed = true
		c.form = fmt.Sprintf("malformed-%d", malformed)
	}
	switch npos {
	case 1, 2:
		args, encs, lits = facadeWithNotation(npos, notation, args, encs, lits)
	case 3: // between key and value
		if len(args) >= 2 {
			args = append([]any{args[0], notation}, args[1:]...)
			encs = append([]string{encs[0], "ANotation"}, encs[1:]...)
			lits = append([]string{lits[0], "notation"}, lits[1:]...)
		}
	}
	c.args = encs
	c.call = fmt.Sprintf("Association[%s,%s](%s)", o.kname, o.vname, strings.Join(lits, ", "))
	c.mod = facadeCall(func() any { return o.module("Association", args) }, nil)
	if classForm != "" {
		res := facadeCall(func() any { return o.class("Association", "kv", cdc.Notation().Make(), nil, k, v) }, nil)
		c.cls = &res
		c.predClass = facadePredClass(c.mod, res, false)
	}
	return c
}

// ---------- the generator ----------

func genFacade(prop string, seed uint64, tier, outDir string, count int) error {
	facadeTables()
	r := newRng(seed ^ hashString(prop))
	if count == 0 {
		count = 1500
		if tier == "thorough" {
			count = 12000
		}
	}
	meta := genMeta{Property: prop, Seed: seed, Tier: tier, OpHist: map[string]int{}, OutHist: map[string]int{}, TypeHist: map[string]int{}, LenHist: map[string]int{}, Extra: map[string]any{}}
	var cases []*facadeCase
	seen := map[string]bool{}
	var predViolations []string
	nviol := 0
	// strata: every (kind, form) cell in turn; types, sizes and notation positions rotate with
	// random phases so that every seed visits another part of the cross product
	ncells := len(facadeSeqCells) + len(facadePairCells) + 10
	phT, phS, phN := r.intn(7), r.intn(len(facadeSizes)), r.intn(3)
	phK := r.intn(49)
	for i := 0; i < count; i++ {
		cr := r.fork()
		cell := i % ncells
		round := i / ncells
		n := facadeSizes[(round+cell+phS)%len(facadeSizes)]
		if cr.chance(1, 6) {
			n = cr.intn(facadeSizes[6] + 1)
		}
		npos := (round/2 + cell + phN) % 3
		malformed := 0
		if cr.chance(1, 8) {
			malformed = []int{1, 1, 2, 3}[cr.intn(4)]
		}
		if cell < len(facadeSeqCells) && malformed == 0 && cr.chance(1, 4) {
			// Queue / Stack given data: a quarter of these calls also get a capacity (malformed kind 1, see facadeRunSeq)
			if sc := facadeSeqCells[cell]; (sc.kind == "Queue" || sc.kind == "Stack") && (sc.form == "slice" || sc.form == "seq" || sc.form == "source") {
				malformed = 1
			}
		}
		var c *facadeCase
		switch {
		case cell < len(facadeSeqCells):
			o := facadeSeqTable[(round+cell*3+phT)%7]
			c = facadeRunSeq(o, facadeSeqCells[cell], n, npos, cr, malformed)
		case cell < len(facadeSeqCells)+len(facadePairCells):
			o := facadePairTable[(round*5+cell*11+phK)%49]
			c = facadeRunPair(o, facadePairCells[cell-len(facadeSeqCells)], n, npos, cr, malformed)
		default:
			o := facadePairTable[(round*3+(cell-len(facadeSeqCells)-len(facadePairCells))*17+phK)%49]
			c = facadeRunAssoc(o, (round+cell)%4, cr, malformed)
		}
		cases = append(cases, c)
		meta.Steps += 1
		meta.OpHist[strings.TrimPrefix(c.kind, "F")+":"+c.form]++
		oc := facadeOcName(c.mod.oc)
		if c.malformed {
			oc += " (malformed call)"
		}
		meta.OutHist[oc]++
		if c.tk == c.tv {
			meta.TypeHist[c.tv]++
		} else {
			meta.TypeHist[c.tk+"/"+c.tv]++
		}
		meta.LenHist[fmt.Sprintf("size %02d", c.size)]++
		if c.mod.oc == ocHang {
			meta.Hangs++
			// whatever the arguments, a constructor call returns or panics: nobody else holds the new collection yet, so a call
			// that blocks (a queue filled beyond its own capacity) blocks for ever (C05: constructing a queue returns for every N)
			nviol++
			if len(predViolations) < 40 {
				predViolations = append(predViolations, fmt.Sprintf("case %d: %s => %s | VIOLATED: the module-level constructor did not return within the watchdog period (it blocks on the collection it is constructing)", i, c.call, c.mod.human()))
			}
		}
		for _, p := range []string{c.predClass, c.predSource} {
			if strings.HasPrefix(p, "VIOLATED") {
				nviol++
				if len(predViolations) < 40 {
					predViolations = append(predViolations, fmt.Sprintf("case %d: %s => %s | %s", i, c.call, c.mod.human(), p))
				}
			}
		}
		key := c.kind + c.tk + c.tv + strings.Join(c.args, ",")
		if !seen[key] && len(c.args) > 0 {
			seen[key] = true
			meta.Distinct++
		}
		meta.Traces = append(meta.Traces, c.trace())
	}
	meta.Cases = len(cases)
	meta.Rule = "one case = one call of a module-level constructor; the (kind, argument form) cells are visited round-robin, element/key types (7, and 49 key/value pairs), sizes (0,1,2,d-1,d,d+1,d+4,3,5,8 for the default capacity d read from DefaultCapacity() and 1/6 random 0..d+4) and notation position (none/first/last; for associations also between key and value) rotate with seed-dependent phases; 1/8 of the calls are malformed - for Queue and Stack given data a further quarter, most of them a CAPACITY NEXT TO THE DATA with the capacity around the number of values (1, 2, n-1, n, n+1): no class-level constructor takes both, the call must return (two data arguments, unknown argument types, ill-typed or unparsable sources, swapped/missing association arguments); a case is distinct and non-trivial when it has at least one argument and its (kind, types, encoded argument list) differs from every other case"
	meta.Extra["predicate_violations_count"] = nviol
	meta.Extra["predicate_violations"] = predViolations
	meta.Extra["predicates"] = "evaluated in Go on the implementation for every well-formed case: (a) module-level result = class-level result on the same data (kind, contents, order, capacity, collator identity; order ignored only where a Go map is the source of a catalog), (b) source form: contents and order = those of ParseSource on the same text (as sets for Set and Map)"
	for i := 0; i < 3 && i < len(cases); i++ {
		meta.Samples = append(meta.Samples, meta.Traces[i*len(cases)/3+1])
	}
	meta.Explain = "Definition the_case := nth {case} cases dummy_case.\nDefinition Report := Eval vm_compute in (case_report the_case).\nPrint Report.\n"
	shardSize := 150
	if len(cases) > 6000 {
		shardSize = 500 // the driver evaluates all shards at once: keep their number moderate
	}
	for s := 0; s*shardSize < len(cases); s++ {
		lo, hi := s*shardSize, (s+1)*shardSize
		if hi > len(cases) {
			hi = len(cases)
		}
		name := fmt.Sprintf("cases_%03d.v", s)
		var sb strings.Builder
		sb.WriteString("From Verif Require Import Base Value Pool Facade FacadeRun.\nOpen Scope Z_scope.\nDefinition cases : list fcase := [\n")
		for j, c := range cases[lo:hi] {
			if j > 0 {
				sb.WriteString(";\n")
			}
			sb.WriteString(c.gallina())
		}
		sb.WriteString("].\nDefinition M := Eval vm_compute in fmismatches cases.\nPrint M.\n")
		if err := os.WriteFile(filepath.Join(outDir, name), []byte(sb.String()), 0o644); err != nil {
			return err
		}
		meta.Shards = append(meta.Shards, name)
		meta.ShardSizes = append(meta.ShardSizes, hi-lo)
	}
	return writeMeta(outDir, &meta)
}
