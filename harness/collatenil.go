package main

// C07 / C08: the "nil family" of value pairs.
//
// A nil interface value stored INSIDE a container is a value like any other: a map that holds the
// key "a" with the value nil is a different map from one that does not hold "a" at all, a sequence
// [nil] is different from [0] and from [""].  The collator tells these apart only because reflect
// does: MapIndex of an absent key yields the invalid reflect.Value while a stored nil interface is a
// valid Value of kind Interface that IsNil.  A change that unwraps interfaces early (Elem() of a nil
// interface is the invalid Value), or that treats nil as "the zero value", merges the two.  Random
// structured values almost never put a nil exactly where such a merge shows, so these pairs are
// generated on purpose:
//
//   * maps (map[any]any, map[string]any, Map[any,any], Map[string,any], Catalog[any,any]) with at least
//     one nil-valued entry, against: a rebuilt copy; the same map with the nil-valued entry's key renamed
//     (the value stays nil); with the nil moved to another key; with the nil replaced by a defined value
//     (half of the time a zero value); renamed AND defined (the pair on which a merged comparison is not
//     even symmetric); with the nil-valued entry dropped; with a further nil-valued entry added;
//   * sequences (slice, Array, List, Stack, Queue over any) that differ only in nil vs a zero value
//     (nil vs 0, "", false, 0.0, a nil slice, a nil map), in where the nil sits, or in one nil more/less;
//   * associations with a nil value against the same key with a zero value / another key with nil;
//   * each of these also nested one or two levels inside a slice, List, map value, Map value,
//     association value or Catalog value.
//
// For every such pair both RankValues and CompareValues are called in both argument orders, and since
// the generator knows whether the two values are equal that knowledge is checked on the observed answers
// (knownRelationLaws in collatepred.go): equal values compare true and rank Equal, unequal ones compare
// false and do not rank Equal - besides the laws every pair is subjected to (pairLaws).

import (
	"math"
)

// definedLeaf draws a defined value to put where a nil was: half of the time a zero value
func definedLeaf(r *rng) *node {
	if r.chance(1, 2) {
		switch r.intn(7) {
		case 0:
			return &node{kind: "int", prim: int64(0)}
		case 1:
			return &node{kind: "string", prim: ""}
		case 2:
			return &node{kind: "bool", prim: false}
		case 3:
			return &node{kind: "float64", prim: float64(0)}
		case 4:
			return &node{kind: "nilslice"}
		case 5:
			return &node{kind: "nilmap"}
		default:
			return &node{kind: "slice"} // an empty, non-nil []any
		}
	}
	return smallLeaf(r)
}

func smallLeaf(r *rng) *node {
	switch r.intn(5) {
	case 0:
		return &node{kind: "int", prim: int64(1 + r.intn(5))}
	case 1:
		return &node{kind: "string", prim: []string{"a", "b", "x"}[r.intn(3)]}
	case 2:
		return &node{kind: "bool", prim: true}
	case 3:
		return &node{kind: "int64", prim: int64(r.intn(3))}
	default:
		return &node{kind: "rune", prim: int64('a' + r.intn(3))}
	}
}

func nilNode() *node { return &node{kind: "nil"} }

// freshKey returns a key of the kind of the given keys that is none of them
func freshKey(r *rng, kind string, used []*node) *node {
	for try := 0; try < 50; try++ {
		var y *node
		switch kind {
		case "string":
			y = &node{kind: "string", prim: []string{"a", "b", "c", "d", "e", "k", ""}[r.intn(7)]}
		case "int", "int64":
			y = &node{kind: kind, prim: int64(r.intn(8))}
		case "rune":
			y = &node{kind: kind, prim: int64('a' + r.intn(8))}
		default:
			y = genLeaf(r, kind, false)
		}
		fresh := true
		for _, e := range used {
			if sameKey(e, y) {
				fresh = false
			}
		}
		if fresh {
			return y
		}
	}
	return nil
}

// wrapPair nests both values, identically, one level deeper
func wrapPair(r *rng, a, b *node) (*node, *node, string) {
	sib := smallLeaf(r)
	key := &node{kind: "string", prim: []string{"k", "a", ""}[r.intn(3)]}
	mk := func(x *node, kind string) *node {
		switch kind {
		case "slice", "list", "array":
			return &node{kind: kind, kids: []*node{cloneNode(sib), x}}
		case "slice1":
			return &node{kind: "slice", kids: []*node{x}}
		case "assoc":
			return &node{kind: "assoc", kids: []*node{cloneNode(key)}, vals: []*node{x}}
		default: // gomap, map, msa, mapsa, catalog: the value under one key, next to a sibling entry
			other := &node{kind: "string", prim: "z"}
			return &node{kind: kind, kids: []*node{cloneNode(key), other}, vals: []*node{x, cloneNode(sib)}}
		}
	}
	kind := []string{"slice", "slice1", "list", "array", "assoc", "gomap", "map", "msa", "mapsa", "catalog"}[r.intn(10)]
	return mk(a, kind), mk(b, kind), kind
}

// genNilFamily returns two values, what distinguishes them, and whether they are equal
func genNilFamily(r *rng) (na, nb *node, note string, equal bool) {
	switch x := r.intn(20); {
	case x < 12: // ---- maps with a nil-valued entry
		kind := []string{"gomap", "map", "msa", "mapsa", "catalog", "gomap", "msa"}[r.intn(7)]
		keyKind := "string"
		if kind == "gomap" || kind == "map" || kind == "catalog" {
			keyKind = []string{"string", "string", "int", "int64", "rune"}[r.intn(5)]
		}
		na = &node{kind: kind}
		size := 1 + r.intn(3)
		for i := 0; i < size; i++ {
			k := freshKey(r, keyKind, na.kids)
			if k == nil {
				break
			}
			na.kids = append(na.kids, k)
			switch r.intn(4) {
			case 0:
				na.vals = append(na.vals, nilNode())
			case 1:
				na.vals = append(na.vals, definedLeaf(r))
			default:
				na.vals = append(na.vals, smallLeaf(r))
			}
		}
		ni := r.intn(len(na.kids))
		na.vals[ni] = nilNode()
		nb = cloneNode(na)
		how := r.intn(8)
		switch how {
		case 0:
			note, equal = "nilmap:copy", true
		case 1, 2:
			k := freshKey(r, keyKind, nb.kids)
			nb.kids[ni] = k
			note = "nilmap:rename-key-of-nil"
		case 3:
			j := -1
			for t := range nb.vals {
				if nb.vals[t].kind != "nil" {
					j = t
				}
			}
			if j < 0 {
				nb.kids[ni] = freshKey(r, keyKind, nb.kids)
				note = "nilmap:rename-key-of-nil"
			} else {
				nb.vals[ni], nb.vals[j] = nb.vals[j], nb.vals[ni]
				note = "nilmap:move-nil"
			}
		case 4:
			nb.vals[ni] = definedLeaf(r)
			note = "nilmap:nil-to-defined"
		case 5:
			nb.kids[ni] = freshKey(r, keyKind, nb.kids)
			nb.vals[ni] = definedLeaf(r)
			note = "nilmap:rename-and-define"
		case 6:
			nb.kids = append(nb.kids[:ni:ni], nb.kids[ni+1:]...)
			nb.vals = append(nb.vals[:ni:ni], nb.vals[ni+1:]...)
			note = "nilmap:drop-nil-entry"
		default:
			nb.kids = append(nb.kids, freshKey(r, keyKind, nb.kids))
			nb.vals = append(nb.vals, nilNode())
			note = "nilmap:add-nil-entry"
		}
		note += ":" + kind
	case x < 17: // ---- sequences that differ only in nil vs zero, or in where the nil sits
		kind := []string{"slice", "array", "list", "stack", "queue", "slice"}[r.intn(6)]
		na = &node{kind: kind}
		size := 1 + r.intn(3)
		for i := 0; i < size; i++ {
			if r.chance(1, 4) {
				na.kids = append(na.kids, nilNode())
			} else {
				na.kids = append(na.kids, definedLeaf(r))
			}
		}
		ni := r.intn(size)
		na.kids[ni] = nilNode()
		nb = cloneNode(na)
		switch r.intn(5) {
		case 0:
			note, equal = "nilseq:copy", true
		case 1, 2:
			nb.kids[ni] = definedLeaf(r)
			note = "nilseq:nil-to-zero"
		case 3:
			j := -1
			for t := range nb.kids {
				if nb.kids[t].kind != "nil" {
					j = t
				}
			}
			if j < 0 {
				nb.kids = append(nb.kids, nilNode())
				note = "nilseq:one-nil-more"
			} else {
				nb.kids[ni], nb.kids[j] = nb.kids[j], nb.kids[ni]
				note = "nilseq:move-nil"
			}
		default:
			if r.chance(1, 2) {
				nb.kids = append(nb.kids, nilNode())
				note = "nilseq:one-nil-more"
			} else {
				nb.kids = append(nb.kids[:ni:ni], nb.kids[ni+1:]...)
				note = "nilseq:one-nil-less"
			}
		}
		note += ":" + kind
	default: // ---- associations with a nil value
		key := freshKey(r, []string{"string", "int"}[r.intn(2)], nil)
		na = &node{kind: "assoc", kids: []*node{key}, vals: []*node{nilNode()}}
		nb = cloneNode(na)
		switch r.intn(4) {
		case 0:
			note, equal = "nilassoc:copy", true
		case 1:
			nb.kids[0] = freshKey(r, key.kind, []*node{key})
			note = "nilassoc:other-key"
		default:
			nb.vals[0] = definedLeaf(r)
			note = "nilassoc:nil-to-zero"
		}
	}
	// (a fresh key could not be drawn: fall back to the copy)
	for _, k := range nb.kids {
		if k == nil {
			nb, note, equal = cloneNode(na), "nil:copy", true
			break
		}
	}
	// nested: both values identically wrapped, up to two levels
	for lvl := 0; lvl < 2 && r.chance(2, 5); lvl++ {
		var w string
		na, nb, w = wrapPair(r, na, nb)
		note += " in " + w
	}
	return na, nb, note, equal
}

// genNeighbourFamily: two leaves of one kind whose values are immediate neighbours where a lossy comparison
// (through float64, a narrower integer, a hash, a prefix) cannot tell them apart - 2^53 and 2^53+1, MaxInt64-1
// and MaxInt64, MinInt64 and MinInt64+1, adjacent floats, a string and the string plus one NUL byte - alone or
// as the single differing leaf of otherwise equal containers.  Both questions are asked of every such pair
// (a ranking that merges them while the comparison does not is a disagreement of the two).
func genNeighbourFamily(r *rng) (na, nb *node, note string, equal bool) {
	if r.chance(1, 5) {
		// the opposite corner: two integers so far apart that their difference does not fit the type
		kind := []string{"int", "int64"}[r.intn(2)]
		lows := []int64{math.MinInt64, math.MinInt64 + 1, -(1 << 62), -1}
		highs := []int64{math.MaxInt64, math.MaxInt64 - 1, 1 << 62, 0, 1, 2}
		na = &node{kind: kind, prim: lows[r.intn(len(lows))]}
		nb = &node{kind: kind, prim: highs[r.intn(len(highs))]}
		if r.chance(1, 2) {
			na, nb = nb, na
		}
		note = "extremes:" + kind
		for lvl := 0; lvl < 2 && r.chance(1, 3); lvl++ {
			var w string
			na, nb, w = wrapPair(r, na, nb)
			note += " in " + w
		}
		return na, nb, note, false
	}
	kind := []string{"int", "int64", "int64", "uint", "uint64", "float64", "string", "int16", "rune"}[r.intn(9)]
	var x *node
	for try := 0; try < 20; try++ {
		x = genLeaf(r, kind, false)
		big := true
		switch v := x.prim.(type) {
		case int64:
			big = kind == "int16" || kind == "rune" || v >= 1<<53 || v <= -(1<<53)
		case uint64:
			big = v >= 1<<53
		}
		if big || r.chance(1, 4) {
			break
		}
	}
	y := neighbourLeaf(r, x)
	if y == nil || sameLeaf(x, y) {
		return x, cloneNode(x), "neighbour:copy:" + kind, true
	}
	na, nb, note = x, y, "neighbour:"+kind
	for lvl := 0; lvl < 2 && r.chance(1, 2); lvl++ {
		var w string
		na, nb, w = wrapPair(r, na, nb)
		note += " in " + w
	}
	return na, nb, note, false
}

// genCrossKind: two leaves of DIFFERENT kinds that a dispatch on the kind of the first operand alone, or a conversion
// to the first operand's width, would confuse: a byte against a wider unsigned value beyond 255, a rune or a narrow
// integer against a wider integer beyond its range, float32 against float64, unsigned against signed - alone or nested
// (under `any` the two dynamic types simply meet).  What the property says about such a pair is not known to the
// generator (int8(1) and int64(1) rank Equal and compare unequal): only the general laws are judged on it.
func genCrossKind(r *rng) (na, nb *node, note string) {
	type kv struct {
		kind string
		prim any
	}
	narrow := [][]kv{
		{{"byte", uint64(5)}, {"byte", uint64(0)}, {"byte", uint64(44)}, {"byte", uint64(255)}, {"byte", uint64(3)}},
		{{"uint16", uint64(7)}, {"uint16", uint64(65535)}, {"uint32", uint64(9)}, {"uint32", uint64(math.MaxUint32)}},
		{{"int8", int64(-128)}, {"int8", int64(5)}, {"int8", int64(127)}, {"int16", int64(-3)}, {"int16", int64(32767)}},
		{{"rune", int64(97)}, {"rune", int64(-1)}, {"rune", int64(math.MaxInt32)}},
		{{"float32", float32(1.5)}, {"float32", float32(0.1)}, {"float32", float32(3.4028235e38)}},
	}
	wide := [][]kv{
		{{"uint16", uint64(259)}, {"uint16", uint64(300)}, {"uint32", uint64(256)}, {"uint64", uint64(1<<32 + 5)}, {"uint", uint64(261)}, {"uint16", uint64(5)}, {"uint64", uint64(44)}},
		{{"uint64", uint64(65536 + 7)}, {"uint", uint64(1<<32 + 9)}, {"uint64", uint64(math.MaxUint64)}, {"uint32", uint64(65536 + 7)}},
		{{"int64", int64(128)}, {"int64", int64(256 + 5)}, {"int", int64(-129)}, {"int64", int64(65536 - 3)}, {"int", int64(1 << 40)}, {"int64", int64(5)}},
		{{"int64", int64(1<<32 + 97)}, {"int", int64(math.MaxInt64)}, {"int64", int64(97)}, {"uint64", uint64(97)}},
		{{"float64", float64(1.5)}, {"float64", float64(0.1)}, {"float64", float64(1e300)}, {"float64", float64(1.5000000000000002)}},
	}
	f := r.intn(len(narrow))
	if r.chance(2, 5) {
		f = 0 // bytes meet wider unsigned values most often
	}
	x, y := narrow[f][r.intn(len(narrow[f]))], wide[f][r.intn(len(wide[f]))]
	na, nb = &node{kind: x.kind, prim: x.prim}, &node{kind: y.kind, prim: y.prim}
	if r.chance(1, 2) {
		na, nb = nb, na
	}
	note = "crosskind:" + x.kind + "/" + y.kind
	for lvl := 0; lvl < 2 && r.chance(1, 3); lvl++ {
		var w string
		na, nb, w = wrapPair(r, na, nb)
		note += " in " + w
	}
	return na, nb, note
}
