package main

// C07 / C08: the properties' OWN statements, evaluated by the harness on the answers of the real
// collator (independently of the Coq model), reported to the driver as predicate_violations.
//
// Per generated pair (a, b), with panics recovered and treated as an outcome (a law is only judged
// when every answer it speaks of is a plain rank / a plain boolean; the depth-limit panic and any
// other panic are outcomes the correspondence compares, not the laws):
//   reflexivity   Rank(a,a) = Equal, Compare(a,a) = true          (also for NaN-bearing values: the repaired
//                                                                  collator ranks NaN Equal to NaN and compares
//                                                                  them equal; map KEYS are never NaN - the
//                                                                  model's wf excludes them, the generator too)
//   mirror law    Rank(b,a) is the mirror image of Rank(a,b)
//   symmetry      Compare(a,b) = Compare(b,a)
//   natural order nil before every defined value; false < true; numeric order within one numeric kind (NaN left out);
//                 byte-wise order of strings; sequences / associations / catalogs lexicographically over these, a proper
//                 prefix first
//   agreement     Compare(a,b) = true  <=>  Rank(a,b) = Equal     only for pairs "of one type" in the sense of
//                                                                  the theorem's same_type hypothesis: no two
//                                                                  leaves of one family with different widths
//                                                                  (int8 1 vs int64 1 rank Equal and compare
//                                                                  unequal - C08_compare_iff_rank_needs_same_widths_refuted)
// Per case, on a pool of at most 6 values (the values of its first pairs and further mutated neighbours of
// them, pairwise "of one type" as far as reflect is concerned - compatibleNodes):
//   transitivity  Rank(a,b) != Greater and Rank(b,c) != Greater  =>  Rank(a,c) != Greater;
//                 Compare(a,b) and Compare(b,c)  =>  Compare(a,c)
// Per case:
//   history       the first question of the case, asked again of the same collator after all the other calls
//                 of the case (panicking ones included), gets the same answer.
// The texts name the values in Go syntax and the observed answers.

import (
	"fmt"
	"math"
	"strconv"
	"strings"

	age "github.com/craterdog/go-collection-framework/v4/agent"
)

// ---------- Go syntax of a described value ----------

func goFloat(f float64, bits int) string {
	switch {
	case math.IsNaN(f):
		return "NaN"
	case math.IsInf(f, 1):
		return "+Inf"
	case math.IsInf(f, -1):
		return "-Inf"
	case f == 0 && math.Signbit(f):
		return "-0.0"
	}
	return strconv.FormatFloat(f, 'g', -1, bits)
}

func goSyntaxFull(n *node) string {
	elems := func(ns []*node, typed bool) string {
		s := make([]string, len(ns))
		for i, k := range ns {
			if typed {
				s[i] = goBare(k)
			} else {
				s[i] = goSyntaxFull(k)
			}
		}
		return strings.Join(s, ", ")
	}
	pairs := func(typedKey, typedVal bool) string {
		s := make([]string, len(n.kids))
		for i := range n.kids {
			k, v := goSyntaxFull(n.kids[i]), goSyntaxFull(n.vals[i])
			if typedKey {
				k = goBare(n.kids[i])
			}
			if typedVal {
				v = goBare(n.vals[i])
			}
			s[i] = k + ": " + v
		}
		return strings.Join(s, ", ")
	}
	switch n.kind {
	case "nil":
		return "nil"
	case "pk":
		return fmt.Sprintf("&PK{X: %d}", n.prim.(int64))
	case "pkmap":
		return "map[*PK]any{" + pairs(false, false) + "}"
	case "bool", "string":
		return goBare(n)
	case "int", "int8", "int16", "int64", "rune", "uint", "uint16", "uint32", "uint64", "byte", "float32", "float64", "complex64", "complex128":
		return n.kind + "(" + goBare(n) + ")"
	case "slice":
		return "[]any{" + elems(n.kids, false) + "}"
	case "nilslice":
		return "[]any(nil)"
	case "nilmap":
		return "map[any]any(nil)"
	case "array":
		return "Array[any]{" + elems(n.kids, false) + "}"
	case "list":
		return "List[any]{" + elems(n.kids, false) + "}"
	case "set":
		return "Set[any]{" + elems(n.kids, false) + "}"
	case "stack":
		return "Stack[any]{" + elems(n.kids, false) + "}"
	case "queue":
		return "Queue[any]{" + elems(n.kids, false) + "}"
	case "assoc":
		return "Association[any,any]{" + pairs(false, false) + "}"
	case "gomap":
		return "map[any]any{" + pairs(false, false) + "}"
	case "map":
		return "Map[any,any]{" + pairs(false, false) + "}"
	case "catalog":
		return "Catalog[any,any]{" + pairs(false, false) + "}"
	case "ints":
		return "[]int{" + elems(n.kids, true) + "}"
	case "lint":
		return "List[int]{" + elems(n.kids, true) + "}"
	case "strs":
		return "[]string{" + elems(n.kids, true) + "}"
	case "sstr":
		return "Set[string]{" + elems(n.kids, true) + "}"
	case "flts":
		return "[]float64{" + elems(n.kids, true) + "}"
	case "msi":
		return "map[string]int{" + pairs(true, true) + "}"
	case "msa":
		return "map[string]any{" + pairs(true, false) + "}"
	case "mapsa":
		return "Map[string,any]{" + pairs(true, false) + "}"
	case "runes":
		return "[]rune{" + elems(n.kids, true) + "}"
	case "lrune":
		return "List[rune]{" + elems(n.kids, true) + "}"
	case "iis":
		s := make([]string, len(n.kids))
		for i, k := range n.kids {
			s[i] = "{" + elems(k.kids, true) + "}"
		}
		return "[][]int{" + strings.Join(s, ", ") + "}"
	case "cyc":
		return fmt.Sprintf("List[any]{%s, <the list itself, %d levels down>}", elems(n.kids, false), n.prim.(int))
	}
	return "<" + n.kind + ">"
}

// the literal without its type
func goBare(n *node) string {
	switch v := n.prim.(type) {
	case bool:
		return strconv.FormatBool(v)
	case string:
		return strconv.Quote(v)
	case int64:
		return strconv.FormatInt(v, 10)
	case uint64:
		return strconv.FormatUint(v, 10)
	case float64:
		return goFloat(v, 64)
	case float32:
		return goFloat(float64(v), 32)
	case complex64:
		return "complex(" + goFloat(float64(real(v)), 32) + ", " + goFloat(float64(imag(v)), 32) + ")"
	case complex128:
		return "complex(" + goFloat(real(v), 64) + ", " + goFloat(imag(v), 64) + ")"
	}
	return goSyntaxFull(n)
}

func goSyntax(n *node) string {
	s := goSyntaxFull(n)
	if len(s) > 220 {
		s = s[:220] + "…"
	}
	return s
}

// ---------- asking the collator ----------

// answers: "Lesser" | "Equal" | "Greater" | "true" | "false" | "depth-limit panic" | "panic: ..."
func askRank(c age.CollatorLike[any], a, b any) string {
	var rk age.Rank
	oc, msg := guard(func() { rk = c.RankValues(a, b) })
	if oc == ocPanic {
		if classifyPanic(msg) == "DepthPanic" {
			return "depth-limit panic"
		}
		if len(msg) > 60 {
			msg = msg[:60]
		}
		return "panic: " + strings.ReplaceAll(msg, "\n", " ")
	}
	switch rk {
	case age.LesserRank:
		return "Lesser"
	case age.EqualRank:
		return "Equal"
	case age.GreaterRank:
		return "Greater"
	}
	return fmt.Sprintf("panic: rank %v", rk)
}

func askCompare(c age.CollatorLike[any], a, b any) string {
	var res bool
	oc, msg := guard(func() { res = c.CompareValues(a, b) })
	if oc == ocPanic {
		if classifyPanic(msg) == "DepthPanic" {
			return "depth-limit panic"
		}
		if len(msg) > 60 {
			msg = msg[:60]
		}
		return "panic: " + strings.ReplaceAll(msg, "\n", " ")
	}
	return strconv.FormatBool(res)
}

func isRankAns(s string) bool { return s == "Lesser" || s == "Equal" || s == "Greater" }
func isBoolAns(s string) bool { return s == "true" || s == "false" }
func mirrorRank(s string) string {
	switch s {
	case "Lesser":
		return "Greater"
	case "Greater":
		return "Lesser"
	}
	return s
}

// ---------- "of one type" in the sense of same_type: no two leaves of one family with different widths ----------

func leafWidthFamilies(n *node, fam map[string]map[string]bool) {
	f := ""
	k := n.kind
	switch n.kind {
	case "int", "int8", "int16", "int64":
		f = "integer"
	case "uint", "uint16", "uint32", "uint64":
		f = "unsigned"
	case "float32", "float64":
		f = "float"
	case "complex64", "complex128":
		f = "complex"
	case "ints", "lint", "iis", "msi":
		f, k = "integer", "int" // typed containers of int
	case "flts":
		f, k = "float", "float64"
	}
	if f != "" {
		if fam[f] == nil {
			fam[f] = map[string]bool{}
		}
		fam[f][k] = true
	}
	for _, c := range n.kids {
		leafWidthFamilies(c, fam)
	}
	for _, c := range n.vals {
		leafWidthFamilies(c, fam)
	}
}

func sameWidths(ns ...*node) bool {
	fam := map[string]map[string]bool{}
	for _, n := range ns {
		leafWidthFamilies(n, fam)
	}
	for _, ks := range fam {
		if len(ks) > 1 {
			return false
		}
	}
	return true
}

// ---------- the universe of the properties: keys of one map are pairwise different under the ranking ----------

// wfKeys mirrors the model's wf (CollateCompare.v: kdistinctb): within one Go map / Map no two keys rank Equal
// (int(3) and int8(3) are two Go keys but one key for the ranking: rankMaps then pairs the entries in the
// random order in which Go lists them, and the answer is not even a function of the two values).  The generator
// only builds such maps by accident (a leaf mutation of a key); the laws are not judged on them.
func wfKeys(n *node) bool {
	switch n.kind {
	case "gomap", "map", "msi", "msa", "mapsa", "pkmap":
		for i := range n.kids {
			for j := i + 1; j < len(n.kids); j++ {
				if sameKey(n.kids[i], n.kids[j]) {
					return false
				}
			}
		}
	}
	for _, k := range n.kids {
		if !wfKeys(k) {
			return false
		}
	}
	for _, k := range n.vals {
		if !wfKeys(k) {
			return false
		}
	}
	return true
}

// ---------- the laws on one pair ----------

func pairLaws(cl age.CollatorLike[any], na, nb *node, a, b any) []string {
	var bad []string
	if !wfKeys(na) || !wfKeys(nb) {
		return nil
	}
	sa, sb := goSyntax(na), goSyntax(nb)
	rAB, rBA := askRank(cl, a, b), askRank(cl, b, a)
	cAB, cBA := askCompare(cl, a, b), askCompare(cl, b, a)
	for _, x := range []struct {
		n *node
		v any
		s string
	}{{na, a, sa}, {nb, b, sb}} {
		if r := askRank(cl, x.v, x.v); isRankAns(r) && r != "Equal" {
			bad = append(bad, fmt.Sprintf("RankValues is not reflexive: Rank(a,a) = %s for a = %s", r, x.s))
		}
		if c := askCompare(cl, x.v, x.v); isBoolAns(c) && c != "true" {
			bad = append(bad, fmt.Sprintf("CompareValues is not reflexive: Compare(a,a) = false for a = %s", x.s))
		}
		if sa == sb {
			break
		}
	}
	if isRankAns(rAB) && isRankAns(rBA) && mirrorRank(rAB) != rBA {
		bad = append(bad, fmt.Sprintf("RankValues breaks the mirror law: Rank(a,b) = %s but Rank(b,a) = %s for a = %s, b = %s", rAB, rBA, sa, sb))
	}
	if isBoolAns(cAB) && isBoolAns(cBA) && cAB != cBA {
		bad = append(bad, fmt.Sprintf("CompareValues is not symmetric: Compare(a,b) = %s but Compare(b,a) = %s for a = %s, b = %s", cAB, cBA, sa, sb))
	}
	if want := naturalRank(na, nb); want != "" && isRankAns(rAB) && rAB != want {
		bad = append(bad, fmt.Sprintf("RankValues is not the natural order: Rank(a,b) = %s but a %s b for a = %s, b = %s", rAB, map[string]string{"Lesser": "<", "Equal": "=", "Greater": ">"}[want], sa, sb))
	} else if want := naturalRank(nb, na); want != "" && isRankAns(rBA) && rBA != want {
		bad = append(bad, fmt.Sprintf("RankValues is not the natural order: Rank(a,b) = %s but a %s b for a = %s, b = %s", rBA, map[string]string{"Lesser": "<", "Equal": "=", "Greater": ">"}[want], sb, sa))
	}
	if sameWidths(na, nb) && !hasIdentityKeys(na) && !hasIdentityKeys(nb) {
		if isRankAns(rAB) && isBoolAns(cAB) && (rAB == "Equal") != (cAB == "true") {
			bad = append(bad, fmt.Sprintf("CompareValues and RankValues disagree: Compare(a,b) = %s but Rank(a,b) = %s for a = %s, b = %s", cAB, rAB, sa, sb))
		} else if isRankAns(rBA) && isBoolAns(cBA) && (rBA == "Equal") != (cBA == "true") {
			bad = append(bad, fmt.Sprintf("CompareValues and RankValues disagree: Compare(b,a) = %s but Rank(b,a) = %s for a = %s, b = %s", cBA, rBA, sa, sb))
		}
	}
	return bad
}

// naturalRank is the order the property fixes by name: nil before every defined value; false < true; numeric order
// within one integer / unsigned / float kind (NaN left out: the property's natural order does not place it);
// byte-wise order of strings; sequences, associations and catalogs lexicographically over these, a proper prefix
// first.  "" = the property does not say (or the generator cannot tell: maps, sets, mixed kinds, NaN).
func naturalRank(na, nb *node) string {
	cmp := func(lt, gt bool) string {
		switch {
		case lt:
			return "Lesser"
		case gt:
			return "Greater"
		}
		return "Equal"
	}
	if na.kind == "nil" || nb.kind == "nil" {
		return cmp(na.kind == "nil" && nb.kind != "nil", na.kind != "nil" && nb.kind == "nil")
	}
	if na.kind != nb.kind || na.kind == "pk" {
		return ""
	}
	switch x := na.prim.(type) {
	case bool:
		y := nb.prim.(bool)
		return cmp(!x && y, x && !y)
	case int64:
		y := nb.prim.(int64)
		return cmp(x < y, x > y)
	case uint64:
		y := nb.prim.(uint64)
		return cmp(x < y, x > y)
	case float64:
		y := nb.prim.(float64)
		if math.IsNaN(x) || math.IsNaN(y) {
			return ""
		}
		return cmp(x < y, x > y)
	case float32:
		y := nb.prim.(float32)
		if x != x || y != y {
			return ""
		}
		return cmp(x < y, x > y)
	case string:
		y := nb.prim.(string)
		return cmp(x < y, x > y)
	}
	// sequences of one kind: lexicographic, a proper prefix first (not sets - their order is the ranking itself -,
	// not stacks - their array view is reversed -, and nothing is said where an element pair is left open, e.g. maps)
	lex := func(xs, ys []*node) string {
		for i := 0; i < len(xs) && i < len(ys); i++ {
			switch r := naturalRank(xs[i], ys[i]); r {
			case "Equal":
			default:
				return r // "", "Lesser" or "Greater"
			}
		}
		return cmp(len(xs) < len(ys), len(xs) > len(ys))
	}
	switch na.kind {
	case "slice", "array", "list", "queue", "ints", "strs", "flts", "lint", "iis", "runes", "lrune":
		return lex(na.kids, nb.kids)
	case "assoc":
		if r := naturalRank(na.kids[0], nb.kids[0]); r != "Equal" {
			return r
		}
		return naturalRank(na.vals[0], nb.vals[0])
	case "catalog":
		// a catalog ranks as the sequence of its associations, in their order (a description that names one key twice
		// is not the catalog that was built from it - the second SetValue overwrote the first: nothing is said)
		for _, n := range []*node{na, nb} {
			seen := map[string]bool{}
			for _, k := range n.kids {
				t := goSyntaxFull(k)
				if seen[t] {
					return ""
				}
				seen[t] = true
			}
		}
		for i := 0; i < len(na.kids) && i < len(nb.kids); i++ {
			if r := naturalRank(na.kids[i], nb.kids[i]); r != "Equal" {
				return r
			}
			if r := naturalRank(na.vals[i], nb.vals[i]); r != "Equal" {
				return r
			}
		}
		return cmp(len(na.kids) < len(nb.kids), len(na.kids) > len(nb.kids))
	}
	return ""
}

// what the generator knows about a directed pair: a rebuilt copy is equal, a directed difference is a difference
func knownRelationLaws(cl age.CollatorLike[any], note string, relation string, na, nb *node, a, b any) []string {
	var bad []string
	sa, sb := goSyntax(na), goSyntax(nb)
	if relation == "rank-equal" {
		// same contents under keys that are equal by content but not identical Go keys: the ranking must not care
		for _, q := range []struct {
			x, y   any
			sx, sy string
		}{{a, b, sa, sb}, {b, a, sb, sa}} {
			if r := askRank(cl, q.x, q.y); isRankAns(r) && r != "Equal" {
				return []string{fmt.Sprintf("two maps with equal contents do not rank Equal (%s): Rank(a,b) = %s for a = %s, b = %s", note, r, q.sx, q.sy)}
			}
		}
		return nil
	}
	if relation != "equal" && relation != "differ" {
		return nil
	}
	equal := relation == "equal"
	for _, q := range []struct {
		x, y   any
		sx, sy string
	}{{a, b, sa, sb}, {b, a, sb, sa}} {
		c, r := askCompare(cl, q.x, q.y), askRank(cl, q.x, q.y)
		if isBoolAns(c) {
			if equal && c != "true" {
				bad = append(bad, fmt.Sprintf("an independently rebuilt copy does not compare equal (%s): Compare(a,b) = false for a = %s, b = %s", note, q.sx, q.sy))
			}
			if !equal && c != "false" {
				bad = append(bad, fmt.Sprintf("a difference goes unnoticed (%s): Compare(a,b) = true for a = %s, b = %s", note, q.sx, q.sy))
			}
		}
		if isRankAns(r) {
			if equal && r != "Equal" {
				bad = append(bad, fmt.Sprintf("an independently rebuilt copy does not rank Equal (%s): Rank(a,b) = %s for a = %s, b = %s", note, r, q.sx, q.sy))
			}
			if !equal && r == "Equal" {
				bad = append(bad, fmt.Sprintf("a difference goes unnoticed (%s): Rank(a,b) = Equal for a = %s, b = %s", note, q.sx, q.sy))
			}
		}
		if len(bad) > 0 {
			break
		}
	}
	return bad
}

// ---------- transitivity on a pool ----------

type poolVal struct {
	n *node
	v any
}

func hasCyc(n *node) bool {
	if n.kind == "cyc" {
		return true
	}
	for _, k := range n.kids {
		if hasCyc(k) {
			return true
		}
	}
	for _, k := range n.vals {
		if hasCyc(k) {
			return true
		}
	}
	return false
}

// poolAdd adds a value when it is "of one type" (for reflect) with every member and the pool has room
func poolAdd(pool []poolVal, n *node, v any) []poolVal {
	if len(pool) >= 6 || n == nil || hasCyc(n) || !wfKeys(n) {
		return pool
	}
	for _, p := range pool {
		if !compatibleNodes(p.n, n) || !compatibleNodes(n, p.n) {
			return pool
		}
	}
	return append(pool, poolVal{n, v})
}

func poolLaws(cl age.CollatorLike[any], pool []poolVal) []string {
	k := len(pool)
	if k < 3 {
		return nil
	}
	rk := make([][]string, k)
	cm := make([][]string, k)
	for i := range pool {
		rk[i] = make([]string, k)
		cm[i] = make([]string, k)
		for j := range pool {
			rk[i][j] = askRank(cl, pool[i].v, pool[j].v)
			cm[i][j] = askCompare(cl, pool[i].v, pool[j].v)
		}
	}
	var bad []string
	for a := 0; a < k && len(bad) < 2; a++ {
		for b := 0; b < k && len(bad) < 2; b++ {
			for c := 0; c < k && len(bad) < 2; c++ {
				if a == b || b == c || a == c {
					continue
				}
				if isRankAns(rk[a][b]) && isRankAns(rk[b][c]) && isRankAns(rk[a][c]) &&
					rk[a][b] != "Greater" && rk[b][c] != "Greater" && rk[a][c] == "Greater" {
					bad = append(bad, fmt.Sprintf("RankValues is not transitive: Rank(a,b) = %s, Rank(b,c) = %s but Rank(a,c) = Greater for a = %s, b = %s, c = %s",
						rk[a][b], rk[b][c], goSyntax(pool[a].n), goSyntax(pool[b].n), goSyntax(pool[c].n)))
				}
				if cm[a][b] == "true" && cm[b][c] == "true" && cm[a][c] == "false" {
					bad = append(bad, fmt.Sprintf("CompareValues is not transitive: Compare(a,b) and Compare(b,c) but not Compare(a,c) for a = %s, b = %s, c = %s",
						goSyntax(pool[a].n), goSyntax(pool[b].n), goSyntax(pool[c].n)))
				}
			}
		}
	}
	return bad
}

func dedupStrings(xs []string) []string {
	seen := map[string]bool{}
	var out []string
	for _, x := range xs {
		if !seen[x] {
			seen[x] = true
			out = append(out, x)
		}
	}
	return out
}
