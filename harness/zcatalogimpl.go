package main

// C03, round 3: the cases of the pool generator are ALSO replayed on the code-shaped two-structure model
// of catalog.go (coq/CatalogImpl.v through coq/CatalogRun.v): every shard evaluates
// CatalogRun.mismatches_both (the one-list model first, then the two-structure machine) instead of
// PoolRun.mismatches.  The cases themselves are those of genPool (same seed, same histories).
// The file name starts with "z" so that this init() runs after the other files of the package.

import (
	"encoding/json"
	"fmt"
	"os"
	"path/filepath"
	"strings"
)

func init() { generators["C03"] = genCatalogBoth }

const catalogBothHeader = "From Verif Require Import Base Value Seq Coll Pool PoolRun CatalogRun.\nOpen Scope Z_scope.\n"

func genCatalogBoth(prop string, seed uint64, tier, outDir string, count int) error {
	if count == 0 {
		count = 300
		if tier == "thorough" {
			count = 3000
		}
	}
	if err := genPool(prop, seed, tier, outDir, count); err != nil {
		return err
	}
	b, err := os.ReadFile(filepath.Join(outDir, "cases.json"))
	if err != nil {
		return err
	}
	var meta genMeta
	if err := json.Unmarshal(b, &meta); err != nil {
		return err
	}
	for _, shard := range meta.Shards {
		p := filepath.Join(outDir, shard)
		src, err := os.ReadFile(p)
		if err != nil {
			return err
		}
		text := string(src)
		if !strings.HasPrefix(text, poolHeader) || !strings.Contains(text, "Definition M := Eval vm_compute in mismatches cases.") {
			return fmt.Errorf("%s: unexpected shard layout", shard)
		}
		text = catalogBothHeader + strings.TrimPrefix(text, poolHeader)
		text = strings.Replace(text, "Definition M := Eval vm_compute in mismatches cases.", "Definition M := Eval vm_compute in mismatches_both cases.", 1)
		if err := os.WriteFile(p, []byte(text), 0o644); err != nil {
			return err
		}
	}
	meta.Explain = "Definition the_case := nth {case} cases {| h_zero := VNil; h_steps := [] |}.\n" +
		"Definition Report := Eval vm_compute in both_report the_case {step}.\nPrint Report.\n"
	meta.Rule += "; every case is replayed on the one-list model (PoolRun.check_hist) AND on the two-structure model of catalog.go (CatalogRun.check_cat: heap of association objects, id list, key index; handed-out arrays and iterator snapshots are re-read through the heap after every step)"
	if meta.Extra == nil {
		meta.Extra = map[string]any{}
	}
	meta.Extra["second_model"] = "coq/CatalogRun.v mismatches_both: a mismatch (case, step) is the first step at which the one-list model or, when that agrees throughout, the two-structure machine disagrees with an observation"
	return writeMeta(outDir, &meta)
}
