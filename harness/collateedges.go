package main

// C07 / C08: the edges of a domain.
//
//   * []rune / List[rune] whose elements are int32 values that are NOT Unicode scalar values (negative, the
//     surrogates 0xD800-0xDFFF, above 0x10FFFF): generic code instantiated at int32 must rank them numerically
//     like any other integer; a detour through string collapses them all to U+FFFD.  The natural-order law
//     (numeric order inside sequences, a proper prefix first) gives the concrete failing input.
//   * signed zeros: -0.0 and +0.0 as floats, and as the real or imaginary PART of a complex number.  The two
//     spellings of one number are equal (rank Equal, compare true); the collator ranks complex numbers by
//     magnitude, then phase, and the phase of a negative real is +pi or -pi depending on the sign of its zero
//     imaginary part unless the zeros are normalised first.  Every pair can then still be right (reflexive,
//     mirrored, the two spellings Equal) while a TRIPLE is not: the two spellings of -m land on opposite sides of
//     a third value of exactly the same magnitude (m*i, -m*i, m).  So besides pairs, signedZeroPool seeds the
//     transitivity pool of a case with such triples.
//   The model (Value.v) ranks complex numbers by the oracle fields (|z|, phase) the encoder takes from Go on the
//   value with its zeros normalised (encVal: real+0, imag+0) - what the pinned code computes.

import "math"

var negZero = math.Copysign(0, -1)

func cplx(re, im float64) *node { return &node{kind: "complex128", prim: complex(re, im)} }
func cplx64(re, im float64) *node {
	return &node{kind: "complex64", prim: complex(float32(re), float32(im))}
}

// both spellings of a number with a zero part, and numbers of exactly the same magnitude with other phases
func signedZeroGroup(r *rng) (spell1, spell2 *node, same []*node) {
	m := []float64{1, 2, 0.5, 3, 1e300}[r.intn(5)]
	mk := cplx
	if r.chance(1, 4) && m < 1e30 {
		mk = cplx64
	}
	switch r.intn(4) {
	case 0, 1: // a negative real: phase +pi or -pi
		return mk(-m, negZero), mk(-m, 0), []*node{mk(0, m), mk(0, -m), mk(m, 0), mk(m, negZero)}
	case 2: // a positive imaginary number with a zero real part of either sign
		return mk(negZero, m), mk(0, m), []*node{mk(-m, 0), mk(m, 0), mk(0, -m), mk(-m, negZero)}
	default: // a negative imaginary number
		return mk(negZero, -m), mk(0, -m), []*node{mk(-m, 0), mk(-m, negZero), mk(m, 0), mk(0, m)}
	}
}

// signedZeroPool: up to four values that start the transitivity pool of a case
func signedZeroPool(r *rng) []*node {
	var out []*node
	if r.chance(1, 5) {
		// floats: the two zeros between their neighbours
		out = []*node{{kind: "float64", prim: negZero}, {kind: "float64", prim: float64(0)}, {kind: "float64", prim: 5e-324}, {kind: "float64", prim: -5e-324}}
	} else {
		a, b, same := signedZeroGroup(r)
		i := r.intn(len(same))
		j := (i + 1 + r.intn(len(same)-1)) % len(same)
		out = []*node{a, b, same[i], same[j]}
	}
	// sometimes all of them one level down, in the same kind of sequence
	if r.chance(1, 3) {
		kind := []string{"slice", "list", "array"}[r.intn(3)]
		for i, n := range out {
			out[i] = &node{kind: kind, kids: []*node{n}}
		}
	}
	// in a random order
	for i := len(out) - 1; i > 0; i-- {
		j := r.intn(i + 1)
		out[i], out[j] = out[j], out[i]
	}
	return out
}

func genDomainEdges(r *rng) (na, nb *node, note string, relation string) {
	switch x := r.intn(10); {
	case x < 5: // ---- []rune / List[rune] with elements outside the Unicode scalar values
		kind := []string{"runes", "runes", "lrune"}[r.intn(3)]
		na = &node{kind: kind}
		size := 1 + r.intn(3)
		for i := 0; i < size; i++ {
			na.kids = append(na.kids, runeElem(r))
		}
		nb = cloneNode(na)
		relation, note = "equal", "edges:runes:copy:"+kind
		switch r.intn(4) {
		case 0:
		case 1:
			nb.kids = append(nb.kids, runeElem(r))
			relation, note = "differ", "edges:runes:one-more:"+kind
		default:
			i := r.intn(size)
			for try := 0; try < 10; try++ {
				y := runeElem(r)
				if y.prim != nb.kids[i].prim {
					nb.kids[i] = y
					relation, note = "differ", "edges:runes:one-changed:"+kind
					break
				}
			}
		}
	case x < 7: // ---- floats: -0.0 and +0.0
		na = &node{kind: "float64", prim: negZero}
		nb = &node{kind: "float64", prim: float64(0)}
		relation, note = "equal", "edges:float-zeros"
		if r.chance(1, 2) {
			nb = &node{kind: "float64", prim: []float64{5e-324, -5e-324}[r.intn(2)]}
			relation, note = "differ", "edges:float-zero-neighbour"
		}
	default: // ---- complex: the two spellings, or one spelling against the same magnitude
		a, b, same := signedZeroGroup(r)
		switch r.intn(3) {
		case 0:
			na, nb, relation, note = a, b, "equal", "edges:complex-two-spellings"
		case 1:
			na, nb, relation, note = a, same[r.intn(len(same))], "differ", "edges:complex-same-magnitude"
		default:
			na, nb, relation, note = b, same[r.intn(len(same))], "differ", "edges:complex-same-magnitude"
		}
		if relation == "differ" && goSyntaxFull(na) == goSyntaxFull(nb) {
			relation = "equal"
		}
		// (two members of `same` may themselves be two spellings of one number: decided by the numbers, not the texts)
		if relation == "differ" {
			x, y := na.prim, nb.prim
			if cx, ok := x.(complex128); ok {
				if cy, ok := y.(complex128); ok && cx == cy {
					relation = "equal"
				}
			}
			if cx, ok := x.(complex64); ok {
				if cy, ok := y.(complex64); ok && cx == cy {
					relation = "equal"
				}
			}
		}
	}
	if r.chance(1, 2) {
		na, nb = nb, na
	}
	for lvl := 0; lvl < 2 && r.chance(1, 3); lvl++ {
		var w string
		na, nb, w = wrapPair(r, na, nb)
		note += " in " + w
	}
	return na, nb, note, relation
}
