package main

// C19 — independence of distinct instances across goroutines.
//
// Every case is a small concurrent program: 2..16 goroutines, each running the script of one
// operation family (build, mutate, search, sort, rank, format, parse, iterate) on instances of
// its own.  The program is executed in a CHILD process of this binary (which must have been
// built with -race): the per-goroutine scripts are run concurrently for many repetitions with
// scheduling noise injected between the calls, and once sequentially; the child reports whether
// every goroutine obtained the sequential results every time, the parent reads the race
// detector's report file of that child.  A child per case, because the detector reports a pair
// of racing stacks only once per process and because a fresh process has empty class
// registries (first-use races).  The Coq side (IndepRun.v) evaluates the footprint table on
// the descriptors of the goroutines' operations and compares its verdict with the two bits.
//
// Control cases share an instance on purpose (the table must say "conflict"); they also show
// that the race detector is alive: the generator fails if none of them produces a report.

import (
	"bytes"
	"context"
	"encoding/json"
	"fmt"
	"os"
	"os/exec"
	"path/filepath"
	"reflect"
	"regexp"
	"runtime"
	"runtime/debug"
	"sort"
	"strconv"
	"strings"
	"sync"
	"sync/atomic"
	"time"

	age "github.com/craterdog/go-collection-framework/v4/agent"
	cdc "github.com/craterdog/go-collection-framework/v4/cdcn"
	col "github.com/craterdog/go-collection-framework/v4/collection"
)

func init() {
	generators["C19"] = genIndep
	if len(os.Args) >= 3 && os.Args[1] == "indepchild" {
		os.Exit(indepChild(os.Args[2]))
	}
}

// ---------- case description ----------

type indepThread struct {
	Fam    string `json:"fam"`  // build mutate search sort rank format parse iterate
	Kind   string `json:"kind"` // array list set stack queue catalog map slice
	Via    string `json:"via"`  // coll nota agent default
	Form   string `json:"form"` // for via=nota: string | shared | own
	Ety    int    `json:"ety"`
	Seed   uint64 `json:"seed"`
	Recv   int    `json:"recv"`
	Aux    int    `json:"aux"`
	Coll   int    `json:"coll"`
	Nota   int    `json:"nota"`   // filled in by the child for form=string (identity of the class's notation)
	Derive int    `json:"derive"` // >0: the receiver is Set.Or(instance <derive>, own set)
}

type indepCase struct {
	Id      int           `json:"id"`
	Mode    string        `json:"mode"` // pair | registry | sharedread | samelist | samecoll | samefmt | derivedset
	Threads []indepThread `json:"threads"`
	Reps    int           `json:"reps"`
	Cold    bool          `json:"cold"`
	Seed    uint64        `json:"seed"`
	Expect  bool          `json:"expect_clean"`
}

type indepResult struct {
	Equal       bool     `json:"equal"`
	Diffs       int      `json:"diffs"`
	FirstDiff   string   `json:"first_diff"`
	ClassesSame bool     `json:"classes_same"`
	Notas       []int    `json:"notas"`
	Panics      int      `json:"panics"`
	Calls       int      `json:"calls"`
	Expected    []string `json:"expected"`
	CollShared  bool     `json:"coll_shared"`
}

var etyNames = []string{"int", "string", "[]int", "List[int]", "Catalog[string,int]", "[][]int"}

// ---------- dumping values without going through String() ----------

func idump(v any) string {
	switch a := v.(type) {
	case nil:
		return "nil"
	case int:
		return strconv.Itoa(a)
	case int64:
		return strconv.FormatInt(a, 10)
	case uint64:
		return strconv.FormatUint(a, 10)
	case string:
		return strconv.Quote(a)
	case bool:
		if a {
			return "T"
		}
		return "F"
	case age.Rank:
		return "r" + strconv.Itoa(int(a))
	case []int:
		parts := make([]string, len(a))
		for i, x := range a {
			parts[i] = strconv.Itoa(x)
		}
		return "[" + strings.Join(parts, " ") + "]"
	}
	rv := reflect.ValueOf(v)
	switch rv.Kind() {
	case reflect.Slice, reflect.Array:
		parts := make([]string, rv.Len())
		for i := 0; i < rv.Len(); i++ {
			parts[i] = idump(rv.Index(i).Interface())
		}
		return "[" + strings.Join(parts, " ") + "]"
	case reflect.Map:
		var parts []string
		it := rv.MapRange()
		for it.Next() {
			parts = append(parts, idump(it.Key().Interface())+":"+idump(it.Value().Interface()))
		}
		sort.Strings(parts)
		return "{" + strings.Join(parts, " ") + "}"
	case reflect.Ptr, reflect.Interface:
		if rv.IsNil() {
			return "nil"
		}
		if m := rv.MethodByName("GetKey"); m.IsValid() {
			k := m.Call(nil)[0].Interface()
			x := rv.MethodByName("GetValue").Call(nil)[0].Interface()
			return idump(k) + "=>" + idump(x)
		}
		if m := rv.MethodByName("AsArray"); m.IsValid() {
			ts := rv.Type().String()
			if i := strings.Index(ts, "["); i > 0 {
				ts = ts[:i]
			}
			return ts + idump(m.Call(nil)[0].Interface())
		}
	}
	return fmt.Sprintf("<%T>", v)
}

// a map-like collection lists its associations in Go's map order: sort the dump
func idumpUnordered(v any) string {
	rv := reflect.ValueOf(v)
	if m := rv.MethodByName("AsArray"); m.IsValid() {
		arr := m.Call(nil)[0]
		parts := make([]string, arr.Len())
		for i := range parts {
			parts[i] = idump(arr.Index(i).Interface())
		}
		sort.Strings(parts)
		return "{" + strings.Join(parts, " ") + "}"
	}
	return idump(v)
}

// ---------- shared state of one repetition (instances shared on purpose by control cases) ----------

type indepShared struct {
	insts map[int]any // instance id -> collection or agent
}

// call wraps one library call: a panic becomes the result "PANIC" (wording is not compared)
func icall(out *[]string, f func() string) {
	defer func() {
		if e := recover(); e != nil {
			*out = append(*out, "PANIC")
		}
	}()
	*out = append(*out, f())
}

// ---------- value generators per element type ----------

func igInt(r *rng) int { return r.intn(40) - 8 }
func igStr(r *rng) string {
	n := 1 + r.intn(4)
	b := make([]byte, n)
	for i := range b {
		b[i] = "abcxyz019"[r.intn(9)]
	}
	return string(b)
}
func igInts(r *rng) []int {
	a := make([]int, r.intn(5))
	for i := range a {
		a[i] = r.intn(9)
	}
	return a
}
func igList(r *rng) col.ListLike[int] {
	return col.List[int](sharedNotation).MakeFromArray(igInts(r))
}
func igCat(r *rng) col.CatalogLike[string, int] {
	c := col.Catalog[string, int](sharedNotation).Make()
	for i, n := 0, r.intn(4); i < n; i++ {
		c.SetValue(igStr(r), r.intn(9))
	}
	return c
}
func igIntss(r *rng) [][]int {
	a := make([][]int, r.intn(4))
	for i := range a {
		a[i] = igInts(r)
	}
	return a
}

// ---------- the scripts ----------

// prepThread builds (sequentially, in the calling goroutine) the instances of one thread and
// returns its script: the calls of ONE operation family, to be run in a goroutine of its own.
// Everything random is drawn here from the thread's seed, so two preparations give equal scripts.
func prepThread[V any](th *indepThread, gen func(*rng) V, sh *indepShared) func(y func()) []string {
	r := newRng(th.Seed)
	nota := col.NotationLike(sharedNotation)
	var ownNota col.NotationLike
	if th.Form == "own" {
		ownNota = cdc.Notation().Make()
	}
	n := 2 + r.intn(9)
	vals := make([]V, n)
	for i := range vals {
		vals[i] = gen(r)
	}
	probes := make([]V, 6)
	for i := range probes {
		if r.chance(1, 2) {
			probes[i] = vals[r.intn(n)]
		} else {
			probes[i] = gen(r)
		}
	}
	keys := make([]string, n)
	for i := range keys {
		keys[i] = fmt.Sprintf("k%d", i)
	}
	type opc struct{ a, b, c int }
	ops := make([]opc, 10+r.intn(14))
	for i := range ops {
		ops[i] = opc{r.intn(100), r.intn(100), r.intn(100)}
	}
	cp := func() []V { return append([]V(nil), vals...) }

	// the collection of the requested kind (shared instances are built once per repetition)
	mk := func() any {
		if c, ok := sh.insts[th.Recv]; ok {
			return c
		}
		var c any
		switch th.Kind {
		case "array":
			c = col.Array[V](nota).MakeFromArray(cp())
		case "list":
			c = col.List[V](nota).MakeFromArray(cp())
		case "set":
			c = col.Set[V](nota).MakeFromArray(cp())
		case "stack":
			c = col.Stack[V](nota).MakeFromArray(cp())
		case "queue":
			c = col.Queue[V](nota).MakeFromArray(cp())
		case "catalog":
			cat := col.Catalog[string, V](nota).Make()
			for i, v := range vals {
				cat.SetValue(keys[i], v)
			}
			c = cat
		case "map":
			m := map[string]V{}
			for i, v := range vals {
				m[keys[i]] = v
			}
			c = col.Map[string, V](nota).MakeFromMap(m)
		case "slice":
			c = cp()
		}
		if th.Derive > 0 {
			first := sh.insts[th.Derive].(col.SetLike[V])
			c = col.Set[V](nota).Or(first, c.(col.SetLike[V]))
		}
		sh.insts[th.Recv] = c
		return c
	}
	agent := func(make func() any) any {
		if a, ok := sh.insts[th.Aux]; ok {
			return a
		}
		a := make()
		sh.insts[th.Aux] = a
		return a
	}
	dumpOf := func(c any) string {
		if th.Kind == "map" {
			return idumpUnordered(c)
		}
		return idump(c)
	}

	switch th.Fam {
	case "build":
		return func(y func()) []string {
			var out []string
			switch th.Kind {
			case "array":
				icall(&out, func() string { return idump(col.Array[V](nota).MakeFromArray(cp())) })
				y()
				icall(&out, func() string { return idump(col.Array[V](nota).Make(uint(n))) })
			case "list":
				icall(&out, func() string { return idump(col.List[V](nota).MakeFromArray(cp())) })
				y()
				icall(&out, func() string {
					l := col.List[V](nota).Make()
					for _, v := range vals {
						l.AppendValue(v)
						y()
					}
					return idump(col.List[V](nota).MakeFromSequence(l))
				})
			case "set":
				icall(&out, func() string { return idump(col.Set[V](nota).MakeFromArray(cp())) })
				y()
				icall(&out, func() string {
					s := col.Set[V](nota).Make()
					for _, v := range vals {
						s.AddValue(v)
						y()
					}
					return idump(s)
				})
			case "stack":
				icall(&out, func() string { return idump(col.Stack[V](nota).MakeFromArray(cp())) })
				y()
				icall(&out, func() string { return idump(col.Stack[V](nota).MakeWithCapacity(uint(n + 1))) })
			case "queue":
				icall(&out, func() string { return idump(col.Queue[V](nota).MakeFromArray(cp())) })
				y()
				icall(&out, func() string { return idump(col.Queue[V](nota).MakeWithCapacity(uint(n + 1))) })
			case "catalog":
				icall(&out, func() string {
					cat := col.Catalog[string, V](nota).Make()
					for i, v := range vals {
						cat.SetValue(keys[i], v)
						y()
					}
					return idump(col.Catalog[string, V](nota).MakeFromSequence(cat))
				})
			case "map":
				icall(&out, func() string {
					m := map[string]V{}
					for i, v := range vals {
						m[keys[i]] = v
					}
					return idumpUnordered(col.Map[string, V](nota).MakeFromMap(m))
				})
			}
			return out
		}

	case "mutate":
		c := mk()
		return func(y func()) []string {
			var out []string
			for _, o := range ops {
				v := probes[o.a%len(probes)]
				switch x := c.(type) {
				case col.ArrayLike[V]:
					icall(&out, func() string { x.SetValue(1+o.b%n, v); return "" })
				case col.ListLike[V]:
					switch o.c % 5 {
					case 0, 1:
						icall(&out, func() string { x.AppendValue(v); return "" })
					case 2:
						icall(&out, func() string { x.InsertValue(uint(o.b%(x.GetSize()+1)), v); return "" })
					case 3:
						icall(&out, func() string { return idump(x.RemoveValue(1 + o.b%(x.GetSize()+1))) })
					case 4:
						icall(&out, func() string { x.SetValue(1+o.b%(x.GetSize()+1), v); return "" })
					}
				case col.SetLike[V]:
					if o.c%3 == 0 {
						icall(&out, func() string { x.RemoveValue(v); return strconv.Itoa(x.GetSize()) })
					} else {
						icall(&out, func() string { x.AddValue(v); return strconv.Itoa(x.GetSize()) })
					}
				case col.StackLike[V]:
					if o.c%2 == 0 && x.GetSize() > 0 {
						icall(&out, func() string { return idump(x.RemoveTop()) })
					} else if x.GetSize() < int(x.GetCapacity()) {
						icall(&out, func() string { x.AddValue(v); return "" })
					}
				case col.QueueLike[V]:
					if o.c%2 == 0 && x.GetSize() > 0 {
						icall(&out, func() string { h, ok := x.RemoveHead(); return idump(h) + idump(ok) })
					} else if x.GetSize() < int(x.GetCapacity()) {
						icall(&out, func() string { x.AddValue(v); return "" })
					}
				case col.CatalogLike[string, V]:
					k := fmt.Sprintf("k%d", o.b%(n+3))
					if o.c%3 == 0 {
						icall(&out, func() string { return idump(x.RemoveValue(k)) })
					} else {
						icall(&out, func() string { x.SetValue(k, v); return "" })
					}
				case col.MapLike[string, V]:
					k := fmt.Sprintf("k%d", o.b%(n+3))
					if o.c%3 == 0 {
						icall(&out, func() string { return idump(x.RemoveValue(k)) })
					} else {
						icall(&out, func() string { x.SetValue(k, v); return "" })
					}
				}
				y()
			}
			out = append(out, dumpOf(c))
			return out
		}

	case "search":
		c := mk()
		other := col.List[V](nota).MakeFromArray(probes[:3])
		return func(y func()) []string {
			var out []string
			for _, o := range ops {
				v := probes[o.a%len(probes)]
				switch x := c.(type) {
				case col.ListLike[V]:
					switch o.c % 4 {
					case 0:
						icall(&out, func() string { return strconv.Itoa(x.GetIndex(v)) })
					case 1:
						icall(&out, func() string { return idump(x.ContainsValue(v)) })
					case 2:
						icall(&out, func() string { return idump(x.ContainsAny(other)) })
					case 3:
						icall(&out, func() string { return idump(x.ContainsAll(other)) })
					}
				case col.SetLike[V]:
					if o.c%2 == 0 {
						icall(&out, func() string { return strconv.Itoa(x.GetIndex(v)) })
					} else {
						icall(&out, func() string { return idump(x.ContainsValue(v)) })
					}
				case col.CatalogLike[string, V]:
					k := fmt.Sprintf("k%d", o.b%(n+3))
					if o.c%4 == 0 {
						icall(&out, func() string { return idump(x.GetKeys().AsArray()) })
					} else {
						icall(&out, func() string { return idump(x.GetValue(k)) })
					}
				case col.MapLike[string, V]:
					k := fmt.Sprintf("k%d", o.b%(n+3))
					icall(&out, func() string { return idump(x.GetValue(k)) })
				}
				y()
			}
			return out
		}

	case "sort":
		c := mk()
		var sorter age.SorterLike[V]
		switch th.Via {
		case "default":
			sorter = agent(func() any { return age.Sorter[V]().Make() }).(age.SorterLike[V])
		case "agent":
			sorter = agent(func() any {
				return age.Sorter[V]().MakeWithRanker(age.Collator[V]().Make().RankValues)
			}).(age.SorterLike[V])
		}
		return func(y func()) []string {
			var out []string
			for round := 0; round < 3; round++ {
				switch x := c.(type) {
				case []V:
					icall(&out, func() string { sorter.SortValues(x); return idump(x) })
					y()
					icall(&out, func() string { sorter.ReverseValues(x); return idump(x) })
				case col.ArrayLike[V]:
					icall(&out, func() string { x.SortValues(); return idump(x) })
					y()
					icall(&out, func() string { x.ReverseValues(); return idump(x) })
				case col.ListLike[V]:
					icall(&out, func() string { x.SortValues(); return idump(x) })
					y()
					icall(&out, func() string { x.ReverseValues(); return idump(x) })
				case col.CatalogLike[string, V]:
					icall(&out, func() string { x.SortValues(); return idump(x) })
					y()
					icall(&out, func() string { x.ReverseValues(); return idump(x) })
				}
				y()
			}
			return out
		}

	case "rank":
		c := agent(func() any { return age.Collator[V]().Make() }).(age.CollatorLike[V])
		return func(y func()) []string {
			var out []string
			for _, o := range ops {
				a, b := vals[o.a%n], probes[o.b%len(probes)]
				if o.c%2 == 0 {
					icall(&out, func() string { return idump(c.RankValues(a, b)) })
				} else {
					icall(&out, func() string { return idump(c.CompareValues(a, b)) })
				}
				y()
			}
			return out
		}

	case "format":
		c := mk()
		var f cdc.FormatterLike
		if th.Via == "agent" {
			f = agent(func() any { return cdc.Formatter().Make() }).(cdc.FormatterLike)
		}
		if th.Form == "string" {
			cn := reflect.ValueOf(c).MethodByName("GetClass").Call(nil)[0].MethodByName("Notation").Call(nil)[0].Interface()
			if cn == any(sharedNotation) {
				th.Nota = 1
			} else {
				th.Nota = 2
			}
		}
		return func(y func()) []string {
			var out []string
			for round := 0; round < 6; round++ {
				switch {
				case th.Via == "agent":
					icall(&out, func() string { return f.FormatValue(c) })
				case th.Form == "string":
					icall(&out, func() string { return c.(fmt.Stringer).String() })
				case th.Form == "own":
					icall(&out, func() string { return ownNota.FormatValue(c) })
				default:
					icall(&out, func() string { return nota.FormatValue(c) })
				}
				y()
			}
			if th.Kind == "map" { // Go's map order: compare the multiset of lines
				for i, s := range out {
					ls := strings.Split(s, "\n")
					sort.Strings(ls)
					out[i] = strings.Join(ls, "\n")
				}
			}
			return out
		}

	case "parse":
		c := mk()
		text := cdc.Formatter().Make().FormatValue(c)
		var p cdc.ParserLike
		if th.Via == "agent" {
			p = agent(func() any { return cdc.Parser().Make() }).(cdc.ParserLike)
		}
		return func(y func()) []string {
			var out []string
			for round := 0; round < 4; round++ {
				switch {
				case th.Via == "agent":
					icall(&out, func() string { return idump(p.ParseSource(text)) })
				case th.Form == "own":
					icall(&out, func() string { return idump(ownNota.ParseSource(text)) })
				default:
					icall(&out, func() string { return idump(nota.ParseSource(text)) })
				}
				y()
			}
			return out
		}

	case "iterate":
		c := mk()
		return func(y func()) []string {
			var out []string
			walk := func(it interface {
				HasNext() bool
				HasPrevious() bool
				ToStart()
				ToEnd()
				ToSlot(int)
				GetSlot() int
			}, next, prev func() string) {
				var seen []string
				for it.HasNext() {
					seen = append(seen, next())
					y()
				}
				it.ToSlot(ops[0].a % (n + 2))
				seen = append(seen, strconv.Itoa(it.GetSlot()))
				for it.HasPrevious() {
					if v := prev(); th.Kind != "map" { // Go's map order: which items come before a slot is not determined
						seen = append(seen, v)
					} else {
						seen = append(seen, "<")
					}
				}
				it.ToEnd()
				seen = append(seen, strconv.Itoa(it.GetSlot()))
				if th.Kind == "map" {
					sort.Strings(seen)
				}
				out = append(out, strings.Join(seen, ","))
			}
			for round := 0; round < 3; round++ {
				switch x := c.(type) {
				case col.Sequential[V]:
					icall(&out, func() string {
						it := x.GetIterator()
						walk(it, func() string { return idump(it.GetNext()) }, func() string { return idump(it.GetPrevious()) })
						return ""
					})
				case col.Sequential[col.AssociationLike[string, V]]:
					icall(&out, func() string {
						it := x.GetIterator()
						walk(it, func() string { return idump(it.GetNext()) }, func() string { return idump(it.GetPrevious()) })
						return ""
					})
				}
				y()
			}
			return out
		}
	}
	return func(y func()) []string { return nil }
}

func prepAny(th *indepThread, sh *indepShared) func(y func()) []string {
	switch th.Ety {
	case 0:
		return prepThread[int](th, igInt, sh)
	case 1:
		return prepThread[string](th, igStr, sh)
	case 2:
		return prepThread[[]int](th, igInts, sh)
	case 3:
		return prepThread[col.ListLike[int]](th, igList, sh)
	case 4:
		return prepThread[col.CatalogLike[string, int]](th, igCat, sh)
	default:
		return prepThread[[][]int](th, igIntss, sh)
	}
}

// ---------- first-use trials on the class registries ----------

type regT0 struct{ A int }
type regT1 struct{ A int }
type regT2 struct{ A string }
type regT3 struct{ A, B int }
type regT4 struct{ A []int }
type regT5 struct{ A *int }
type regT6 struct{ A uint8 }
type regT7 struct{ A float64 }

// regTouch calls every generic class accessor for the type parameter T (starting with accessor
// number rot, so that different accessors get the simultaneous first call in different trials)
// and uses each class once
func regTouch[T any](rot int) []any {
	var n = col.NotationLike(sharedNotation)
	var z T
	acc := []func() any{
		func() any { return col.Array[T](n) }, func() any { return col.List[T](n) }, func() any { return col.Set[T](n) },
		func() any { return col.Stack[T](n) }, func() any { return col.Queue[T](n) },
		func() any { return col.Catalog[string, T](n) }, func() any { return col.Map[string, T](n) },
		func() any { return col.Association[string, T](n) },
		func() any { return age.Collator[T]() }, func() any { return age.Sorter[T]() }, func() any { return age.Iterator[T]() },
	}
	res := make([]any, len(acc))
	for j := range acc {
		i := (rot + j) % len(acc)
		res[i] = acc[i]()
	}
	l := col.List[T](n).MakeFromArray([]T{z, z})
	s := col.Set[T](n).Make()
	c := col.Catalog[string, T](n).Make()
	st := col.Stack[T](n).Make()
	use := func(f func()) {
		defer func() { recover() }() // e.g. the collator rejects some struct types: not the point here
		f()
	}
	use(func() { _ = l.GetIndex(z) })
	use(func() { s.AddValue(z) })
	use(func() { c.SetValue("a", z) })
	use(func() { st.AddValue(z) })
	use(func() {
		it := l.GetIterator()
		for it.HasNext() {
			it.GetNext()
		}
	})
	use(func() { age.Sorter[T]().Make().SortValues([]T{z, z, z}) })
	res = append(res, l.GetClass(), s.GetClass(), c.GetClass(), st.GetClass())
	return res
}

var regTouchers = []func(int) []any{regTouch[regT0], regTouch[regT1], regTouch[regT2], regTouch[regT3],
	regTouch[regT4], regTouch[regT5], regTouch[regT6], regTouch[regT7]}

// ---------- the child process ----------

func indepChild(specPath string) int {
	b, err := os.ReadFile(specPath)
	if err != nil {
		fmt.Fprintln(os.Stderr, err)
		return 2
	}
	var c indepCase
	if err := json.Unmarshal(b, &c); err != nil {
		fmt.Fprintln(os.Stderr, err)
		return 2
	}
	res := indepResult{Equal: true, ClassesSame: true}
	nt := len(c.Threads)
	noise := newRng(c.Seed)

	if c.Mode == "registry" {
		// for each fresh type parameter in turn: all goroutines that have it call its accessors
		// for the first time at the same moment (spin barrier)
		got := make([][][]any, nt)
		for g := range got {
			got[g] = make([][]any, 8)
		}
		rot0 := int(c.Seed % 11)
		for t := 0; t < 8; t++ {
			var members []int
			for g := 0; g < nt; g++ {
				if c.Threads[g].Seed&(1<<uint(t)) != 0 {
					members = append(members, g)
				}
			}
			var ready int32
			var wg sync.WaitGroup
			for _, g := range members {
				wg.Add(1)
				go func(g int) {
					defer wg.Done()
					atomic.AddInt32(&ready, 1)
					for spin := 0; atomic.LoadInt32(&ready) < int32(len(members)); spin++ {
						if spin > 1000000 {
							runtime.Gosched()
						}
					}
					got[g][t] = regTouchers[t]((rot0 + t) % 11)
				}(g)
			}
			wg.Wait()
		}
		for t := 0; t < 8; t++ {
			ref := regTouchers[t](0)
			for g := 0; g < nt; g++ {
				if got[g][t] == nil {
					continue
				}
				for i := range got[g][t] {
					// the trailing entries are GetClass() of instances: compare with the accessor's class
					want := ref[i]
					if got[g][t][i] != want {
						res.ClassesSame = false
					}
				}
				res.Calls += len(got[g][t])
			}
		}
		out, _ := json.Marshal(res)
		os.Stdout.Write(out)
		return 0
	}

	sequential := func() []string {
		sh := &indepShared{insts: map[int]any{}}
		scripts := make([]func(func()) []string, nt)
		for g := range scripts {
			scripts[g] = prepAny(&c.Threads[g], sh)
		}
		exp := make([]string, nt)
		for g := range scripts {
			exp[g] = strings.Join(scripts[g](func() {}), "|")
		}
		return exp
	}
	var expected []string
	if !c.Cold {
		expected = sequential()
	}
	observed := make([][]string, c.Reps)
	for rep := 0; rep < c.Reps; rep++ {
		sh := &indepShared{insts: map[int]any{}}
		scripts := make([]func(func()) []string, nt)
		for g := range scripts {
			scripts[g] = prepAny(&c.Threads[g], sh)
		}
		if c.Mode == "derivedset" && rep == 0 {
			ca := reflect.ValueOf(sh.insts[c.Threads[0].Recv]).MethodByName("GetCollator").Call(nil)[0].Interface()
			cr := reflect.ValueOf(sh.insts[c.Threads[1].Recv]).MethodByName("GetCollator").Call(nil)[0].Interface()
			res.CollShared = ca == cr
		}
		got := make([]string, nt)
		var wg sync.WaitGroup
		start := make(chan struct{})
		for g := 0; g < nt; g++ {
			wg.Add(1)
			local := noise.fork()
			go func(g int, local *rng) {
				defer wg.Done()
				<-start
				y := func() {
					switch k := local.intn(12); {
					case k < 4:
						runtime.Gosched()
					case k == 4:
						time.Sleep(time.Duration(1+local.intn(20)) * time.Microsecond)
					}
				}
				got[g] = strings.Join(scripts[g](y), "|")
			}(g, local)
		}
		close(start)
		wg.Wait()
		observed[rep] = got
	}
	if c.Cold {
		expected = sequential()
	}
	for rep := range observed {
		for g := range observed[rep] {
			res.Calls += strings.Count(observed[rep][g], "|") + 1
			res.Panics += strings.Count(observed[rep][g], "PANIC")
			if observed[rep][g] != expected[g] {
				res.Equal = false
				res.Diffs++
				if res.FirstDiff == "" {
					res.FirstDiff = fmt.Sprintf("rep %d goroutine %d: sequential %.300q concurrent %.300q", rep, g, expected[g], observed[rep][g])
				}
			}
		}
	}
	for g := range c.Threads {
		res.Notas = append(res.Notas, c.Threads[g].Nota)
	}
	for g := range expected {
		e := expected[g]
		if len(e) > 160 {
			e = e[:160] + "..."
		}
		res.Expected = append(res.Expected, e)
	}
	out, _ := json.Marshal(res)
	os.Stdout.Write(out)
	return 0
}

// ---------- the parent: generation, running the children, encoding ----------

var famKinds = map[string][]string{
	"build":   {"array", "list", "set", "stack", "queue", "catalog", "map"},
	"mutate":  {"array", "list", "set", "stack", "queue", "catalog", "map"},
	"search":  {"list", "set", "catalog", "map"},
	"sort":    {"array", "list", "catalog", "slice", "slice"},
	"rank":    {"slice"},
	"format":  {"array", "list", "set", "stack", "queue", "catalog", "map"},
	"parse":   {"list", "set", "catalog", "array"},
	"iterate": {"array", "list", "set", "stack", "queue", "catalog", "map"},
}
var famList = []string{"build", "mutate", "search", "sort", "rank", "format", "parse", "iterate"}

func mkThread(r *rng, fam string, ety int, slot int) indepThread {
	th := indepThread{Fam: fam, Ety: ety, Seed: r.next(), Recv: 100*(slot+1) + 1}
	ks := famKinds[fam]
	th.Kind = ks[r.intn(len(ks))]
	th.Via = "coll"
	switch fam {
	case "sort":
		if th.Kind == "slice" {
			th.Via = "default"
			if r.chance(1, 4) {
				th.Via = "agent"
			}
			th.Aux = 100*(slot+1) + 2
		}
	case "rank":
		th.Via = "agent"
		th.Aux = 100*(slot+1) + 2
	case "format":
		switch r.intn(5) {
		case 0:
			th.Via = "agent"
			th.Aux = 100*(slot+1) + 2
		case 1:
			th.Via, th.Form, th.Nota = "nota", "shared", 1
		case 2:
			th.Via, th.Form, th.Nota = "nota", "own", 1000+slot
		default:
			th.Via, th.Form = "nota", "string"
		}
	case "parse":
		if ety != 0 && ety != 1 && ety != 3 {
			th.Ety = []int{0, 1, 3}[r.intn(3)]
		}
		switch r.intn(3) {
		case 0:
			th.Via = "agent"
			th.Aux = 100*(slot+1) + 2
		case 1:
			th.Via, th.Form, th.Nota = "nota", "own", 1000+slot
		default:
			th.Via, th.Form, th.Nota = "nota", "shared", 1
		}
	case "iterate":
		th.Via = "agent"
		th.Aux = 100*(slot+1) + 2
	}
	if th.Kind == "set" {
		th.Coll = 100*(slot+1) + 3
	}
	return th
}

func encThread(th *indepThread, cold bool) string {
	fam := map[string]string{"build": "FBuild", "mutate": "FMutate", "search": "FSearch", "sort": "FSort", "rank": "FRank", "format": "FFormat", "parse": "FParse", "iterate": "FIterate"}[th.Fam]
	kind := map[string]string{"array": "KArray", "list": "KList", "set": "KSet", "stack": "KStack", "queue": "KQueue", "catalog": "KCatalog", "map": "KMap", "slice": "KSlice"}[th.Kind]
	via := map[string]string{"coll": "VColl", "agent": "VAgent", "default": "VDefault"}[th.Via]
	if th.Via == "nota" {
		via = fmt.Sprintf("(VNota %d)", th.Nota)
	}
	opt := func(i int) string {
		if i == 0 {
			return "None"
		}
		return fmt.Sprintf("(Some %d%%nat)", i)
	}
	b := "false"
	if cold {
		b = "true"
	}
	return fmt.Sprintf("OD %s %s %s %d %d %s %s %s", fam, kind, via, th.Ety, th.Recv, opt(th.Aux), opt(th.Coll), b)
}

func descThread(th *indepThread) string {
	if th.Ety >= 100 {
		return fmt.Sprintf("first use of all 11 generic accessors (and one use of each class) for the fresh type parameters with mask %08b of regT0..regT7", th.Seed)
	}
	s := fmt.Sprintf("%s %s<%s>", th.Fam, th.Kind, etyNames[th.Ety%len(etyNames)])
	switch {
	case th.Via == "nota":
		s += fmt.Sprintf(" via notation #%d (%s)", th.Nota, th.Form)
	case th.Via != "coll":
		s += " via " + th.Via
	}
	s += fmt.Sprintf(" recv=#%d", th.Recv)
	if th.Aux != 0 {
		s += fmt.Sprintf(" agent=#%d", th.Aux)
	}
	if th.Coll != 0 {
		s += fmt.Sprintf(" collator=#%d", th.Coll)
	}
	if th.Derive != 0 {
		s += fmt.Sprintf(" (= Set.Or(#%d, own))", th.Derive)
	}
	return s + fmt.Sprintf(" seed=%d", th.Seed)
}

type raceReport struct {
	Count  int      `json:"count"`
	Frames []string `json:"frames"`
}

var raceFuncRe = regexp.MustCompile(`^  (\S+)\(\)$`)

// parseRaceLogs reads the detector's report files of one child: number of reports and, per
// report, the first library frame of each of the two stacks
func parseRaceLogs(prefix string) raceReport {
	var rr raceReport
	files, _ := filepath.Glob(prefix + ".*")
	seen := map[string]bool{}
	for _, f := range files {
		b, err := os.ReadFile(f)
		if err != nil {
			continue
		}
		blocks := strings.Split(string(b), "WARNING: DATA RACE")
		for _, blk := range blocks[1:] {
			rr.Count++
			var tops []string
			stacks := strings.Split(blk, "\n\n")
			for _, st := range stacks {
				if !(strings.HasPrefix(strings.TrimSpace(st), "Read at") || strings.HasPrefix(strings.TrimSpace(st), "Write at") ||
					strings.HasPrefix(strings.TrimSpace(st), "Previous ")) {
					continue
				}
				top, lib := "", ""
				for _, ln := range strings.Split(st, "\n") {
					if m := raceFuncRe.FindStringSubmatch(ln); m != nil {
						if top == "" {
							top = m[1]
						}
						if lib == "" && strings.Contains(m[1], "go-collection-framework") {
							lib = m[1]
						}
					}
				}
				if lib == "" {
					lib = top
				}
				lib = strings.TrimPrefix(lib, "github.com/craterdog/go-collection-framework/v4/")
				tops = append(tops, lib)
			}
			key := strings.Join(tops, " <-> ")
			if !seen[key] && len(rr.Frames) < 6 {
				seen[key] = true
				rr.Frames = append(rr.Frames, key)
			}
		}
	}
	return rr
}

type indepOutcome struct {
	c    indepCase
	res  indepResult
	race raceReport
	hang  bool
	crash string
	err   string
}

func runIndepChild(c *indepCase, dir string) indepOutcome {
	o := indepOutcome{c: *c}
	spec := filepath.Join(dir, fmt.Sprintf("c%04d.json", c.Id))
	b, _ := json.Marshal(c)
	if err := os.WriteFile(spec, b, 0o644); err != nil {
		o.err = err.Error()
		return o
	}
	logp := filepath.Join(dir, fmt.Sprintf("race%04d", c.Id))
	ctx, cancel := context.WithTimeout(context.Background(), 40*time.Second)
	defer cancel()
	cmd := exec.CommandContext(ctx, os.Args[0], "indepchild", spec)
	cmd.Env = append(os.Environ(), "GORACE=halt_on_error=0 exitcode=0 history_size=2 log_path="+logp)
	var stdout, stderr bytes.Buffer
	cmd.Stdout, cmd.Stderr = &stdout, &stderr
	err := cmd.Run()
	if ctx.Err() != nil {
		o.hang = true
		o.res.ClassesSame = true
		o.race = parseRaceLogs(logp)
		return o
	}
	if err != nil {
		// the child died (fatal error of the Go runtime, e.g. concurrent map writes, stack overflow):
		// an observation about the program under test, not a failure of the harness
		msg := stderr.String()
		if i := strings.Index(msg, "\n\n"); i > 0 {
			msg = msg[:i]
		}
		if len(msg) > 300 {
			msg = msg[:300]
		}
		o.crash = fmt.Sprintf("%v: %s", err, msg)
		o.res.ClassesSame = true
		o.race = parseRaceLogs(logp)
		return o
	}
	if e := json.Unmarshal(stdout.Bytes(), &o.res); e != nil {
		o.err = fmt.Sprintf("child output: %v: %s %s", e, lastBytes(stdout.String(), 300), lastBytes(stderr.String(), 300))
		return o
	}
	for g := range o.c.Threads {
		if g < len(o.res.Notas) && o.c.Threads[g].Form == "string" {
			o.c.Threads[g].Nota = o.res.Notas[g]
		}
	}
	o.race = parseRaceLogs(logp)
	return o
}

func lastBytes(s string, n int) string {
	if len(s) > n {
		return s[len(s)-n:]
	}
	return s
}

func readBuildSetting(key string) (string, bool) {
	bi, ok := debug.ReadBuildInfo()
	if !ok {
		return "", false
	}
	for _, s := range bi.Settings {
		if s.Key == key {
			return s.Value, true
		}
	}
	return "", false
}

func raceBuilt() bool {
	// a -race binary links the race runtime: the child answers through the detector's log;
	// here we only look at the build settings
	if bi, ok := readBuildSetting("-race"); ok {
		return bi == "true"
	}
	return false
}

func genIndep(prop string, seed uint64, tier, outDir string, count int) error {
	if !raceBuilt() {
		return fmt.Errorf("C19 needs the harness built with -race (build/harness_race); this binary is not")
	}
	if count == 0 {
		count = 200
	}
	r := newRng(seed ^ hashString(prop))
	meta := genMeta{Property: prop, Seed: seed, Tier: tier, OpHist: map[string]int{}, OutHist: map[string]int{}, TypeHist: map[string]int{}, LenHist: map[string]int{}}
	reps := 12
	if tier == "thorough" {
		reps = 30
	}

	// the plan: all 36 unordered pairs of families first (each with the same element type in both
	// goroutines: the situation of D23/D24), then random mixes; controls and registry trials interleaved
	var cases []indepCase
	var pairs [][2]string
	for i := range famList {
		for j := i; j < len(famList); j++ {
			pairs = append(pairs, [2]string{famList[i], famList[j]})
		}
	}
	controls := []string{"derivedset", "samelist", "samecoll", "samefmt", "derivedset", "sharedread", "sharedread", "registry", "samecoll"}
	ngo := []int{2, 2, 2, 3, 4, 5, 8, 12, 16}
	npair := 0
	for len(cases) < count {
		id := len(cases)
		c := indepCase{Id: id, Reps: reps, Seed: r.next(), Cold: r.chance(1, 2), Expect: true, Mode: "pair"}
		k := id % 10
		switch {
		case k == 9:
			c.Mode = controls[(id/10)%len(controls)]
		case k == 4 && (id/10)%2 == 0:
			c.Mode = "registry"
		}
		switch c.Mode {
		case "pair":
			p := pairs[npair%len(pairs)]
			npair++
			n := ngo[r.intn(len(ngo))]
			ety := r.intn(len(etyNames))
			sameEty := r.chance(3, 4)
			for g := 0; g < n; g++ {
				fam := p[g%2]
				if g >= 2 && r.chance(1, 3) {
					fam = famList[r.intn(len(famList))]
				}
				e := ety
				if !sameEty {
					e = r.intn(len(etyNames))
				}
				c.Threads = append(c.Threads, mkThread(r, fam, e, g))
			}
		case "registry":
			n := ngo[r.intn(len(ngo))]
			c.Cold = true
			for g := 0; g < n; g++ {
				mask := r.next() & 0xff
				if mask == 0 {
					mask = 1
				}
				c.Threads = append(c.Threads, indepThread{Fam: "build", Kind: "catalog", Via: "coll", Ety: 100, Seed: mask, Recv: 100*(g+1) + 1})
			}
		case "sharedread":
			// several goroutines only READ one collection: the table says no conflict
			n := 2 + r.intn(3)
			ety := r.intn(len(etyNames))
			kind := []string{"list", "array", "catalog", "stack", "list"}[r.intn(5)]
			s := r.next()
			for g := 0; g < n; g++ {
				fam := []string{"format", "iterate", "search"}[r.intn(3)]
				if fam == "search" && kind != "list" && kind != "catalog" {
					fam = "iterate"
				}
				th := indepThread{Fam: fam, Kind: kind, Via: "coll", Ety: ety, Seed: s, Recv: 101}
				switch fam {
				case "format":
					th.Via, th.Form = "nota", "string"
					if r.chance(1, 3) {
						th.Via, th.Form, th.Aux = "agent", "", 100*(g+1)+2
					}
				case "iterate":
					th.Via, th.Aux = "agent", 100*(g+1)+2
				}
				c.Threads = append(c.Threads, th)
			}
		case "samelist":
			c.Expect = false
			s := r.next()
			for g := 0; g < 2; g++ {
				c.Threads = append(c.Threads, indepThread{Fam: "mutate", Kind: "list", Via: "coll", Ety: 0, Seed: s, Recv: 101})
			}
		case "samecoll":
			// one collator used by two goroutines: clean since a call works on a per-call copy (D29)
			for g := 0; g < 2; g++ {
				c.Threads = append(c.Threads, indepThread{Fam: "rank", Kind: "slice", Via: "agent", Ety: 2, Seed: r.next(), Recv: 100*(g+1) + 1, Aux: 102})
			}
		case "samefmt":
			c.Expect = false
			for g := 0; g < 2; g++ {
				c.Threads = append(c.Threads, indepThread{Fam: "format", Kind: "list", Via: "agent", Ety: 0, Seed: r.next(), Recv: 100*(g+1) + 1, Aux: 102})
			}
		case "derivedset":
			// the result of Set.And/Or/Sans/Xor keeps the FIRST operand's collator instance: searching
			// operand and result concurrently was a race until a collator call stopped writing the
			// collator (D29, former known finding C19-derived-set-collator); observed on every run
			ety := []int{0, 2, 5, 5}[r.intn(4)]
			c.Threads = append(c.Threads, indepThread{Fam: "search", Kind: "set", Via: "coll", Ety: ety, Seed: r.next(), Recv: 101, Coll: 103})
			c.Threads = append(c.Threads, indepThread{Fam: "search", Kind: "set", Via: "coll", Ety: ety, Seed: r.next(), Recv: 201, Coll: 103, Derive: 101})
		}
		cases = append(cases, c)
	}

	// run the children, a few at a time
	dir := filepath.Join(outDir, "children")
	if err := os.MkdirAll(dir, 0o755); err != nil {
		return err
	}
	outs := make([]indepOutcome, len(cases))
	par := runtime.NumCPU() / 2
	if par < 1 {
		par = 1
	}
	if par > 8 {
		par = 8
	}
	sem := make(chan struct{}, par)
	var wg sync.WaitGroup
	for i := range cases {
		wg.Add(1)
		sem <- struct{}{}
		go func(i int) {
			defer wg.Done()
			defer func() { <-sem }()
			outs[i] = runIndepChild(&cases[i], dir)
		}(i)
	}
	wg.Wait()

	// encode
	controlRaces, controlCases := 0, 0
	distinct := map[string]bool{}
	pairSeen := map[string]int{}
	var lines []string
	raceFrames := map[string]int{}
	for i := range outs {
		o := &outs[i]
		if o.err != "" {
			return fmt.Errorf("case %d: child failed: %s", i, o.err)
		}
		c := &o.c
		var ths, trace []string
		var fams []string
		for g := range c.Threads {
			ths = append(ths, encThread(&c.Threads[g], c.Cold))
			trace = append(trace, fmt.Sprintf("goroutine %d: %s", g, descThread(&c.Threads[g])))
			fams = append(fams, c.Threads[g].Fam)
			meta.OpHist[c.Threads[g].Fam]++
			if c.Threads[g].Ety >= 100 {
				meta.TypeHist["fresh struct types (registry trials)"]++
			} else {
				meta.TypeHist[etyNames[c.Threads[g].Ety%len(etyNames)]]++
			}
		}
		meta.LenHist[fmt.Sprintf("goroutines=%02d", len(c.Threads))]++
		meta.OutHist["mode="+c.Mode]++
		if c.Cold {
			meta.OutHist["cold-start"]++
		}
		equal, race := o.res.Equal && !o.hang && o.crash == "", o.race.Count > 0
		if o.hang {
			meta.Hangs++
		}
		if race {
			meta.OutHist["race-reported"]++
			for _, f := range o.race.Frames {
				raceFrames[f]++
			}
		}
		if !equal {
			meta.OutHist["results-differ"]++
		}
		if !c.Expect {
			controlCases++
			if race {
				controlRaces++
			}
		}
		bs := func(b bool) string {
			if b {
				return "true"
			}
			return "false"
		}
		lines = append(lines, fmt.Sprintf("  IC [%s] %s %s %s %s", strings.Join(ths, "; "), bs(c.Expect), bs(equal), bs(race), bs(o.res.ClassesSame)))
		head := fmt.Sprintf("case %d mode=%s goroutines=%d reps=%d cold=%v seed=%d: results equal sequential=%v (differing runs %d) race reports=%d classes unique=%v panics=%d calls=%d",
			i, c.Mode, len(c.Threads), c.Reps, c.Cold, c.Seed, equal, o.res.Diffs, o.race.Count, o.res.ClassesSame, o.res.Panics, o.res.Calls)
		if c.Mode == "derivedset" {
			head += fmt.Sprintf(" derived set shares the first operand's collator=%v", o.res.CollShared)
		}
		trace = append(trace, head)
		if o.res.FirstDiff != "" {
			trace = append(trace, "first difference: "+o.res.FirstDiff)
		}
		if o.hang {
			trace = append(trace, "the child process did not finish within 40 s (a goroutine never returned)")
		}
		if o.crash != "" {
			meta.OutHist["child-crashed"]++
			trace = append(trace, "the child process died: "+o.crash)
		}
		for _, f := range o.race.Frames {
			trace = append(trace, "race: "+f)
		}
		meta.Traces = append(meta.Traces, trace)
		meta.Steps += o.res.Calls
		sort.Strings(fams)
		key := c.Mode + ":" + strings.Join(fams, ",")
		for g := range c.Threads {
			key += fmt.Sprintf("/%s.%s.%d", c.Threads[g].Kind, c.Threads[g].Via+c.Threads[g].Form, c.Threads[g].Ety)
		}
		distinct[key] = true
		if c.Mode == "pair" && len(c.Threads) >= 2 {
			a, b := c.Threads[0].Fam, c.Threads[1].Fam
			pairSeen[a+"+"+b]++
		}
	}
	// the former known finding: is the collator race between a set and a set derived from it still there?
	derivedCases, derivedRaces, derivedDiffer := 0, 0, 0
	var derivedFrames []string
	for i := range outs {
		if outs[i].c.Mode != "derivedset" {
			continue
		}
		derivedCases++
		derivedRaces += outs[i].race.Count
		if !(outs[i].res.Equal && !outs[i].hang && outs[i].crash == "") {
			derivedDiffer++
		}
		derivedFrames = append(derivedFrames, outs[i].race.Frames...)
	}
	knownObs := []map[string]any{{
		"id":          "C19-derived-set-collator",
		"still_fails": derivedRaces > 0,
		"detail": fmt.Sprintf("%d run(s) of the program 'goroutine 1 searches set a, goroutine 2 searches Set.Or(a, b)' (12+ repetitions each): %d race report(s) %v, %d run(s) with results differing from the sequential ones",
			derivedCases, derivedRaces, derivedFrames, derivedDiffer),
	}}
	if controlCases > 0 && controlRaces == 0 {
		return fmt.Errorf("the race detector reported nothing for %d control programs that share an instance on purpose: the detection machinery is not working", controlCases)
	}
	meta.Cases = len(cases)
	meta.Distinct = len(distinct)
	meta.Rule = "distinct = different (mode, multiset of families, per-goroutine kind/via/element type); every case has >= 2 goroutines each making >= 3 library calls per repetition"
	for i := 0; i < 3 && i < len(meta.Traces); i++ {
		meta.Samples = append(meta.Samples, meta.Traces[i])
	}
	meta.Extra = map[string]any{"family_pairs_covered": len(pairSeen), "family_pairs": pairSeen, "control_cases": controlCases,
		"control_cases_with_race_report": controlRaces, "race_frames": raceFrames, "repetitions_per_case": reps,
		"element_types": etyNames, "children_in_parallel": par, "known_finding_observations": knownObs}
	meta.Explain = "Definition the_case := nth {case} cases (IC [] true true false true).\n" +
		"Definition Report := Eval vm_compute in (case_report the_case).\nPrint Report.\n"
	shardSize := 150
	for s := 0; s*shardSize < len(lines); s++ {
		lo, hi := s*shardSize, (s+1)*shardSize
		if hi > len(lines) {
			hi = len(lines)
		}
		name := fmt.Sprintf("cases_%03d.v", s)
		var sb strings.Builder
		sb.WriteString("From Verif Require Import Base Params Indep IndepRun.\nDefinition cases : list icase := [\n")
		sb.WriteString(strings.Join(lines[lo:hi], ";\n"))
		sb.WriteString("\n].\nDefinition M := Eval vm_compute in imismatches cases.\nPrint M.\n")
		if err := os.WriteFile(filepath.Join(outDir, name), []byte(sb.String()), 0o644); err != nil {
			return err
		}
		meta.Shards = append(meta.Shards, name)
		meta.ShardSizes = append(meta.ShardSizes, hi-lo)
	}
	return writeMeta(outDir, &meta)
}
