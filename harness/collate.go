package main

// C07 / C08: structured generator of Go values (as description trees), pairs, rebuilt
// copies, single-point mutations and self-containing variants; the real collator's
// RankValues / CompareValues on them; cases for coq/CollateRun.v.

import (
	"fmt"
	"math"
	"os"
	"path/filepath"
	"strings"

	age "github.com/craterdog/go-collection-framework/v4/agent"
	col "github.com/craterdog/go-collection-framework/v4/collection"
)

type node struct {
	kind string // leaf kinds: nil,bool,int,int8,int16,int64,uint,uint16,uint32,uint64,byte,float32,float64,complex64,complex128,rune,string
	//             containers over any: slice,gomap,array,list,set,stack,queue,catalog,map,assoc
	//             typed containers: ints ([]int), strs ([]string), flts ([]float64), msi (map[string]int), lint (List[int]), sstr (Set[string]), iis ([][]int)
	//             msa (map[string]any), mapsa (Map[string, any]): typed keys, values under any (nil values allowed)
	//             pk (a fresh pointer *PK to struct{X}; prim = X), pkmap (map[*PK]any): collatekeys.go
	//             nilslice ([]any(nil)), nilmap (map[any]any(nil)), cyc (self-containing List[any], depth in prim)
	prim any
	kids []*node
	vals []*node
}

var leafKinds = []string{"nil", "bool", "int", "int8", "int16", "int64", "uint", "uint16", "uint32", "uint64", "byte", "float32", "float64", "complex64", "complex128", "rune", "string"}
var keyLeafKinds = []string{"bool", "int64", "uint64", "float64", "rune", "string", "int", "int8"}

var intBounds = map[string][]int64{
	"int8":  {math.MinInt8, -1, 0, 1, 2, math.MaxInt8},
	"int16": {math.MinInt16, -1, 0, 1, 2, math.MaxInt16},
	"int64": {math.MinInt64, math.MinInt64 + 1, -(1 << 53) - 1, -(1 << 53), -1, 0, 1, 2, 3, 1 << 53, (1 << 53) + 1, math.MaxInt64 - 1, math.MaxInt64},
	"int":   {math.MinInt64, math.MinInt64 + 1, -1, 0, 1, 2, 3, 1 << 53, (1 << 53) + 1, math.MaxInt64 - 1, math.MaxInt64},
	"rune":  {math.MinInt32, -1, 0, 'a', 'b', 0xD800, 0x10FFFF, math.MaxInt32},
}
var uintBounds = map[string][]uint64{
	"uint":   {0, 1, 2, 1 << 53, (1 << 53) + 1, math.MaxInt64, math.MaxInt64 + 1, math.MaxUint64 - 1, math.MaxUint64},
	"uint16": {0, 1, 2, math.MaxUint16},
	"uint32": {0, 1, 2, math.MaxUint32},
	"uint64": {0, 1, 2, 3, 1 << 53, (1 << 53) + 1, math.MaxInt64, math.MaxInt64 + 1, math.MaxUint64 - 1, math.MaxUint64},
	"byte":   {0, 1, 2, 127, 128, 255},
}
var floatBounds = []float64{0, math.Copysign(0, -1), 5e-324, -5e-324, 2.2250738585072014e-308, 1, -1, 1.5, -1.5, 2, 1e300, -1e300, math.MaxFloat64, -math.MaxFloat64, math.Inf(1), math.Inf(-1), math.NaN(), 0.1, 1e-7}
var float32Bounds = []float32{0, float32(math.Copysign(0, -1)), 1e-45, 1, -1, 1.5, 3.4028235e38, float32(math.Inf(1)), float32(math.Inf(-1)), float32(math.NaN()), 0.1}
var stringBounds = []string{"", "a", "ab", "abc", "b", "a\xff", "\xff", "a\x00", "é", "z", "aa"}

func genLeaf(r *rng, kind string, allowNaN bool) *node {
	n := &node{kind: kind}
	switch kind {
	case "nil":
	case "bool":
		n.prim = r.chance(1, 2)
	case "int", "int8", "int16", "int64", "rune":
		b := intBounds[kind]
		n.prim = b[r.intn(len(b))]
	case "uint", "uint16", "uint32", "uint64", "byte":
		b := uintBounds[kind]
		n.prim = b[r.intn(len(b))]
	case "float64":
		for {
			f := floatBounds[r.intn(len(floatBounds))]
			if allowNaN || !math.IsNaN(f) {
				n.prim = f
				break
			}
		}
	case "float32":
		for {
			f := float32Bounds[r.intn(len(float32Bounds))]
			if allowNaN || !math.IsNaN(float64(f)) {
				n.prim = f
				break
			}
		}
	case "complex64":
		n.prim = complex(float32Bounds[r.intn(6)], float32Bounds[r.intn(6)])
	case "complex128":
		// small grid incl. signed zeros; magnitudes and phases that differ robustly
		parts := []float64{0, math.Copysign(0, -1), 1, -1, 2, -2, 0.5, 3, 1e300, 1e-30, 2e-30, math.NaN(), math.Inf(1)}
		n.prim = complex(parts[r.intn(len(parts))], parts[r.intn(len(parts))])
	case "string":
		n.prim = stringBounds[r.intn(len(stringBounds))]
	case "pk":
		n.prim = int64(r.intn(8)) // the pointee of a fresh pointer key (collatekeys.go)
	}
	return n
}

var anyContainers = []string{"slice", "gomap", "array", "list", "set", "stack", "queue", "catalog", "map", "assoc"}
var typedContainers = []string{"ints", "strs", "flts", "msi", "lint", "sstr", "iis", "msa", "mapsa", "runes", "lrune"}

// elements of []rune / []int32 slices and Lists of rune: int32 values inside and OUTSIDE the domain of Unicode scalar
// values (negative, the surrogates 0xD800-0xDFFF, above 0x10FFFF) - a conversion to string collapses the latter to U+FFFD
var runeElems = []int64{math.MinInt32, -1, 0, 'a', 0xD7FF, 0xD800, 0xDFFF, 0xE000, 0xFFFD, 0x10FFFF, 0x110000, math.MaxInt32}

func runeElem(r *rng) *node { return &node{kind: "rune", prim: runeElems[r.intn(len(runeElems))]} }

// kinds that are key/value collections (keys in kids, values in vals); msa = map[string]any, mapsa = Map[string, any]
func isMapKind(k string) bool {
	switch k {
	case "gomap", "map", "catalog", "msi", "msa", "mapsa", "pkmap":
		return true
	}
	return false
}

type genOpts struct {
	allowNaN     bool
	allowComplex bool
	leafOnlyKind string // when non-empty every leaf has this kind
}

func genNode(r *rng, depth int, o genOpts) *node {
	if depth <= 0 || r.chance(2, 5) {
		k := leafKinds[r.intn(len(leafKinds))]
		if o.leafOnlyKind != "" {
			k = o.leafOnlyKind
		}
		if !o.allowComplex && (k == "complex64" || k == "complex128") {
			k = "int64"
		}
		return genLeaf(r, k, o.allowNaN)
	}
	if r.chance(1, 5) {
		return genTyped(r, typedContainers[r.intn(len(typedContainers))], o)
	}
	k := anyContainers[r.intn(len(anyContainers))]
	return genContainer(r, k, depth, o)
}

func genKeyLeaf(r *rng, o genOpts) *node {
	return genLeaf(r, keyLeafKinds[r.intn(len(keyLeafKinds))], false)
}

func genContainer(r *rng, k string, depth int, o genOpts) *node {
	n := &node{kind: k}
	size := r.intn(4)
	switch k {
	case "assoc":
		n.kids = []*node{genKeyLeaf(r, o)}
		n.vals = []*node{genNode(r, depth-1, o)}
	case "gomap", "catalog", "map":
		for i := 0; i < size; i++ {
			key := genKeyLeaf(r, o)
			dup := false
			for _, e := range n.kids {
				if sameKey(e, key) {
					dup = true
				}
			}
			if dup {
				continue
			}
			n.kids = append(n.kids, key)
			if r.chance(1, 6) {
				n.vals = append(n.vals, &node{kind: "nil"}) // a key that is present with a nil value
			} else {
				n.vals = append(n.vals, genNode(r, depth-1, o))
			}
		}
	case "set":
		// a set of values of one leaf kind (elements must be mutually rankable)
		lk := []string{"int64", "string", "float64", "rune"}[r.intn(4)]
		for i := 0; i < size; i++ {
			n.kids = append(n.kids, genLeaf(r, lk, false))
		}
	case "queue":
		for i := 0; i < size; i++ {
			n.kids = append(n.kids, genNode(r, depth-1, o))
		}
	default:
		for i := 0; i < size; i++ {
			n.kids = append(n.kids, genNode(r, depth-1, o))
		}
	}
	return n
}

func genTyped(r *rng, k string, o genOpts) *node {
	n := &node{kind: k}
	size := r.intn(4)
	switch k {
	case "ints", "lint":
		for i := 0; i < size; i++ {
			n.kids = append(n.kids, genLeaf(r, "int", false))
		}
	case "strs", "sstr":
		for i := 0; i < size; i++ {
			n.kids = append(n.kids, genLeaf(r, "string", false))
		}
	case "flts":
		for i := 0; i < size; i++ {
			n.kids = append(n.kids, genLeaf(r, "float64", o.allowNaN))
		}
	case "msi":
		for i := 0; i < size; i++ {
			key := genLeaf(r, "string", false)
			dup := false
			for _, e := range n.kids {
				if sameKey(e, key) {
					dup = true
				}
			}
			if !dup {
				n.kids = append(n.kids, key)
				n.vals = append(n.vals, genLeaf(r, "int", false))
			}
		}
	case "iis":
		for i := 0; i < size; i++ {
			n.kids = append(n.kids, genTyped(r, "ints", o))
		}
	case "runes", "lrune":
		for i := 0; i < size; i++ {
			n.kids = append(n.kids, runeElem(r))
		}
	case "msa", "mapsa":
		for i := 0; i < size; i++ {
			key := genLeaf(r, "string", false)
			dup := false
			for _, e := range n.kids {
				if sameKey(e, key) {
					dup = true
				}
			}
			if !dup {
				n.kids = append(n.kids, key)
				if r.chance(1, 4) {
					n.vals = append(n.vals, &node{kind: "nil"})
				} else {
					n.vals = append(n.vals, genNode(r, 1, o))
				}
			}
		}
	}
	return n
}

// keys of one map must be pairwise rank-distinct (the canonical universe): two keys of the
// same coarse type (any signed width, any unsigned width) with the same number rank Equal
func keyFamily(k string) string {
	switch k {
	case "int", "int8", "int16", "int64":
		return "integer"
	case "uint", "uint16", "uint32", "uint64":
		return "unsigned"
	}
	return k
}
func sameKey(a, b *node) bool {
	if keyFamily(a.kind) != keyFamily(b.kind) {
		return false
	}
	if fa, ok := a.prim.(float64); ok {
		return fa == b.prim.(float64)
	}
	return a.prim == b.prim
}

// build constructs the Go value described by n; perm selects an insertion order for maps
func build(n *node, r *rng) any {
	not := sharedNotation
	order := func(k int) []int {
		idx := make([]int, k)
		for i := range idx {
			idx[i] = i
		}
		if r != nil {
			for i := k - 1; i > 0; i-- {
				j := r.intn(i + 1)
				idx[i], idx[j] = idx[j], idx[i]
			}
		}
		return idx
	}
	kids := func() []any {
		out := make([]any, len(n.kids))
		for i, c := range n.kids {
			out[i] = build(c, r)
		}
		return out
	}
	switch n.kind {
	case "nil":
		return nil
	case "pk":
		return newPK(int(n.prim.(int64))) // a fresh pointer each time the value is built
	case "pkmap":
		m := map[*PK]any{}
		for _, i := range order(len(n.kids)) {
			m[build(n.kids[i], r).(*PK)] = build(n.vals[i], r)
		}
		return m
	case "bool", "string":
		return n.prim
	case "int":
		return int(n.prim.(int64))
	case "int8":
		return int8(n.prim.(int64))
	case "int16":
		return int16(n.prim.(int64))
	case "int64":
		return n.prim.(int64)
	case "rune":
		return rune(n.prim.(int64))
	case "uint":
		return uint(n.prim.(uint64))
	case "uint16":
		return uint16(n.prim.(uint64))
	case "uint32":
		return uint32(n.prim.(uint64))
	case "uint64":
		return n.prim.(uint64)
	case "byte":
		return uint8(n.prim.(uint64))
	case "float32", "float64", "complex64", "complex128":
		return n.prim
	case "slice":
		return kids()
	case "nilslice":
		return []any(nil)
	case "nilmap":
		return map[any]any(nil)
	case "array":
		return col.Array[any](not).MakeFromArray(kids())
	case "list":
		return col.List[any](not).MakeFromArray(kids())
	case "set":
		ks := kids()
		s := col.Set[any](not).Make()
		for _, i := range order(len(ks)) {
			s.AddValue(ks[i])
		}
		return s
	case "stack":
		return col.Stack[any](not).MakeFromArray(kids())
	case "queue":
		return col.Queue[any](not).MakeFromArray(kids())
	case "assoc":
		return col.Association[any, any](not).Make(build(n.kids[0], r), build(n.vals[0], r))
	case "gomap":
		m := map[any]any{}
		for _, i := range order(len(n.kids)) {
			m[build(n.kids[i], r)] = build(n.vals[i], r)
		}
		return m
	case "map":
		m := col.Map[any, any](not).Make()
		for _, i := range order(len(n.kids)) {
			m.SetValue(build(n.kids[i], r), build(n.vals[i], r))
		}
		return m
	case "catalog":
		c := col.Catalog[any, any](not).Make()
		for i := range n.kids {
			c.SetValue(build(n.kids[i], r), build(n.vals[i], r))
		}
		return c
	case "ints":
		out := make([]int, len(n.kids))
		for i, c := range n.kids {
			out[i] = int(c.prim.(int64))
		}
		return out
	case "lint":
		out := make([]int, len(n.kids))
		for i, c := range n.kids {
			out[i] = int(c.prim.(int64))
		}
		return col.List[int](not).MakeFromArray(out)
	case "strs":
		out := make([]string, len(n.kids))
		for i, c := range n.kids {
			out[i] = c.prim.(string)
		}
		return out
	case "sstr":
		s := col.Set[string](not).Make()
		for _, i := range order(len(n.kids)) {
			s.AddValue(n.kids[i].prim.(string))
		}
		return s
	case "flts":
		out := make([]float64, len(n.kids))
		for i, c := range n.kids {
			out[i] = c.prim.(float64)
		}
		return out
	case "msi":
		m := map[string]int{}
		for _, i := range order(len(n.kids)) {
			m[n.kids[i].prim.(string)] = int(n.vals[i].prim.(int64))
		}
		return m
	case "msa":
		m := map[string]any{}
		for _, i := range order(len(n.kids)) {
			m[n.kids[i].prim.(string)] = build(n.vals[i], r)
		}
		return m
	case "mapsa":
		m := col.Map[string, any](not).Make()
		for _, i := range order(len(n.kids)) {
			m.SetValue(n.kids[i].prim.(string), build(n.vals[i], r))
		}
		return m
	case "iis":
		out := make([][]int, len(n.kids))
		for i, c := range n.kids {
			out[i] = build(c, r).([]int)
		}
		return out
	case "runes", "lrune":
		out := make([]rune, len(n.kids))
		for i, c := range n.kids {
			out[i] = rune(c.prim.(int64))
		}
		if n.kind == "lrune" {
			return col.List[rune](not).MakeFromArray(out)
		}
		return out
	case "cyc":
		// a List[any] that contains itself at nesting depth d, optionally next to siblings
		d := n.prim.(int)
		root := col.List[any](not).Make()
		for _, c := range n.kids {
			root.AppendValue(build(c, r))
		}
		cur := root
		for i := 1; i < d; i++ {
			inner := col.List[any](not).Make()
			cur.AppendValue(inner)
			cur = inner
		}
		cur.AppendValue(root)
		return root
	}
	panic("build: unknown kind " + n.kind)
}

func hasMap(n *node) bool {
	switch n.kind {
	case "gomap", "map", "msi", "msa", "mapsa", "pkmap":
		return true
	}
	for _, k := range n.kids {
		if hasMap(k) {
			return true
		}
	}
	for _, k := range n.vals {
		if hasMap(k) {
			return true
		}
	}
	return false
}

func nesting(n *node) int {
	d := 0
	for _, k := range n.kids {
		if x := nesting(k); x > d {
			d = x
		}
	}
	for _, k := range n.vals {
		if x := nesting(k); x > d {
			d = x
		}
	}
	if len(n.kids) == 0 && len(n.vals) == 0 && !isSeqKind(n.kind) && !isMapKind(n.kind) {
		return 0
	}
	if n.kind == "assoc" {
		return d
	}
	return d + 1
}

func cloneNode(n *node) *node {
	c := &node{kind: n.kind, prim: n.prim}
	for _, k := range n.kids {
		c.kids = append(c.kids, cloneNode(k))
	}
	for _, k := range n.vals {
		c.vals = append(c.vals, cloneNode(k))
	}
	return c
}

func countNodes(n *node) int {
	c := 1
	for _, k := range n.kids {
		c += countNodes(k)
	}
	for _, k := range n.vals {
		c += countNodes(k)
	}
	return c
}

// mutate returns a copy of n with one single-point change; ok=false when none applies
func mutate(r *rng, n *node, o genOpts) (*node, string, bool) {
	c := cloneNode(n)
	// collect all nodes
	var all []*node
	var walk func(x *node)
	walk = func(x *node) {
		all = append(all, x)
		for _, k := range x.kids {
			walk(k)
		}
		for _, k := range x.vals {
			walk(k)
		}
	}
	walk(c)
	for try := 0; try < 20; try++ {
		x := all[r.intn(len(all))]
		switch {
		case len(x.kids) == 0 && x.prim != nil && x.kind != "cyc" && x.kind != "pk":
			// change one leaf to a different value of the same kind: half of the time to an
			// immediate neighbour (next integer, next float, one byte more), where a lossy
			// comparison (through a narrower or a floating type, a hash, a prefix) would not tell them apart
			// (a changed KEY must stay different, under the ranking, from the other keys of its map: int8(2) -> int8(1)
			// next to a key int(1) would leave the properties' universe - wfKeys)
			old := x.prim
			if r.chance(1, 2) {
				if y := neighbourLeaf(r, x); y != nil && !sameLeaf(x, y) {
					x.prim = y.prim
					if wfKeys(c) {
						return c, "leaf-neighbour", true
					}
					x.prim = old
				}
			}
			for k := 0; k < 10; k++ {
				y := genLeaf(r, x.kind, false)
				if !sameLeaf(x, y) {
					x.prim = y.prim
					if wfKeys(c) {
						return c, "leaf", true
					}
					x.prim = old
				}
			}
		case isSeqKind(x.kind):
			switch r.intn(3) {
			case 0: // add one element
				var e *node
				if len(x.kids) > 0 {
					e = cloneNode(x.kids[r.intn(len(x.kids))])
				} else if x.kind == "ints" || x.kind == "lint" {
					e = genLeaf(r, "int", false)
				} else if x.kind == "strs" || x.kind == "sstr" {
					e = genLeaf(r, "string", false)
				} else if x.kind == "flts" {
					e = genLeaf(r, "float64", false)
				} else if x.kind == "iis" {
					e = genTyped(r, "ints", o)
				} else if x.kind == "runes" || x.kind == "lrune" {
					e = runeElem(r)
				} else {
					e = genLeaf(r, "int64", false)
				}
				if x.kind == "set" || x.kind == "sstr" {
					continue // adding a duplicate to a set is not a change
				}
				x.kids = append(x.kids, e)
				return c, "add", true
			case 1: // remove one element
				if len(x.kids) == 0 {
					continue
				}
				i := r.intn(len(x.kids))
				x.kids = append(x.kids[:i:i], x.kids[i+1:]...)
				return c, "remove", true
			default: // swap two elements that differ
				if len(x.kids) < 2 || x.kind == "set" || x.kind == "sstr" {
					continue
				}
				i := r.intn(len(x.kids) - 1)
				if fmt.Sprint(encNodeKey(x.kids[i])) == fmt.Sprint(encNodeKey(x.kids[i+1])) {
					continue
				}
				x.kids[i], x.kids[i+1] = x.kids[i+1], x.kids[i]
				return c, "swap", true
			}
		case x.kind == "nil":
			// a nil value (nil leaves are never keys) becomes a defined value, half of the time a zero value
			// (0, "", false, a nil slice, a nil map): what a "nil means absent / nil means zero" shortcut would confuse
			*x = *definedLeaf(r)
			return c, "nil-to-defined", true
		case isMapKind(x.kind):
			if len(x.kids) == 0 {
				continue
			}
			i := r.intn(len(x.kids))
			// prefer an entry whose value is nil: a renamed key under a nil value is only noticed when
			// "present with a nil value" is told apart from "absent"
			for j := range x.vals {
				if x.vals[j].kind == "nil" && r.chance(1, 2) {
					i = j
				}
			}
			// rename one key to a fresh key of the same kind
			for k := 0; k < 10; k++ {
				y := genLeaf(r, x.kids[i].kind, false)
				fresh := true
				for _, e := range x.kids {
					if sameKey(e, y) {
						fresh = false
					}
				}
				if fresh {
					x.kids[i] = y
					return c, "rename-key", true
				}
			}
		}
	}
	return nil, "", false
}

func isSeqKind(k string) bool {
	switch k {
	case "slice", "array", "list", "set", "stack", "queue", "ints", "strs", "flts", "lint", "sstr", "iis", "runes", "lrune":
		return true
	}
	return false
}

func sameLeaf(a, b *node) bool {
	return encVal(build(a, nil)) == encVal(build(b, nil)) || fmt.Sprint(build(a, nil)) == fmt.Sprint(build(b, nil))
}

func encNodeKey(n *node) string { return encValDepth(build(n, nil), 6) }

// ---------- calling the collator ----------

type callObs struct {
	rank string // "R Lt" | "R Eq" | "R Gt" | "DepthPanic" | "OtherPanic" | "Hang"
	cmp  string // "R true" | "R false" | "DepthPanic" | ...
}

func classifyPanic(msg string) string {
	if strings.HasPrefix(msg, "The maximum traversal depth was exceeded") {
		return "DepthPanic"
	}
	return "OtherPanic"
}

func rankEnc(rk age.Rank) string {
	switch rk {
	case age.LesserRank:
		return "(Some (R Lt))"
	case age.EqualRank:
		return "(Some (R Eq))"
	case age.GreaterRank:
		return "(Some (R Gt))"
	}
	return "None"
}

// the text of the last panic that was not the depth-limit panic (for the human-readable trace)
var lastOtherPanic string

func doRank(c age.CollatorLike[any], a, b any) string {
	var rk age.Rank
	oc, msg := guard(func() { rk = c.RankValues(a, b) })
	if oc == ocPanic {
		if classifyPanic(msg) == "DepthPanic" {
			return "(Some DepthPanic)"
		}
		lastOtherPanic = msg
		return "None"
	}
	return rankEnc(rk)
}
func doCompare(c age.CollatorLike[any], a, b any) string {
	var res bool
	oc, msg := guard(func() { res = c.CompareValues(a, b) })
	if oc == ocPanic {
		if classifyPanic(msg) == "DepthPanic" {
			return "(Some DepthPanic)"
		}
		lastOtherPanic = msg
		return "None"
	}
	return fmt.Sprintf("(Some (R %v))", res)
}

// encValDepth encodes like encVal but cuts self-containing values below the given nesting
func encValDepth(v any, depth int) string {
	encDepthLimit = depth
	defer func() { encDepthLimit = -1 }()
	return encVal(v)
}

// ---------- generation of C07 / C08 cases ----------

// one case = one collator (with a maximum) and a sequence of calls on it
type collCall struct {
	kind string // "rank" | "compare"
	a, b string // encoded values
	obs  string
	note string
}

func init() {
	generators["C07"] = genCollate
	generators["C08"] = genCollate
}

func genCollate(prop string, seed uint64, tier, outDir string, count int) error {
	r := newRng(seed ^ hashString(prop))
	if count == 0 {
		count = 400
		if tier == "thorough" {
			count = 6000
		}
	}
	meta := genMeta{Property: prop, Seed: seed, Tier: tier, OpHist: map[string]int{}, OutHist: map[string]int{}, TypeHist: map[string]int{}, LenHist: map[string]int{}, Extra: map[string]any{}}
	var cases []string
	var predViol []map[string]any
	seen := map[string]bool{}
	for i := 0; i < count; i++ {
		var caseBad []string
		var pool []poolVal // values of this case (and neighbours of them) for the transitivity laws
		if r.chance(1, 5) {
			// a pool that starts with both spellings of a signed zero next to values of exactly the same magnitude:
			// every PAIR of them can be right while a TRIPLE is not (collateedges.go)
			for _, n := range signedZeroPool(r) {
				pool = poolAdd(pool, n, build(n, r))
			}
		}
		firstKind, firstObs := "", ""
		var firstA, firstB any
		var firstNA, firstNB *node
		maximum := 16
		if r.chance(1, 4) {
			maximum = 1 + r.intn(4)
		}
		cl := age.Collator[any]().MakeWithMaximum(maximum)
		ncalls := 1 + r.intn(6)
		var calls []string
		var human []string
		for k := 0; k < ncalls; k++ {
			o := genOpts{allowNaN: true, allowComplex: true}
			var na, nb *node
			note := "pair"
			depth := 1 + r.intn(3)
			na = genNode(r, depth, o)
			nilFamily, nilEqual, relation := false, false, "unknown"
			switch x := r.intn(10); {
			case x >= 8:
				// a nil value inside a container against "absent" / against a zero value (collatenil.go)
				switch d := r.intn(10); {
				case d < 2:
					na, nb, note, nilEqual = genNeighbourFamily(r) // adjacent leaves, where a lossy comparison merges; extremes
				case d < 3:
					na, nb, note = genCrossKind(r) // leaves of different kinds that a conversion to the first one's width confuses
				case d < 5:
					na, nb, note, relation = genKeyIdentity(r, maximum) // keys that rank Equal but are not the same Go map key
				case d < 6:
					na, nb, note, relation = genDomainEdges(r) // []rune with non-Unicode elements; signed zeros in float / complex parts
				default:
					na, nb, note, nilEqual = genNilFamily(r)
				}
				nilFamily = true
				if !strings.HasPrefix(note, "keyident") && !strings.HasPrefix(note, "edges") {
					relation = "differ"
					if nilEqual {
						relation = "equal"
					}
					if strings.HasPrefix(note, "crosskind") {
						relation = "unknown"
					}
				}
			case x < 3:
				nb = cloneNode(na) // independently rebuilt copy (maps in another insertion order)
				note = "copy"
			case x < 6:
				m, what, ok := mutate(r, na, o)
				if ok {
					nb = m
					note = "mutation:" + what
				} else {
					nb = genSameShape(r, na, depth, o)
				}
			case x < 7 && prop == "C08":
				// self-containing value against itself or an equal unfolding
				d := 1 + r.intn(3)
				na = &node{kind: "cyc", prim: d}
				for s := r.intn(3); s > 0; s-- {
					na.kids = append(na.kids, genLeaf(r, "int64", false))
				}
				nb = cloneNode(na)
				note = fmt.Sprintf("cyclic depth %d siblings %d", d, len(na.kids))
			default:
				nb = genSameShape(r, na, depth, o)
			}
			// the property quantifies over values "of one type": wherever the two values are compared
			// element by element, a Go slice (map) of `any` must not meet a typed Go slice (map) - the
			// collator does not support that mix (reflect panics) and the model does not tell them apart
			for try := 0; try < 20 && !compatibleNodes(na, nb); try++ {
				nb = genSameShape(r, na, depth, o)
				note = "pair"
				nilFamily = false
			}
			if !compatibleNodes(na, nb) {
				nb = cloneNode(na)
				note = "copy"
				nilFamily = false
			}
			a := build(na, r)
			b := build(nb, r)
			ea, eb := encValDepth(a, maximum+3), encValDepth(b, maximum+3)
			// compareMaps walks the first map in Go's random iteration order: when one entry is
			// unequal and another exceeds the depth limit the outcome (false or panic) depends on
			// that order, so such pairs are only ranked (rankMaps sorts the keys first)
			orderDependent := (hasMap(na) || hasMap(nb)) && (nesting(na) >= maximum || nesting(nb) >= maximum)
			// one call and its mirror (so that antisymmetry / symmetry is exercised on the implementation too)
			emit := func(kind string) (string, string) {
				var obs string
				ctor := "CRank"
				if kind == "rank" {
					obs = doRank(cl, a, b)
				} else {
					ctor = "CCompare"
					obs = doCompare(cl, a, b)
				}
				calls = append(calls, fmt.Sprintf("%s %s %s %s", ctor, ea, eb, obs))
				h := fmt.Sprintf("%s(%s) %s  [max %d] => %s", kind, note, shortVal(a, b), maximum, obs)
				human = append(human, h)
				meta.OpHist[kind+":"+strings.Split(note, " ")[0]]++
				meta.OutHist[obs]++
				meta.TypeHist[na.kind]++
				meta.Steps++
				var obs2 string
				if kind == "rank" {
					obs2 = doRank(cl, b, a)
				} else {
					obs2 = doCompare(cl, b, a)
				}
				calls = append(calls, fmt.Sprintf("%s %s %s %s", ctor, eb, ea, obs2))
				if obs2 == "None" {
					human = append(human, fmt.Sprintf("%s(mirror) => %s [panic: %s]", kind, obs2, lastOtherPanic))
				} else {
					human = append(human, fmt.Sprintf("%s(mirror) => %s", kind, obs2))
				}
				meta.Steps++
				return obs, obs2
			}
			askedKind := "rank"
			var askedObs string
			switch {
			case nilFamily:
				// both questions about the same pair
				askedObs, _ = emit("rank")
				if !orderDependent {
					emit("compare")
				}
			case orderDependent || r.chance(1, 2):
				askedObs, _ = emit("rank")
			default:
				askedKind = "compare"
				askedObs, _ = emit("compare")
			}
			if k == 0 {
				firstKind, firstObs, firstA, firstB, firstNA, firstNB = askedKind, askedObs, a, b, na, nb
			}
			// the property's own statements on the implementation's answers (collatepred.go)
			caseBad = append(caseBad, pairLaws(cl, na, nb, a, b)...)
			if nilFamily {
				caseBad = append(caseBad, knownRelationLaws(cl, note, relation, na, nb, a, b)...)
			}
			if k < 2 {
				pool = poolAdd(pool, na, a)
				pool = poolAdd(pool, nb, b)
				// further neighbours of the two values, so that the triples are not decided by the type names alone
				for _, base := range []*node{na, nb} {
					if len(pool) >= 6 || hasCyc(base) {
						continue
					}
					if m, _, ok := mutate(r, base, o); ok {
						pool = poolAdd(pool, m, build(m, r))
					}
				}
			}
		}
		caseBad = append(caseBad, poolLaws(cl, pool)...)
		if firstKind != "" {
			// the first question again, after every other call of the case on the same collator
			again := ""
			if firstKind == "rank" {
				again = doRank(cl, firstA, firstB)
			} else {
				again = doCompare(cl, firstA, firstB)
			}
			if again != firstObs && again != "None" && firstObs != "None" && wfKeys(firstNA) && wfKeys(firstNB) {
				caseBad = append(caseBad, fmt.Sprintf("the answer depends on earlier calls on the same collator: %s(a,b) was %s when asked first and %s when asked again after the %d other pairs of the case, for a = %s, b = %s",
					firstKind, firstObs, again, ncalls-1, goSyntax(firstNA), goSyntax(firstNB)))
			}
		}
		caseBad = dedupStrings(caseBad)
		if len(caseBad) > 6 {
			caseBad = caseBad[:6]
		}
		if len(caseBad) > 0 {
			predViol = append(predViol, map[string]any{"case": i, "violated": caseBad})
			human = append(human, "PROPERTY PREDICATES VIOLATED ON THE IMPLEMENTATION: "+strings.Join(caseBad, "; "))
		}
		cases = append(cases, fmt.Sprintf("{| cc_max := %d; cc_calls := [\n  %s] |}", maximum, strings.Join(calls, ";\n  ")))
		key := strings.Join(human, "|")
		if !seen[key] {
			seen[key] = true
			meta.Distinct++
		}
		meta.Traces = append(meta.Traces, human)
	}
	meta.Cases = len(cases)
	meta.Extra["predicate_violations"] = predViol
	meta.Extra["cases_violating_the_property_predicates_on_the_implementation"] = len(predViol)
	meta.Rule = "each case is one collator (maximum 16 or 1..4) and 1..6 value pairs from the structured universe (all leaf kinds with boundary values, any-containers and typed containers nested to depth 3): random same-shape pairs, independently rebuilt copies (maps inserted in another order), single-point mutations (leaf, add, remove, swap, rename key - preferring a key whose value is nil -, nil to a defined/zero value), the nil family (a fifth of the pairs: maps map[any]any / map[string]any / Map[any,any] / Map[string,any] / Catalog with a nil-valued entry against the copy, the nil-valued key renamed, the nil moved to another key, the nil replaced by a defined or zero value, renamed and defined, the entry dropped, a nil entry added; sequences differing only in nil vs 0 / \"\" / false / 0.0 / nil slice / nil map or in the position or number of nils; associations with a nil value; each also nested one or two levels; and, one directed pair in five, two adjacent leaves - 2^53 / 2^53+1, MaxInt64-1 / MaxInt64, adjacent floats, a string plus one NUL byte, or two integers whose difference overflows (MinInt64 against a positive number), or two leaves of different kinds (a byte against a wider unsigned value beyond 255, a narrow integer against a wider one beyond its range, float32 against float64) - alone or nested; and, two directed pairs in ten, two maps whose corresponding keys rank Equal without being the same Go map key (pointer keys *PK to equal values in map[*PK]any / map[any]any / Map / Catalog built independently twice; any-keys that differ only in dynamic width, int(1) / int64(1); one List key with equal contents), with the same values (RankValues must be Equal both ways) or one value changed; one directed pair in ten from the edges of a domain: []rune / List[rune] with elements that are not Unicode scalar values (negative, surrogates, above 0x10FFFF), and the two spellings of a signed zero in a float or in a part of a complex number (equal) or one of them against a value of the same magnitude and another phase; one case in five starts its transitivity pool with both spellings of a negative real (or of a zero real part, or -0.0/+0.0) and two values of the same magnitude; for all directed pairs both RankValues and CompareValues in both orders, with what the generator knows about them - copy equal, difference unequal - checked on the answers) and, for C08, self-containing lists (depth 1..3, with siblings); every pair is called in both argument orders; a case is distinct when its call/result trace differs from every other; independently of the model the properties' own statements are evaluated on the real collator's answers (predicate_violations): for every pair reflexivity of RankValues and CompareValues, the mirror law, symmetry, the natural order the property names (nil first, false<true, numeric, byte-wise strings, proper prefix first), and Compare <=> Rank Equal for pairs without mixed integer/float widths; per case transitivity of both on all ordered triples of a pool of up to 6 values (the first two pairs and mutated neighbours of them); and the first question of the case asked again after all other calls on the same collator"
	for i := 0; i < 3 && i < len(cases); i++ {
		meta.Samples = append(meta.Samples, meta.Traces[i*len(cases)/3])
	}
	shardSize := 100
	for s := 0; s*shardSize < len(cases); s++ {
		lo, hi := s*shardSize, (s+1)*shardSize
		if hi > len(cases) {
			hi = len(cases)
		}
		name := fmt.Sprintf("cases_%03d.v", s)
		var sb strings.Builder
		sb.WriteString("From Verif Require Import Base Value CollateRun.\nOpen Scope Z_scope.\nDefinition cases : list ccase := [\n")
		sb.WriteString(strings.Join(cases[lo:hi], ";\n"))
		sb.WriteString("].\nDefinition M := Eval vm_compute in cmismatches cases.\nPrint M.\n")
		if err := os.WriteFile(filepath.Join(outDir, name), []byte(sb.String()), 0o644); err != nil {
			return err
		}
		meta.Shards = append(meta.Shards, name)
		meta.ShardSizes = append(meta.ShardSizes, hi-lo)
	}
	return writeMeta(outDir, &meta)
}

// a second value of the same family as na (so that the pair is "of one type")
func genSameShape(r *rng, na *node, depth int, o genOpts) *node {
	switch {
	case len(na.kids) == 0 && len(na.vals) == 0 && na.kind != "cyc" && !isSeqKind(na.kind) && !isMapKind(na.kind):
		if r.chance(1, 6) {
			return genLeaf(r, leafKinds[r.intn(len(leafKinds))], o.allowNaN) // mixed types under any
		}
		return genLeaf(r, na.kind, o.allowNaN)
	case na.kind == "ints" || na.kind == "strs" || na.kind == "flts" || na.kind == "msi" || na.kind == "lint" || na.kind == "sstr" || na.kind == "iis" || na.kind == "msa" || na.kind == "mapsa" || na.kind == "runes" || na.kind == "lrune":
		return genTyped(r, na.kind, o)
	default:
		if r.chance(1, 5) {
			return genContainer(r, anyContainers[r.intn(len(anyContainers))], depth, o) // another collection kind
		}
		k := na.kind
		if k == "cyc" {
			k = "list"
		}
		n := genContainer(r, k, depth, o)
		// share a prefix with na so that ties are broken late
		if isSeqKind(k) && k != "set" && len(na.kids) > 0 && r.chance(1, 2) {
			p := r.intn(len(na.kids) + 1)
			var kids []*node
			for i := 0; i < p; i++ {
				kids = append(kids, cloneNode(na.kids[i]))
			}
			n.kids = append(kids, n.kids...)
		}
		return n
	}
}

func shortVal(a, b any) string {
	s := fmt.Sprintf("%v ? %v", safeString(a), safeString(b))
	if len(s) > 160 {
		s = s[:160] + "..."
	}
	return strings.ReplaceAll(s, "\n", " ")
}

func safeString(v any) (s string) {
	defer func() {
		if e := recover(); e != nil {
			s = "<unprintable>"
		}
	}()
	return encValDepth(v, 4)
}

// neighbourLeaf returns a leaf of the same kind whose value is adjacent to x's (nil when there is none)
func neighbourLeaf(r *rng, x *node) *node {
	y := &node{kind: x.kind}
	up := r.chance(1, 2)
	switch v := x.prim.(type) {
	case bool:
		y.prim = !v
	case int64:
		lo, hi := int64(math.MinInt64), int64(math.MaxInt64)
		switch x.kind {
		case "int8":
			lo, hi = math.MinInt8, math.MaxInt8
		case "int16":
			lo, hi = math.MinInt16, math.MaxInt16
		case "rune":
			lo, hi = math.MinInt32, math.MaxInt32
		}
		if (up && v < hi) || v == lo {
			y.prim = v + 1
		} else {
			y.prim = v - 1
		}
	case uint64:
		hi := uint64(math.MaxUint64)
		switch x.kind {
		case "uint16":
			hi = math.MaxUint16
		case "uint32":
			hi = math.MaxUint32
		case "byte":
			hi = 255
		}
		if (up && v < hi) || v == 0 {
			y.prim = v + 1
		} else {
			y.prim = v - 1
		}
	case float64:
		if math.IsNaN(v) || math.IsInf(v, 0) {
			return nil
		}
		if up {
			y.prim = math.Nextafter(v, math.Inf(1))
		} else {
			y.prim = math.Nextafter(v, math.Inf(-1))
		}
	case float32:
		if v != v || math.IsInf(float64(v), 0) {
			return nil
		}
		if up {
			y.prim = math.Nextafter32(v, float32(math.Inf(1)))
		} else {
			y.prim = math.Nextafter32(v, float32(math.Inf(-1)))
		}
	case string:
		switch {
		case len(v) > 0 && r.chance(1, 3):
			y.prim = v[:len(v)-1]
		case len(v) > 0 && r.chance(1, 2):
			b := []byte(v)
			b[len(b)-1]++
			y.prim = string(b)
		default:
			y.prim = v + "\x00"
		}
	default:
		return nil
	}
	return y
}

// Go type family of a container node as far as reflect kinds of its ELEMENTS are concerned:
// every typed container kind is a family of its own, the containers over `any` of one coarse type share one
func elemTyping(k string) string {
	switch k {
	case "ints", "strs", "flts", "iis", "msi", "lint", "sstr", "msa", "mapsa", "pkmap", "runes", "lrune":
		return "typed:" + k
	}
	return "any"
}

// the coarse type name under which the collator files a container (getType)
func coarse(k string) string {
	switch k {
	case "slice", "nilslice", "ints", "strs", "flts", "iis", "runes":
		return "array"
	case "gomap", "nilmap", "msi", "msa", "mapsa", "pkmap":
		return "map"
	case "lint", "lrune":
		return "list"
	case "sstr":
		return "set"
	}
	return k
}

// compatibleNodes is conservative: every pair of sub-values that the collator might compare must be of one Go type family
func compatibleNodes(a, b *node) bool {
	if a == nil || b == nil {
		return true
	}
	ca, cb := coarse(a.kind), coarse(b.kind)
	if ca != cb {
		return true // different coarse types: decided by the type names, elements are never compared
	}
	if elemTyping(a.kind) != elemTyping(b.kind) {
		return false
	}
	for _, x := range a.kids {
		for _, y := range b.kids {
			if !compatibleNodes(x, y) {
				return false
			}
		}
	}
	for _, x := range a.vals {
		for _, y := range b.vals {
			if !compatibleNodes(x, y) {
				return false
			}
		}
	}
	return true
}
