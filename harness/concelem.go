package main

// Element types of the queues driven by conc.go (C04, C05, C06) and queuestress.go.
//
// The library's Queue is generic and its code inspects values in a few places (the "is it defined"
// inspector, the zero value that RemoveHead returns together with ok=false).  A branch that depends
// on the ELEMENT TYPE or on a value being the zero / an "undefined" value ("" , nil pointer, nil
// interface, nil slice) is invisible when every program pushes positive ints.  So the programs run
// over several element types and their streams contain zero and undefined values.
//
// The model (coq/Conc.v) carries Z values and never looks at them.  The harness therefore speaks
// of values by an integer CODE: each distinct Go value that a case uses has its own code, the zero
// value of the element type is always code 0 (RemoveHead's "(zero, false)" is RHead 0 false in the
// model), codes 1..9 are further special values of the type, codes >= 10 are ordinary distinct values.

import (
	"fmt"
	"strconv"
	"strings"
)

type elemCodec[V any] struct {
	name string
	// table builds, for the codes a program uses, the Go value of each code and the inverse;
	// both closures are read-only afterwards (they are called from the client goroutines).
	// dec returns -1 for a value that is not in the table (a value the library invented).
	table func(codes []int) (enc func(int) V, dec func(V) int)
}

var concElems = []string{"int", "string", "ptr", "any", "slice"}

// the special codes (< 10) each element type has; code 0 is the zero value
func elemSpecials(elem string) []int {
	switch elem {
	case "ptr":
		return []int{0, 1} // nil; a non-nil pointer to the zero int
	case "any":
		return []int{0, 1, 2, 3, 4, 5} // nil; ""; 0; (*int)(nil); []int(nil); false
	case "slice":
		return []int{0, 1} // nil; empty non-nil slice
	}
	return []int{0} // int: 0; string: ""
}

// codeName says what Go value a code stands for (for the human-readable traces)
func codeName(elem string, c int) string {
	if c < 0 {
		return fmt.Sprintf("%d=<a value that was never added>", c)
	}
	switch elem {
	case "", "int":
		return strconv.Itoa(c)
	case "string":
		if c == 0 {
			return `0=""`
		}
		return fmt.Sprintf("%d=%q", c, "s"+strconv.Itoa(c))
	case "ptr":
		switch c {
		case 0:
			return "0=(*int)(nil)"
		case 1:
			return "1=&0"
		}
		return fmt.Sprintf("%d=&%d", c, c)
	case "slice":
		switch c {
		case 0:
			return "0=[]int(nil)"
		case 1:
			return "1=[]int{}"
		}
		return fmt.Sprintf("%d=[]int{%d}", c, c)
	case "any":
		switch c {
		case 0:
			return "0=nil"
		case 1:
			return `1=any("")`
		case 2:
			return "2=any(0)"
		case 3:
			return "3=any((*int)(nil))"
		case 4:
			return "4=any([]int(nil))"
		case 5:
			return "5=any(false)"
		}
		switch c % 3 {
		case 0:
			return fmt.Sprintf("%d=any(%d)", c, c)
		case 1:
			return fmt.Sprintf("%d=any(%q)", c, "s"+strconv.Itoa(c))
		}
		return fmt.Sprintf("%d=any(&%d)", c, c)
	}
	return strconv.Itoa(c)
}

func codeNames(elem string, cs []int) string {
	s := make([]string, len(cs))
	for i, c := range cs {
		s[i] = codeName(elem, c)
	}
	return "[" + strings.Join(s, " ") + "]"
}

func shortCodes(cs []int) string {
	if len(cs) > 12 {
		return fmt.Sprintf("%v...", cs[:12])
	}
	return fmt.Sprint(cs)
}

// every code a program mentions
func progCodes(p cprog) []int {
	seen := map[int]bool{}
	var out []int
	add := func(c int) {
		if !seen[c] {
			seen[c] = true
			out = append(out, c)
		}
	}
	add(0)
	for _, t := range p.threads {
		for _, c := range t.calls {
			if c.op == "add" {
				add(c.v)
			}
		}
		for _, v := range t.vals {
			add(v)
		}
	}
	return out
}

func intCodec() elemCodec[int] {
	return elemCodec[int]{name: "int", table: func([]int) (func(int) int, func(int) int) {
		return func(c int) int { return c }, func(v int) int { return v }
	}}
}

func stringCodec() elemCodec[string] {
	return elemCodec[string]{name: "string", table: func([]int) (func(int) string, func(string) int) {
		enc := func(c int) string {
			if c == 0 {
				return ""
			}
			return "s" + strconv.Itoa(c)
		}
		dec := func(v string) int {
			if v == "" {
				return 0
			}
			if n, err := strconv.Atoi(strings.TrimPrefix(v, "s")); err == nil && strings.HasPrefix(v, "s") && n > 0 {
				return n
			}
			return -1
		}
		return enc, dec
	}}
}

// pointers are told apart by identity: two codes never share a pointer, whatever they point to
func ptrTable(codes []int) (map[int]*int, map[*int]int) {
	fwd := map[int]*int{}
	bwd := map[*int]int{}
	for _, c := range codes {
		if c == 0 {
			continue
		}
		p := new(int)
		if c >= 10 {
			*p = c
		}
		fwd[c] = p
		bwd[p] = c
	}
	return fwd, bwd
}

func ptrCodec() elemCodec[*int] {
	return elemCodec[*int]{name: "ptr", table: func(codes []int) (func(int) *int, func(*int) int) {
		fwd, bwd := ptrTable(codes)
		enc := func(c int) *int { return fwd[c] } // code 0: nil
		dec := func(p *int) int {
			if p == nil {
				return 0
			}
			if c, ok := bwd[p]; ok {
				return c
			}
			return -1
		}
		return enc, dec
	}}
}

func sliceCodec() elemCodec[[]int] {
	return elemCodec[[]int]{name: "slice", table: func([]int) (func(int) []int, func([]int) int) {
		enc := func(c int) []int {
			switch c {
			case 0:
				return nil
			case 1:
				return []int{}
			}
			return []int{c}
		}
		dec := func(v []int) int {
			switch {
			case v == nil:
				return 0
			case len(v) == 0:
				return 1
			case len(v) == 1 && v[0] >= 10:
				return v[0]
			}
			return -1
		}
		return enc, dec
	}}
}

// under `any`: the nil interface is the zero value; codes 1..5 are values that are NOT the nil interface
// but that an "is it defined / is it zero" test on the dynamic value would take for undefined or zero
func anyCodec() elemCodec[any] {
	return elemCodec[any]{name: "any", table: func(codes []int) (func(int) any, func(any) int) {
		var pcodes []int
		for _, c := range codes {
			if c >= 10 && c%3 == 2 {
				pcodes = append(pcodes, c)
			}
		}
		fwd, bwd := ptrTable(pcodes)
		enc := func(c int) any {
			switch c {
			case 0:
				return nil
			case 1:
				return ""
			case 2:
				return 0
			case 3:
				return (*int)(nil)
			case 4:
				return []int(nil)
			case 5:
				return false
			}
			switch c % 3 {
			case 0:
				return c
			case 1:
				return "s" + strconv.Itoa(c)
			}
			return fwd[c]
		}
		dec := func(v any) int {
			switch a := v.(type) {
			case nil:
				return 0
			case string:
				if a == "" {
					return 1
				}
				if n, err := strconv.Atoi(strings.TrimPrefix(a, "s")); err == nil && strings.HasPrefix(a, "s") && n >= 10 && n%3 == 1 {
					return n
				}
			case int:
				if a == 0 {
					return 2
				}
				if a >= 10 && a%3 == 0 {
					return a
				}
			case *int:
				if a == nil {
					return 3
				}
				if c, ok := bwd[a]; ok {
					return c
				}
			case []int:
				if a == nil {
					return 4
				}
			case bool:
				if !a {
					return 5
				}
			}
			return -1
		}
		return enc, dec
	}}
}

// ---------- streams of codes ----------

var streamPatterns = []string{"no-zero", "zero-first", "zero-middle", "zero-last", "all-zero", "mixed", "specials-only"}

func pickSpecial(r *rng, elem string) int {
	sp := elemSpecials(elem)
	if len(sp) == 1 || r.chance(1, 2) {
		return 0
	}
	return sp[r.intn(len(sp))]
}

// genStream draws a stream of n codes for the element type: ordinary values are distinct (10, 11, ...),
// zero / special values sit where the pattern says
func genStream(r *rng, n int, elem string, pattern string) []int {
	out := make([]int, n)
	for i := range out {
		out[i] = 10 + i
	}
	if n == 0 {
		return out
	}
	switch pattern {
	case "zero-first":
		out[0] = pickSpecial(r, elem)
	case "zero-middle":
		out[n/2] = pickSpecial(r, elem)
	case "zero-last":
		out[n-1] = pickSpecial(r, elem)
	case "all-zero":
		for i := range out {
			out[i] = 0
		}
	case "mixed":
		for i := range out {
			if r.chance(1, 2) {
				out[i] = pickSpecial(r, elem)
			}
		}
	case "specials-only":
		for i := range out {
			out[i] = pickSpecial(r, elem)
		}
	}
	return out
}

// does the program add (or construct from) a zero / special value?
func progHasSpecial(p cprog) bool {
	for _, t := range p.threads {
		for _, c := range t.calls {
			if c.op == "add" && c.v < 10 {
				return true
			}
		}
		for _, v := range t.vals {
			if v < 10 {
				return true
			}
		}
	}
	return false
}

func elemName(elem string) string {
	switch elem {
	case "", "int":
		return "int"
	case "ptr":
		return "*int"
	case "slice":
		return "[]int"
	}
	return elem
}
