package main

// C04 / C05 / C06: controlled scheduler over the verif hooks of queue.go.
//
// Every goroutine that runs queue code parks at each scheduling point (the verifYield hooks);
// the scheduler waits until every live goroutine is parked (or finished), computes which of
// them may proceed without blocking inside the Go runtime (channel has room / holds a token /
// is closed, wait group is zero), draws one from the run's PRNG (or follows a forced prefix
// for the exhaustive exploration) and lets exactly that one run to its next scheduling point.
// The execution is therefore a deterministic function of (program, schedule).  The same pair
// is evaluated by coq/Conc.v (run_strict), which must be able to take every recorded step, must
// see the same set of enabled threads at every step, and must end with the same results.

import (
	"fmt"
	"os"
	"path/filepath"
	"reflect"
	"runtime"
	"sort"
	"strconv"
	"strings"
	"sync"
	"time"

	fra "github.com/craterdog/go-collection-framework/v4"
	col "github.com/craterdog/go-collection-framework/v4/collection"
)

func init() {
	generators["C04"] = genConc
	generators["C05"] = genConc
	generators["C06"] = genConc
}

// ---------- programs ----------

type ccall struct {
	op  string // add, head, close, removeall, size, empty, array, wait, done
	q   int
	v   int
	via string // array: "" = AsArray(), "iterator" = GetIterator() and a full walk (the model's CAsArray either way)
}

type cthread struct {
	kind   string // client, consumer, fork, split, join, ctor (a constructor from n initial values, then size and array)
	form   string // ctor: array, seq, module, parse
	n      int    // ctor: number of initial values
	vals   []int  // ctor: the initial values (codes, see concelem.go); len(vals) == n
	capArg int    // ctor, form modulecap: the explicit capacity passed to the module-level constructor next to the values
	calls  []ccall
	q      int   // consumer: queue; fork/split: input; join: output
	qs     []int // fork/split: outputs; join: inputs
}

type cprog struct {
	capExpr []string // optional: Coq expressions for the capacities (constructors: derived from Params.v)
	caps    []int
	wg      int
	threads []cthread // helpers first (in creation order), then clients
	family  string
	elem    string // element type of every queue of the program: int (default), string, ptr, any, slice (concelem.go)
}

func (c ccall) gallina() string {
	switch c.op {
	case "add":
		return fmt.Sprintf("CAdd %d %d", c.q, c.v)
	case "head":
		return fmt.Sprintf("CRemoveHead %d", c.q)
	case "close":
		return fmt.Sprintf("CClose %d", c.q)
	case "removeall":
		return fmt.Sprintf("CRemoveAll %d", c.q)
	case "size":
		return fmt.Sprintf("CGetSize %d", c.q)
	case "empty":
		return fmt.Sprintf("CIsEmpty %d", c.q)
	case "array":
		return fmt.Sprintf("CAsArray %d", c.q)
	case "wait":
		return "CWait"
	case "done":
		return "CDone"
	}
	panic("bad call " + c.op)
}

func natList(xs []int) string {
	s := make([]string, len(xs))
	for i, x := range xs {
		s[i] = strconv.Itoa(x)
	}
	return "[" + strings.Join(s, "; ") + "]%nat"
}

func (t cthread) gallina() string {
	switch t.kind {
	case "client":
		cs := make([]string, len(t.calls))
		for i, c := range t.calls {
			cs[i] = c.gallina()
		}
		return "client [" + strings.Join(cs, "; ") + "]"
	case "ctor":
		cs := make([]string, 0, t.n+2)
		if t.form != "modulecap" { // (with an explicit capacity the module-level constructor makes an EMPTY queue of that capacity)
			for _, v := range t.vals {
				cs = append(cs, fmt.Sprintf("CAdd 0 %d", v))
			}
		}
		cs = append(cs, "CGetSize 0", "CAsArray 0")
		return "client [" + strings.Join(cs, "; ") + "]"
	case "consumer":
		return fmt.Sprintf("consumer %d", t.q)
	case "fork":
		return fmt.Sprintf("fork_helper %d %s", t.q, natList(t.qs))
	case "split":
		return fmt.Sprintf("split_helper %d %s", t.q, natList(t.qs))
	case "join":
		return fmt.Sprintf("join_helper %s %d", natList(t.qs), t.q)
	}
	panic("bad thread " + t.kind)
}

func (t cthread) human() string {
	switch t.kind {
	case "client":
		cs := make([]string, len(t.calls))
		for i, c := range t.calls {
			if c.op == "add" {
				cs[i] = fmt.Sprintf("add(q%d,%d)", c.q, c.v)
				if c.v < 10 {
					cs[i] = fmt.Sprintf("add(q%d,%d:ZERO/SPECIAL)", c.q, c.v)
				}
			} else if c.op == "wait" || c.op == "done" {
				cs[i] = c.op
			} else if c.op == "array" && c.via == "iterator" {
				cs[i] = fmt.Sprintf("array(q%d) read through GetIterator()+walk", c.q)
			} else {
				cs[i] = fmt.Sprintf("%s(q%d)", c.op, c.q)
			}
		}
		return "client{" + strings.Join(cs, " ") + "}"
	case "ctor":
		if t.form == "modulecap" {
			return fmt.Sprintf("client{q0 := module-level Queue(capacity %d, array of %d values %s) - expected: an empty queue of that capacity, the array is ignored; size(q0) array(q0)}", t.capArg, t.n, shortCodes(t.vals))
		}
		return fmt.Sprintf("client{q0 := Queue constructor form=%s with %d initial values %s; size(q0) array(q0)}", t.form, t.n, shortCodes(t.vals))
	case "consumer":
		return fmt.Sprintf("consumer-until-closed(q%d)", t.q)
	default:
		return fmt.Sprintf("%s(q%d,%v)", t.kind, t.q, t.qs)
	}
}

// ---------- the scheduler ----------

const (
	stRunning = iota
	stParked
	stEnded
)

type sthread struct {
	tid     int
	helper  bool
	state   int
	kind    int
	q       int
	qobj    anyQueue
	grant   chan bool
	results []string
}

// what the scheduler needs from a queue of any element type
type anyQueue interface {
	GetSize() int
	GetCapacity() uint
}

type csched struct {
	mu         sync.Mutex
	cond       *sync.Cond
	threads    []*sthread
	byGoid     map[int64]*sthread
	schedGoid  int64
	aborted    bool
	queues     []anyQueue
	qindex     map[any]int
	closed     map[any]bool
	wgCount    int
	adopting   bool
	wgAtSpawn  []int // the wait-group count observed at each spawn point (hook kind 8)
	stuckMutex bool  // a queue's mutex was found locked with every goroutine parked (left locked by a panic)
}

func curGoid() int64 {
	var buf [64]byte
	n := runtime.Stack(buf[:], false)
	// "goroutine 123 [running]:"
	s := string(buf[:n])
	s = strings.TrimPrefix(s, "goroutine ")
	i := strings.IndexByte(s, ' ')
	id, _ := strconv.ParseInt(s[:i], 10, 64)
	return id
}

// hook is installed as col.VerifHook; kinds 11 (wait-group Done) and 12 (Wait) come from the group wrapper.
func (s *csched) hook(kind int, queue any) {
	goid := curGoid()
	if goid == s.schedGoid {
		if kind == 8 {
			// the set-up is about to start a helper goroutine: the wait group must already count it
			s.mu.Lock()
			s.wgAtSpawn = append(s.wgAtSpawn, s.wgCount)
			s.mu.Unlock()
		}
		return // the scheduler itself inspecting a queue, or the set-up calling Fork/Split/Join
	}
	if queue != nil && strings.Contains(fmt.Sprintf("%T", queue), "TokenLike") {
		return // the parser's token queue (its scanner goroutine runs free): not part of the schedule
	}
	s.mu.Lock()
	t := s.byGoid[goid]
	if t == nil {
		if !s.adopting {
			s.mu.Unlock()
			return // a goroutine of an earlier, abandoned case
		}
		// a helper goroutine spawned by Fork/Split/Join reaches its first scheduling point
		t = &sthread{tid: len(s.threads), helper: true, state: stRunning, grant: make(chan bool, 1)}
		s.threads = append(s.threads, t)
		s.byGoid[goid] = t
	}
	if s.aborted {
		s.mu.Unlock()
		if kind == 11 {
			return // inside a deferred Done: let the goroutine finish
		}
		runtime.Goexit()
	}
	t.kind = kind
	t.q = -1
	t.qobj = nil
	if queue != nil {
		t.qobj, _ = queue.(anyQueue)
		if qi, ok := s.qindex[queue]; ok {
			t.q = qi
		} else {
			t.q = 0 // a queue under construction (constructor programs have one queue)
		}
	}
	t.state = stParked
	s.cond.Broadcast()
	s.mu.Unlock()
	<-t.grant
	s.mu.Lock()
	aborted := s.aborted
	s.mu.Unlock()
	if aborted {
		if kind == 11 {
			return
		}
		runtime.Goexit()
	}
}

type cgroup struct{ s *csched }

func (g *cgroup) Add(delta int) {
	g.s.mu.Lock()
	g.s.wgCount += delta
	g.s.mu.Unlock()
}
func (g *cgroup) Done() {
	g.s.hook(11, nil)
	g.s.mu.Lock()
	g.s.wgCount--
	t := g.s.byGoid[curGoid()]
	if t != nil && t.helper {
		t.state = stEnded // the deferred Done is the last thing a helper goroutine does
		g.s.cond.Broadcast()
	}
	g.s.mu.Unlock()
}
func (g *cgroup) Wait() { g.s.hook(12, nil) }

// waits until every thread is parked or ended; false on timeout (a goroutine is blocked in the runtime)
func (s *csched) quiescent(timeout time.Duration) bool {
	deadline := time.Now().Add(timeout)
	s.mu.Lock()
	defer s.mu.Unlock()
	for {
		all := true
		for _, t := range s.threads {
			if t.state == stRunning {
				all = false
				break
			}
		}
		if all {
			return true
		}
		if time.Now().After(deadline) {
			return false
		}
		// cond.Wait has no timeout: poll with a helper timer
		timer := time.AfterFunc(20*time.Millisecond, func() { s.cond.Broadcast() })
		s.cond.Wait()
		timer.Stop()
	}
}

// sizeOf reads len(available_) through GetSize, which takes the queue's mutex: if a call panicked inside a
// critical section the mutex stays locked for ever, so the read is done with a time limit (-1 = blocked)
func sizeOf(q anyQueue) int {
	ch := make(chan int, 1)
	go func() { ch <- q.GetSize() }()
	select {
	case n := <-ch:
		return n
	case <-time.After(2 * time.Second):
		return -1
	}
}

func (s *csched) enabledOf(t *sthread) bool {
	switch t.kind {
	case 2:
		if s.closed[t.qobj] {
			return true
		}
		n := sizeOf(t.qobj)
		if n < 0 {
			s.stuckMutex = true
			return false
		}
		return n < int(t.qobj.GetCapacity())
	case 3:
		if s.closed[t.qobj] {
			return true
		}
		n := sizeOf(t.qobj)
		if n < 0 {
			s.stuckMutex = true
			return false
		}
		return n > 0
	case 12:
		return s.wgCount == 0
	}
	return true
}

type crun struct {
	sched    []int
	enabled  [][]int
	kinds    []int
	results  [][]string // per thread; nil for helpers
	queues   []string   // Gallina qobs per queue
	final    bool
	hung     bool
	helpers  int
	arrays   [][]int
	sizes    []int
	wgSpawn  []int
	resultsH [][]string
	snaps    map[int][][]int // per thread: the queue's contents read by the scheduler (every goroutine parked) right after each AsArray/GetIterator step of that thread
}

// runProgram executes prog on the real library; choose picks the index (into the enabled list) at each step.
// The queues carry values of the program's element type (prog.elem); the program text and the observations
// speak of values by their integer CODE (concelem.go: the zero value of the element type is code 0).
func runProgram(prog cprog, choose func(step int, enabled []int) int) crun {
	switch prog.elem {
	case "", "int":
		return runProgramT(prog, intCodec(), choose)
	case "string":
		return runProgramT(prog, stringCodec(), choose)
	case "ptr":
		return runProgramT(prog, ptrCodec(), choose)
	case "any":
		return runProgramT(prog, anyCodec(), choose)
	case "slice":
		return runProgramT(prog, sliceCodec(), choose)
	}
	panic("runProgram: unknown element type " + prog.elem)
}

func runProgramT[V any](prog cprog, cd elemCodec[V], choose func(step int, enabled []int) int) crun {
	enc, dec := cd.table(progCodes(prog))
	codesOf := func(q anyQueue) []int {
		if tq, ok := q.(col.QueueLike[V]); ok {
			arr := tq.AsArray()
			out := make([]int, len(arr))
			for i, v := range arr {
				out[i] = dec(v)
			}
			return out
		}
		return asInts(q) // a parsed Queue literal: a queue of `any` holding integers
	}
	s := &csched{byGoid: map[int64]*sthread{}, qindex: map[any]int{}}
	s.cond = sync.NewCond(&s.mu)
	s.schedGoid = curGoid()
	col.VerifHook = s.hook
	defer func() { col.VerifHook = nil }()
	group := &cgroup{s}
	class := col.Queue[V](sharedNotation)
	s.queues = make([]anyQueue, len(prog.caps))
	s.closed = map[any]bool{}
	iq := func(i int) col.QueueLike[V] { return s.queues[i].(col.QueueLike[V]) }
	var out crun
	// queues that are not created by a helper constructor
	made := make([]bool, len(prog.caps))
	for _, t := range prog.threads {
		switch t.kind {
		case "fork", "split":
			for _, o := range t.qs {
				made[o] = true
			}
		case "join":
			made[t.q] = true
		}
	}
	for _, t := range prog.threads {
		if t.kind == "ctor" {
			made[0] = true
		}
	}
	for i, c := range prog.caps {
		if !made[i] {
			s.queues[i] = class.MakeWithCapacity(uint(c))
			s.qindex[s.queues[i]] = i
		}
	}
	// helpers, in order; each is adopted when it parks at its first scheduling point
	s.adopting = true
	for _, t := range prog.threads {
		switch t.kind {
		case "fork", "split":
			var outs col.Sequential[col.QueueLike[V]]
			if t.kind == "fork" {
				outs = class.Fork(group, iq(t.q), uint(len(t.qs)))
			} else {
				outs = class.Split(group, iq(t.q), uint(len(t.qs)))
			}
			arr := outs.AsArray()
			s.mu.Lock()
			for i, o := range t.qs {
				s.queues[o] = arr[i]
				s.qindex[arr[i]] = o
			}
			s.mu.Unlock()
			out.helpers++
		case "join":
			ins := make([]col.QueueLike[V], len(t.qs))
			for i, q := range t.qs {
				ins[i] = iq(q)
			}
			list := col.List[col.QueueLike[V]](sharedNotation).MakeFromArray(ins)
			o := class.Join(group, list)
			s.mu.Lock()
			s.queues[t.q] = o
			s.qindex[o] = t.q
			s.mu.Unlock()
			out.helpers++
		default:
			continue
		}
		// wait for the new goroutine to be adopted and parked
		deadline := time.Now().Add(10 * time.Second)
		for {
			s.mu.Lock()
			n := len(s.threads)
			ok := n == out.helpers && s.threads[n-1].state == stParked
			s.mu.Unlock()
			if ok {
				break
			}
			if time.Now().After(deadline) {
				out.hung = true
				return out
			}
			time.Sleep(200 * time.Microsecond)
		}
	}
	s.mu.Lock()
	out.wgSpawn = append([]int(nil), s.wgAtSpawn...)
	s.adopting = false
	// the helper parked before its queue was entered into qindex: resolve its queue now
	for _, t := range s.threads {
		pt := prog.threads[t.tid]
		if pt.kind == "join" {
			t.q = pt.qs[0]
		} else {
			t.q = pt.q
		}
	}
	s.wgCount = prog.wg
	s.mu.Unlock()
	// clients
	for i := out.helpers; i < len(prog.threads); i++ {
		pt := prog.threads[i]
		t := &sthread{tid: i, state: stRunning, grant: make(chan bool, 1)}
		s.mu.Lock()
		s.threads = append(s.threads, t)
		s.mu.Unlock()
		go func() {
			s.mu.Lock()
			s.byGoid[curGoid()] = t
			s.mu.Unlock()
			defer func() {
				if e := recover(); e != nil {
					t.results = append(t.results, "RPanicked")
				}
				s.mu.Lock()
				t.state = stEnded
				s.cond.Broadcast()
				s.mu.Unlock()
			}()
			doCall := func(c ccall) (v V, ok bool) {
				if c.op == "wait" {
					group.Wait()
					t.results = append(t.results, "RWaited")
					return
				}
				if c.op == "done" {
					group.Done()
					t.results = append(t.results, "RDoneWg")
					return
				}
				q := iq(c.q)
				switch c.op {
				case "add":
					q.AddValue(enc(c.v))
					t.results = append(t.results, "RAdded")
				case "head":
					v, ok = q.RemoveHead()
					t.results = append(t.results, fmt.Sprintf("RHead %s %v", zlit(int64(dec(v))), ok))
				case "close":
					q.CloseQueue()
					t.results = append(t.results, "RClosed")
				case "removeall":
					q.RemoveAll()
					t.results = append(t.results, "RCleared")
				case "size":
					t.results = append(t.results, fmt.Sprintf("RSize %d", q.GetSize()))
				case "empty":
					t.results = append(t.results, fmt.Sprintf("REmpty %v", q.IsEmpty()))
				case "array":
					if c.via == "iterator" {
						// the same observation through the iterator: it must enumerate the queue as it was when it was obtained
						// (one scheduling point, kind 7, like AsArray); walked to the end, then HasNext must stay false
						it := q.GetIterator()
						var got []int
						for n := 0; it.HasNext() && n < 10000; n++ {
							got = append(got, dec(it.GetNext()))
						}
						if it.GetSize() != len(got) {
							got = append(got, -2) // the iterator's size and its walk disagree: shows as a value no model run has
						}
						t.results = append(t.results, "RArray "+zList(got))
					} else {
						t.results = append(t.results, "RArray "+zList(codesOf(q)))
					}
				}
				return
			}
			if pt.kind == "ctor" {
				vals := make([]V, pt.n)
				for i := range vals {
					vals[i] = enc(pt.vals[i])
				}
				var q anyQueue
				switch pt.form {
				case "array":
					q = class.MakeFromArray(vals)
				case "seq":
					q = class.MakeFromSequence(col.List[V](sharedNotation).MakeFromArray(vals))
				case "module":
					q = fra.Queue[V](vals)
				case "modulecap":
					if pt.capArg%2 == 0 {
						q = fra.Queue[V](pt.capArg, vals)
					} else {
						q = fra.Queue[V](vals, uint(pt.capArg))
					}
				default: // "parse": integers only (genConc never asks for it with another element type)
					items := make([]string, len(vals))
					for i := range vals {
						items[i] = strconv.Itoa(pt.vals[i])
					}
					src := "[" + strings.Join(items, ", ") + "](Queue)"
					if len(vals) == 0 {
						src = "[ ](Queue)"
					}
					q = sharedNotation.ParseSource(src).(anyQueue)
				}
				if pt.form != "modulecap" {
					for i := 0; i < pt.n; i++ {
						t.results = append(t.results, "RAdded")
					}
				}
				s.mu.Lock()
				s.queues[0] = q
				s.qindex[q] = 0
				s.mu.Unlock()
				t.results = append(t.results, fmt.Sprintf("RSize %d", q.GetSize()))
				t.results = append(t.results, "RArray "+zList(codesOf(q)))
				return
			}
			if pt.kind == "consumer" {
				for {
					_, ok := doCall(ccall{op: "head", q: pt.q})
					if !ok {
						return
					}
				}
			}
			for _, c := range pt.calls {
				doCall(c)
			}
		}()
	}
	// the schedule
	for step := 0; ; step++ {
		if !s.quiescent(4 * time.Second) {
			out.hung = true
			break
		}
		var en []int
		s.mu.Lock()
		parked := make([]*sthread, 0)
		for _, t := range s.threads {
			if t.state == stParked {
				parked = append(parked, t)
			}
		}
		s.mu.Unlock()
		for _, t := range parked {
			if s.enabledOf(t) {
				en = append(en, t.tid)
			}
		}
		if s.stuckMutex {
			out.hung = true
			break
		}
		if len(en) == 0 {
			break
		}
		k := choose(step, en)
		if k < 0 {
			break
		}
		tid := en[k]
		out.sched = append(out.sched, tid)
		out.enabled = append(out.enabled, en)
		s.mu.Lock()
		t := s.threads[tid]
		out.kinds = append(out.kinds, t.kind)
		if t.kind == 5 {
			s.closed[t.qobj] = true
		}
		t.state = stRunning
		kind7, q7 := t.kind == 7, t.qobj
		s.mu.Unlock()
		t.grant <- true
		if kind7 && q7 != nil {
			// an observer's critical section (AsArray / GetIterator) runs now; once every goroutine is parked again the
			// scheduler reads the queue itself: nothing has moved in between, so the observer must have seen exactly this
			if s.quiescent(4 * time.Second) {
				ch := make(chan []int, 1)
				go func() { ch <- codesOf(q7) }()
				select {
				case snap := <-ch:
					if out.snaps == nil {
						out.snaps = map[int][][]int{}
					}
					out.snaps[tid] = append(out.snaps[tid], append([]int{}, snap...))
				case <-time.After(2 * time.Second):
					s.stuckMutex = true
				}
			}
		}
	}
	// observations
	out.final = !out.hung
	s.mu.Lock()
	for _, t := range s.threads {
		if t.state != stEnded {
			out.final = false
		}
	}
	s.mu.Unlock()
	if !out.hung {
		for _, q := range s.queues {
			if q != nil && sizeOf(q) < 0 {
				out.hung = true
				break
			}
		}
	}
	if !out.hung {
		for _, q := range s.queues {
			if q == nil { // a constructor that never returned
				out.arrays = append(out.arrays, nil)
				out.sizes = append(out.sizes, -1)
				out.queues = append(out.queues, "{| qo_vals := []; qo_tok := 0; qo_cap := 0 |}")
				continue
			}
			arr := codesOf(q)
			out.arrays = append(out.arrays, arr)
			out.sizes = append(out.sizes, q.GetSize())
			out.queues = append(out.queues, fmt.Sprintf("{| qo_vals := %s; qo_tok := %d; qo_cap := %d |}", zList(arr), q.GetSize(), q.GetCapacity()))
		}
	}
	// release everything that is still parked
	s.mu.Lock()
	s.aborted = true
	for _, t := range s.threads {
		if t.state == stParked {
			t.state = stEnded
			select {
			case t.grant <- true:
			default:
			}
		}
	}
	out.results = make([][]string, len(s.threads))
	for i, t := range s.threads {
		if !t.helper {
			out.results[i] = append([]string(nil), t.results...)
		}
	}
	s.mu.Unlock()
	return out
}

// AsArray of a queue of ints or of `any` holding integers (a parsed Queue literal)
func asInts(q anyQueue) []int {
	rv := reflect.ValueOf(q).MethodByName("AsArray").Call(nil)[0]
	out := make([]int, rv.Len())
	for i := range out {
		e := rv.Index(i)
		if e.Kind() == reflect.Interface {
			e = e.Elem()
		}
		out[i] = int(e.Int())
	}
	return out
}

func zList(xs []int) string {
	s := make([]string, len(xs))
	for i, x := range xs {
		s[i] = zlit(int64(x))
	}
	return "[" + strings.Join(s, "; ") + "]"
}

// ---------- the property's own predicates on an observed run (oracle independent of the model) ----------

// checkRun evaluates C04's trace predicates on the observed execution; returns the list of violated ones.
func checkRun(prog cprog, run crun) []string {
	var bad []string
	if run.hung {
		return []string{"a granted step did not reach its next scheduling point within 4s, or a queue's mutex was left locked (a call panicked inside its critical section): goroutines are blocked inside the runtime although the queue's state permits them to proceed"}
	}
	for _, t := range prog.threads {
		if t.kind == "ctor" && !run.final {
			if t.form == "modulecap" {
				return []string{fmt.Sprintf("the module-level constructor Queue(capacity %d, array of %d values %s) did not return: it is blocked on the capacity of the queue it is constructing", t.capArg, t.n, codeNames(prog.elem, t.vals))}
			}
			return []string{fmt.Sprintf("the Queue constructor (form %s) with %d initial values did not return: it is blocked on its own capacity", t.form, t.n)}
		}
	}
	for i, n := range run.wgSpawn {
		if n != i+1 {
			bad = append(bad, fmt.Sprintf("when helper goroutine %d was started the caller's wait group counted %d instead of %d: group.Add must precede the go statement, otherwise group.Wait can return before the helper has run (outputs never filled nor closed)", i+1, n, i+1))
		}
	}
	// observers: what a thread read through AsArray() / GetIterator() must be what the queue held at that moment
	// (C04: only values added and not yet removed, in FIFO order; C17: an iterator enumerates the collection as it
	// was when it was obtained) - the scheduler read the queue itself right after the observer's step
	for ti, res := range run.results {
		if res == nil || ti >= len(prog.threads) || prog.threads[ti].kind != "client" {
			continue
		}
		k := 0
		for ci, r := range res {
			if ci >= len(prog.threads[ti].calls) || !strings.HasPrefix(r, "RArray ") || prog.threads[ti].calls[ci].op != "array" {
				continue
			}
			if k < len(run.snaps[ti]) {
				if want := "RArray " + zList(run.snaps[ti][k]); r != want {
					how := "AsArray()"
					if prog.threads[ti].calls[ci].via == "iterator" {
						how = "GetIterator() and a full walk"
					}
					bad = append(bad, fmt.Sprintf("observer thread %d read %s through %s while the queue held %s at that moment (read by the scheduler with every goroutine parked): a state the queue was never in", ti, strings.TrimPrefix(r, "RArray "), how, zList(run.snaps[ti][k])))
				}
			}
			k++
		}
	}
	// values are identified by their code; one code may be added several times (streams of zero values), so
	// everything below counts with multiplicity
	hasRemoveAll := false
	completed := map[int]int{} // per code: how many AddValue calls returned
	addCount := map[int]int{}  // per code: how many AddValue calls the program contains
	for _, t := range prog.threads {
		for _, c := range t.calls {
			if c.op == "removeall" {
				hasRemoveAll = true
			}
			if c.op == "add" {
				addCount[c.v]++
			}
		}
	}
	// walk the results of every client to know which call each result belongs to
	delivered := map[int]int{}
	for ti, res := range run.results {
		if res == nil {
			continue
		}
		pt := prog.threads[ti]
		ci := 0
		okFalse := false
		for _, r := range res {
			switch {
			case r == "RAdded":
				for ci < len(pt.calls) && pt.calls[ci].op != "add" {
					ci++
				}
				if ci < len(pt.calls) {
					completed[pt.calls[ci].v]++
					ci++
				}
			case strings.HasPrefix(r, "RHead "):
				f := strings.Fields(r)
				v, _ := strconv.Atoi(strings.Trim(f[1], "()"))
				if f[2] == "true" {
					delivered[v]++
					if okFalse && pt.kind == "consumer" {
						bad = append(bad, fmt.Sprintf("thread %d received %s after ok=false", ti, codeName(prog.elem, v)))
					}
				} else {
					okFalse = true
					if v != 0 {
						bad = append(bad, fmt.Sprintf("thread %d: RemoveHead returned ok=false together with %s instead of the zero value", ti, codeName(prog.elem, v)))
					}
				}
			case strings.HasPrefix(r, "RSize "):
				n, _ := strconv.Atoi(strings.Fields(r)[1])
				for ci < len(pt.calls) && pt.calls[ci].op != "size" {
					ci++
				}
				if ci < len(pt.calls) {
					if n > prog.caps[pt.calls[ci].q] {
						bad = append(bad, fmt.Sprintf("GetSize()=%d exceeds the capacity %d", n, prog.caps[pt.calls[ci].q]))
					}
					ci++
				}
			case r == "RPanicked":
				// valid on its own unless it is an AddValue on a queue that some thread closes
				closes := false
				for _, t2 := range prog.threads {
					for _, c := range t2.calls {
						if c.op == "close" {
							closes = true
						}
					}
				}
				if !closes && prog.family != "pipes" {
					bad = append(bad, fmt.Sprintf("thread %d panicked in a program without CloseQueue", ti))
				}
			}
		}
	}
	if prog.family != "pipes" {
		for v, n := range delivered {
			if addCount[v] == 0 {
				bad = append(bad, fmt.Sprintf("%s was delivered but never added", codeName(prog.elem, v)))
			} else if n > addCount[v] {
				bad = append(bad, fmt.Sprintf("%s was delivered %d times but added only %d times", codeName(prog.elem, v), n, addCount[v]))
			}
		}
		if run.final && !hasRemoveAll {
			inq := map[int]int{}
			for _, a := range run.arrays {
				for _, v := range a {
					inq[v]++
				}
			}
			for v, n := range completed {
				if delivered[v]+inq[v] < n {
					bad = append(bad, fmt.Sprintf("%s: %d AddValue calls returned but only %d were delivered and %d are still queued", codeName(prog.elem, v), n, delivered[v], inq[v]))
				}
			}
		}
	}
	for _, t := range prog.threads {
		if t.kind == "ctor" && t.form == "modulecap" {
			// no class-level constructor takes a capacity AND values; the module-level one gives the capacity precedence and
			// ignores the array: the one thing demanded of the call is that it returns (it is not filled beyond its capacity)
			if run.final && len(run.arrays) > 0 && len(run.arrays[0]) > t.capArg {
				bad = append(bad, fmt.Sprintf("module-level Queue(capacity %d, %d values) holds %d values: more than its capacity", t.capArg, t.n, len(run.arrays[0])))
			}
			continue
		}
		if t.kind == "ctor" && run.final && len(run.arrays) > 0 && fmt.Sprint(run.arrays[0]) != fmt.Sprint(append([]int{}, t.vals...)) {
			bad = append(bad, fmt.Sprintf("the Queue constructor (form %s) was given %s but the new queue holds %s", t.form, codeNames(prog.elem, t.vals), codeNames(prog.elem, run.arrays[0])))
		}
	}
	anyPanic := false
	for _, res := range run.results {
		for _, r := range res {
			if r == "RPanicked" {
				anyPanic = true // an AddValue on a closed queue leaves its value behind without a token: outside the property
			}
		}
	}
	for i, a := range run.arrays {
		if run.final && len(a) != run.sizes[i] && !hasRemoveAll && !anyPanic {
			bad = append(bad, fmt.Sprintf("queue %d at rest: GetSize()=%d but AsArray() has %d values", i, run.sizes[i], len(a)))
		}
	}
	sort.Strings(bad)
	return bad
}

// ---------- generators ----------

func genPC(r *rng, withRemoveAll bool, elem string) cprog {
	var p cprog
	p.family = "pc"
	p.elem = elem
	p.caps = []int{1 + r.intn(3)}
	np := 1 + r.intn(3)
	nc := 1 + r.intn(3)
	closer := r.chance(2, 3)
	// the values: ordinary distinct ones (10, 11, ...) and, a third of the time, the zero value or another special
	// value of the element type; one program in eight adds nothing but zero values
	nextOrdinary := 10
	allZero := r.chance(1, 8)
	draw := func() int {
		if allZero {
			return 0
		}
		if r.chance(1, 3) {
			return pickSpecial(r, elem)
		}
		nextOrdinary++
		return nextOrdinary - 1
	}
	p.wg = 0
	var total int
	for i := 0; i < np; i++ {
		var t cthread
		t.kind = "client"
		n := 1 + r.intn(3)
		for j := 0; j < n; j++ {
			t.calls = append(t.calls, ccall{op: "add", q: 0, v: draw()})
			total++
			if r.chance(1, 8) {
				t.calls = append(t.calls, ccall{op: "size", q: 0})
			}
		}
		if closer {
			t.calls = append(t.calls, ccall{op: "done"})
			p.wg++
		}
		p.threads = append(p.threads, t)
	}
	if closer {
		p.threads = append(p.threads, cthread{kind: "client", calls: []ccall{{op: "wait"}, {op: "close", q: 0}}})
	}
	for i := 0; i < nc; i++ {
		if closer && r.chance(3, 4) {
			p.threads = append(p.threads, cthread{kind: "consumer", q: 0})
		} else {
			var t cthread
			t.kind = "client"
			n := 1 + r.intn(3)
			for j := 0; j < n; j++ {
				t.calls = append(t.calls, ccall{op: "head", q: 0})
			}
			p.threads = append(p.threads, t)
		}
	}
	if r.chance(1, 2) {
		var t cthread
		t.kind = "client"
		n := 1 + r.intn(4)
		for j := 0; j < n; j++ {
			c := ccall{op: []string{"size", "array", "empty", "array"}[r.intn(4)], q: 0}
			if c.op == "array" && r.chance(1, 2) {
				c.via = "iterator"
			}
			t.calls = append(t.calls, c)
		}
		p.threads = append(p.threads, t)
	}
	if withRemoveAll {
		var t cthread
		t.kind = "client"
		t.calls = append(t.calls, ccall{op: "removeall", q: 0})
		if r.chance(1, 3) {
			t.calls = append(t.calls, ccall{op: "add", q: 0, v: draw()}, ccall{op: "size", q: 0})
		}
		p.threads = append(p.threads, t)
	}
	if !closer && r.chance(1, 6) {
		// an AddValue racing with a CloseQueue (the AddValue may panic: not valid on its own)
		p.threads = append(p.threads, cthread{kind: "client", calls: []ccall{{op: "close", q: 0}}})
	}
	return p
}

func genPipes(r *rng, shape int, stream []int, fan, capacity int, elem string) cprog {
	var p cprog
	p.family = "pipes"
	p.elem = elem
	// queue 0 = input
	p.caps = []int{capacity}
	outs := make([]int, fan)
	for i := range outs {
		outs[i] = i + 1
		p.caps = append(p.caps, capacity)
	}
	var readers []int
	switch shape {
	case 0:
		p.threads = append(p.threads, cthread{kind: "fork", q: 0, qs: outs})
		readers = outs
		p.wg = 1
	case 1:
		p.threads = append(p.threads, cthread{kind: "split", q: 0, qs: outs})
		readers = outs
		p.wg = 1
	default:
		p.threads = append(p.threads, cthread{kind: "split", q: 0, qs: outs})
		j := fan + 1
		p.caps = append(p.caps, capacity)
		p.threads = append(p.threads, cthread{kind: "join", q: j, qs: outs})
		readers = []int{j}
		p.wg = 2
	}
	var feeder cthread
	feeder.kind = "client"
	for _, v := range stream {
		feeder.calls = append(feeder.calls, ccall{op: "add", q: 0, v: v})
	}
	feeder.calls = append(feeder.calls, ccall{op: "close", q: 0})
	p.threads = append(p.threads, feeder)
	for _, q := range readers {
		p.threads = append(p.threads, cthread{kind: "consumer", q: q})
	}
	p.threads = append(p.threads, cthread{kind: "client", calls: []ccall{{op: "wait"}}})
	_ = r
	return p
}

// expected streams of the pipes family, computed independently of the model (C06's own statement)
func checkPipes(prog cprog, run crun, shape int, length, fan int) []string {
	var bad []string
	// the stream is what the feeder (the only client that adds) puts into queue 0
	var input []int
	for _, t := range prog.threads {
		for _, c := range t.calls {
			if c.op == "add" {
				input = append(input, c.v)
			}
		}
	}
	if !run.final {
		bad = append(bad, fmt.Sprintf("the pipeline fed with %s did not terminate: some goroutine never finished although no step was enabled", codeNames(prog.elem, input)))
		for ti, t := range prog.threads {
			if t.kind == "consumer" && run.results[ti] != nil {
				bad = append(bad, fmt.Sprintf("  (reader of q%d so far: %s)", t.q, strings.Join(run.results[ti], ", ")))
			}
		}
		return bad
	}
	ri := 0
	for ti, t := range prog.threads {
		if t.kind != "consumer" {
			continue
		}
		var got []int
		okFalse := 0
		for _, r := range run.results[ti] {
			f := strings.Fields(r)
			if f[0] == "RHead" {
				if f[2] == "true" {
					v, _ := strconv.Atoi(strings.Trim(f[1], "()"))
					got = append(got, v)
					if okFalse > 0 {
						bad = append(bad, fmt.Sprintf("reader of q%d received a value after ok=false", t.q))
					}
				} else {
					okFalse++
				}
			}
		}
		var want []int
		switch shape {
		case 0, 2:
			want = input
		case 1:
			for i, v := range input {
				if i%fan == ri {
					want = append(want, v)
				}
			}
		}
		if fmt.Sprint(got) != fmt.Sprint(append([]int{}, want...)) && !(len(got) == 0 && len(want) == 0) {
			bad = append(bad, fmt.Sprintf("reader of q%d received %s, expected %s (element type %s)", t.q, codeNames(prog.elem, got), codeNames(prog.elem, want), elemName(prog.elem)))
		}
		if okFalse != 1 {
			bad = append(bad, fmt.Sprintf("reader of q%d saw ok=false %d times", t.q, okFalse))
		}
		ri++
	}
	return bad
}

type concCase struct {
	prog   cprog
	run    crun
	bad    []string
	shape  int
	length int
	fan    int
}

func (c concCase) gallina() string {
	ths := make([]string, len(c.prog.threads))
	for i, t := range c.prog.threads {
		ths[i] = t.gallina()
	}
	res := make([]string, len(c.run.results))
	for i, r := range c.run.results {
		if r == nil {
			res[i] = "None"
		} else {
			res[i] = "Some [" + strings.Join(r, "; ") + "]"
		}
	}
	en := make([]string, len(c.run.enabled))
	for i, e := range c.run.enabled {
		en[i] = natList(e)
	}
	qs := c.run.queues
	hung := "false"
	if c.run.hung {
		hung = "true"
	}
	fin := "false"
	if c.run.final {
		fin = "true"
	}
	caps := natList(c.prog.caps)
	if c.prog.capExpr != nil {
		caps = "[" + strings.Join(c.prog.capExpr, "; ") + "]"
	}
	return fmt.Sprintf("{| k_caps := %s; k_wg := %d; k_threads := [%s];\n   k_sched := %s;\n   k_enabled := [%s];\n   k_results := [%s];\n   k_queues := [%s]; k_final := %s; k_hung := %s |}",
		caps, c.prog.wg, strings.Join(ths, "; "), natList(c.run.sched), strings.Join(en, "; "), strings.Join(res, "; "), strings.Join(qs, "; "), fin, hung)
}

func (c concCase) human() []string {
	var h []string
	ths := make([]string, len(c.prog.threads))
	for i, t := range c.prog.threads {
		ths[i] = fmt.Sprintf("t%d=%s", i, t.human())
	}
	h = append(h, fmt.Sprintf("element type %s; values are written as codes: %s", elemName(c.prog.elem), codeNames(c.prog.elem, progCodes(c.prog))))
	h = append(h, fmt.Sprintf("caps=%v wg=%d %s", c.prog.caps, c.prog.wg, strings.Join(ths, " ")))
	h = append(h, fmt.Sprintf("schedule=%v", c.run.sched))
	for i, r := range c.run.results {
		if r != nil {
			h = append(h, fmt.Sprintf("t%d results: %s", i, strings.Join(r, ", ")))
		}
	}
	h = append(h, fmt.Sprintf("final=%v hung=%v queues at rest: %v sizes %v", c.run.final, c.run.hung, c.run.arrays, c.run.sizes))
	if len(c.bad) > 0 {
		h = append(h, "PROPERTY PREDICATES VIOLATED ON THE IMPLEMENTATION: "+strings.Join(c.bad, "; "))
	}
	return h
}

func runCase(prog cprog, r *rng, shape, length, fan int) concCase {
	run := runProgram(prog, func(step int, en []int) int {
		if step > 4000 {
			return -1
		}
		return r.intn(len(en))
	})
	c := concCase{prog: prog, run: run, shape: shape, length: length, fan: fan}
	c.bad = checkRun(prog, run)
	if prog.family == "pipes" && !run.hung {
		c.bad = append(c.bad, checkPipes(prog, run, shape, length, fan)...)
	}
	return c
}

// exhaustive exploration of all schedules of one program on the real code (stateless DFS)
func exploreAll(prog cprog, limit int, shape, length, fan int, emit func(concCase)) (int, bool) {
	var prefix []int // index choices
	count := 0
	for {
		var widths []int
		run := runProgram(prog, func(step int, en []int) int {
			widths = append(widths, len(en))
			if step < len(prefix) {
				return prefix[step]
			}
			return 0
		})
		c := concCase{prog: prog, run: run, shape: shape, length: length, fan: fan}
		c.bad = checkRun(prog, run)
		if prog.family == "pipes" && !run.hung {
			c.bad = append(c.bad, checkPipes(prog, run, shape, length, fan)...)
		}
		emit(c)
		count++
		if count >= limit {
			return count, false
		}
		// next prefix: rightmost position that can be incremented
		full := make([]int, len(widths))
		copy(full, prefix)
		i := len(widths) - 1
		for ; i >= 0; i-- {
			if full[i]+1 < widths[i] {
				break
			}
		}
		if i < 0 {
			return count, true
		}
		prefix = append(full[:i], full[i]+1)
	}
}

func genConc(prop string, seed uint64, tier, outDir string, count int) error {
	r := newRng(seed ^ hashString(prop))
	meta := genMeta{Property: prop, Seed: seed, Tier: tier, OpHist: map[string]int{}, OutHist: map[string]int{}, TypeHist: map[string]int{}, LenHist: map[string]int{}, Extra: map[string]any{}}
	if count == 0 {
		count = 300
	}
	var cases []concCase
	add := func(c concCase) {
		cases = append(cases, c)
	}
	exhaustivePrograms := 0
	exhaustiveComplete := 0
	hungCases := 0
	for i := 0; i < count; i++ {
		if hungCases >= 4 {
			meta.Extra["stopped_early"] = fmt.Sprintf("after %d cases: 4 executions blocked inside the runtime, further cases would only repeat the time-outs", i)
			break
		}
		var prog cprog
		shape, length, fan := -1, 0, 0
		// every element type in turn, so that each (family, element type) pair gets its share of the cases
		switch prop {
		case "C04":
			prog = genPC(r, i%4 == 3, concElems[(i/4)%len(concElems)])
		case "C05":
			if i%5 == 4 {
				// constructors from N initial values, N across 0 .. 4*capacity
				n := []int{0, 1, 2, 15, 16, 17, 18, 31, 32, 33, 48, 63, 64, 65}[r.intn(14)]
				if r.chance(1, 3) {
					n = r.intn(66)
				}
				elem := concElems[(i/5)%len(concElems)]
				forms := []string{"array", "seq", "module", "parse"}
				if elem != "int" {
					forms = forms[:3] // the parsed literal is a queue of integers
				}
				form := forms[r.intn(len(forms))]
				if form == "module" && n == 0 {
					form = "array" // the module-level form with no data is C20's matter
				}
				capArg := 0
				if r.chance(1, 4) {
					// the module-level constructor given BOTH a capacity and an array, capacities around the number of values
					form = "modulecap"
					capArg = []int{1, 2, 3, 16, 17}[r.intn(5)]
					n = []int{0, capArg - 1, capArg, capArg + 1, capArg + 3, 2 * capArg}[r.intn(6)]
				}
				vals := genStream(r, n, elem, streamPatterns[r.intn(len(streamPatterns))])
				if form == "parse" {
					for k := range vals {
						vals[k] = 10 + k // the literal's items are written as the integers themselves
					}
				}
				prog = cprog{family: "ctor", elem: elem, caps: []int{0}, capExpr: []string{fmt.Sprintf("Z.to_nat (Z.max Params.queue_default_capacity %d)", n)}}
				if form == "modulecap" {
					prog.caps, prog.capExpr = []int{capArg}, nil
				}
				prog.threads = []cthread{{kind: "ctor", form: form, n: n, vals: vals, capArg: capArg}}
			} else {
				prog = genPC(r, i%2 == 1, concElems[(i/2)%len(concElems)])
			}
		case "C06":
			shape = i % 3
			elem := concElems[(i/3)%len(concElems)]
			pattern := streamPatterns[(i/15)%len(streamPatterns)]
			length = r.intn(7)
			if pattern != "no-zero" && length == 0 && r.chance(3, 4) {
				length = 1 + r.intn(6)
			}
			fan = 2 + r.intn(2)
			prog = genPipes(r, shape, genStream(r, length, elem, pattern), fan, 1+r.intn(2), elem)
			meta.OpHist["stream:"+pattern]++
		}
		meta.OpHist["elem:"+elemName(prog.elem)]++
		if progHasSpecial(prog) {
			meta.OpHist["programs with a zero/special value"]++
		}
		c := runCase(prog, r.fork(), shape, length, fan)
		if c.run.hung {
			hungCases++
		}
		add(c)
	}
	if tier == "thorough" {
		// all schedules of small programs of the property's quantifier, on the real code
		var progs []struct {
			p                  cprog
			shape, length, fan int
		}
		switch prop {
		case "C04", "C05":
			for capn := 1; capn <= 2; capn++ {
				p := cprog{family: "pc", caps: []int{capn}, wg: 2}
				p.threads = []cthread{
					{kind: "client", calls: []ccall{{op: "add", q: 0, v: 10}, {op: "done"}}},
					{kind: "client", calls: []ccall{{op: "add", q: 0, v: 11}, {op: "done"}}},
					{kind: "client", calls: []ccall{{op: "wait"}, {op: "close", q: 0}}},
					{kind: "consumer", q: 0},
				}
				progs = append(progs, struct {
					p                  cprog
					shape, length, fan int
				}{p, -1, 0, 0})
				p2 := cprog{family: "pc", caps: []int{capn}, wg: 0}
				p2.threads = []cthread{
					{kind: "client", calls: []ccall{{op: "add", q: 0, v: 10}, {op: "add", q: 0, v: 11}}},
					{kind: "client", calls: []ccall{{op: "head", q: 0}}},
					{kind: "client", calls: []ccall{{op: "removeall", q: 0}, {op: "size", q: 0}}},
				}
				progs = append(progs, struct {
					p                  cprog
					shape, length, fan int
				}{p2, -1, 0, 0})
			}
			// one program per element type with the zero value in the stream (capacity 1: a producer adds the zero value,
			// another an ordinary one; closer behind the wait group; a read-until-closed consumer)
			for _, elem := range concElems {
				p := cprog{family: "pc", elem: elem, caps: []int{1}, wg: 2}
				p.threads = []cthread{
					{kind: "client", calls: []ccall{{op: "add", q: 0, v: 0}, {op: "done"}}},
					{kind: "client", calls: []ccall{{op: "add", q: 0, v: 10}, {op: "done"}}},
					{kind: "client", calls: []ccall{{op: "wait"}, {op: "close", q: 0}}},
					{kind: "consumer", q: 0},
				}
				progs = append(progs, struct {
					p                  cprog
					shape, length, fan int
				}{p, -1, 0, 0})
			}
		case "C06":
			for shape := 0; shape < 3; shape++ {
				for length := 0; length <= 2; length++ {
					progs = append(progs, struct {
						p                  cprog
						shape, length, fan int
					}{genPipes(r, shape, genStream(r, length, "int", "no-zero"), 2, 1, "int"), shape, length, 2})
				}
			}
			// one program per element type with the zero value in the stream: Split(2) followed by Join, stream [x, zero]
			// (plus, for the types that have one, a second special value first)
			for _, elem := range concElems {
				stream := []int{10, 0}
				progs = append(progs, struct {
					p                  cprog
					shape, length, fan int
				}{genPipes(r, 2, stream, 2, 1, elem), 2, 2, 2})
				if sp := elemSpecials(elem); len(sp) > 1 {
					progs = append(progs, struct {
						p                  cprog
						shape, length, fan int
					}{genPipes(r, 0, []int{sp[1], 0}, 2, 1, elem), 0, 2, 2})
				}
			}
		}
		for _, pp := range progs {
			n, complete := exploreAll(pp.p, 4000, pp.shape, pp.length, pp.fan, add)
			exhaustivePrograms++
			if complete {
				exhaustiveComplete++
			}
			_ = n
		}
		meta.Extra["exhaustive_programs"] = exhaustivePrograms
		meta.Extra["exhaustive_programs_fully_enumerated"] = exhaustiveComplete
	}
	seen := map[string]bool{}
	predViol := 0
	for _, c := range cases {
		h := c.human()
		meta.Traces = append(meta.Traces, h)
		meta.Steps += len(c.run.sched)
		key := strings.Join(h, "|")
		if len(c.run.sched) >= 4 && !seen[key] {
			seen[key] = true
			meta.Distinct++
		}
		for _, k := range c.run.kinds {
			meta.OpHist[fmt.Sprintf("kind%02d", k)]++
		}
		meta.LenHist[fmt.Sprintf("%03d-%03d", len(c.run.sched)/20*20, len(c.run.sched)/20*20+19)]++
		meta.TypeHist[fmt.Sprintf("%s threads=%d", c.prog.family, len(c.prog.threads))]++
		switch {
		case c.run.hung:
			meta.OutHist["hung"]++
			meta.Hangs++
		case c.run.final:
			meta.OutHist["all goroutines finished"]++
		default:
			meta.OutHist["stopped with blocked goroutines"]++
		}
		if len(c.bad) > 0 {
			predViol++
		}
	}
	meta.Extra["cases_violating_the_property_predicates_on_the_implementation"] = predViol
	meta.Cases = len(cases)
	meta.Rule = "the queues of a case carry one of the element types int, string, *int, any, []int (each in turn); values are written as integer codes (0 = the zero value of the type: 0, \"\", nil pointer, nil interface, nil slice; 1..9 further special values: pointer to 0, any(\"\"), any(0), any((*int)(nil)), any([]int(nil)), any(false), empty non-nil slice; >= 10 ordinary distinct values); about a third of the added values are zero/special, one program in eight adds only zero values; C06 streams follow the patterns no-zero / zero-first / zero-middle / zero-last / all-zero / mixed / specials-only in turn; each case is a client program (C04/C05: 1-3 producers adding 1-3 values, 1-3 consumers (fixed number of RemoveHead or read-until-closed), capacity 1-3, optional closer behind the wait group, observers (GetSize, IsEmpty, and the contents read through AsArray() or through GetIterator() and a full walk - the model's CAsArray either way), optional RemoveAll caller; C05 constructors: class-level MakeFromArray / MakeFromSequence, the module-level Queue(values), a parsed literal, and - a quarter of them - the module-level Queue(capacity, values) with 0 .. 2*capacity values, which must return (an empty queue of that capacity on the pinned tree), occasionally a CloseQueue racing with AddValue; C06: Fork/Split/Split+Join with stream length 0-6, fan-out 2-3, capacity 1-2, feeder, one reader per output, a waiter) together with the schedule the controlled scheduler drew for it on the real code (thorough: additionally every schedule of a few small programs, up to 4000 each); distinct = the (program, schedule, results) text differs; non-trivial = at least 4 granted steps"
	for i := 0; i < 3 && i < len(cases); i++ {
		meta.Samples = append(meta.Samples, meta.Traces[i*len(cases)/3])
	}
	meta.Explain = "Definition Report := Eval vm_compute in case_report (nth {case} cases dummy_case).\nPrint Report.\n"
	shardSize := 150
	for s := 0; s*shardSize < len(cases); s++ {
		lo, hi := s*shardSize, (s+1)*shardSize
		if hi > len(cases) {
			hi = len(cases)
		}
		name := fmt.Sprintf("cases_%03d.v", s)
		var sb strings.Builder
		sb.WriteString("From Verif Require Import Base Conc ConcRun.\nOpen Scope Z_scope.\nDefinition cases : list ccase := [\n")
		for i := lo; i < hi; i++ {
			if i > lo {
				sb.WriteString(";\n")
			}
			sb.WriteString(cases[i].gallina())
		}
		sb.WriteString("].\nDefinition M := Eval vm_compute in kmismatches cases.\nPrint M.\n")
		if err := os.WriteFile(filepath.Join(outDir, name), []byte(sb.String()), 0o644); err != nil {
			return err
		}
		meta.Shards = append(meta.Shards, name)
		meta.ShardSizes = append(meta.ShardSizes, hi-lo)
	}
	// the implementation-side predicate failures are handed to the driver as well
	var pv []map[string]any
	for i, c := range cases {
		if len(c.bad) > 0 {
			pv = append(pv, map[string]any{"case": i, "violated": c.bad})
		}
	}
	meta.Extra["predicate_violations"] = pv
	return writeMeta(outDir, &meta)
}
