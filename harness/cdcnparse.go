package main

// C11 / C12: CDCN scanner + parser.  Generators of source texts (derivations of
// Syntax.cdsn, literal-level edge cases, mutations of valid documents, arbitrary
// runes/bytes), observation of the real Scanner().Make token stream and of ParseSource
// (value / located diagnostic / runtime error / other panic / hang), of scanner
// goroutines left behind, and of repeated parses under perturbed schedules; cases for
// coq/ParseRun.v.

import (
	"fmt"
	"math"
	"math/cmplx"
	"os"
	"path/filepath"
	"regexp"
	"runtime"
	"strconv"
	"strings"
	"sync/atomic"
	"time"

	cdc "github.com/craterdog/go-collection-framework/v4/cdcn"
	col "github.com/craterdog/go-collection-framework/v4/collection"
)

func init() {
	generators["C11"] = genCdcnParse
	generators["C12"] = genCdcnParse
}

// ---------- observation ----------

var tokCoqNames = map[cdc.TokenType]string{
	cdc.ErrorToken: "TError", cdc.BooleanToken: "TBoolean", cdc.ComplexToken: "TComplex", cdc.DelimiterToken: "TDelimiter",
	cdc.EOFToken: "TEOF", cdc.EOLToken: "TEOL", cdc.FloatToken: "TFloat", cdc.HexadecimalToken: "THexadecimal",
	cdc.IntegerToken: "TInteger", cdc.NilToken: "TNil", cdc.RuneToken: "TRune", cdc.SpaceToken: "TSpace",
	cdc.StringToken: "TString", cdc.TypeToken: "TType",
}

// the names FormatToken prints in a diagnostic
var diagCoqNames = map[string]string{
	"error": "TError", "boolean": "TBoolean", "complex": "TComplex", "delimiter": "TDelimiter", "EOF": "TEOF", "EOL": "TEOL",
	"float": "TFloat", "hexadecimal": "THexadecimal", "integer": "TInteger", "nil": "TNil", "rune": "TRune", "space": "TSpace",
	"string": "TString", "type": "TType",
}

var sharedTokenQueue col.QueueLike[cdc.TokenLike]

type obsTok struct {
	typ       cdc.TokenType
	val       string
	line, pos int
}

func encRunes(s string) string {
	rs := []rune(s)
	items := make([]string, len(rs))
	for i, c := range rs {
		items[i] = fmt.Sprintf("%d", c)
	}
	return encList(items)
}

func (t obsTok) coq() string {
	return fmt.Sprintf("mkTok %s %s %d %d", tokCoqNames[t.typ], encRunes(t.val), t.line, t.pos)
}

// scanAll runs the real scanner on src with a queue large enough for every token.
func scanAll(src string) []obsTok {
	n := len([]rune(src)) + 4
	// the same queue serves consecutive scans (it is empty again after each EOF) unless the text is too long for it
	if sharedTokenQueue == nil {
		sharedTokenQueue = col.Queue[cdc.TokenLike](sharedNotation).MakeWithCapacity(4096)
	}
	q := sharedTokenQueue
	if n > 4096 {
		q = col.Queue[cdc.TokenLike](sharedNotation).MakeWithCapacity(uint(n))
	}
	cdc.Scanner().Make(src, q)
	// The scanner must end its stream with an EOF token.  A scanner that does not (a changed library) would leave this
	// reader blocked for ever - and the Go runtime would kill the harness ("all goroutines are asleep") - so the tokens are
	// read in a goroutine of their own under a watchdog; a stream without EOF is returned as it is (the model's stream
	// ends with EOF, so the case mismatches) and the shared queue is given up.
	done := make(chan []obsTok, 1)
	go func() {
		var toks []obsTok
		for {
			t, ok := q.RemoveHead()
			if !ok {
				break
			}
			toks = append(toks, obsTok{t.GetType(), t.GetValue(), t.GetLine(), t.GetPosition()})
			if t.GetType() == cdc.EOFToken {
				break
			}
			if len(toks) > n+8 {
				break
			}
		}
		done <- toks
	}()
	select {
	case toks := <-done:
		return toks
	case <-time.After(3 * time.Second):
		if q == sharedTokenQueue {
			sharedTokenQueue = nil // the blocked reader keeps the old queue
		}
		var toks []obsTok
		// what the scanner delivered before it stopped delivering (re-scan into a private queue, read without blocking)
		pq := col.Queue[cdc.TokenLike](sharedNotation).MakeWithCapacity(uint(n))
		cdc.Scanner().Make(src, pq)
		time.Sleep(200 * time.Millisecond)
		for pq.GetSize() > 0 {
			t, _ := pq.RemoveHead()
			toks = append(toks, obsTok{t.GetType(), t.GetValue(), t.GetLine(), t.GetPosition()})
		}
		return toks
	}
}

type parseObs struct {
	kind string // value | syntax | runtime | panic | hang
	val  string // Gallina term of the value
	ty   string // Coq token type of the diagnostic
	line int
	pos  int
	code int
	msg  string
}

func (o parseObs) coq() string {
	switch o.kind {
	case "value":
		return "OValue " + o.val
	case "syntax":
		return fmt.Sprintf("OSyntax %s %d %d", o.ty, o.line, o.pos)
	case "runtime":
		return "ORuntime"
	case "panic":
		return fmt.Sprintf("OPanic %d", o.code)
	}
	return "OHang"
}

func (o parseObs) human() string {
	switch o.kind {
	case "value":
		return "value " + o.val
	case "syntax":
		return fmt.Sprintf("syntax diagnostic: token type %s line %d position %d", o.ty, o.line, o.pos)
	case "runtime":
		return "Go runtime error: " + o.msg
	case "panic":
		return fmt.Sprintf("other panic (code %d): %s", o.code, o.msg)
	}
	return "hang (no result within the watchdog time)"
}

var diagRe = regexp.MustCompile(`^An unexpected token was received by the parser: Token \[type: (\w+), line: (\d+), position: (\d+)\]`)

func classifyParsePanic(e any) parseObs {
	if re, ok := e.(runtime.Error); ok {
		return parseObs{kind: "runtime", msg: re.Error()}
	}
	s := fmt.Sprint(e)
	if m := diagRe.FindStringSubmatch(s); m != nil {
		line, _ := strconv.Atoi(m[2])
		pos, _ := strconv.Atoi(m[3])
		ty, ok := diagCoqNames[m[1]]
		if !ok {
			return parseObs{kind: "panic", code: 0, msg: "diagnostic with unknown token type " + m[1]}
		}
		return parseObs{kind: "syntax", ty: ty, line: line, pos: pos}
	}
	first := strings.SplitN(s, "\n", 2)[0]
	if len(first) > 120 {
		first = first[:120]
	}
	switch {
	case strings.Contains(s, "maximum traversal depth"):
		return parseObs{kind: "panic", code: 1, msg: first}
	case strings.Contains(s, "stack that has reached its capacity"):
		return parseObs{kind: "panic", code: 2, msg: first}
	}
	return parseObs{kind: "panic", code: 0, msg: first}
}

// observeParse calls ParseSource (of a notation or of one parser instance) under a watchdog.
func observeParse(parse func(string) any, src string, watchdog time.Duration) parseObs {
	ch := make(chan parseObs, 1)
	go func() {
		var o parseObs
		defer func() {
			if e := recover(); e != nil {
				o = classifyParsePanic(e)
			}
			ch <- o
		}()
		v := parse(src)
		o = parseObs{kind: "value"}
		func() {
			defer func() {
				if e := recover(); e != nil {
					o = parseObs{kind: "panic", code: 0, msg: "harness: the parsed value cannot be encoded: " + fmt.Sprint(e)}
				}
			}()
			o.val = encVal(v)
		}()
	}()
	select {
	case o := <-ch:
		return o
	case <-time.After(watchdog):
		return parseObs{kind: "hang"}
	}
}

// number of goroutines with a frame in scanTokens
func scannerGoroutines() int {
	size := 1 << 18
	for {
		buf := make([]byte, size)
		n := runtime.Stack(buf, true)
		if n < size {
			return strings.Count(string(buf[:n]), "(*scanner_).scanTokens(")
		}
		size *= 4
	}
}

// waits until at most `base` scanner goroutines are left; reports how many more there are
func leakedScanners(base int) int {
	var n int
	for i := 0; i < 60; i++ {
		n = scannerGoroutines()
		if n <= base {
			return 0
		}
		if i < 20 {
			runtime.Gosched()
		} else {
			time.Sleep(time.Duration(i) * 100 * time.Microsecond)
		}
	}
	return n - base
}

// ---------- schedule perturbation through the verif hooks of queue.go ----------

var hookCtr uint64
var hookSeed uint64
var hookMode int32

func perturbHook(kind int, queue any) {
	x := hookSeed + atomic.AddUint64(&hookCtr, 1)*0x9E3779B97F4A7C15
	x = (x ^ (x >> 30)) * 0xBF58476D1CE4E5B9
	x = (x ^ (x >> 27)) * 0x94D049BB133111EB
	x ^= x >> 31
	switch atomic.LoadInt32(&hookMode) {
	case 1: // frequent yields
		if x%2 == 0 {
			runtime.Gosched()
		}
	case 2: // rare short sleeps, some yields
		switch x % 16 {
		case 0:
			time.Sleep(time.Duration(1+(x>>8)%20) * time.Microsecond)
		case 1, 2, 3, 4:
			runtime.Gosched()
		}
	case 3: // bursts: yield several times in a row
		if x%4 == 0 {
			for i := uint64(0); i < 1+(x>>8)%4; i++ {
				runtime.Gosched()
			}
		}
	}
}

// parses src three more times on the same notation under different perturbations
func perturbedRuns(parse func(string) any, src string, seed uint64, first string) (stable bool, note string) {
	stable = true
	hookSeed = seed
	for mode := 1; mode <= 3; mode++ {
		atomic.StoreInt32(&hookMode, int32(mode))
		old := 0
		if mode == 2 {
			old = runtime.GOMAXPROCS(1)
		}
		col.VerifHook = perturbHook
		o := observeParse(parse, src, 5*time.Second)
		col.VerifHook = nil
		if mode == 2 {
			runtime.GOMAXPROCS(old)
		}
		if o.coq() != first {
			stable = false
			note = fmt.Sprintf("run under perturbation mode %d gave: %s", mode, o.human())
		}
	}
	return
}

// ---------- the float oracle table of a case ----------

func floatEntry(seen map[string]bool, out *[]string, text string) {
	if seen[text] {
		return
	}
	seen[text] = true
	f, err := strconv.ParseFloat(text, 64)
	if err != nil {
		*out = append(*out, fmt.Sprintf("(%s, None)", encRunes(text)))
		return
	}
	*out = append(*out, fmt.Sprintf("(%s, Some %d)", encRunes(text), math.Float64bits(f)))
}

func floatTable(toks []obsTok) string {
	seen := map[string]bool{}
	var out []string
	for _, t := range toks {
		switch t.typ {
		case cdc.FloatToken:
			floatEntry(seen, &out, t.val)
		case cdc.ComplexToken:
			m := cdc.Scanner().MatchToken(cdc.ComplexToken, t.val)
			if m.GetSize() >= 3 {
				f1, f2 := m.GetValue(2), m.GetValue(3)
				floatEntry(seen, &out, f1)
				floatEntry(seen, &out, f2)
				floatEntry(seen, &out, "-"+f2)
			}
		}
	}
	return encList(out)
}

// cmplx.Abs / cmplx.Phase of the complex literals (the collator ranks complex numbers by them)
func cxTable(toks []obsTok) string {
	seen := map[string]bool{}
	var out []string
	for _, t := range toks {
		if t.typ != cdc.ComplexToken || seen[t.val] {
			continue
		}
		seen[t.val] = true
		// the value the repaired parser gives the literal: real ± imaginary, each float with its own sign
		m := cdc.Scanner().MatchToken(cdc.ComplexToken, t.val)
		if m.GetSize() < 3 {
			continue
		}
		f1, f2 := m.GetValue(2), m.GetValue(3)
		re, err1 := strconv.ParseFloat(f1, 64)
		im, err2 := strconv.ParseFloat(f2, 64)
		if err1 != nil || err2 != nil {
			continue
		}
		if t.val[1+len(f1)] == '-' {
			im = -im
		}
		c := complex(re, im)
		n := complex(real(c)+0, imag(c)+0)
		out = append(out, fmt.Sprintf("(%s, %s, (%s, %s))", encFloatBits(real(c)), encFloatBits(imag(c)), encFloatBits(cmplx.Abs(n)), encFloatBits(cmplx.Phase(n))))
	}
	return encList(out)
}

// ---------- generators ----------

var litInts = []string{"0", "1", "-1", "+1", "7", "42", "-42", "+42", "10", "100", "1000000", "9223372036854775807", "-9223372036854775808",
	"+9223372036854775807", "9223372036854775806", "-9223372036854775807", "123456789012345678"}
var litHex = []string{"0x0", "0x1", "0xa", "0xff", "0xdeadbeef", "0xffffffffffffffff", "0x8000000000000000", "0x7fffffffffffffff", "0x00ff",
	"0x00000000000000001", "0x0123456789abcdef"}
var litFloats = []string{"0.0", "-0.0", "+0.0", "1.5", "-1.25", "+3.0", "0.1", "0.125", "123.456", "1.0e+10", "1.0E-7", "2.5E+3", "1.1E-100", "2.2E+200",
	"1.7976931348623157e+308", "5.0e-324", "4.9E-324", "1.0e-999", "0.30000000000000004", "9007199254740993.0", "1.0e+5", "1.0e+15", "1.0e+123",
	"10.01", "0.5e+1", "-2.0E-12", "100.0"}
var litComplex = []string{"(1.0--2.0i)", "(1.0++2.0i)", "(1.0-+2.0i)", "(1.0+-2.0i)", "(-1.0--0.0i)", "(+1.5e+3-+2.5E-3i)", "(1.5E-3--2.5e+30i)", "(0.0++0.0i)", "(0.0-+0.0i)",
	"(1.0e+308--1.0e+308i)", "(5.0e-324-5.0e-324i)", "(1.5+2.5i)", "(0.0+0.0i)", "(-1.5-2.5i)", "(3.0-4.0i)", "(1.0e+5-2.0E-3i)", "(+1.0+-2.0i)", "(-0.0-0.0i)", "(1.0+2.0e+10i)",
	"(0.25-0.5i)", "(1.0E-7+1.0E+7i)"}
var litRunes = []string{`'a'`, `'Z'`, `'0'`, `' '`, `'"'`, `'\''`, `'\\'`, `'\n'`, `'\t'`, `'\a'`, `'\b'`, `'\f'`, `'\r'`, `'\v'`, `'\x41'`, `'\xff'`, `'\x00'`,
	`'☺'`, `'é'`, `'\U0001f600'`, `'\U0010ffff'`, `'\u00e9'`, `'\u263a'`, `'\uffff'`, `'\u0041'`, `'☺'`, `'😀'`, `'é'`, `'['`, `','`, `'퟿'`, `''`}
var litStrings = []string{`""`, `"a"`, `"abc"`, `"Hello World!"`, `"a\"b"`, `"\\"`, `"tab\there"`, `"\x41\x42"`, `"☺"`, `"\U0001f600!"`, `"☺ é 😀"`,
	`"\xff\xfe"`, `"it's"`, `"[1, 2](List)"`, `"\101"`, `"\x4F"`, `"\a\b\f\n\r\t\v"`, `"\\\""`, `"x\\"`, `"\"\""`, `"key"`, `"none"`, `"(Array)"`, `"é\xe9"`,
	`"0123456789012345678901234567890123456789"`, `"\u00e9\u263a"`, `"a\u0041b\U0001f600\x7f"`}
var litWords = []string{"true", "false", "nil"}

// literals that the scanner accepts but that have no exact value: must be rejected
var litInexact = []string{"99999999999999999999", "-9223372036854775809", "9223372036854775808", "+9223372036854775808", "0x10000000000000000",
	"0xfffffffffffffffff", `"abc\ud800"`, `"\'"`, `'\"'`, `'\ud800'`, `'\udfff'`, `'\U00110000'`, `"\U00110000"`, `'\Uffffffff'`, "(1.0--1.0e+999i)", "(1.0e+999++2.0i)", "1.0e+999", "-1.0e+999", "(1.0e+999+1.0i)", "(1.0+1.0e+999i)", `"\q"`, `"\"`, `'\'`, `"\x4"`, `"\x4g"`, `"\u12"`, `"a\`, `"\8"`, `"\400"`, `"\12"`,
	`"abc\"`, `"\U0001f60"`}

var contextsAll = []string{"Array", "Catalog", "List", "Map", "Queue", "Set", "Stack"}
var contextsValues = []string{"Array", "List", "Queue", "Set", "Stack"}

type docGen struct {
	r        *rng
	inexact  bool // allow literals that must be rejected
	mismatch bool // allow a value list under (Catalog)/(Map)
	spacey   bool // random extra spaces between tokens
	edgy     bool // half of the literals END IN AN ESCAPE / an exponent digit / a hexadecimal digit: the class "a literal whose last character could also be read another way, directly before a delimiter and before another literal of its kind on the same line"
}

// literals that end in each escape form (strings, runes), in an exponent digit, in a hexadecimal digit
var litEdge = []string{`"\\"`, `"a\\"`, `"C:\\"`, `"\""`, `"a\""`, `"\\\""`, `"a\n"`, `"a\t"`, `"a\x5c"`, `"a\u005c"`, `"a\U0000005c"`, `"a\x22"`, `"a\u0022"`, `"'"`, `"a\\\\"`, `"\\n"`,
	`'\\'`, `'\''`, `'\n'`, `'\x5c'`, `'\u005c'`, `'\U0000005c'`, `'\x27'`, `'"'`, `'\u0027'`,
	"1.5e+10", "2.5E-3", "-1.0e+5", "0xff", "0xe", "0x1e5", "0xabcdef", "(1.0+2.0e+10i)", "(1.5e+3-2.5E-3i)"}

func (g *docGen) pickLit(pool []string) string { return pool[g.r.intn(len(pool))] }

func (g *docGen) randomDigits(n int) string {
	b := make([]byte, n)
	for i := range b {
		b[i] = byte('0' + g.r.intn(10))
	}
	if b[0] == '0' {
		b[0] = '1'
	}
	return string(b)
}

func (g *docGen) randomString() string {
	pieces := []string{"a", "b", "z", " ", "é", "☺", "😀", `\"`, `\\`, `\n`, `\t`, `\x41`, `\x80`, `\u00e9`, `\ud7ff`, `é`, `☺`, `\U0001f600`, "'", "[", "]", ":", ",", "(", ")", "0", "x", "#", "\t"}
	n := g.r.intn(8)
	var sb strings.Builder
	sb.WriteByte('"')
	for i := 0; i < n; i++ {
		sb.WriteString(pieces[g.r.intn(len(pieces))])
	}
	sb.WriteByte('"')
	return sb.String()
}

// one intrinsic literal; the pieces are kept as single tokens
func (g *docGen) intrinsic() string {
	if g.inexact && g.r.chance(1, 6) {
		return g.pickLit(litInexact)
	}
	if g.edgy && g.r.chance(1, 2) {
		return g.pickLit(litEdge)
	}
	switch g.r.intn(16) {
	case 0, 1:
		return g.pickLit(litWords)
	case 2, 3:
		if g.r.chance(1, 4) {
			s := g.randomDigits(1 + g.r.intn(18))
			if g.r.chance(1, 3) {
				s = "-" + s
			}
			return s
		}
		return g.pickLit(litInts)
	case 4:
		return g.pickLit(litHex)
	case 5, 6:
		if g.r.chance(1, 4) {
			s := g.randomDigits(1+g.r.intn(6)) + "." + fmt.Sprintf("%d", g.r.intn(1000))
			if g.r.chance(1, 2) {
				s += []string{"e+", "e-", "E+", "E-"}[g.r.intn(4)] + g.randomDigits(1+g.r.intn(3))
			}
			return s
		}
		return g.pickLit(litFloats)
	case 7:
		if g.r.chance(1, 3) {
			return "(" + g.pickLit(litFloats) + []string{"+", "-"}[g.r.intn(2)] + g.pickLit(litFloats) + "i)"
		}
		return g.pickLit(litComplex)
	case 8, 9:
		return g.pickLit(litRunes)
	case 10, 11, 12:
		if g.r.chance(1, 3) {
			return g.randomString()
		}
		return g.pickLit(litStrings)
	default:
		return g.pickLit(litInts)
	}
}

func (g *docGen) sp() string {
	if g.spacey && g.r.chance(1, 4) {
		return strings.Repeat(" ", 1+g.r.intn(3))
	}
	return ""
}

func (g *docGen) sizeChoice(depth int) int {
	switch g.r.intn(12) {
	case 0:
		return 0
	case 1, 2:
		return 1
	case 3, 4, 5:
		return 2
	case 6, 7:
		return 3
	case 8:
		return 4 + g.r.intn(4)
	case 9:
		if depth >= 2 {
			return 15 + g.r.intn(6) // around the queue capacities (16)
		}
		return 2
	default:
		return 1 + g.r.intn(3)
	}
}

// value: an intrinsic or a nested collection; pieces appended to out
func (g *docGen) value(depth, indent int, out *[]string) {
	if depth <= 0 || g.r.chance(3, 5) {
		*out = append(*out, g.intrinsic())
		return
	}
	g.collection(depth-1, indent, out)
}

func (g *docGen) collection(depth, indent int, out *[]string) {
	assoc := g.r.chance(2, 5)
	n := g.sizeChoice(depth)
	multi := n > 0 && g.r.chance(1, 2)
	add := func(s string) { *out = append(*out, s) }
	add("[")
	switch {
	case n == 0:
		if assoc {
			add(g.sp())
			add(":")
			add(g.sp())
		} else if g.r.chance(2, 3) {
			add(" ")
			if g.r.chance(1, 5) {
				add(strings.Repeat(" ", 1+g.r.intn(3))) // "[   ]": the scanner drops the whole run
			}
		}
	case multi:
		for i := 0; i < n; i++ {
			add("\n")
			if g.r.chance(1, 6) {
				add(strings.Repeat(" ", g.r.intn(10))) // any indentation, none included: spaces are not part of the grammar
			} else {
				add(strings.Repeat(" ", 4*(indent+1)))
			}
			if assoc {
				add(g.intrinsic())
				add(g.sp())
				add(":")
				add(" ")
			}
			g.value(depth, indent+1, out)
			add(g.sp())
		}
		add("\n")
		add(strings.Repeat(" ", 4*indent))
	default:
		for i := 0; i < n; i++ {
			if i > 0 {
				add(g.sp())
				add(",")
				add([]string{" ", "", "  "}[g.r.intn(3)])
			}
			if assoc {
				add(g.intrinsic())
				add(g.sp())
				add(":")
				add([]string{" ", ""}[g.r.intn(2)])
			}
			g.value(depth, indent, out)
		}
	}
	add("]")
	add(g.sp())
	add("(")
	add(g.sp())
	var ctx string
	switch {
	case assoc && n > 0:
		if g.r.chance(3, 4) {
			ctx = []string{"Catalog", "Map"}[g.r.intn(2)]
		} else {
			ctx = contextsValues[g.r.intn(len(contextsValues))] // associations used as values
		}
	case n == 0:
		ctx = contextsAll[g.r.intn(len(contextsAll))]
	default:
		ctx = contextsValues[g.r.intn(len(contextsValues))]
		if g.mismatch && g.r.chance(1, 5) {
			ctx = []string{"Catalog", "Map"}[g.r.intn(2)]
		}
	}
	add(ctx)
	add(g.sp())
	add(")")
}

// a whole document as pieces (tokens and white space)
func (g *docGen) document(depth int) []string {
	var out []string
	g.collection(depth, 0, &out)
	for k := g.r.intn(3); k > 0; k-- {
		out = append(out, g.sp())
		out = append(out, "\n")
	}
	return out
}

var mutAlphabet = []string{"[", "]", "(", ")", ":", ",", "\"", "'", "\\", " ", "\n", "\t", "0", "1", "9", "x", ".", "e", "E", "+", "-", "i", "a", "f", "n", "t", "A", "C", "L",
	"$", "#", "\x00", "\r", "é", "☺", "😀", "\xff", "\xc3", "true", "nil", "Set", "0x", "1.5", " "}

func (g *docGen) mutate(pieces []string) (string, string) {
	r := g.r
	doc := strings.Join(pieces, "")
	rs := []rune(doc)
	switch r.intn(9) {
	case 0: // prefix
		if len(rs) == 0 {
			return doc, "prefix"
		}
		return string(rs[:r.intn(len(rs))]), "prefix"
	case 1: // delete one rune
		if len(rs) == 0 {
			return doc, "delete"
		}
		k := r.intn(len(rs))
		return string(rs[:k]) + string(rs[k+1:]), "delete"
	case 2: // insert
		k := r.intn(len(rs) + 1)
		return string(rs[:k]) + mutAlphabet[r.intn(len(mutAlphabet))] + string(rs[k:]), "insert"
	case 3: // substitute
		if len(rs) == 0 {
			return doc, "substitute"
		}
		k := r.intn(len(rs))
		return string(rs[:k]) + mutAlphabet[r.intn(len(mutAlphabet))] + string(rs[k+1:]), "substitute"
	case 4: // swap two pieces
		p := append([]string{}, pieces...)
		if len(p) >= 2 {
			i, j := r.intn(len(p)), r.intn(len(p))
			p[i], p[j] = p[j], p[i]
		}
		return strings.Join(p, ""), "swap-pieces"
	case 5: // delete a piece
		p := append([]string{}, pieces...)
		if len(p) >= 1 {
			i := r.intn(len(p))
			p = append(p[:i], p[i+1:]...)
		}
		return strings.Join(p, ""), "delete-piece"
	case 6: // duplicate a piece
		p := append([]string{}, pieces...)
		if len(p) >= 1 {
			i := r.intn(len(p))
			p = append(p[:i+1], p[i:]...)
		}
		return strings.Join(p, ""), "duplicate-piece"
	case 7: // an illegal character at a piece boundary (early in long documents: many tokens after the error)
		p := append([]string{}, pieces...)
		i := r.intn(len(p) + 1)
		if r.chance(1, 2) && len(p) > 8 {
			i = r.intn(8)
		}
		bad := []string{"$", "#", "\t", "x", "bad", "@", "\x00", "\r", "\xff", "é"}[r.intn(10)]
		p = append(p[:i], append([]string{bad}, p[i:]...)...)
		return strings.Join(p, ""), "illegal-at-boundary"
	default: // replace a piece by a delimiter, literal or type name
		p := append([]string{}, pieces...)
		if len(p) >= 1 {
			i := r.intn(len(p))
			switch r.intn(4) {
			case 0:
				p[i] = mutAlphabet[r.intn(6)]
			case 1:
				p[i] = g.intrinsic()
			case 2:
				p[i] = contextsAll[r.intn(len(contextsAll))]
			default:
				p[i] = "\n"
			}
		}
		return strings.Join(p, ""), "replace-piece"
	}
}

func (g *docGen) arbitrary() string {
	n := g.r.intn(30)
	var sb strings.Builder
	for i := 0; i < n; i++ {
		if g.r.chance(1, 10) {
			sb.WriteByte(byte(g.r.intn(256)))
		} else if g.r.chance(1, 10) {
			sb.WriteRune(rune(g.r.intn(0x11000)))
		} else {
			sb.WriteString(mutAlphabet[g.r.intn(len(mutAlphabet))])
		}
	}
	return sb.String()
}

// hand-written texts for the corners of the scanner and of the push-back discipline
var coreTexts = []string{
	"", " ", "\n", "[ ](Array)", "[](List)\n", "[:](Catalog)", "[ : ](Map)\n\n", "[1](Set)", "[1, 2, 3](Stack)", "[\n    1\n    2\n](Queue)\n",
	"[\n    \"a\": 1\n    \"b\": [2, 3](List)\n](Catalog)\n", "[\"a\": 1, \"a\": 2, \"b\": 3](Catalog)", "[0.0: 1, -0.0: 2](Map)", "[0.0: 1, -0.0: 2](Catalog)",
	"[3, 1, 2, 1, 3](Set)", "[\"b\", 'a', 1, 0x1, 1.0, nil, true, (1.0+1.0i)](Set)", "[1: 2](List)", "[1: 2, 3: 4](Set)", "[1, 2](Catalog)", "[1, 2](Map)", "[[1](List)](Catalog)",
	"[,](List)", "[", "[1", "[1,", "[1,]", "[1](", "[1](List", "[1](List)x", "[1](List)[", "[1] (List)", "[1]\n(List)", "[\n](List)", "[\n\n1\n](List)", "[\n1](List)", "[\n1\n2](List)",
	"[\n1: 2\n3](Catalog)", "[\n1: 2\n3\n](Catalog)", "[\n1\n2: 3\n](List)", "[1: ](Catalog)", "[1: 2,](Catalog)", "[1: 2, 3](Catalog)", "[: 1](Catalog)", "[1:2:3](Catalog)",
	"[\n    1: [\n        2\n    ](List)\n](Catalog)", "[\n    1 [", "[\n    1 :", "[\n 1 2", "[\n 1\n 2 3\n](List)", "[\n\"k\" [\n 1\n](List)\n](List)",
	"bad[ ](Array)\n", "[bad](Array)\n", "[ ](Array)bad\n", "[ ](Bag)", "[ ](array)", "[ ](ArrayList)", "[ ](Array)(Array)", "[ ](Array))", "(Array)", "](List)", "[[[[", "]]]]",
	"0123", "00.5", "0.", ".5", "1.", "1.5e+05", "1.5e5", "1.5e+", "1.5E-1x", "+", "-", "+0", "-0", "+01", "0x", "0xg", "0X1f", "0x1F", "1e+5", "12abc", "nilx", "trueArray", "falsey", "tru",
	"(1.5e+2.5i)", "(1.5e+22.5i)", "(1.5e+2i)", "(1.5+2.5)", "(1.5+2.5i", "(1.5 + 2.5i)", "(1.5+2.5j)", "(1+2i)", "(1.0+2.0i)(List)", "[(1.0+2.0i)(List)", "((1.0+2.0i))",
	`'\'`, `'\''`, `'''`, `''`, `'ab'`, `'\x4'`, `'\xzz'`, `'\u123'`, `'\U0001f60'`, `'\q'`, "'\n'", `'a`, `'`, `'\`, `'\\`, `'\\'`, `'\"'`, `'"'`,
	`"\"`, `"\" abc"`, `"abc\"`, "\"abc\\\"\n", `"a\\"`, `"a\\\"`, `"\\\\\\\\\\\\\\\\\\\\`, `"`, `""`, `"""`, "\"a\nb\"", `"\x4"`, `"\x4g"`, `"\xZZ"`, `"\u12"`, `"\u123g"`, `"\U0001F600"`, `"\q"`, `"\0"`, `"\'"`,
	"\t", "[\t](List)", "[ ]\t(List)", "\r\n", "[1,\r\n2](List)", "\x00", "\a", "\b", "\f", "\v", "\x1b", "\x7f", "\xff", "[\xff](List)", "\"\xff\"", "'\xff'", "\xc3\x28", "\xe2\x82", "é", "[é](List)",
	"[1, 2](List)\n\n\n", "[1, 2](List)\n \n", "[1, 2](List) \n", "[1, 2](List)\n1", "[1, 2](List)\n\n[", "\n[1](List)", " [1](List)", "[  1  ,  2  ](  List  )",
	// a literal ending in an escape / an exponent digit / a hexadecimal digit, directly before "]" "," ":" and before another literal of its kind on the line
	`["\\", "x"](List)`, `["C:\\": "drive"](Catalog)`, `["a\\"](List)`, `["\\": "\\"](Map)`, `["a\"", "b"](List)`, `["a\"": "b\""](Map)`, `["\\\"", "\\"](Set)`, `["a\x5c", "b\u005c", "c"](List)`,
	`['\\', '\''](List)`, `['\\': '\''](Map)`, `['\'', '"', '\\'](Stack)`, `['\x5c','\u0027']('\\')`, `["a\\",'\\',"\\"](Queue)`,
	"[1.5e+10](List)", "[1.5e+10, 2.5E-3](List)", "[1.5e+10: 0xff](Map)", "[0xff](List)", "[0xe, 0x1e5](Array)", "[0x1e5: 1.0e+5](Catalog)", "[(1.0+2.0e+10i)](List)",
	"[\n    \"C:\\\\\": \"drive\"\n    \"D:\\\\\": '\\\\'\n](Catalog)\n",
	// accepted although Syntax.cdsn does not derive them (docs/C11.md, grammar versus real code)
	"[ 1 : 2 , 3 : 4 ] ( Map ) ", "[](List)", "[   ](List)", "[\"a\tb\"](List)", "['\t'](List)", "[\"\\101\"](List)", "[\"\\x4F\"](List)",
	"[\n    1\n\n    2\n](List)", "[\n    1\n    2\n\n](List)", "[\n    1,\n    2\n](List)", "[1,\n2](List)", "[1\n, 2](List)",
	"[99999999999999999999](List)", "[-9223372036854775809](List)", "[0x10000000000000000](List)", "[1.0e+999](List)", "[(1.0--2.0i)](List)", "[(1.0++2.0i), (1.0-+2.0i), (1.0+-2.0i), (-0.0--0.0i)](List)", "[(1.5e+3--2.5E-3i): (+1.0E+2++1.0e-2i)](Catalog)", "[\"abc\\ud800\"](List)", "['\\xff'](List)",
	"[1, 2, 3, 4, 5, 6, 7, 8, 9, 10, 11, 12, 13, 14, 15, 16, 17](Queue)", "[1, 2, 3, 4, 5, 6, 7, 8, 9, 10, 11, 12, 13, 14, 15, 16, 17, 18, 19, 20](Stack)",
	"[$, 2, 3, 4, 5, 6, 7, 8, 9, 10, 11, 12, 13, 14, 15, 16, 17](List)", "[1 2, 3, 4, 5, 6, 7, 8, 9, 10, 11, 12, 13, 14, 15, 16, 17](List)", "[1, 2](Catalog), 3, 4, 5, 6, 7, 8, 9, 10, 11, 12, 13, 14, 15, 16, 17",
	"[1, 2, 3, 4, 5, 6, 7, 8](List)$", "[1, 2, 3, 4, 5, 6, 7](List)x", "[1, 2, 3, 4, 5, 6](List), , , , , , , , , , , , , , , , ,",
}

func nested(depth int, inner string, two bool) string {
	s := inner
	for i := 0; i < depth; i++ {
		s = "[" + s + "](List)"
	}
	if two {
		return "[" + s + ", " + s + "](Set)"
	}
	return s
}

// ---------- the generator ----------

// sentences of the grammar in the hand-written reuse sequence: they must be accepted
var mustAccept = map[string]bool{"[ ](Array)": true, "[1, 2, 3](List)": true, "[\n    \"a\": 1\n](Catalog)\n": true, "[:](Map)": true,
	"[\n    1\n    2\n](Set)\n": true, "[1](Queue)": true, "[1: 2](Catalog)": true, "[0x1](Stack)": true, "[[ ](List)](List)": true, "[true](Array)\n\n": true}

type pCase struct {
	src    string
	kind   string
	toks   []obsTok
	obs    parseObs
	leak   bool
	stable bool
	note   string
}

func genCdcnParse(prop string, seed uint64, tier, outDir string, count int) error {
	if count == 0 {
		count = 400
		if tier == "thorough" {
			count = 6000
		}
	}
	r := newRng(seed ^ hashString(prop))
	meta := genMeta{Property: prop, Seed: seed, Tier: tier, OpHist: map[string]int{}, OutHist: map[string]int{}, TypeHist: map[string]int{}, LenHist: map[string]int{}}

	// the texts
	type text struct{ src, kind string }
	var texts []text
	// one parser instance, failing sources (diagnostics raised with 1, 2 and 3 tokens pushed back, an error
	// token, a kind/context mismatch, an inexact literal) each followed by valid ones
	for _, s := range []string{"[1, 2](Array) 3", "[ ](Array)", "[1, ](List)", "[1, 2, 3](List)", "[\"a\": 1](Array", "[\n    \"a\": 1\n](Catalog)\n",
		"[\n    1\n    2](List)", "[ ](Array)", "[\n 1 2", "[:](Map)", "[\n \"k\" 5 [", "[\n    1\n    2\n](Set)\n", "[1, $](List)", "[1](Queue)", "[1, 2](Catalog)",
		"[1: 2](Catalog)", "[99999999999999999999](List)", "[0x1](Stack)", "[", "[[ ](List)](List)", "[1](List)\n\n[", "[true](Array)\n\n"} {
		texts = append(texts, text{s, "core-reuse"})
	}
	for _, s := range coreTexts {
		texts = append(texts, text{s, "core"})
	}
	// deep nesting: recursion depth, and Sets whose members are nested beyond the collator's limit
	texts = append(texts, text{nested(40, "1", false), "core-nest"}, text{nested(200, "[ ](Set)", false), "core-nest"},
		text{nested(15, "1", true), "core-nest"}, text{nested(16, "1", true), "core-nest"}, text{nested(17, "1", true), "core-nest"},
		text{nested(14, "[ ](Array)", true), "core-nest"}, text{nested(15, "[ ](Array)", true), "core-nest"})
	// every prefix of one multi-line document and an illegal character at each of its token boundaries
	base := []string{"[", "\n", "    ", "\"a\"", ":", " ", "[", "1", ",", " ", "0x2", ",", " ", "3.5", "]", "(", "Set", ")", "\n", "    ", "'b'", ":", " ", "[", "\n", "        ", "true", "\n", "        ", "nil", "\n", "    ", "]", "(", "Stack", ")", "\n", "]", "(", "Catalog", ")", "\n"}
	baseDoc := strings.Join(base, "")
	for i := 0; i <= len(baseDoc); i++ {
		texts = append(texts, text{baseDoc[:i], "core-prefix"})
	}
	for i := 0; i <= len(base); i++ {
		texts = append(texts, text{strings.Join(base[:i], "") + "$" + strings.Join(base[i:], ""), "core-boundary"})
	}
	// diagnostics that name a token of every length around the 40-character truncation of Scanner.FormatToken
	// (the class: sizes around a structural constant of the diagnostics): a misplaced literal whose raw text has
	// 28 … 52 runes — plain string, string of escapes (its quoted form is much longer), string of two-byte runes
	// (more bytes than runes), integer, hexadecimal — as a second value without a comma and where a type is expected
	for n := 28; n <= 52; n++ {
		esc := "\"" + strings.Repeat("\\\"", (n-2)/2) + strings.Repeat("a", (n-2)%2) + "\""
		for _, tok := range []string{"\"" + strings.Repeat("a", n-2) + "\"", esc, "\"" + strings.Repeat("\u00e9", n-2) + "\"",
			"1" + strings.Repeat("0", n-1), "0x" + strings.Repeat("f", n-2)} {
			texts = append(texts, text{"[1 " + tok + "](List)", "core-length"})
		}
		texts = append(texts, text{"[1](" + "\"" + strings.Repeat("b", n-2) + "\"" + ")", "core-length"},
			text{"[\n    1\n    2 " + "\"" + strings.Repeat("\u4e2d", n-2) + "\"" + "\n](List)\n", "core-length"})
	}
	ncore := len(texts)
	for len(texts) < count+ncore {
		g := &docGen{r: r.fork()}
		g.spacey = g.r.chance(1, 3)
		g.edgy = g.r.chance(1, 4)
		roll := g.r.intn(100)
		validShare, inexactShare, mutShare := 25, 15, 45 // C12: mostly malformed
		if prop == "C11" {
			validShare, inexactShare, mutShare = 65, 15, 15
		}
		depth := 1 + g.r.intn(4)
		switch {
		case roll < validShare:
			texts = append(texts, text{strings.Join(g.document(depth), ""), "derivation"})
		case roll < validShare+inexactShare:
			g.inexact = true
			g.mismatch = true
			texts = append(texts, text{strings.Join(g.document(depth), ""), "derivation+inexact-literals/context-mismatch"})
		case roll < validShare+inexactShare+mutShare:
			if g.r.chance(1, 4) {
				depth = 4 // long documents: more than 16 tokens after the error point
			}
			pieces := g.document(depth)
			s, how := g.mutate(pieces)
			if g.r.chance(1, 5) {
				s, _ = (&docGen{r: g.r}).mutate([]string{s})
				how += "+2"
			}
			texts = append(texts, text{s, "mutation:" + how})
		default:
			texts = append(texts, text{g.arbitrary(), "arbitrary"})
		}
	}

	// run them
	seen := map[string]bool{}
	var cases []pCase
	hookCtr = 0
	knownLeaked := 0
	var parser cdc.ParserLike
	groupLeft := 0
	var groupHist []string
	groupRng := newRng(seed ^ 0x5eed)
	lastKind := ""
	stoppedNote := ""
	for i, t := range texts {
		if meta.Hangs >= 12 {
			// a library in which ParseSource hangs over and over: the cases so far say it; every further hang costs a
			// watchdog period, so the remaining texts are not run (the count of cases shrinks accordingly)
			stoppedNote = fmt.Sprintf("%d of %d texts run", i, len(texts))
			break
		}
		c := pCase{src: t.src, kind: t.kind}
		markCase(fmt.Sprintf("ParseSource / the scanner on the source text %q (input kind %s)", t.src, t.kind))
		c.toks = scanAll(t.src)
		baseline := knownLeaked + leakedScanners(knownLeaked) // scanner goroutines left by earlier cases (none on the repaired tree)
		// One parser instance serves a whole group of consecutive texts (failing and valid ones
		// mixed), so that state kept between calls on an instance (push-back stack, token queue,
		// flags) shows up: every call must behave like the model of its text alone.
		if t.kind == "core-reuse" {
			// the hand-written reuse sequence always runs on ONE instance
			if lastKind != "core-reuse" {
				parser = nil
			}
			groupLeft = 1
		}
		lastKind = t.kind
		if parser == nil || groupLeft == 0 {
			parser = cdc.Parser().Make()
			groupLeft = 1 + groupRng.intn(8)
			groupHist = nil
		}
		groupLeft--
		hist := strings.Join(groupHist, " ; ")
		c.obs = observeParse(parser.ParseSource, t.src, 3*time.Second)
		c.leak = leakedScanners(baseline) > 0
		c.stable = true
		if c.obs.kind != "hang" && len(c.toks) <= 600 && (prop == "C11" || i%3 == 0) {
			c.stable, c.note = perturbedRuns(parser.ParseSource, t.src, seed+uint64(i), c.obs.coq())
			if leakedScanners(baseline) > 0 {
				c.leak = true
			}
		}
		knownLeaked = baseline + leakedScanners(baseline)
		if c.obs.kind == "hang" {
			parser = nil // a goroutine may still be inside this instance
		}
		short := t.src
		if len(short) > 40 {
			short = short[:40] + "…"
		}
		groupHist = append(groupHist, fmt.Sprintf("%q→%s", short, c.obs.kind))
		cases = append(cases, c)
		meta.Steps += len(c.toks)
		meta.OpHist[strings.SplitN(t.kind, "+", 2)[0]]++
		okind := c.obs.kind
		if okind == "syntax" {
			okind = "syntax:" + c.obs.ty
		}
		meta.OutHist[okind]++
		meta.LenHist[fmt.Sprintf("tokens %03d-%03d", len(c.toks)/10*10, len(c.toks)/10*10+9)]++
		for _, tk := range c.toks {
			meta.TypeHist[tokCoqNames[tk.typ]]++
		}
		if c.obs.kind == "hang" {
			meta.Hangs++
		}
		if len(c.toks) >= 3 && !seen[t.src] {
			seen[t.src] = true
			meta.Distinct++
		}
		var tl []string
		for k, tk := range c.toks {
			if k >= 12 {
				tl = append(tl, fmt.Sprintf("… (%d tokens)", len(c.toks)))
				break
			}
			tl = append(tl, fmt.Sprintf("%s %q @%d:%d", strings.TrimPrefix(tokCoqNames[tk.typ], "T"), tk.val, tk.line, tk.pos))
		}
		meta.Traces = append(meta.Traces, []string{
			fmt.Sprintf("source (%s; call %d on one parser instance, earlier calls on it: [%s]): %q", t.kind, len(groupHist), hist, t.src),
			"observed tokens: " + strings.Join(tl, " | "),
			"observed ParseSource outcome: " + c.obs.human(),
			fmt.Sprintf("scanner goroutine left behind: %v", c.leak),
			fmt.Sprintf("same outcome under perturbed schedules: %v %s", c.stable, c.note),
		})
	}
	// the property's own predicates on the observed behaviour of the real code, per case
	var predViol []map[string]any
	knownText := nested(17, "1", true)
	knownCase := -1
	for i, c := range cases {
		if c.src == knownText && knownCase < 0 {
			knownCase = i
		}
		var bad []string
		switch c.obs.kind {
		case "runtime":
			bad = append(bad, "C12: ParseSource ended in a Go runtime error: "+c.obs.msg)
		case "hang":
			bad = append(bad, "C12: ParseSource did not return within the watchdog time")
		case "panic":
			// since fix 37 the collator's depth-limit panic inside the Set constructor (code 1) is a located
			// diagnostic too: any textual panic that names no token is a violation
			bad = append(bad, "C12: ParseSource panicked with a text that is not a located syntax diagnostic: "+c.obs.msg)
		}
		if c.kind == "core-reuse" && mustAccept[c.src] && c.obs.kind != "value" {
			bad = append(bad, "C11: a sentence of the grammar was rejected on a parser instance that had parsed other sources before: "+c.obs.human())
		}
		if c.leak {
			bad = append(bad, "C12: a scanner goroutine (frame scanTokens) was still there after ParseSource had returned or panicked")
		}
		if !c.stable {
			bad = append(bad, "C11: re-parsing the same text under a perturbed goroutine schedule gave another outcome: "+c.note)
		}
		if len(bad) > 0 {
			predViol = append(predViol, map[string]any{"case": i, "violated": bad})
		}
	}
	// the input of the repaired finding C12-set-depth-limit (fix 37) stays among the core texts (kind core-nest):
	// it must now be rejected with the diagnostic for the type token "Set", as the model says
	if knownCase >= 0 && cases[knownCase].obs.kind != "syntax" {
		predViol = append(predViol, map[string]any{"case": knownCase, "violated": []string{"C12: a (Set) whose members are nested beyond the collator's limit is not rejected with a located diagnostic: " + cases[knownCase].obs.human()}})
	}
	meta.Cases = len(cases)
	meta.Rule = "each case is one source text, parsed on a parser instance (cdcn.Parser().Make()) that serves a random group of 1..8 consecutive texts, failing and valid ones mixed, and scanned into a token queue shared by consecutive scans: hand-written corner texts, every prefix and an illegal character at every token boundary of one multi-line document, deep nests, then seeded random texts (derivations of Syntax.cdsn with every literal class and boundary literal, inline/multi-line/empty forms, all seven contexts; the same with inexact literals and value lists under Catalog/Map; one or two mutations of a derivation — prefix, delete/insert/substitute a rune, swap/delete/duplicate/replace a token, illegal character at a token boundary; arbitrary runes and bytes); a case counts as distinct and non-trivial when its text has at least 3 tokens and differs from every other text of the run"
	meta.Extra = map[string]any{"core_texts": ncore, "input_kinds": meta.OpHist, "tokens_by_type": meta.TypeHist}
	if stoppedNote != "" {
		meta.Extra["stopped_after_hangs"] = stoppedNote
	}
	if len(predViol) > 0 {
		meta.Extra["predicate_violations"] = predViol
	}
	for i := 0; i < 3 && len(cases) > 0; i++ {
		k := ncore + (i*(len(cases)-ncore))/3
		if len(cases) <= ncore { // the run was stopped inside the core texts
			k = (i * len(cases)) / 3
		}
		meta.Samples = append(meta.Samples, meta.Traces[k])
	}
	meta.Explain = "Definition the_case := nth {case} cases empty_case.\nDefinition Report := Eval vm_compute in case_report the_case.\nPrint Report.\n"
	shardSize := 100
	for s := 0; s*shardSize < len(cases); s++ {
		lo, hi := s*shardSize, (s+1)*shardSize
		if hi > len(cases) {
			hi = len(cases)
		}
		name := fmt.Sprintf("cases_%03d.v", s)
		var sb strings.Builder
		sb.WriteString("From Verif Require Import Base Value Lexer Literals Parser ParseRun.\nOpen Scope Z_scope.\nDefinition cases : list pcase := [\n")
		for k, c := range cases[lo:hi] {
			if k > 0 {
				sb.WriteString(";\n")
			}
			tl := make([]string, len(c.toks))
			for j, tk := range c.toks {
				tl[j] = tk.coq()
			}
			fmt.Fprintf(&sb, "{| pc_src := %s;\n   pc_floats := %s;\n   pc_cx := %s;\n   pc_toks := %s;\n   pc_out := %s;\n   pc_leak := %v; pc_stable := %v |}",
				encRunes(c.src), floatTable(c.toks), cxTable(c.toks), encList(tl), c.obs.coq(), c.leak, c.stable)
		}
		sb.WriteString("\n].\nDefinition M := Eval vm_compute in pmismatches cases.\nPrint M.\n")
		if err := os.WriteFile(filepath.Join(outDir, name), []byte(sb.String()), 0o644); err != nil {
			return err
		}
		meta.Shards = append(meta.Shards, name)
		meta.ShardSizes = append(meta.ShardSizes, hi-lo)
	}
	return writeMeta(outDir, &meta)
}
